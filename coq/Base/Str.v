(* Strings of the models: lists of code points (N).  A Java string may contain unpaired
   surrogates; the model does not care, a code point is just a number. *)
From Coq Require Export List NArith Bool Lia.
Export ListNotations.
Open Scope N_scope.

Definition str := list N.

Fixpoint str_eqb (a b : str) : bool :=
  match a, b with
  | [], [] => true
  | x :: a', y :: b' => N.eqb x y && str_eqb a' b'
  | _, _ => false
  end.

Lemma str_eqb_spec a b : reflect (a = b) (str_eqb a b).
Proof.
  revert b; induction a as [|x a IH]; intros [|y b]; cbn [str_eqb]; try (constructor; congruence).
  destruct (N.eqb_spec x y) as [->|Hn]; cbn [andb].
  - destruct (IH b) as [->|Hn]; constructor; congruence.
  - constructor; congruence.
Qed.

Lemma str_eqb_eq a b : str_eqb a b = true <-> a = b.
Proof. destruct (str_eqb_spec a b); split; congruence. Qed.

Lemma str_eqb_refl a : str_eqb a a = true.
Proof. apply str_eqb_eq; reflexivity. Qed.

Lemma str_eqb_neq a b : str_eqb a b = false <-> a <> b.
Proof. destruct (str_eqb_spec a b); split; congruence. Qed.

(* lexicographic order by code point: the order of JavaString / String *)
Fixpoint str_ltb (a b : str) : bool :=
  match a, b with
  | [], [] => false
  | [], _ :: _ => true
  | _ :: _, [] => false
  | x :: a', y :: b' => if N.ltb x y then true else if N.eqb x y then str_ltb a' b' else false
  end.

Fixpoint str_cmp (a b : str) : comparison :=
  match a, b with
  | [], [] => Eq
  | [], _ :: _ => Lt
  | _ :: _, [] => Gt
  | x :: a', y :: b' => match N.compare x y with Eq => str_cmp a' b' | c => c end
  end.

Lemma str_cmp_eq a b : str_cmp a b = Eq <-> a = b.
Proof.
  revert b; induction a as [|x a IH]; intros [|y b]; cbn [str_cmp]; try (split; congruence).
  destruct (N.compare_spec x y) as [->|H|H].
  - rewrite IH. split; congruence.
  - split; [discriminate|]. intros [= -> _]. lia.
  - split; [discriminate|]. intros [= -> _]. lia.
Qed.

Lemma str_cmp_antisym a b : str_cmp b a = CompOpp (str_cmp a b).
Proof.
  revert b; induction a as [|x a IH]; intros [|y b]; cbn [str_cmp]; try reflexivity.
  rewrite (N.compare_antisym x y). destruct (N.compare x y); cbn; auto.
Qed.

Lemma str_cmp_trans c a b d : str_cmp a b = c -> str_cmp b d = c -> str_cmp a d = c.
Proof.
  revert b d; induction a as [|x a IH]; intros [|y b] [|z d]; cbn [str_cmp]; try congruence.
  destruct (N.compare x y) eqn:E1; destruct (N.compare y z) eqn:E2; intros H1 H2; subst;
    try congruence;
    try apply N.compare_eq_iff in E1; try apply N.compare_eq_iff in E2; subst;
    rewrite ?N.compare_refl, ?E1, ?E2; eauto.
  - rewrite N.compare_lt_iff in E1, E2. assert (H : x < z) by lia.
    apply N.compare_lt_iff in H. rewrite H. reflexivity.
  - rewrite N.compare_gt_iff in E1, E2. assert (H : z < x) by lia.
    apply N.compare_gt_iff in H. rewrite H. reflexivity.
Qed.

(* character constants used across models *)
Definition cTAB : N := 9.   Definition cLF : N := 10.  Definition cCR : N := 13.
Definition cSP : N := 32.   Definition cHASH : N := 35. Definition cDOLLAR : N := 36.
Definition cLPAR : N := 40. Definition cRPAR : N := 41. Definition cDOT : N := 46.
Definition cSLASH : N := 47. Definition cSEMI : N := 59. Definition cLT : N := 60.
Definition cGT : N := 62.   Definition cLBRACK : N := 91. Definition cBSLASH : N := 92.
Definition cUNDER : N := 95.

Definition mem_N (x : N) (l : list N) : bool := existsb (N.eqb x) l.

Lemma mem_N_In x l : mem_N x l = true <-> In x l.
Proof.
  unfold mem_N. rewrite existsb_exists. split.
  - intros (y & Hy & E). apply N.eqb_eq in E. subst. exact Hy.
  - intros H. exists x. split; [exact H|apply N.eqb_refl].
Qed.

Fixpoint starts_with (p s : str) : bool :=
  match p, s with
  | [], _ => true
  | x :: p', y :: s' => N.eqb x y && starts_with p' s'
  | _ :: _, [] => false
  end.

Lemma starts_with_app p s : starts_with p s = true <-> exists r, s = p ++ r.
Proof.
  revert s; induction p as [|x p IH]; intros s; cbn [starts_with].
  - split; [intros _; exists s; reflexivity|auto].
  - destruct s as [|y s].
    + split; [discriminate|intros (r & Hr); discriminate].
    + rewrite andb_true_iff, N.eqb_eq, IH. split.
      * intros (-> & r & ->). exists r. reflexivity.
      * intros (r & [= -> ->]). split; [reflexivity|exists r; reflexivity].
Qed.

(* result type of fallible model functions: error messages are not modelled *)
Inductive res (A : Type) : Type := Ok (a : A) | Err.
Arguments Ok {A} a.
Arguments Err {A}.

Definition bind {A B} (r : res A) (f : A -> res B) : res B :=
  match r with Ok a => f a | Err => Err end.
Notation "'do' x <- r ; k" := (bind r (fun x => k)) (at level 200, x pattern, r at level 100, k at level 200).
