(* Generic glue for the correspondence run: the harness writes a list of cases (input together
   with what the implementation answered); [disagreements] lists the indices on which the model
   answers differently. *)
From FB Require Export Base.Str.

Fixpoint disagree_from {A} (chk : A -> bool) (l : list A) (i : N) : list N :=
  match l with
  | [] => []
  | x :: l' => if chk x then disagree_from chk l' (i + 1) else i :: disagree_from chk l' (i + 1)
  end.
Definition disagreements {A} (chk : A -> bool) (l : list A) : list N := disagree_from chk l 0.

Definition res_eqb {A} (eqb : A -> A -> bool) (a b : res A) : bool :=
  match a, b with Ok x, Ok y => eqb x y | Err, Err => true | _, _ => false end.
Definition opt_eqb {A} (eqb : A -> A -> bool) (a b : option A) : bool :=
  match a, b with Some x, Some y => eqb x y | None, None => true | _, _ => false end.
Fixpoint list_eqb {A} (eqb : A -> A -> bool) (a b : list A) : bool :=
  match a, b with
  | [], [] => true
  | x :: a', y :: b' => eqb x y && list_eqb eqb a' b'
  | _, _ => false
  end.
Definition pair_eqb {A B} (ea : A -> A -> bool) (eb : B -> B -> bool) (a b : A * B) : bool :=
  ea (fst a) (fst b) && eb (snd a) (snd b).
