(* Insertion sort over a boolean order, and the facts that make the choice of sorting
   algorithm irrelevant: the result is a sorted permutation, and a sorted permutation of a
   list is unique when the order is total, transitive and antisymmetric on its elements.
   (Rust's sort/sort_by_key are assumed to return a sorted permutation: trusted base.) *)
From Coq Require Export List Sorting.Permutation Sorting.Sorted Bool.
Export ListNotations.

Fixpoint insert {A} (leb : A -> A -> bool) (x : A) (l : list A) : list A :=
  match l with
  | [] => [x]
  | y :: l' => if leb x y then x :: l else y :: insert leb x l'
  end.

Fixpoint isort {A} (leb : A -> A -> bool) (l : list A) : list A :=
  match l with
  | [] => []
  | x :: l' => insert leb x (isort leb l')
  end.

Definition lebP {A} (leb : A -> A -> bool) (a b : A) : Prop := leb a b = true.

Lemma insert_perm {A} (leb : A -> A -> bool) x l : Permutation (insert leb x l) (x :: l).
Proof.
  induction l as [|y l IH]; cbn [insert]; [reflexivity|].
  destruct (leb x y); [reflexivity|].
  rewrite IH. apply perm_swap.
Qed.

Lemma isort_perm {A} (leb : A -> A -> bool) l : Permutation (isort leb l) l.
Proof.
  induction l as [|x l IH]; cbn [isort]; [reflexivity|].
  rewrite insert_perm. constructor. exact IH.
Qed.

Lemma isort_length {A} (leb : A -> A -> bool) l : length (isort leb l) = length l.
Proof. apply Permutation_length, isort_perm. Qed.

Lemma isort_in {A} (leb : A -> A -> bool) l x : In x (isort leb l) <-> In x l.
Proof. split; apply Permutation_in; [|symmetry]; apply isort_perm. Qed.

Definition total_on {A} (leb : A -> A -> bool) (P : A -> Prop) : Prop :=
  forall a b, P a -> P b -> leb a b = true \/ leb b a = true.
Definition trans_on {A} (leb : A -> A -> bool) (P : A -> Prop) : Prop :=
  forall a b c, P a -> P b -> P c -> leb a b = true -> leb b c = true -> leb a c = true.
Definition antisym_on {A} (leb : A -> A -> bool) (P : A -> Prop) : Prop :=
  forall a b, P a -> P b -> leb a b = true -> leb b a = true -> a = b.

Lemma insert_sorted {A} (leb : A -> A -> bool) (P : A -> Prop) x l :
  total_on leb P -> P x -> Forall P l ->
  Sorted (lebP leb) l -> Sorted (lebP leb) (insert leb x l).
Proof.
  intros Ht Px Pl Hs. induction l as [|y l IH]; cbn [insert].
  - repeat constructor.
  - inversion Pl as [|? ? Py Pl']; subst. inversion Hs as [|? ? Hs' Hhd]; subst.
    destruct (leb x y) eqn:E.
    + constructor; [exact Hs|]. constructor. exact E.
    + constructor; [apply IH; assumption|].
      assert (Hyx : leb y x = true) by (destruct (Ht x y Px Py); congruence).
      destruct l as [|z l]; cbn [insert]; [constructor; exact Hyx|].
      destruct (leb x z); constructor; [exact Hyx|].
      inversion Hhd; assumption.
Qed.

Lemma isort_sorted {A} (leb : A -> A -> bool) (P : A -> Prop) l :
  total_on leb P -> Forall P l -> Sorted (lebP leb) (isort leb l).
Proof.
  intros Ht Pl. induction Pl as [|x l Px Pl IH]; cbn [isort]; [constructor|].
  apply insert_sorted with (P := P); auto.
  rewrite Forall_forall in *. intros y Hy. apply Pl. apply isort_in in Hy. exact Hy.
Qed.

Lemma sorted_strongly {A} (leb : A -> A -> bool) (P : A -> Prop) l :
  trans_on leb P -> Forall P l -> Sorted (lebP leb) l -> StronglySorted (lebP leb) l.
Proof.
  intros Htr Pl Hs. induction l as [|x l IH]; [constructor|].
  inversion Pl as [|? ? Px Pl']; subst. inversion Hs as [|? ? Hs' Hhd]; subst.
  specialize (IH Pl' Hs'). constructor; [exact IH|].
  destruct l as [|y l]; [constructor|].
  inversion Hhd as [|? ? Hxy]; subst. inversion IH as [|? ? _ Hall]; subst.
  inversion Pl' as [|? ? Py Pl'']; subst.
  constructor; [exact Hxy|].
  rewrite Forall_forall in *. intros z Hz. apply (Htr x y z); auto. apply Hall; exact Hz.
Qed.

Lemma strongly_sorted_perm_unique {A} (leb : A -> A -> bool) (P : A -> Prop) l l' :
  antisym_on leb P -> Forall P l ->
  StronglySorted (lebP leb) l -> StronglySorted (lebP leb) l' -> Permutation l l' -> l = l'.
Proof.
  intros Has. revert l'. induction l as [|x l IH]; intros l' Pl Hs Hs' Hp.
  - apply Permutation_nil in Hp. congruence.
  - destruct l' as [|y l']; [symmetry in Hp; apply Permutation_nil in Hp; discriminate|].
    inversion Pl as [|? ? Px Pl']; subst.
    inversion Hs as [|? ? Hs1 Hall]; subst. inversion Hs' as [|? ? Hs1' Hall']; subst.
    assert (Py : P y).
    { assert (Hin : In y (x :: l)) by (eapply Permutation_in; [symmetry; exact Hp|left; reflexivity]).
      rewrite Forall_forall in Pl. apply Pl. exact Hin. }
    assert (Exy : x = y).
    { assert (Hx : In x (y :: l')) by (eapply Permutation_in; [exact Hp|left; reflexivity]).
      assert (Hy : In y (x :: l)) by (eapply Permutation_in; [symmetry; exact Hp|left; reflexivity]).
      destruct Hx as [->|Hx]; [reflexivity|]. destruct Hy as [->|Hy]; [reflexivity|].
      rewrite Forall_forall in Hall, Hall'. apply Has; auto; [apply Hall|apply Hall']; assumption. }
    subst y. f_equal. apply IH; auto. eapply Permutation_cons_inv. exact Hp.
Qed.

(* The form used by the models: two sorted permutations of the same list coincide. *)
Theorem sorted_perm_unique {A} (leb : A -> A -> bool) (P : A -> Prop) l l' :
  total_on leb P -> trans_on leb P -> antisym_on leb P -> Forall P l ->
  Permutation l l' -> isort leb l = isort leb l'.
Proof.
  intros Ht Htr Has Pl Hp.
  assert (Pl' : Forall P l').
  { rewrite Forall_forall in *. intros x Hx. apply Pl. eapply Permutation_in; [symmetry; exact Hp|exact Hx]. }
  assert (Ps : forall m, Forall P m -> Forall P (isort leb m)).
  { intros m Pm. rewrite Forall_forall in *. intros x Hx. apply Pm. apply isort_in in Hx. exact Hx. }
  apply strongly_sorted_perm_unique with (leb := leb) (P := P); auto.
  - apply sorted_strongly with (P := P); auto. apply isort_sorted with (P := P); auto.
  - apply sorted_strongly with (P := P); auto. apply isort_sorted with (P := P); auto.
  - rewrite isort_perm, isort_perm. exact Hp.
Qed.

Lemma isort_id_sorted {A} (leb : A -> A -> bool) l :
  Sorted (lebP leb) l -> isort leb l = l.
Proof.
  induction l as [|x l IH]; intros Hs; [reflexivity|].
  inversion Hs as [|? ? Hs' Hhd]; subst. cbn [isort]. rewrite IH by exact Hs'.
  destruct l as [|y l]; [reflexivity|]. cbn [insert]. inversion Hhd as [|? ? Hxy]; subst.
  unfold lebP in Hxy. rewrite Hxy. reflexivity.
Qed.
