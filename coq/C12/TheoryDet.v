(* C12 theory, part 3: the output of the writer does not depend on the insertion order of the
   IndexMaps (classes, fields, methods, parameters in any order give the same bytes), and the
   files come out sorted. *)
From FB Require Import C12.Model C12.TheoryTree C12.TheoryOrd.
From Coq Require Import Lia Permutation.

(* ---------- equality up to insertion order ---------- *)

Definition perm_rel {A} (R : A -> A -> Prop) (l l' : list A) : Prop :=
  exists l'', Permutation l l'' /\ Forall2 R l'' l'.

Definition meth_sim (a b : meth) : Prop :=
  m_desc a = m_desc b /\ m_names a = m_names b /\ m_doc a = m_doc b /\ Permutation (m_params a) (m_params b).
Definition class_sim (a b : class) : Prop :=
  c_names a = c_names b /\ c_doc a = c_doc b /\ Permutation (c_fields a) (c_fields b)
  /\ perm_rel meth_sim (c_methods a) (c_methods b).
Definition classes_sim : list class -> list class -> Prop := perm_rel class_sim.

(* keys are unique inside every map *)
Definition meth_keys_ok (m : meth) : Prop := NoDup (map p_index (m_params m)).
Definition class_keys_ok (c : class) : Prop :=
  NoDup (map fproj (c_fields c)) /\ NoDup (map mproj (c_methods c)) /\ Forall meth_keys_ok (c_methods c).
Definition keys_ok (M : list class) : Prop := keys_nodup M /\ Forall class_keys_ok M.

(* ---------- generic lemmas ---------- *)

Lemma nodup_map_factor {A B C} (h : A -> B) (g : B -> C) l : NoDup (map (fun x => g (h x)) l) -> NoDup (map h l).
Proof.
  induction l as [|a l IH]; cbn [map]; intros H; [constructor|].
  inversion H as [|? ? Ha H']; subst. constructor; [|apply IH; exact H'].
  intros Hin. apply Ha. apply in_map_iff in Hin as (x & E & Hx). apply in_map_iff. exists x. split; [|exact Hx].
  rewrite E. reflexivity.
Qed.

Lemma insert_forall2 {A} (R : A -> A -> Prop) (leb leb' : A -> A -> bool) x x' l l' :
  (forall a a' b b', R a a' -> R b b' -> leb a b = leb' a' b') ->
  R x x' -> Forall2 R l l' -> Forall2 R (insert leb x l) (insert leb' x' l').
Proof.
  intros Hc Hx Hl. induction Hl as [|y y' l l' Hy Hl IH]; cbn [insert].
  - constructor; [exact Hx|constructor].
  - rewrite (Hc x x' y y' Hx Hy). destruct (leb' x' y').
    + constructor; [exact Hx|]. constructor; assumption.
    + constructor; [exact Hy|exact IH].
Qed.

Lemma isort_forall2 {A} (R : A -> A -> Prop) (leb leb' : A -> A -> bool) l l' :
  (forall a a' b b', R a a' -> R b b' -> leb a b = leb' a' b') ->
  Forall2 R l l' -> Forall2 R (isort leb l) (isort leb' l').
Proof.
  intros Hc Hl. induction Hl as [|y y' l l' Hy Hl IH]; cbn [isort]; [constructor|].
  apply insert_forall2; assumption.
Qed.

Lemma isort_perm_rel {A K} (R : A -> A -> Prop) (cmp : K -> K -> comparison) (pr : A -> K) l l' :
  cmp_spec cmp -> NoDup (map pr l) -> (forall a a', R a a' -> pr a = pr a') ->
  perm_rel R l l' -> Forall2 R (isort (proj_leb cmp pr) l) (isort (proj_leb cmp pr) l').
Proof.
  intros Hc Hn Hpr (l'' & Hp & Hf).
  rewrite (isort_proj_perm cmp pr l l'' Hc Hn Hp).
  apply isort_forall2; [|exact Hf].
  intros a a' b b' Ha Hb. unfold proj_leb. rewrite (Hpr _ _ Ha), (Hpr _ _ Hb). reflexivity.
Qed.

Lemma forall2_filter {A} (R : A -> A -> Prop) (p p' : A -> bool) l l' :
  (forall a a', R a a' -> p a = p' a') -> Forall2 R l l' -> Forall2 R (filter p l) (filter p' l').
Proof.
  intros Hc Hl. induction Hl as [|y y' l l' Hy Hl IH]; cbn [filter]; [constructor|].
  rewrite (Hc _ _ Hy). destruct (p' y'); [constructor; assumption|exact IH].
Qed.

Lemma perm_filter {A} (p : A -> bool) l l' : Permutation l l' -> Permutation (filter p l) (filter p l').
Proof.
  induction 1 as [|x l l' _ IH|x y l|l1 l2 l3 _ IH1 _ IH2]; cbn [filter].
  - constructor.
  - destruct (p x); [constructor; exact IH|exact IH].
  - destruct (p x), (p y); try reflexivity. apply perm_swap.
  - etransitivity; eassumption.
Qed.

Lemma perm_rel_filter {A} (R : A -> A -> Prop) (p p' : A -> bool) l l' :
  (forall a a', R a a' -> p a = p' a') -> perm_rel R l l' -> perm_rel R (filter p l) (filter p' l').
Proof.
  intros Hc (l'' & Hp & Hf). exists (filter p l''). split; [apply perm_filter; exact Hp|].
  apply forall2_filter; assumption.
Qed.

Lemma forall2_flat_map {A B} (R : A -> A -> Prop) (S : B -> B -> Prop) (g g' : A -> list B) l l' :
  (forall a a', R a a' -> Forall2 S (g a) (g' a')) -> Forall2 R l l' -> Forall2 S (flat_map g l) (flat_map g' l').
Proof.
  intros Hg Hl. induction Hl as [|y y' l l' Hy Hl IH]; cbn [flat_map]; [constructor|].
  apply Forall2_app; [apply Hg; exact Hy|exact IH].
Qed.

Lemma forall2_in_l {A B} (R : A -> B -> Prop) l l' a : Forall2 R l l' -> In a l -> exists b, In b l' /\ R a b.
Proof.
  intros Hl. induction Hl as [|y y' l l' Hy Hl IH]; intros Hin; [destruct Hin|].
  destruct Hin as [->|Hin]; [exists y'; split; [left; reflexivity|exact Hy]|].
  destruct (IH Hin) as (b & Hb & Hr). exists b. split; [right; exact Hb|exact Hr].
Qed.

Lemma map_res_forall2 {A A' B} (f : A -> res B) (g : A' -> res B) l l' :
  Forall2 (fun a b => f a = g b) l l' -> map_res f l = map_res g l'.
Proof.
  intros Hl. induction Hl as [|y y' l l' Hy Hl IH]; cbn [map_res]; [reflexivity|].
  rewrite Hy, IH. reflexivity.
Qed.

Lemma forall2_impl_in {A B} (R S : A -> B -> Prop) l l' :
  (forall a b, In a l -> In b l' -> R a b -> S a b) -> Forall2 R l l' -> Forall2 S l l'.
Proof.
  intros H Hl. induction Hl as [|y y' l l' Hy Hl IH]; [constructor|].
  constructor; [apply H; [left; reflexivity|left; reflexivity|exact Hy]|].
  apply IH. intros a b Ha Hb. apply H; right; assumption.
Qed.

Lemma forall2_map {A B A' B'} (R : A' -> B' -> Prop) (f : A -> A') (g : B -> B') l l' :
  Forall2 (fun a b => R (f a) (g b)) l l' -> Forall2 R (map f l) (map g l').
Proof. induction 1; cbn [map]; constructor; auto. Qed.

Lemma forall2_eq {A} (l l' : list A) : Forall2 eq l l' -> l = l'.
Proof. induction 1; congruence. Qed.

(* ---------- one class ---------- *)

Lemma write_meth_sim d m m' : meth_keys_ok m -> meth_sim m m' -> write_meth d m = write_meth d m'.
Proof.
  intros Hk (Hd & Hn & Hdoc & Hp). unfold write_meth, meth_dst. rewrite <- Hd, <- Hn, <- Hdoc.
  rewrite param_wleb_proj.
  rewrite (isort_proj_perm _ pproj (m_params m) (m_params m') cmp_spec_in); [reflexivity| |exact Hp].
  unfold meth_keys_ok in Hk. apply (nodup_map_factor pproj fst). exact Hk.
Qed.

Lemma forallb_perm {A} (p : A -> bool) l l' : Permutation l l' -> forallb p l = forallb p l'.
Proof.
  induction 1 as [|x l l' _ IH|x y l|l1 l2 l3 _ IH1 _ IH2]; cbn [forallb].
  - reflexivity.
  - rewrite IH. reflexivity.
  - destruct (p x), (p y); reflexivity.
  - congruence.
Qed.

Lemma forallb_forall2 {A} (R : A -> A -> Prop) (p : A -> bool) l l' :
  (forall a b, R a b -> p a = p b) -> Forall2 R l l' -> forallb p l = forallb p l'.
Proof. intros Hc. induction 1 as [|a b l l' Hab _ IH]; cbn [forallb]; [reflexivity|]. rewrite (Hc _ _ Hab), IH. reflexivity. Qed.

Lemma meth_docs_writable_sim m m' : meth_sim m m' -> meth_docs_writable m = meth_docs_writable m'.
Proof. intros (_ & _ & Hdoc & Hp). unfold meth_docs_writable. rewrite Hdoc, (forallb_perm _ _ _ Hp). reflexivity. Qed.

Lemma class_docs_writable_sim c c' : class_sim c c' -> class_docs_writable c = class_docs_writable c'.
Proof.
  intros (_ & Hdoc & Hfp & (l'' & Hp & Hf2)). unfold class_docs_writable.
  rewrite Hdoc, (forallb_perm _ _ _ Hfp), (forallb_perm _ _ _ Hp), (forallb_forall2 meth_sim _ _ _ meth_docs_writable_sim Hf2).
  reflexivity.
Qed.

Lemma write_class_sim c c' d : class_keys_ok c -> class_sim c c' -> write_class c d = write_class c' d.
Proof.
  intros Hk Hsim. unfold write_class. rewrite <- (class_docs_writable_sim c c' Hsim).
  destruct (class_docs_writable c); [|reflexivity]. revert Hk Hsim.
  intros (Hf & Hm & Hmk) (Hn & Hdoc & Hfp & Hmp). unfold write_class_lines, cls_key, cls_dst. rewrite <- Hn, <- Hdoc.
  rewrite field_wleb_proj, meth_wleb_proj.
  rewrite (isort_proj_perm _ fproj (c_fields c) (c_fields c') cmp_spec_nd Hf Hfp).
  assert (Hs : Forall2 meth_sim (isort (proj_leb (pair_cmp names_cmp str_cmp) mproj) (c_methods c))
                       (isort (proj_leb (pair_cmp names_cmp str_cmp) mproj) (c_methods c'))).
  { apply isort_perm_rel; [exact cmp_spec_nd|exact Hm| |exact Hmp].
    intros a a' (E1 & E2 & _). unfold mproj. rewrite E1, E2. reflexivity. }
  rewrite (map_res_forall2 (write_meth (S d)) (write_meth (S d)) _ (isort (proj_leb (pair_cmp names_cmp str_cmp) mproj) (c_methods c'))); [reflexivity|].
  eapply forall2_impl_in; [|exact Hs]. intros a b Ha _ Hab. apply write_meth_sim; [|exact Hab].
  rewrite Forall_forall in Hmk. apply Hmk. apply isort_in in Ha. exact Ha.
Qed.

(* ---------- the set ---------- *)

Lemma class_sim_key a b : class_sim a b -> cls_key a = cls_key b.
Proof. intros (E & _). unfold cls_key. rewrite E. reflexivity. Qed.

Lemma has_key_sim M M' k : classes_sim M M' -> has_key M k = has_key M' k.
Proof.
  intros (M'' & Hp & Hf).
  assert (E1 : has_key M k = has_key M'' k).
  { destruct (has_key M k) eqn:E; symmetry.
    - apply has_key_In in E as (c & Hc & Ek). apply has_key_In. exists c. split; [|exact Ek].
      eapply Permutation_in; eauto.
    - destruct (has_key M'' k) eqn:E'; [|reflexivity]. apply has_key_In in E' as (c & Hc & Ek).
      assert (has_key M k = true); [|congruence]. apply has_key_In. exists c. split; [|exact Ek].
      eapply Permutation_in; [symmetry; exact Hp|exact Hc]. }
  rewrite E1. clear E1 Hp. induction Hf as [|y y' l l' Hy Hl IH]; [reflexivity|].
  unfold has_key in *. cbn [existsb]. rewrite IH, (class_sim_key _ _ Hy). reflexivity.
Qed.

Lemma up_sim M M' k : classes_sim M M' -> up M k = up M' k.
Proof.
  intros H. unfold up. destruct (split_inner k) as [[p i]|]; [|reflexivity].
  rewrite (has_key_sim M M' p H). reflexivity.
Qed.

Lemma nodup_map_filter {A B} (g : A -> B) (p : A -> bool) l : NoDup (map g l) -> NoDup (map g (filter p l)).
Proof.
  induction l as [|a l IH]; cbn [map filter]; intros H; [constructor|].
  inversion H as [|? ? Ha H']; subst. destruct (p a); [|apply IH; exact H'].
  cbn [map]. constructor; [|apply IH; exact H'].
  intros Hin. apply Ha. apply in_map_iff in Hin as (x & E & Hx). apply filter_In in Hx as [Hx _].
  apply in_map_iff. exists x. auto.
Qed.

Lemma kids_sim M M' c c' : keys_nodup M -> classes_sim M M' -> cls_key c = cls_key c' ->
  Forall2 class_sim (kids M c) (kids M' c').
Proof.
  intros HM Hs Ek. unfold kids. rewrite key_leb_proj. apply isort_perm_rel.
  - exact cmp_spec_str.
  - apply nodup_map_filter. exact HM.
  - exact class_sim_key.
  - apply perm_rel_filter; [|exact Hs]. intros a a' Ha. rewrite !parent_in_up.
    rewrite (class_sim_key _ _ Ha), (up_sim M M' _ Hs), Ek. reflexivity.
Qed.

Definition node_sim (a b : class * nat) : Prop := class_sim (fst a) (fst b) /\ snd a = snd b.

Lemma T_sim M M' : keys_nodup M -> classes_sim M M' -> forall f c c' d, class_sim c c' ->
  Forall2 node_sim (T f M c d) (T f M' c' d).
Proof.
  intros HM Hs. induction f as [|f IH]; intros c c' d Hc; cbn [T].
  - constructor; [split; [exact Hc|reflexivity]|constructor].
  - constructor; [split; [exact Hc|reflexivity]|].
    apply forall2_flat_map with (R := class_sim); [intros a a' Ha; apply IH; exact Ha|].
    apply kids_sim; auto. apply class_sim_key. exact Hc.
Qed.

Lemma classes_sim_in M M' c : classes_sim M M' -> In c M -> exists c', In c' M' /\ class_sim c c'.
Proof.
  intros (M'' & Hp & Hf) Hc. eapply forall2_in_l; [exact Hf|]. eapply Permutation_in; eauto.
Qed.

Lemma classes_sim_keys M M' : classes_sim M M' -> Permutation (map cls_key M) (map cls_key M').
Proof.
  intros (M'' & Hp & Hf). etransitivity; [apply Permutation_map; exact Hp|].
  clear Hp. induction Hf as [|y y' l l' Hy Hl IH]; cbn [map]; [constructor|].
  rewrite (class_sim_key _ _ Hy). constructor. exact IH.
Qed.

Lemma keys_nodup_sim M M' : classes_sim M M' -> keys_nodup M -> keys_nodup M'.
Proof. intros Hs HM. unfold keys_nodup. eapply Permutation_NoDup; [apply classes_sim_keys; exact Hs|exact HM]. Qed.

Lemma write_tree_sim M M' r r' : keys_ok M -> classes_sim M M' -> In r M -> In r' M' -> class_sim r r' ->
  write_tree M r = write_tree M' r'.
Proof.
  intros (HM & Hwf) Hs Hr Hr' Hrr. unfold write_tree.
  rewrite (tree_nodes_T M r HM Hr), (tree_nodes_T M' r' (keys_nodup_sim _ _ Hs HM) Hr').
  cbn [bind]. set (F := (bound M + bound M')%nat).
  rewrite (T_stable M (bound M) F r 0), (T_stable M' (bound M') F r' 0);
    try (apply inv_bound; assumption); try (split; [assumption|unfold F; lia]).
  unfold write_nodes.
  rewrite (map_res_forall2 (fun cd => write_class (fst cd) (snd cd)) (fun cd => write_class (fst cd) (snd cd)) _ (T F M' r' 0));
    [reflexivity|].
  eapply forall2_impl_in; [|apply T_sim; eauto].
  intros a b Ha _ (Hab & Hd). rewrite Hd. apply write_class_sim; [|exact Hab].
  rewrite Forall_forall in Hwf. apply Hwf. destruct a as [x dx]. eapply T_incl; [|exact Ha].
  split; [exact Hr|unfold F; lia].
Qed.

(* ---------- files ---------- *)

Lemma nodupb_str_NoDup (l : list str) : nodupb str_eqb l = true <-> NoDup l.
Proof.
  induction l as [|a l IH]; cbn [nodupb]; [split; [constructor|reflexivity]|].
  rewrite andb_true_iff, negb_true_iff, IH. split.
  - intros [Ha Hl]. constructor; [|exact Hl]. intros Hin.
    assert (existsb (str_eqb a) l = true); [|congruence]. apply existsb_exists. exists a. split; [exact Hin|apply str_eqb_refl].
  - intros H. inversion H as [|? ? Ha Hl]; subst. split; [|exact Hl].
    destruct (existsb (str_eqb a) l) eqn:E; [|reflexivity]. apply existsb_exists in E as (x & Hx & Ex).
    apply str_eqb_eq in Ex. subst x. contradiction.
Qed.

Lemma nodupb_perm (l l' : list str) : Permutation l l' -> nodupb str_eqb l = nodupb str_eqb l'.
Proof.
  intros Hp. destruct (nodupb str_eqb l) eqn:E; symmetry.
  - apply nodupb_str_NoDup. apply nodupb_str_NoDup in E. eapply Permutation_NoDup; eauto.
  - destruct (nodupb str_eqb l') eqn:E'; [|reflexivity]. apply nodupb_str_NoDup in E'.
    assert (nodupb str_eqb l = true); [|congruence]. apply nodupb_str_NoDup. eapply Permutation_NoDup; [symmetry; exact Hp|exact E'].
Qed.

Definition named (M : list class) : list (str * class) := map (fun c => (file_name c, c)) (roots M).
Definition nfile_sim (a b : str * class) : Prop := fst a = fst b /\ class_sim (snd a) (snd b).

Lemma file_name_sim a b : class_sim a b -> file_name a = file_name b.
Proof. intros (E & _). unfold file_name, cls_dst, cls_key. rewrite E. reflexivity. Qed.

Lemma named_sim M M' : classes_sim M M' -> perm_rel nfile_sim (named M) (named M').
Proof.
  intros Hs. unfold named, roots.
  assert (H : perm_rel class_sim (filter (is_root M) M) (filter (is_root M') M')).
  { apply perm_rel_filter; [|exact Hs]. intros a a' Ha. unfold is_root. rewrite !parent_in_up.
    rewrite (class_sim_key _ _ Ha), (up_sim M M' _ Hs). reflexivity. }
  destruct H as (l'' & Hp & Hf). exists (map (fun c => (file_name c, c)) l''). split; [apply Permutation_map; exact Hp|].
  apply forall2_map. eapply forall2_impl_in; [|exact Hf]. intros a b _ _ Hab. split; [apply file_name_sim; exact Hab|exact Hab].
Qed.

Lemma files_unfold M : files M =
  if negb (forallb (fun nc => scalar (fst nc)) (named M)) then Err
  else if negb (nodupb str_eqb (map fst (named M))) then Err
  else Ok (isort file_leb (named M)).
Proof. reflexivity. Qed.

Lemma perm_rel_fst (l l' : list (str * class)) : perm_rel nfile_sim l l' -> Permutation (map fst l) (map fst l').
Proof.
  intros (l'' & Hp & Hf). etransitivity; [apply Permutation_map; exact Hp|].
  clear Hp. induction Hf as [|y y' a b Hy Hl IH]; cbn [map]; [constructor|].
  destruct Hy as [-> _]. constructor. exact IH.
Qed.

Lemma files_sim M M' : classes_sim M M' ->
  match files M, files M' with
  | Ok fs, Ok fs' => Forall2 nfile_sim fs fs'
  | Err, Err => True
  | _, _ => False
  end.
Proof.
  intros Hs. rewrite !files_unfold. assert (Hn := named_sim M M' Hs).
  assert (E1 : forallb (fun nc => scalar (fst nc)) (named M) = forallb (fun nc => scalar (fst nc)) (named M')).
  { assert (Hq : forall l, forallb (fun nc : str * class => scalar (fst nc)) l = forallb scalar (map fst l)).
    { induction l as [|a l IH]; cbn [forallb map]; [reflexivity|]. rewrite IH. reflexivity. }
    rewrite !Hq. apply forallb_perm. apply perm_rel_fst. exact Hn. }
  assert (E2 : nodupb str_eqb (map fst (named M)) = nodupb str_eqb (map fst (named M'))).
  { apply nodupb_perm. apply perm_rel_fst. exact Hn. }
  rewrite <- E1, <- E2.
  destruct (forallb (fun nc => scalar (fst nc)) (named M)); cbn [negb]; [|exact I].
  destruct (nodupb str_eqb (map fst (named M))) eqn:En; cbn [negb]; [|exact I].
  rewrite file_leb_proj. apply isort_perm_rel.
  - exact cmp_spec_str.
  - apply nodupb_str_NoDup. exact En.
  - intros a a' (E & _). exact E.
  - exact Hn.
Qed.

Lemma files_in M fs nc : files M = Ok fs -> In nc fs -> In (snd nc) M /\ fst nc = file_name (snd nc).
Proof.
  rewrite files_unfold. destruct (negb _); [discriminate|]. destruct (negb _); [discriminate|].
  intros [= <-] Hin. apply isort_in in Hin. unfold named in Hin. apply in_map_iff in Hin as (c & <- & Hc).
  cbn [fst snd]. split; [|reflexivity]. unfold roots in Hc. apply filter_In in Hc. apply Hc.
Qed.

(* the files of a set are sorted by file name *)
Theorem files_sorted M fs : files M = Ok fs -> Sorted (fun a b => is_le (str_cmp (fst a) (fst b)) = true) fs.
Proof.
  rewrite files_unfold. destruct (negb _); [discriminate|]. destruct (negb _); [discriminate|].
  intros [= <-]. apply (isort_sorted file_leb (fun _ => True)).
  - rewrite file_leb_proj. apply proj_total. exact cmp_spec_str.
  - apply Forall_forall. auto.
Qed.

(* ---------- the theorem ---------- *)

Theorem write_deterministic M M' : keys_ok M -> classes_sim M M' ->
  write_all M = write_all M' /\ write_dir M = write_dir M' /\ (forall name, write_one M name = write_one M' name).
Proof.
  intros Hok Hs. assert (Hf := files_sim M M' Hs).
  unfold write_all, write_dir, write_one.
  destruct (files M) as [fs|] eqn:E; destruct (files M') as [fs'|] eqn:E'; try contradiction; cbn [bind];
    [|split; [reflexivity|split; [reflexivity|reflexivity]]].
  assert (Hbody : Forall2 (fun a b => fst a = fst b /\ write_tree M (snd a) = write_tree M' (snd b)) fs fs').
  { eapply forall2_impl_in; [|exact Hf]. intros a b Ha Hb (En & Hab). split; [exact En|].
    apply write_tree_sim; auto.
    - exact (proj1 (files_in M fs a E Ha)).
    - exact (proj1 (files_in M' fs' b E' Hb)). }
  split; [|split].
  - rewrite (map_res_forall2 _ (fun nc => do body <- write_tree M' (snd nc); Ok (header (fst nc) ++ body)) fs fs'); [reflexivity|].
    eapply forall2_impl_in; [|exact Hbody]. intros a b _ _ (En & Eb). rewrite En, Eb. reflexivity.
  - apply map_res_forall2. eapply forall2_impl_in; [|exact Hbody]. intros a b _ _ (En & Eb). rewrite En, Eb. reflexivity.
  - intros name. clear Hf E E'. induction Hbody as [|[n c] [n' c'] l l' (En & Eb) Hl IH]; cbn [assoc_str]; [reflexivity|].
    cbn [fst snd] in En, Eb. subst n'. destruct (str_eqb name n); [exact Eb|exact IH].
Qed.
