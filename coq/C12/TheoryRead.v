(* C12 theory, part 7: the reader on the token lines of one class: comments, fields, methods
   with their parameters are read back (sorted as written, constructors unnamed, parameters
   without source name). *)
From FB Require Import C12.Model C12.TheoryTree C12.TheoryTok C12.TheoryLines.
From Coq Require Import Lia Arith PeanoNat.

(* the loop at depth [d] ends before [rest] *)
Definition stops (d : nat) (rest : list eline) : Prop :=
  match rest with [] => True | l :: _ => (el_ind l < d)%nat end.

Lemma stops_weaken d d' r : stops d r -> (d <= d')%nat -> stops d' r.
Proof. destruct r; cbn [stops]; [auto|lia]. Qed.

Lemma stops_flat_map {A} (g : A -> list eline) l d rest :
  (forall x, In x l -> exists e tl, g x = e :: tl /\ (el_ind e < d)%nat) -> stops d rest -> stops d (flat_map g l ++ rest).
Proof.
  intros Hg Hr. destruct l as [|x l]; [exact Hr|].
  destruct (Hg x (or_introl eq_refl)) as (e & tl & E & He). cbn [flat_map]. rewrite E. cbn [app stops]. exact He.
Qed.

Lemma stops_app_cons e tl d rest : (el_ind e < d)%nat -> stops d ((e :: tl) ++ rest).
Proof. intros H. exact H. Qed.

(* ---------- what is read back ---------- *)

Definition read_doc (acc : option str) (doc : option str) : option str :=
  match doc with None => acc | Some s => fold_left ins_doc (split_on cLF s) acc end.

Lemma read_doc_none doc : read_doc None doc = doc.
Proof. destruct doc as [s|]; [|reflexivity]. cbn [read_doc]. apply fold_ins_doc_split. Qed.

Definition rb_field (f : field) : field := mkField (f_desc f) [Some (src_of (f_names f)); dst_of (f_names f)] (f_doc f).
Definition rb_param (p : param) : param := mkParam (p_index p) [None; Some (pdst p)] (p_doc p).
Definition rb_meth (m : meth) : meth :=
  mkMeth (m_desc m) [Some (src_of (m_names m)); meth_dst m] (m_doc m) (map rb_param (isort param_wleb (m_params m))).
Definition rb_class (c : class) : class :=
  mkClass [Some (cls_key c); cls_dst c] (c_doc c)
    (map rb_field (isort field_wleb (c_fields c))) (map rb_meth (isort meth_wleb (c_methods c))).

(* ---------- tag tests ---------- *)
Lemma tag_CC : str_eqb s_COMMENT s_COMMENT = true. Proof. reflexivity. Qed.
Lemma tag_C_CLASS : str_eqb s_COMMENT s_CLASS = false. Proof. reflexivity. Qed.
Lemma tag_C_FIELD : str_eqb s_COMMENT s_FIELD = false. Proof. reflexivity. Qed.
Lemma tag_C_METHOD : str_eqb s_COMMENT s_METHOD = false. Proof. reflexivity. Qed.
Lemma tag_C_ARG : str_eqb s_COMMENT s_ARG = false. Proof. reflexivity. Qed.
Lemma tag_F_CLASS : str_eqb s_FIELD s_CLASS = false. Proof. reflexivity. Qed.
Lemma tag_M_CLASS : str_eqb s_METHOD s_CLASS = false. Proof. reflexivity. Qed.
Lemma tag_M_FIELD : str_eqb s_METHOD s_FIELD = false. Proof. reflexivity. Qed.

(* ---------- COMMENT lines ---------- *)

Definition c_elines (d : nat) (L : list str) : list eline := map (fun l => mkEline d s_COMMENT [l]) L.

Lemma e_comments_c d doc : e_comments d doc = match doc with None => [] | Some s => c_elines d (split_on cLF s) end.
Proof. reflexivity. Qed.

Lemma comments_loop_stop d acc rest : stops d rest -> comments_loop d acc rest = Ok (acc, rest).
Proof.
  destruct rest as [|l rest]; cbn [stops comments_loop]; [reflexivity|]. intros H.
  apply Nat.compare_lt_iff in H. rewrite H. reflexivity.
Qed.

Lemma comments_loop_list d L : forall acc rest, stops d rest ->
  comments_loop d acc (c_elines d L ++ rest) = Ok (fold_left ins_doc L acc, rest).
Proof.
  induction L as [|l L IH]; intros acc rest Hr.
  - apply comments_loop_stop. exact Hr.
  - cbn [c_elines map app comments_loop el_ind el_first]. rewrite Nat.compare_refl, tag_CC.
    rewrite ins_comment_doc. apply IH. exact Hr.
Qed.

(* whatever the comment contains: the reader takes the text of a COMMENT line as it is *)
Lemma comments_loop_doc d doc rest : stops d rest ->
  comments_loop d None (e_comments d doc ++ rest) = Ok (doc, rest).
Proof.
  intros Hr. rewrite e_comments_c. destruct doc as [s|].
  - rewrite comments_loop_list; [rewrite fold_ins_doc_split; reflexivity|exact Hr].
  - apply comments_loop_stop. exact Hr.
Qed.

(* ---------- below METHOD ---------- *)

Lemma method_loop_step f d m l ls' :
  method_loop (S f) d m (l :: ls') =
    match Nat.compare (el_ind l) d with
    | Lt => Ok (m, l :: ls')
    | Gt => Err
    | Eq =>
        if str_eqb (el_first l) s_ARG then
          match el_fields l with
          | [ri; dst] =>
              do idx <- parse_usize ri;
              if negb (is_valid_unqualified_name dst) then Err
              else if has_param (m_params m) idx then Err
              else
                do dr <- comments_loop (S d) None ls';
                method_loop f d (add_param m (mkParam idx [None; Some dst] (fst dr))) (snd dr)
          | _ => Err
          end
        else if str_eqb (el_first l) s_COMMENT then
          method_loop f d (set_mdoc m (ins_comment (m_doc m) l)) ls'
        else Err
    end.
Proof. reflexivity. Qed.

Lemma method_loop_stop F d m rest : stops d rest -> (length rest < F)%nat -> method_loop F d m rest = Ok (m, rest).
Proof.
  intros Hr HF. destruct F as [|f]; [lia|]. destruct rest as [|l rest]; [reflexivity|].
  rewrite method_loop_step. cbn [stops] in Hr. apply Nat.compare_lt_iff in Hr. rewrite Hr. reflexivity.
Qed.

Lemma method_loop_comments d desc nm ps L : forall doc F rest',
  (length (c_elines d L ++ rest') < F)%nat ->
  exists F', (length rest' < F')%nat /\
    method_loop F d (mkMeth desc nm doc ps) (c_elines d L ++ rest')
    = method_loop F' d (mkMeth desc nm (fold_left ins_doc L doc) ps) rest'.
Proof.
  induction L as [|l L IH]; intros doc F rest' HF.
  - exists F. split; [exact HF|reflexivity].
  - destruct F as [|f]; [lia|]. cbn [c_elines map app]. rewrite method_loop_step.
    cbn [el_ind el_first]. rewrite Nat.compare_refl, tag_C_ARG, tag_CC.
    cbn [set_mdoc m_desc m_names m_doc m_params]. rewrite ins_comment_doc.
    destruct (IH (ins_doc doc l) f rest') as (F' & HF' & E).
    { cbn [c_elines map app length] in HF. fold (c_elines d L) in HF. lia. }
    exists F'. split; [exact HF'|]. exact E.
Qed.

Lemma has_param_false ps i : ~ In i (map p_index ps) -> has_param ps i = false.
Proof.
  intros H. unfold has_param. destruct (existsb _ ps) eqn:E; [|reflexivity].
  apply existsb_exists in E as (p & Hp & Ep). apply N.eqb_eq in Ep. exfalso. apply H. rewrite <- Ep. apply in_map. exact Hp.
Qed.

Lemma e_param_head d p : exists tl, e_param d p = mkEline d s_ARG [dec (p_index p); pdst p] :: tl.
Proof. eexists. reflexivity. Qed.

Lemma method_loop_params d desc nm doc P : forall ps F rest',
  (forall p, In p P -> param_okb p = true) -> NoDup (map p_index (ps ++ P)) -> stops (S d) rest' ->
  (length (flat_map (e_param d) P ++ rest') < F)%nat ->
  exists F', (length rest' < F')%nat /\
    method_loop F d (mkMeth desc nm doc ps) (flat_map (e_param d) P ++ rest')
    = method_loop F' d (mkMeth desc nm doc (ps ++ map rb_param P)) rest'.
Proof.
  induction P as [|p P IH]; intros ps F rest' Hok Hnd Hr HF.
  - exists F. cbn [map flat_map app]. rewrite app_nil_r. split; [exact HF|reflexivity].
  - destruct F as [|f]; [lia|].
    assert (Hp : param_okb p = true) by (apply Hok; left; reflexivity).
    destruct (param_dst p Hp) as (dd & Hd & _ & Htok & Hval).
    unfold param_okb in Hp. apply andb_true_iff in Hp as [Hp Hdoc]. apply andb_true_iff in Hp as [_ Hidx].
    apply N.ltb_lt in Hidx. destruct (parse_dec _ Hidx) as [Hparse _].
    cbn [flat_map]. unfold e_param at 1. cbn [app]. rewrite method_loop_step.
    cbn [el_ind el_first el_fields]. rewrite Nat.compare_refl.
    replace (str_eqb s_ARG s_ARG) with true by reflexivity.
    rewrite Hparse. cbn [bind]. unfold pdst. rewrite Hd, Hval. cbn [negb m_params].
    rewrite has_param_false.
    2:{ rewrite map_app in Hnd. cbn [map] in Hnd. apply NoDup_remove_2 in Hnd. intros Hin. apply Hnd.
        apply in_or_app. left. exact Hin. }
    rewrite <- app_assoc. rewrite comments_loop_doc.
    2:{ apply stops_flat_map; [|exact Hr]. intros x _. destruct (e_param_head d x) as (tl & ->).
        eexists; eexists; split; [reflexivity|cbn [el_ind]; lia]. }
    cbn [bind fst snd]. unfold add_param. cbn [m_desc m_names m_doc m_params].
    destruct (IH (ps ++ [mkParam (p_index p) [None; Some dd] (p_doc p)]) f rest') as (F' & HF' & E).
    { intros x Hx. apply Hok. right. exact Hx. }
    { rewrite <- app_assoc. cbn [app]. rewrite !map_app in *. cbn [map p_index] in *. exact Hnd. }
    { exact Hr. }
    { cbn [flat_map] in HF. unfold e_param at 1 in HF. cbn [app length] in HF. rewrite <- app_assoc, app_length in HF. lia. }
    exists F'. split; [exact HF'|]. rewrite E. rewrite <- app_assoc. cbn [app map]. unfold rb_param at 2, pdst. rewrite Hd. reflexivity.
Qed.

(* one METHOD block, as the class loop calls it *)
Lemma method_block d m rest' F : meth_okb m = true -> stops (S d) rest' ->
  (length (e_comments (S d) (m_doc m) ++ flat_map (e_param (S d)) (isort param_wleb (m_params m)) ++ rest') < F)%nat ->
  method_loop F (S d) (mkMeth (m_desc m) [Some (src_of (m_names m)); meth_dst m] None [])
    (e_comments (S d) (m_doc m) ++ flat_map (e_param (S d)) (isort param_wleb (m_params m)) ++ rest')
  = Ok (rb_meth m, rest').
Proof.
  unfold meth_okb. intros H Hr HF. split_ands H.
  assert (Hps : forall p, In p (isort param_wleb (m_params m)) -> param_okb p = true).
  { intros p Hp. apply isort_in in Hp. rewrite forallb_forall in H1. apply H1. exact Hp. }
  assert (Hnd : NoDup (map p_index ([] ++ isort param_wleb (m_params m)))).
  { cbn [app]. eapply Permutation.Permutation_NoDup; [apply Permutation.Permutation_map; symmetry; apply isort_perm|].
    clear -H0. induction (m_params m) as [|p l IH]; cbn [map]; [constructor|].
    cbn [map nodupb] in H0. apply andb_true_iff in H0 as [Hp Hl]. apply negb_true_iff in Hp. constructor; [|apply IH; exact Hl].
    intros Hin. apply in_map_iff in Hin as (q & Eq & Hq).
    assert (existsb (N.eqb (p_index p)) (map p_index l) = true); [|congruence].
    apply existsb_exists. exists (p_index q). split; [apply in_map; exact Hq|]. rewrite Eq. apply N.eqb_refl. }
  rewrite e_comments_c in *.
  destruct (m_doc m) as [s|] eqn:Edoc.
  - destruct (method_loop_comments (S d) (m_desc m) [Some (src_of (m_names m)); meth_dst m] [] (split_on cLF s) None F
               (flat_map (e_param (S d)) (isort param_wleb (m_params m)) ++ rest')) as (F1 & HF1 & E1).
    { exact HF. }
    rewrite E1, fold_ins_doc_split.
    destruct (method_loop_params (S d) (m_desc m) [Some (src_of (m_names m)); meth_dst m] (Some s) (isort param_wleb (m_params m)) [] F1 rest' Hps Hnd)
      as (F2 & HF2 & E2); [apply (stops_weaken (S d)); [exact Hr|lia]|exact HF1|].
    rewrite E2. cbn [app]. rewrite method_loop_stop; [|exact Hr|exact HF2]. unfold rb_meth. rewrite Edoc. reflexivity.
  - cbn [app] in *.
    destruct (method_loop_params (S d) (m_desc m) [Some (src_of (m_names m)); meth_dst m] None (isort param_wleb (m_params m)) [] F rest' Hps Hnd)
      as (F2 & HF2 & E2); [apply (stops_weaken (S d)); [exact Hr|lia]|exact HF|].
    rewrite E2. cbn [app]. rewrite method_loop_stop; [|exact Hr|exact HF2]. unfold rb_meth. rewrite Edoc. reflexivity.
Qed.
