(* C12 model, part 2: the Enigma reader as a STRUCTURAL decoder.
   The token lines of a text are grouped into the lforest their indentation describes ([build]: a
   line belongs to the nearest preceding line that is indented one step less); [interp_root] walks
   that lforest by structural recursion, with the same handlers and checks as the loops of
   [read_into] in Model.v but without peeking, fuel or indentation comparisons; [classes_of] is the
   check-free decoding (what the result is when the reader accepts).
   Theorems (TheoryExact.v): read_into = interp_root ∘ build on EVERY text; an accepted text is decoded
   to acc ++ classes_of None f.  Definitions only. *)
From FB Require Export C12.Model.

Inductive lforest := FNil | FNode (l : eline) (ch sib : lforest).

Fixpoint flatten (f : lforest) : list eline :=
  match f with
  | FNil => []
  | FNode l ch sib => l :: flatten ch ++ flatten sib
  end.

Fixpoint build (fuel : nat) (d : nat) (ls : list eline) : option (lforest * list eline) :=
  match fuel with
  | O => None
  | S F =>
      match ls with
      | [] => Some (FNil, [])
      | l :: ls' =>
          match Nat.compare (el_ind l) d with
          | Lt => Some (FNil, ls)
          | Gt => None
          | Eq =>
              match build F (S d) ls' with
              | Some (ch, r1) =>
                  match build F d r1 with
                  | Some (sib, r2) => Some (FNode l ch sib, r2)
                  | None => None
                  end
              | None => None
              end
          end
      end
  end.

(* the lforest of a whole text: every line must find its place (None: "expected an indentation of …") *)
Definition forest_of (ls : list eline) : option lforest :=
  match build (S (length ls)) 0 ls with
  | Some (f, []) => Some f
  | _ => None
  end.

Definition leafb (f : lforest) : bool := match f with FNil => true | FNode _ _ _ => false end.

Definition tagb (t : str) (l : eline) : bool := str_eqb (el_first l) t.

(* ------------------------------------------------------------------------------------------ *)
(* the reader on the lforest: same handlers, same checks, structural recursion *)

(* below FIELD and ARG: COMMENT lines only; a COMMENT line has nothing below it *)
Fixpoint interp_comments (doc : option str) (f : lforest) : res (option str) :=
  match f with
  | FNil => Ok doc
  | FNode l ch sib =>
      if tagb s_COMMENT l then
        if leafb ch then interp_comments (ins_comment doc l) sib else Err
      else Err
  end.

Fixpoint interp_meth (m : meth) (f : lforest) : res meth :=
  match f with
  | FNil => Ok m
  | FNode l ch sib =>
      if tagb s_ARG l then
        match el_fields l with
        | [ri; dst] =>
            do idx <- parse_usize ri;
            if negb (is_valid_unqualified_name dst) then Err
            else if has_param (m_params m) idx then Err
            else
              do doc <- interp_comments None ch;
              interp_meth (add_param m (mkParam idx [None; Some dst] doc)) sib
        | _ => Err
        end
      else if tagb s_COMMENT l then
        if leafb ch then interp_meth (set_mdoc m (ins_comment (m_doc m) l)) sib else Err
      else Err
  end.

(* the names of a CLASS line at nesting [d] below [par], with the checks of parse_class *)
Definition par_src (par : option (str * str)) (s : str) : str :=
  match par with Some (ps, _) => ps ++ cDOLLAR :: s | None => s end.
Definition par_dst (par : option (str * str)) (o : option str) : option str :=
  match par with Some (_, pd) => option_map (fun x => pd ++ cDOLLAR :: x) o | None => o end.
Definition dst_or_src (nm : str * option str) : str := match snd nm with Some x => x | None => fst nm end.

Definition class_head (d : nat) (par : option (str * str)) (l : eline) : res (str * option str) :=
  if Nat.ltb max_class_nesting d then Err else
  do sd <- pat_class (el_fields l);
  let src := par_src par (fst sd) in
  let dst := par_dst par (snd sd) in
  if negb (is_valid_obj_class_name src && opt_valid is_valid_obj_class_name dst) then Err
  else Ok (src, dst).

Definition new_class (nm : str * option str) : class := mkClass [Some (fst nm); snd nm] None [] [].

(* below CLASS at nesting [d] (the depth of the lines of [f]); [par] = names nested classes are prefixed with *)
Fixpoint interp_class (d : nat) (par : str * str) (cur : class) (acc : list class) (f : lforest)
    : res (class * list class) :=
  match f with
  | FNil => Ok (cur, acc)
  | FNode l ch sib =>
      if tagb s_CLASS l then
        do nm <- class_head d (Some par) l;
        do r <- interp_class (S d) (fst nm, dst_or_src nm) (new_class nm) acc ch;
        if has_key (snd r) (fst nm) then Err
        else interp_class d par cur (snd r ++ [fst r]) sib
      else if tagb s_FIELD l then
        do x <- pat_named (el_fields l);
        let src := fst (fst x) in
        let dst := snd (fst x) in
        let desc := snd x in
        if negb (is_valid_unqualified_name src && opt_valid is_valid_unqualified_name dst) then Err
        else if has_field (c_fields cur) src desc then Err
        else
          do doc <- interp_comments None ch;
          interp_class d par (add_field cur (mkField desc [Some src; dst] doc)) acc sib
      else if tagb s_METHOD l then
        do x <- pat_named (el_fields l);
        let src := fst (fst x) in
        let dst := snd (fst x) in
        let desc := snd x in
        if negb (is_valid_method_name src && opt_valid is_valid_method_name dst) then Err
        else if has_meth (c_methods cur) src desc then Err
        else
          do m <- interp_meth (mkMeth desc [Some src; dst] None []) ch;
          interp_class d par (add_meth cur m) acc sib
      else if tagb s_COMMENT l then
        if leafb ch then interp_class d par (set_cdoc cur (ins_comment (c_doc cur) l)) acc sib else Err
      else Err
  end.

(* the top level: CLASS lines only *)
Fixpoint interp_root (acc : list class) (f : lforest) : res (list class) :=
  match f with
  | FNil => Ok acc
  | FNode l ch sib =>
      if tagb s_CLASS l then
        do nm <- class_head 0 None l;
        do r <- interp_class 1 (fst nm, dst_or_src nm) (new_class nm) acc ch;
        if has_key (snd r) (fst nm) then Err
        else interp_root (snd r ++ [fst r]) sib
      else Err
  end.

(* the reader, structurally *)
Definition read_struct (acc : list class) (text : str) : res (list class) :=
  match forest_of (elines text) with
  | Some f => interp_root acc f
  | None => Err
  end.

(* ------------------------------------------------------------------------------------------ *)
(* the check-free decoding: what an accepted lforest means *)

Fixpoint doc_of (init : option str) (f : lforest) : option str :=
  match f with
  | FNil => init
  | FNode l _ sib => if tagb s_COMMENT l then doc_of (ins_comment init l) sib else doc_of init sib
  end.

Definition unN (r : res N) : N := match r with Ok n => n | Err => 0 end.

Definition param_of (l : eline) (ch : lforest) : param :=
  match el_fields l with
  | [ri; dst] => mkParam (unN (parse_usize ri)) [None; Some dst] (doc_of None ch)
  | _ => mkParam 0 [] None
  end.

Fixpoint params_of (f : lforest) : list param :=
  match f with
  | FNil => []
  | FNode l ch sib => if tagb s_ARG l then param_of l ch :: params_of sib else params_of sib
  end.

Definition named_of (l : eline) : str * option str * str :=
  match pat_named (el_fields l) with Ok x => x | Err => ([], None, []) end.

Definition field_of (l : eline) (ch : lforest) : field :=
  let x := named_of l in mkField (snd x) [Some (fst (fst x)); snd (fst x)] (doc_of None ch).
Definition meth_of (l : eline) (ch : lforest) : meth :=
  let x := named_of l in mkMeth (snd x) [Some (fst (fst x)); snd (fst x)] (doc_of None ch) (params_of ch).

Fixpoint fields_of (f : lforest) : list field :=
  match f with
  | FNil => []
  | FNode l ch sib => if tagb s_FIELD l then field_of l ch :: fields_of sib else fields_of sib
  end.
Fixpoint meths_of (f : lforest) : list meth :=
  match f with
  | FNil => []
  | FNode l ch sib => if tagb s_METHOD l then meth_of l ch :: meths_of sib else meths_of sib
  end.

(* the names of a CLASS line below [par]: the parent's names are put in front, nothing else *)
Definition cnames_of (par : option (str * str)) (l : eline) : str * option str :=
  let sd := match pat_class (el_fields l) with Ok sd => sd | Err => ([], None) end in
  (par_src par (fst sd), par_dst par (snd sd)).

(* one class per CLASS line, nested classes first (they are added while their parent is still being
   read), each under the names of the CLASS lines it is nested in — in the order of the text *)
Fixpoint classes_of (par : option (str * str)) (f : lforest) : list class :=
  match f with
  | FNil => []
  | FNode l ch sib =>
      if tagb s_CLASS l then
        let nm := cnames_of par l in
        classes_of (Some (fst nm, dst_or_src nm)) ch
          ++ mkClass [Some (fst nm); snd nm] (doc_of None ch) (fields_of ch) (meths_of ch)
          :: classes_of par sib
      else classes_of par sib
  end.

(* which tags may stand where; COMMENT lines are leaves *)
Fixpoint only_comments (f : lforest) : bool :=
  match f with
  | FNil => true
  | FNode l ch sib => tagb s_COMMENT l && leafb ch && only_comments sib
  end.
Fixpoint shape_meth (f : lforest) : bool :=
  match f with
  | FNil => true
  | FNode l ch sib =>
      (if tagb s_ARG l then only_comments ch else tagb s_COMMENT l && leafb ch) && shape_meth sib
  end.
Fixpoint shape_class (f : lforest) : bool :=
  match f with
  | FNil => true
  | FNode l ch sib =>
      (if tagb s_CLASS l then shape_class ch
       else if tagb s_FIELD l then only_comments ch
       else if tagb s_METHOD l then shape_meth ch
       else tagb s_COMMENT l && leafb ch) && shape_class sib
  end.
Fixpoint shape_root (f : lforest) : bool :=
  match f with
  | FNil => true
  | FNode l ch sib => tagb s_CLASS l && shape_class ch && shape_root sib
  end.

(* number of lines with a given tag *)
Fixpoint count_tag (t : str) (ls : list eline) : nat :=
  match ls with
  | [] => O
  | l :: ls' => if tagb t l then S (count_tag t ls') else count_tag t ls'
  end.
