(* C12 model, byte level (round 7).  The writers of quill/src/enigma_file.rs put their text into an
   `impl Write` through `write!` / `writeln!`: what arrives there is the UTF-8 encoding of the text
   (`str` is UTF-8; `JavaStr`'s Display goes through `as_str`, which fails on a surrogate).  The reader
   takes bytes (`BufReader::new(reader).lines()`), decoding them strictly (Model.utf8_decode).
   Definitions only; proofs are in TheoryBytes.v. *)
From FB Require Export C12.Model.

(* a Unicode scalar value: what a Rust `char` can be *)
Definition is_usv (c : N) : bool := N.ltb c 1114112 && negb (N.leb 55296 c && N.leb c 57343).

(* `char::encode_utf8` *)
Definition utf8_encode_char (c : N) : list N :=
  if N.ltb c 128 then [c]
  else if N.ltb c 2048 then [192 + N.div c 64; 128 + N.modulo c 64]
  else if N.ltb c 65536 then [224 + N.div c 4096; 128 + N.modulo (N.div c 64) 64; 128 + N.modulo c 64]
  else [240 + N.div c 262144; 128 + N.modulo (N.div c 4096) 64; 128 + N.modulo (N.div c 64) 64; 128 + N.modulo c 64].

Fixpoint utf8_encode (s : str) : list N :=
  match s with
  | [] => []
  | c :: s' => utf8_encode_char c ++ utf8_encode s'
  end.

(* what the writers hand to the `Write`: the bytes of the text.  A text with a code point that is no
   scalar value has no bytes: `write!` of such a JavaStr panics (outside the model, see Model.scalar) *)
Definition to_bytes (r : res str) : res (list N) :=
  match r with
  | Ok t => if forallb is_usv t then Ok (utf8_encode t) else Err
  | Err => Err
  end.

Definition write_all_bytes (M : list class) : res (list N) := to_bytes (write_all M).
Definition write_one_bytes (M : list class) (name : str) : res (list N) := to_bytes (write_one M name).
