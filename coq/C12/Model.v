(* C12 model: quill/src/enigma_file.rs (tokeniser `EnigmaLine::new`, `read_into` with the
   recursive `parse_class`, `insert_comment`, `write_class`, `figure_out_files`,
   `write_one_tree_starting_at`, `write_all`, `write_one`), the indentation iterator of
   quill/src/lines.rs as it is used by the Enigma reader, and quill/src/enigma_dir.rs with the
   file system replaced by a finite map from relative paths to contents.
   Definitions only; proofs are in Theory*.v.

   The model follows the code after the two `fix:` commits of this property:
   - `write_class` shortens names to the part after the last `$` only for classes written inside
     their parent (indent > 0);
   - `figure_out_files` fails when two parent-free classes get the same file name;
   and after the C16 fix that limits the nesting of CLASS sections in the reader to 64;
   - (round 5) the text of a COMMENT line is everything after the first separator, as it is (`splitn(2, ..)`),
     and the writer refuses a comment line that ends with a carriage return.

   A mapping set is the list of its classes in IndexMap order (two namespaces: every names row
   has two cells); the Enigma format stores neither namespaces nor a mappings-level comment. *)
From FB Require Export Base.Str Base.Run Base.Sort Quill.Mappings C18.Model.

Definition s_CLASS : str := [67; 76; 65; 83; 83].
Definition s_FIELD : str := [70; 73; 69; 76; 68].
Definition s_METHOD : str := [77; 69; 84; 72; 79; 68].
Definition s_ARG : str := [65; 82; 71].
Definition s_COMMENT : str := [67; 79; 77; 77; 69; 78; 84].
Definition s_ACC : str := [65; 67; 67; 58].                                   (* ACC: *)
Definition s_dot_mapping : str := [46; 109; 97; 112; 112; 105; 110; 103].     (* .mapping *)
Definition s_mapping : str := [109; 97; 112; 112; 105; 110; 103].

(* ------------------------------------------------------------------------------------------ *)
(* BufRead::lines: lines end at LF; a CR directly before that LF is dropped; no final empty line *)

Definition cons_first (c : N) (ls : list str) : list str :=
  match ls with [] => [[c]] | l :: ls' => (c :: l) :: ls' end.

Fixpoint split_lines (s : str) : list str :=
  match s with
  | [] => []
  | c :: s' =>
      if N.eqb c cLF then [] :: split_lines s'
      else if N.eqb c cCR && (match s' with x :: _ => N.eqb x cLF | [] => false end) then split_lines s'
      else cons_first c (split_lines s')
  end.

(* ------------------------------------------------------------------------------------------ *)
(* EnigmaLine::new *)

Definition java_ws (c : N) : bool := mem_N c [32; 9; 10; 11; 12; 13].

(* char::is_whitespace = Unicode White_Space, what str::trim removes *)
Definition uni_ws (c : N) : bool :=
  (N.leb 9 c && N.leb c 13) || N.eqb c 32 || N.eqb c 133 || N.eqb c 160 || N.eqb c 5760
  || (N.leb 8192 c && N.leb c 8202) || N.eqb c 8232 || N.eqb c 8233 || N.eqb c 8239
  || N.eqb c 8287 || N.eqb c 12288.

Fixpoint drop_while (p : N -> bool) (s : str) : str :=
  match s with
  | c :: s' => if p c then drop_while p s' else s
  | [] => []
  end.

Definition trim (s : str) : str := rev (drop_while uni_ws (rev (drop_while uni_ws s))).

Fixpoint count_tabs (s : str) : nat * str :=
  match s with
  | c :: s' => if N.eqb c cTAB then (let (n, r) := count_tabs s' in (S n, r)) else (O, s)
  | [] => (O, [])
  end.

(* `line.split_once('#')`: the part before the first `#`, the whole line when there is none *)
Fixpoint strip_hash (s : str) : str :=
  match s with
  | [] => []
  | c :: s' => if N.eqb c cHASH then [] else c :: strip_hash s'
  end.

(* `line.split(JAVA_WHITESPACE)`: at least one part, empty parts between adjacent separators *)
Fixpoint split_ws (s : str) : list str :=
  match s with
  | [] => [[]]
  | c :: s' => if java_ws c then [] :: split_ws s' else cons_first c (split_ws s')
  end.

(* `line.splitn(2, JAVA_WHITESPACE)`: the part before the first separator and, when there is a separator,
   everything after it as it is (a COMMENT line: the tag and the text; fix "a comment keeps its tabs and
   spaces through the Enigma format") *)
Fixpoint split_first_ws (s : str) : list str :=
  match s with
  | [] => [[]]
  | c :: s' => if java_ws c then [[]; s'] else cons_first c (split_first_ws s')
  end.

Record eline := mkEline { el_ind : nat; el_first : str; el_fields : list str }.

Definition enigma_line (l : str) : option eline :=
  let (n, r) := count_tabs l in
  let is_comment := starts_with s_COMMENT r in
  let r' := if is_comment then r else trim (strip_hash r) in
  match r' with
  | [] => None
  | _ => match (if is_comment then split_first_ws r' else split_ws r') with
         | f :: fs => Some (mkEline n f fs)
         | [] => None
         end
  end.

Fixpoint filter_map {A B} (f : A -> option B) (l : list A) : list B :=
  match l with
  | [] => []
  | x :: l' => match f x with Some y => y :: filter_map f l' | None => filter_map f l' end
  end.

Definition elines (text : str) : list eline := filter_map enigma_line (split_lines text).

(* ------------------------------------------------------------------------------------------ *)
(* reader *)

Definition is_modifier (s : str) : bool := starts_with s_ACC s.

Fixpoint join_sp (l : list str) : str :=
  match l with
  | [] => []
  | [x] => x
  | x :: l' => x ++ cSP :: join_sp l'
  end.

(* insert_comment *)
Definition ins_comment (doc : option str) (l : eline) : option str :=
  let s := join_sp (el_fields l) in
  match doc with Some d => Some (d ++ cLF :: s) | None => Some s end.

(* `usize::from_str`: optional `+`, at least one ASCII digit, value below 2^64 *)
Definition is_digit (c : N) : bool := N.leb 48 c && N.leb c 57.
Fixpoint digits_val (s : str) (acc : N) : option N :=
  match s with
  | [] => Some acc
  | c :: s' => if is_digit c then digits_val s' (acc * 10 + (c - 48)) else None
  end.
Definition usize_bound : N := 18446744073709551616.
Definition parse_usize (s : str) : res N :=
  let s' := match s with c :: r => if N.eqb c 43 then r else s | [] => s end in
  match s' with
  | [] => Err
  | _ => match digits_val s' 0 with
         | Some n => if N.ltb n usize_bound then Ok n else Err
         | None => Err
         end
  end.

(* the slice patterns of CLASS / FIELD / METHOD lines *)
Definition pat_class (fs : list str) : res (str * option str) :=
  match fs with
  | [src] => Ok (src, None)
  | [src; x] => if is_modifier x then Ok (src, None) else Ok (src, Some x)
  | [src; dst; _] => Ok (src, Some dst)
  | _ => Err
  end.
Definition pat_named (fs : list str) : res (str * option str * str) :=
  match fs with
  | [src; desc] => Ok (src, None, desc)
  | [src; x; y] => if is_modifier y then Ok (src, None, x) else Ok (src, Some x, y)
  | [src; dst; desc; _] => Ok (src, Some dst, desc)
  | _ => Err
  end.

Definition opt_valid (v : str -> bool) (o : option str) : bool :=
  match o with Some s => v s | None => true end.

(* first-namespace names of nodes as the writer and `add_child` see them *)
Definition src_of (l : names) : str := match l with Some k :: _ => k | _ => [] end.
Definition dst_of (l : names) : option str := nth 1 l None.
Definition cls_key (c : class) : str := src_of (c_names c).
Definition cls_dst (c : class) : option str := dst_of (c_names c).

Definition has_key (M : list class) (k : str) : bool := existsb (fun c => str_eqb (cls_key c) k) M.
Definition has_field (fs : list field) (n d : str) : bool :=
  existsb (fun f => str_eqb (src_of (f_names f)) n && str_eqb (f_desc f) d) fs.
Definition has_meth (ms : list meth) (n d : str) : bool :=
  existsb (fun m => str_eqb (src_of (m_names m)) n && str_eqb (m_desc m) d) ms.
Definition has_param (ps : list param) (i : N) : bool := existsb (fun p => N.eqb (p_index p) i) ps.

Definition add_field (c : class) (f : field) : class :=
  mkClass (c_names c) (c_doc c) (c_fields c ++ [f]) (c_methods c).
Definition add_meth (c : class) (m : meth) : class :=
  mkClass (c_names c) (c_doc c) (c_fields c) (c_methods c ++ [m]).
Definition set_cdoc (c : class) (d : option str) : class :=
  mkClass (c_names c) d (c_fields c) (c_methods c).
Definition add_param (m : meth) (p : param) : meth :=
  mkMeth (m_desc m) (m_names m) (m_doc m) (m_params m ++ [p]).
Definition set_mdoc (m : meth) (d : option str) : meth :=
  mkMeth (m_desc m) (m_names m) d (m_params m).

(* `next_level().on_every_line` whose closure only accepts COMMENT (below FIELD and ARG).
   [d] is the depth of the loop: a shallower line ends it, a deeper one is the indentation error. *)
Fixpoint comments_loop (d : nat) (doc : option str) (ls : list eline) : res (option str * list eline) :=
  match ls with
  | [] => Ok (doc, [])
  | l :: ls' =>
      match Nat.compare (el_ind l) d with
      | Lt => Ok (doc, ls)
      | Gt => Err
      | Eq => if str_eqb (el_first l) s_COMMENT then comments_loop d (ins_comment doc l) ls' else Err
      end
  end.

(* the loop below METHOD *)
Fixpoint method_loop (fuel : nat) (d : nat) (m : meth) (ls : list eline) : res (meth * list eline) :=
  match fuel with
  | O => Err
  | S f =>
      match ls with
      | [] => Ok (m, [])
      | l :: ls' =>
          match Nat.compare (el_ind l) d with
          | Lt => Ok (m, ls)
          | Gt => Err
          | Eq =>
              if str_eqb (el_first l) s_ARG then
                match el_fields l with
                | [ri; dst] =>
                    do idx <- parse_usize ri;
                    if negb (is_valid_unqualified_name dst) then Err
                    else if has_param (m_params m) idx then Err
                    else
                      do dr <- comments_loop (S d) None ls';
                      method_loop f d (add_param m (mkParam idx [None; Some dst] (fst dr))) (snd dr)
                | _ => Err
                end
              else if str_eqb (el_first l) s_COMMENT then
                method_loop f d (set_mdoc m (ins_comment (m_doc m) l)) ls'
              else Err
          end
      end
  end.

Definition loop_t : Type :=
  nat -> str -> str -> class -> list class -> list eline -> res (class * list class * list eline).

(* MAX_CLASS_NESTING (reader only): a CLASS line deeper than this is an error *)
Definition max_class_nesting : nat := 64.

(* `parse_class`: [d] is the depth of the CLASS line, [par] the (src, dst-or-src) of the class it
   is nested in; [loop] reads the lines below it; the class is added after its sub-sections *)
Definition parse_class_with (loop : loop_t) (d : nat) (par : option (str * str)) (l : eline)
    (acc : list class) (ls' : list eline) : res (list class * list eline) :=
  if Nat.ltb max_class_nesting d then Err else
  do sd <- pat_class (el_fields l);
  let src := match par with Some (ps, _) => ps ++ cDOLLAR :: fst sd | None => fst sd end in
  let dst := match par with
             | Some (_, pd) => option_map (fun x => pd ++ cDOLLAR :: x) (snd sd)
             | None => snd sd
             end in
  if negb (is_valid_obj_class_name src && opt_valid is_valid_obj_class_name dst) then Err
  else
    do r <- loop (S d) src (match dst with Some x => x | None => src end)
              (mkClass [Some src; dst] None [] []) acc ls';
    let c := fst (fst r) in
    let acc' := snd (fst r) in
    if has_key acc' src then Err else Ok (acc' ++ [c], snd r).

(* the loop below CLASS; [psrc]/[pdst] are the names nested classes are prefixed with *)
Fixpoint class_loop (fuel : nat) (d : nat) (psrc pdst : str) (cur : class) (acc : list class)
    (ls : list eline) : res (class * list class * list eline) :=
  match fuel with
  | O => Err
  | S f =>
      match ls with
      | [] => Ok (cur, acc, [])
      | l :: ls' =>
          match Nat.compare (el_ind l) d with
          | Lt => Ok (cur, acc, ls)
          | Gt => Err
          | Eq =>
              let t := el_first l in
              if str_eqb t s_CLASS then
                do r <- parse_class_with (class_loop f) d (Some (psrc, pdst)) l acc ls';
                class_loop f d psrc pdst cur (fst r) (snd r)
              else if str_eqb t s_FIELD then
                do x <- pat_named (el_fields l);
                let src := fst (fst x) in
                let dst := snd (fst x) in
                let desc := snd x in
                if negb (is_valid_unqualified_name src && opt_valid is_valid_unqualified_name dst) then Err
                else if has_field (c_fields cur) src desc then Err
                else
                  do dr <- comments_loop (S d) None ls';
                  class_loop f d psrc pdst (add_field cur (mkField desc [Some src; dst] (fst dr))) acc (snd dr)
              else if str_eqb t s_METHOD then
                do x <- pat_named (el_fields l);
                let src := fst (fst x) in
                let dst := snd (fst x) in
                let desc := snd x in
                if negb (is_valid_method_name src && opt_valid is_valid_method_name dst) then Err
                else if has_meth (c_methods cur) src desc then Err
                else
                  do mr <- method_loop f (S d) (mkMeth desc [Some src; dst] None []) ls';
                  class_loop f d psrc pdst (add_meth cur (fst mr)) acc (snd mr)
              else if str_eqb t s_COMMENT then
                class_loop f d psrc pdst (set_cdoc cur (ins_comment (c_doc cur) l)) acc ls'
              else Err
          end
      end
  end.

(* the outermost loop: only CLASS at depth 0 *)
Fixpoint root_loop (fuel : nat) (acc : list class) (ls : list eline) : res (list class) :=
  match fuel with
  | O => Err
  | S f =>
      match ls with
      | [] => Ok acc
      | l :: ls' =>
          match el_ind l with
          | O =>
              if str_eqb (el_first l) s_CLASS then
                do r <- parse_class_with (class_loop f) 0 None l acc ls';
                root_loop f (fst r) (snd r)
              else Err
          | S _ => Err
          end
      end
  end.

(* `read_into`: appends to the classes already there; the result lists classes in IndexMap order *)
Definition read_into (acc : list class) (text : str) : res (list class) :=
  let ls := elines text in root_loop (S (length ls)) acc ls.
Definition read_all (text : str) : res (list class) := read_into [] text.

(* ------------------------------------------------------------------------------------------ *)
(* writer *)

(* JavaStr::as_str fails on surrogate code points.  figure_out_files turns that into an error for
   file names; the `write!` calls of write_class panic instead ("a formatting trait implementation
   returned an error"), which the model does not describe: names with surrogates below file-name
   level are outside the modelled domain (the harness records the panic and emits no case). *)
Definition scalar (s : str) : bool := forallb (fun c => negb (N.leb 55296 c && N.leb c 57343)) s.

Definition tabs (n : nat) : str := repeat cTAB n.

(* decimal Display of usize *)
Fixpoint dec_aux (fuel : nat) (n : N) (acc : str) : str :=
  match fuel with
  | O => acc
  | S f => let acc' := (48 + N.modulo n 10) :: acc in
           if N.ltb n 10 then acc' else dec_aux f (N.div n 10) acc'
  end.
(* a usize has at most 20 decimal digits *)
Definition dec (n : N) : str := dec_aux 20 n [].

Definition comment_lines (ind : nat) (doc : option str) : list str :=
  match doc with
  | None => []
  | Some d => map (fun l => tabs ind ++ s_COMMENT ++ cSP :: l) (split_on cLF d)
  end.

(* write_comment: a line of a comment (a `split('\n')` part) that ends with a carriage return is an error of
   the writer — the reader would take the CR for a part of the line break (same fix) *)
Fixpoint ends_cr (l : str) : bool :=
  match l with
  | [] => false
  | c :: l' => match l' with [] => N.eqb c cCR | _ => ends_cr l' end
  end.
Definition doc_writable (doc : option str) : bool :=
  match doc with
  | None => true
  | Some d => forallb (fun l => negb (ends_cr l)) (split_on cLF d)
  end.
Definition meth_docs_writable (m : meth) : bool :=
  doc_writable (m_doc m) && forallb (fun p => doc_writable (p_doc p)) (m_params m).
Definition class_docs_writable (c : class) : bool :=
  doc_writable (c_doc c) && forallb (fun f => doc_writable (f_doc f)) (c_fields c)
  && forallb meth_docs_writable (c_methods c).

(* the comparators of the three sorts in write_class *)
Definition field_wleb (a b : field) : bool :=
  is_le (lex (names_cmp (f_names a) (f_names b)) (str_cmp (f_desc a) (f_desc b))).
Definition meth_wleb (a b : meth) : bool :=
  is_le (lex (names_cmp (m_names a) (m_names b)) (str_cmp (m_desc a) (m_desc b))).
Definition param_wleb (a b : param) : bool := is_le (param_cmp a b).

Fixpoint map_res {A B} (f : A -> res B) (l : list A) : res (list B) :=
  match l with
  | [] => Ok []
  | x :: l' => do y <- f x; do ys <- map_res f l'; Ok (y :: ys)
  end.

Definition member_line (ind : nat) (tag : str) (src : str) (dst : option str) (desc : str) : str :=
  tabs ind ++ tag ++ cSP :: src ++ (match dst with Some d => cSP :: d | None => [] end) ++ cSP :: desc.

Definition write_field (ind : nat) (f : field) : list str :=
  member_line ind s_FIELD (src_of (f_names f)) (dst_of (f_names f)) (f_desc f)
    :: comment_lines (S ind) (f_doc f).

Definition write_param (ind : nat) (p : param) : res (list str) :=
  match dst_of (p_names p) with
  | None => Err
  | Some d => Ok ((tabs ind ++ s_ARG ++ cSP :: dec (p_index p) ++ cSP :: d) :: comment_lines (S ind) (p_doc p))
  end.

Definition meth_dst (m : meth) : option str :=
  match dst_of (m_names m) with
  | Some d => if str_eqb d s_init then None else Some d
  | None => None
  end.

Definition write_meth (ind : nat) (m : meth) : res (list str) :=
  do ps <- map_res (write_param (S ind)) (isort param_wleb (m_params m));
  Ok (member_line ind s_METHOD (src_of (m_names m)) (meth_dst m) (m_desc m)
        :: comment_lines (S ind) (m_doc m) ++ concat ps).

Definition short_name (nested : bool) (s : str) : str :=
  if nested then match split_inner s with Some (_, i) => i | None => s end else s.

Definition class_line (ind : nat) (src : str) (dst : option str) : str :=
  tabs ind ++ s_CLASS ++ cSP :: src ++ (match dst with Some d => cSP :: d | None => [] end).

(* the lines of a class whose comments can all be written *)
Definition write_class_lines (c : class) (ind : nat) : res (list str) :=
  let nested := negb (Nat.eqb ind 0) in
  do ml <- map_res (write_meth (S ind)) (isort meth_wleb (c_methods c));
  Ok (class_line ind (short_name nested (cls_key c)) (option_map (short_name nested) (cls_dst c))
        :: comment_lines (S ind) (c_doc c)
        ++ flat_map (write_field (S ind)) (isort field_wleb (c_fields c))
        ++ concat ml).

(* write_class fails when write_comment refuses a comment of the class, of a field, a method or a
   parameter (the model does not say which of several errors comes first: an error is an error) *)
Definition write_class (c : class) (ind : nat) : res (list str) :=
  if class_docs_writable c then write_class_lines c ind else Err.

(* figure_out_files *)
Definition parent_in (M : list class) (c : class) : option str :=
  match split_inner (cls_key c) with
  | Some (p, _) => if has_key M p then Some p else None
  | None => None
  end.
Definition is_root (M : list class) (c : class) : bool :=
  match parent_in M c with Some _ => false | None => true end.
Definition file_name (c : class) : str :=
  match cls_dst c with Some d => d | None => cls_key c end.

Definition key_leb (a b : class) : bool := is_le (str_cmp (cls_key a) (cls_key b)).
Definition kids (M : list class) (c : class) : list class :=
  isort key_leb (filter (fun x => match parent_in M x with Some p => str_eqb p (cls_key c) | None => false end) M).

Definition file_leb (a b : str * class) : bool := is_le (str_cmp (fst a) (fst b)).

(* the sorted file map; Err: a file name with surrogates, or (after the fix) one used twice *)
Definition files (M : list class) : res (list (str * class)) :=
  let roots := filter (is_root M) M in
  let named := map (fun c => (file_name c, c)) roots in
  if negb (forallb (fun nc => scalar (fst nc)) named) then Err
  else if negb (nodupb str_eqb (map fst named)) then Err
  else Ok (isort file_leb named).

(* write_one_tree_starting_at: the deque is a list, popped at the front, children pushed to the front *)
Fixpoint tree_loop (fuel : nat) (M : list class) (q : list (class * nat)) : res (list (class * nat)) :=
  match fuel with
  | O => Err
  | S f =>
      match q with
      | [] => Ok []
      | (c, d) :: q' =>
          do rest <- tree_loop f M (map (fun ch => (ch, S d)) (kids M c) ++ q');
          Ok ((c, d) :: rest)
      end
  end.

Definition tree_nodes (M : list class) (root : class) : res (list (class * nat)) :=
  tree_loop (S (length M)) M [(root, O)].

Definition unlines (ls : list str) : str := flat_map (fun l => l ++ [cLF]) ls.

Definition write_nodes (nodes : list (class * nat)) : res str :=
  do ls <- map_res (fun cd => write_class (fst cd) (snd cd)) nodes;
  Ok (unlines (concat ls)).

Definition write_tree (M : list class) (root : class) : res str :=
  do nodes <- tree_nodes M root; write_nodes nodes.

(* `writeln!(w, "#\n# {file_name}")` *)
Definition header (fname : str) : str := [cHASH; cLF; cHASH; cSP] ++ fname ++ [cLF].

Definition write_all (M : list class) : res str :=
  do fs <- files M;
  do parts <- map_res (fun nc => do body <- write_tree M (snd nc); Ok (header (fst nc) ++ body)) fs;
  Ok (concat parts).

Fixpoint assoc_str {A} (k : str) (l : list (str * A)) : option A :=
  match l with
  | [] => None
  | (k', v) :: l' => if str_eqb k k' then Some v else assoc_str k l'
  end.

Definition write_one (M : list class) (name : str) : res str :=
  do fs <- files M;
  match assoc_str name fs with
  | Some root => write_tree M root
  | None => Err
  end.

(* ------------------------------------------------------------------------------------------ *)
(* enigma_dir: a directory is a finite map from relative paths (components joined by `/`) to
   file contents *)

Definition dir := list (str * str).

(* the checks of the `make_writer` closure of enigma_dir::write *)
Definition dir_name_ok (fname : str) : bool :=
  negb (mem_N cDOT fname) && negb (starts_with [cSLASH] fname).

(* what the file system itself refuses (Linux; `create_dir_all` / `File::create` return an error):
   a NUL character in the name, and a path component longer than NAME_MAX = 255 bytes of UTF-8 —
   the last component is the file name, 8 bytes longer than the class name's (`.mapping`).
   PATH_MAX (4096 bytes for the whole path, target directory included) is not modelled. *)
Definition utf8_width (c : N) : N :=
  if N.ltb c 128 then 1 else if N.ltb c 2048 then 2 else if N.ltb c 65536 then 3 else 4.
Fixpoint utf8_len (s : str) : N := match s with [] => 0 | c :: s' => utf8_width c + utf8_len s' end.
Definition name_max : N := 255.
Fixpoint comps_fit (cs : list str) : bool :=
  match cs with
  | [] => true
  | [c] => N.leb (utf8_len c + 8) name_max
  | c :: cs' => N.leb (utf8_len c) name_max && comps_fit cs'
  end.
Definition fs_name_ok (fname : str) : bool :=
  negb (mem_N 0 fname) && comps_fit (split_on cSLASH fname).

Definition write_dir (M : list class) : res dir :=
  do fs <- files M;
  map_res (fun nc =>
             if dir_name_ok (fst nc) && fs_name_ok (fst nc) then
               do body <- write_tree M (snd nc); Ok (fst nc ++ s_dot_mapping, body)
             else Err) fs.

(* Path::extension of the last component *)
Definition extension (path : str) : option str :=
  let name := get_simple_name path in
  match rsplit_once cDOT name with
  | Some (stem, ext) => if is_nil stem then None else Some ext
  | None => None
  end.
Definition is_mapping_file (path : str) : bool :=
  match extension path with Some e => str_eqb e s_mapping | None => false end.

(* WalkDir::sort_by_file_name: depth first, the entries of every directory by name: paths compared
   component by component *)
Fixpoint comps_cmp (a b : list str) : comparison :=
  match a, b with
  | [], [] => Eq | [], _ :: _ => Lt | _ :: _, [] => Gt
  | x :: a', y :: b' => match str_cmp x y with Eq => comps_cmp a' b' | c => c end
  end.
Definition path_leb (a b : str * str) : bool :=
  is_le (comps_cmp (split_on cSLASH (fst a)) (split_on cSLASH (fst b))).

Fixpoint read_files (acc : list class) (fs : list (str * str)) : res (list class) :=
  match fs with
  | [] => Ok acc
  | (_, content) :: fs' => do acc' <- read_into acc content; read_files acc' fs'
  end.

Definition read_dir (d : dir) : res (list class) :=
  read_files [] (isort path_leb (filter (fun pc => is_mapping_file (fst pc)) d)).

(* what `enigma_dir::read` is pointed at: nothing (an error), a plain file (WalkDir yields just that
   file: it is read when its extension is `mapping`, otherwise the result is empty), or a directory *)
Inductive fs_node := NoSuchPath | PlainFile (name content : str) | Directory (d : dir).
Definition read_path (p : fs_node) : res (list class) :=
  match p with
  | NoSuchPath => Err
  | PlainFile name content => read_dir [(name, content)]
  | Directory d => read_dir d
  end.

(* `BufRead::lines` on bytes: a line that is not UTF-8 is an error of the whole read.  Strict UTF-8:
   shortest form only, no surrogates, at most U+10FFFF. *)
Definition is_cont (b : N) : bool := N.leb 128 b && N.leb b 191.
Fixpoint utf8_decode (fuel : nat) (bs : list N) : option str :=
  match fuel with
  | O => None
  | S f =>
      match bs with
      | [] => Some []
      | b0 :: r0 =>
          if N.ltb b0 128 then option_map (cons b0) (utf8_decode f r0)
          else if N.leb 194 b0 && N.leb b0 223 then
            match r0 with
            | b1 :: r1 => if is_cont b1 then option_map (cons ((b0 - 192) * 64 + (b1 - 128))) (utf8_decode f r1) else None
            | _ => None
            end
          else if N.leb 224 b0 && N.leb b0 239 then
            match r0 with
            | b1 :: b2 :: r2 =>
                let cp := (b0 - 224) * 4096 + (b1 - 128) * 64 + (b2 - 128) in
                if is_cont b1 && is_cont b2 && N.leb 2048 cp && negb (N.leb 55296 cp && N.leb cp 57343)
                then option_map (cons cp) (utf8_decode f r2) else None
            | _ => None
            end
          else if N.leb 240 b0 && N.leb b0 244 then
            match r0 with
            | b1 :: b2 :: b3 :: r3 =>
                let cp := (b0 - 240) * 262144 + (b1 - 128) * 4096 + (b2 - 128) * 64 + (b3 - 128) in
                if is_cont b1 && is_cont b2 && is_cont b3 && N.leb 65536 cp && N.leb cp 1114111
                then option_map (cons cp) (utf8_decode f r3) else None
            | _ => None
            end
          else None
      end
  end.
Definition read_bytes (acc : list class) (bs : list N) : res (list class) :=
  match utf8_decode (S (length bs)) bs with
  | Some text => read_into acc text
  | None => Err
  end.
