(* C12 theory, part 4: every class lands in exactly one file, at the depth of its chain of
   present ancestors (stated on the functions of the model: files, tree_nodes). *)
From FB Require Import C12.Model C12.TheoryTree C12.TheoryOrd C12.TheoryDet.
From Coq Require Import Lia Permutation.

(* the (class, indentation) pairs write_one_tree_starting_at visits, per file *)
Definition file_nodes (M : list class) (fs : list (str * class)) : res (list (list (class * nat))) :=
  map_res (fun nc => tree_nodes M (snd nc)) fs.

Lemma files_roots M fs : files M = Ok fs -> Permutation (map snd fs) (roots M).
Proof.
  rewrite files_unfold. destruct (negb _); [discriminate|]. destruct (negb _); [discriminate|].
  intros [= <-]. etransitivity; [apply Permutation_map; apply isort_perm|].
  unfold named. rewrite map_map. cbn [snd]. rewrite map_id. reflexivity.
Qed.

Lemma file_nodes_forest M fs : keys_nodup M -> files M = Ok fs ->
  file_nodes M fs = Ok (map (fun nc => T (bound M) M (snd nc) 0) fs).
Proof.
  intros HM Hf. unfold file_nodes.
  assert (Hin : forall nc, In nc fs -> In (snd nc) M) by (intros nc H; exact (proj1 (files_in M fs nc Hf H))).
  clear Hf. induction fs as [|nc fs IH]; cbn [map_res map]; [reflexivity|].
  rewrite (tree_nodes_T M (snd nc) HM) by (apply Hin; left; reflexivity). cbn [bind].
  rewrite IH by (intros x Hx; apply Hin; right; exact Hx). reflexivity.
Qed.

Lemma concat_forest M fs : concat (map (fun nc : str * class => T (bound M) M (snd nc) 0) fs) = forest M (map snd fs).
Proof. unfold forest. rewrite flat_map_concat_map, map_map. reflexivity. Qed.

Theorem one_file M fs : keys_nodup M -> files M = Ok fs ->
  exists nodes, file_nodes M fs = Ok nodes /\ Permutation M (map fst (concat nodes)).
Proof.
  intros HM Hf. eexists. split; [apply file_nodes_forest; assumption|].
  rewrite concat_forest. etransitivity; [apply forest_perm; exact HM|].
  apply Permutation_map. unfold forest. apply Permutation_flat_map. symmetry. apply files_roots. exact Hf.
Qed.

Lemma Ok_inj {A} (a b : A) : Ok a = Ok b -> a = b.
Proof. congruence. Qed.

Theorem nesting_mirrors M fs nodes x dx : keys_nodup M -> files M = Ok fs -> file_nodes M fs = Ok nodes ->
  In (x, dx) (concat nodes) -> dx = chain_depth M (cls_key x).
Proof.
  intros HM Hf Hn Hin. rewrite (file_nodes_forest M fs HM Hf) in Hn. apply Ok_inj in Hn. subst nodes.
  rewrite concat_forest in Hin. apply (forest_depth M).
  unfold forest in *. apply in_flat_map in Hin as (r & Hr & Hin). apply in_flat_map. exists r. split; [|exact Hin].
  eapply Permutation_in; [apply files_roots; exact Hf|exact Hr].
Qed.

(* the text of a class starts with its CLASS line at that indentation *)
Lemma write_class_head c d ls : write_class c d = Ok ls ->
  exists rest, ls = (tabs d ++ s_CLASS ++ cSP :: short_name (negb (Nat.eqb d 0)) (cls_key c)
                       ++ (match option_map (short_name (negb (Nat.eqb d 0))) (cls_dst c) with Some t => cSP :: t | None => [] end)) :: rest.
Proof.
  intros H. apply write_class_ok in H as [H _]. revert H.
  unfold write_class_lines. destruct (map_res _ _); cbn [bind]; [|discriminate]. intros [= <-]. eexists. reflexivity.
Qed.

(* when figure_out_files succeeds (after the fix: two parent-free classes with one file name are refused) *)
Theorem files_ok_iff M : (exists fs, files M = Ok fs) <->
  forallb (fun c => scalar (file_name c)) (roots M) = true /\ NoDup (map file_name (roots M)).
Proof.
  rewrite files_unfold. unfold named.
  assert (E1 : forallb (fun nc : str * class => scalar (fst nc)) (map (fun c => (file_name c, c)) (roots M))
               = forallb (fun c => scalar (file_name c)) (roots M)).
  { induction (roots M) as [|c l IH]; cbn [map forallb fst]; [reflexivity|]. rewrite IH. reflexivity. }
  assert (E2 : map fst (map (fun c => (file_name c, c)) (roots M)) = map file_name (roots M)).
  { rewrite map_map. reflexivity. }
  rewrite E1, E2. destruct (forallb (fun c => scalar (file_name c)) (roots M)); cbn [negb].
  - destruct (nodupb str_eqb (map file_name (roots M))) eqn:En; cbn [negb].
    + split; [intros _; split; [reflexivity|apply nodupb_str_NoDup; exact En]|intros _; eexists; reflexivity].
    + split; [intros (fs & H); discriminate|]. intros [_ Hn]. apply nodupb_str_NoDup in Hn. congruence.
  - split; [intros (fs & H); discriminate|intros [H _]; discriminate].
Qed.
