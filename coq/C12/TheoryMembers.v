(* C12 theory, part 3b: "output is sorted" below file level.  Whatever the insertion order, the
   text of a class is its CLASS line, its comment, the FIELD sections of its fields sorted by
   (names row, descriptor), then the METHOD sections of its methods sorted the same way, each
   with the ARG sections of its parameters sorted by (index, names row); and the classes
   written inside a class come sorted by source name. *)
From FB Require Import C12.Model C12.TheoryTree C12.TheoryOrd.
From Coq Require Import Permutation Sorted.

(* [l] is the sorted arrangement of [l0] *)
Definition sorted_of {A} (leb : A -> A -> bool) (l l0 : list A) : Prop :=
  Permutation l l0 /\ Sorted (fun a b => leb a b = true) l.

Lemma isort_sorted_of {A K} (cmp : K -> K -> comparison) (pr : A -> K) (l : list A) :
  cmp_spec cmp -> sorted_of (proj_leb cmp pr) (isort (proj_leb cmp pr) l) l.
Proof.
  intros Hc. split; [apply isort_perm|].
  apply (isort_sorted (proj_leb cmp pr) (fun _ => True)); [apply proj_total; exact Hc|].
  apply Forall_forall. auto.
Qed.

Lemma map_res_Forall2 {A B} (f : A -> res B) l : forall ys, map_res f l = Ok ys -> Forall2 (fun x y => f x = Ok y) l ys.
Proof.
  induction l as [|x l IH]; cbn [map_res]; intros ys H.
  - injection H as <-. constructor.
  - destruct (f x) as [y|] eqn:Ef; [|discriminate]. cbn [bind] in H.
    destruct (map_res f l) as [ys'|]; [|discriminate]. cbn [bind] in H. injection H as <-.
    constructor; [exact Ef|apply IH; reflexivity].
Qed.

(* the text of one method section, given its parameters in the order they are written *)
Definition meth_text (ind : nat) (m : meth) (ps : list param) (pls : list (list str)) (ml : list str) : Prop :=
  sorted_of param_wleb ps (m_params m)
  /\ Forall2 (fun p pl => write_param (S ind) p = Ok pl) ps pls
  /\ ml = member_line ind s_METHOD (src_of (m_names m)) (meth_dst m) (m_desc m)
            :: comment_lines (S ind) (m_doc m) ++ concat pls.

Lemma write_meth_sorted ind m ml : write_meth ind m = Ok ml -> exists ps pls, meth_text ind m ps pls ml.
Proof.
  unfold write_meth. intros H.
  destruct (map_res (write_param (S ind)) (isort param_wleb (m_params m))) as [pls|] eqn:E; [|discriminate].
  cbn [bind] in H. injection H as <-.
  exists (isort param_wleb (m_params m)), pls. split; [|split; [apply map_res_Forall2; exact E|reflexivity]].
  rewrite param_wleb_proj. apply isort_sorted_of. exact cmp_spec_in.
Qed.

Theorem members_sorted c ind ls : write_class c ind = Ok ls ->
  exists fs ms mls,
    sorted_of field_wleb fs (c_fields c)
    /\ sorted_of meth_wleb ms (c_methods c)
    /\ Forall2 (fun m ml => exists ps pls, meth_text (S ind) m ps pls ml) ms mls
    /\ ls = class_line ind (short_name (negb (Nat.eqb ind 0)) (cls_key c))
                      (option_map (short_name (negb (Nat.eqb ind 0))) (cls_dst c))
              :: comment_lines (S ind) (c_doc c) ++ flat_map (write_field (S ind)) fs ++ concat mls.
Proof.
  intros H. apply write_class_ok in H as [H _]. unfold write_class_lines in H.
  destruct (map_res (write_meth (S ind)) (isort meth_wleb (c_methods c))) as [mls|] eqn:E; [|discriminate].
  cbn [bind] in H. injection H as <-.
  exists (isort field_wleb (c_fields c)), (isort meth_wleb (c_methods c)), mls.
  split; [rewrite field_wleb_proj; apply isort_sorted_of; exact cmp_spec_nd|].
  split; [rewrite meth_wleb_proj; apply isort_sorted_of; exact cmp_spec_nd|].
  split; [|reflexivity].
  apply map_res_Forall2 in E. induction E as [|m ml ms' mls' Hm _ IH]; constructor; [|exact IH].
  apply write_meth_sorted. exact Hm.
Qed.

(* the classes written inside a class (one indentation deeper, directly after it) are those whose
   parent it is, sorted by source name *)
Theorem kids_sorted M c :
  sorted_of key_leb (kids M c)
    (filter (fun x => match parent_in M x with Some p => str_eqb p (cls_key c) | None => false end) M).
Proof. unfold kids. rewrite key_leb_proj. apply isort_sorted_of. exact cmp_spec_str. Qed.
