(* C12 theory, part 11: non-vacuity.  A concrete mapping set with a nested class, an inner
   class whose outer class is absent, a class without target name, a constructor, a static initialiser and
   an identity-mapped method (both keep their target names), a parameter with a comment, comments with blank lines, leading spaces and `#`, packages: it satisfies the
   hypotheses of every theorem, and the round trip is computed on it. *)
From FB Require Import C12.Model C12.ModelForest C12.TheoryTree C12.TheoryLines C12.TheoryDet C12.TheoryRT C12.TheoryExact C12.TheoryDir.

Definition ex_classes : list class :=
  [ mkClass [Some [97; 47; 65]; Some [98; 47; 66]] (Some [104; 105; 10; 10; 32; 32; 35; 32; 120])   (* a/A -> b/B, "hi\n\n  # x" *)
      [mkField [73] [Some [102]; Some [103]] (Some [102; 100; 10]);                                   (* comment "fd\n": ends in a line break *)
       mkField [74] [Some [102]; None] None]
      [mkMeth [40; 73; 41; 86] [Some s_init; Some s_init] None
         [mkParam 1 [None; Some [112]] (Some [100; 10; 101]);
          mkParam 2 [None; Some [113]] (Some []);                                                    (* the empty comment on a parameter *)
          mkParam 3 [None; Some [114]] (Some [10; 10])];                                             (* nothing but two line breaks *)
       mkMeth [40; 41; 86] [Some [109]; Some [110]] (Some [35]) [];
       mkMeth [40; 41; 86] [Some s_clinit; Some s_clinit] (Some [10]) [];      (* <clinit> -> <clinit>: keeps its target; comment "\n" *)
       mkMeth [40; 41; 73] [Some [109]; Some [109]] None []];                  (* m -> m, identity-mapped *)
    mkClass [Some [97; 47; 65; 36; 67]; Some [98; 47; 66; 36; 68]] None [] [];                        (* a/A$C -> b/B$D *)
    mkClass [Some [97; 47; 65; 36; 67; 36; 49]; None] (Some []) [] [];                               (* a/A$C$1, no target, empty comment *)
    mkClass [Some [88; 36; 89]; Some [90; 36; 87]] None [] [];                                       (* X$Y -> Z$W, X absent *)
    mkClass [Some [81]; Some [81; 100]] None [] [];                                                  (* Q -> Qd *)
    mkClass [Some [81; 36; 82; 36; 83]; Some [102; 97; 114; 47; 65; 119; 97; 121]] (Some [120; 10]) [] [] ].  (* Q$R$S -> far/Away: Q$R absent, Q present *)

Definition ex_QRS : class := mkClass [Some [81; 36; 82; 36; 83]; Some [102; 97; 114; 47; 65; 119; 97; 121]] (Some [120; 10]) [] [].

Definition nonvacuous : Prop :=
  enigma_okb ex_classes = true /\ dir_okb ex_classes = true /\ keys_ok ex_classes
  /\ (match write_all ex_classes with
      | Ok t => match read_all t with
                | Ok r => equivb (mkMappings [] None r) (mkMappings [] None (enigma_norm ex_classes)) = true
                          /\ enigma_norm ex_classes <> ex_classes
                | Err => False
                end
      | Err => False
      end)
  /\ chain_depth ex_classes [97; 47; 65; 36; 67; 36; 49] = 2%nat
  /\ chain_depth ex_classes [88; 36; 89] = 0%nat
  (* the class two levels below Q whose direct outer class Q$R is absent: own file, depth 0, full names *)
  /\ chain_depth ex_classes [81; 36; 82; 36; 83] = 0%nat
  /\ parent_in ex_classes ex_QRS = None
  /\ write_one ex_classes [102; 97; 114; 47; 65; 119; 97; 121]
       = Ok (class_line 0 [81; 36; 82; 36; 83] (Some [102; 97; 114; 47; 65; 119; 97; 121]) ++ [cLF]
             ++ (cTAB :: s_COMMENT ++ [cSP; 120; cLF]) ++ (cTAB :: s_COMMENT ++ [cSP; cLF])).

(* texts for the reader theorems *)
Definition t_nested : str :=   (* CLASS A B / \tCLASS C / \t\tFIELD x I / \tFIELD y J / CLASS D *)
  s_CLASS ++ [32; 65; 32; 66; 10; 9] ++ s_CLASS ++ [32; 67; 10; 9; 9] ++ s_FIELD ++ [32; 120; 32; 73; 10; 9]
  ++ s_FIELD ++ [32; 121; 32; 74; 10] ++ s_CLASS ++ [32; 68; 10].
Definition t_dup : str := s_CLASS ++ [32; 65; 10] ++ s_CLASS ++ [32; 65; 10].                 (* CLASS A twice *)
Definition t_dup_nested : str :=                                                             (* CLASS A / \tCLASS B / CLASS A$B *)
  s_CLASS ++ [32; 65; 10; 9] ++ s_CLASS ++ [32; 66; 10] ++ s_CLASS ++ [32; 65; 36; 66; 10].
Definition t_jump : str := s_CLASS ++ [32; 65; 10; 9; 9] ++ s_FIELD ++ [32; 120; 32; 73; 10].  (* indentation jumps by two *)
Definition t_unknown : str := s_CLASS ++ [32; 65; 10; 9; 70; 79; 79; 32; 120; 10].           (* unknown tag FOO below CLASS *)

Definition long_name (n : nat) : str := repeat 120 n.

(* "  two  spaces<TAB>tab <VT><FF> cr<CR>mid <LF> <LF><TAB><LF>end " *)
Definition ex_ws_doc : str :=
  [32; 32; 116; 119; 111; 32; 32; 115; 112; 97; 99; 101; 115; 9; 116; 97; 98; 32; 11; 12; 32; 99; 114; 13; 109; 105; 100; 32; 10; 32; 10; 9; 10; 101; 110; 100; 32].

Definition nonvacuous2 : Prop :=
  (* the reader decodes structurally: the nested class comes first, under the joined names, members stay with their class *)
  read_all t_nested = Ok [ mkClass [Some [65; 36; 67]; None] None [mkField [73] [Some [120]; None] None] [];
                           mkClass [Some [65]; Some [66]] None [mkField [74] [Some [121]; None] None] [];
                           mkClass [Some [68]; None] None [] [] ]
  /\ (exists f, forest_of (elines t_nested) = Some f /\ shape_root f = true /\ depth_ok 0 f)
  /\ read_all t_dup = Err /\ read_all t_dup_nested = Err /\ read_all t_unknown = Err
  /\ forest_of (elines t_jump) = None /\ read_all t_jump = Err
  (* the file system's limits: a name of 247 bytes fits (with `.mapping` it is 255 bytes), 248 do not; NUL is refused;
     the stream writer is not concerned *)
  /\ fs_okb ex_classes = true
  /\ is_ok (write_dir [mkClass [Some (long_name 247); None] None [] []]) = true
  /\ write_dir [mkClass [Some (long_name 248); None] None [] []] = Err
  /\ is_ok (write_all [mkClass [Some (long_name 248); None] None [] []]) = true
  /\ write_dir [mkClass [Some [65; 0; 66]; None] None [] []] = Err
  (* path_inside tells paths apart *)
  /\ path_inside [97; 47; 98; 46; 109] = true /\ path_inside [46; 46; 47; 120] = false
  /\ path_inside [47; 97] = false /\ path_inside [97; 47; 46; 47; 98] = false
  (* a file name with `.` or a leading `/` (only through the unchecked constructors) is refused by the directory writer *)
  /\ write_dir [mkClass [Some [65]; Some [46; 46; 47; 120]] None [] []] = Err
  /\ write_dir [mkClass [Some [65]; Some [47; 116; 109; 112; 47; 120]] None [] []] = Err
  (* reading: a missing path, a single file, bytes that are not UTF-8 *)
  /\ read_path NoSuchPath = Err
  /\ read_path (PlainFile [120; 46; 109; 97; 112; 112; 105; 110; 103] t_dup) = Err
  /\ read_path (PlainFile [120; 46; 116; 120; 116] t_dup) = Ok []
  /\ read_bytes [] (s_CLASS ++ [32; 65; 10]) = Ok [mkClass [Some [65]; None] None [] []]
  /\ read_bytes [] (s_CLASS ++ [32; 195; 169; 10]) = Ok [mkClass [Some [233]; None] None [] []]
  /\ read_bytes [] (s_CLASS ++ [32; 65; 255; 10]) = Err
  /\ read_bytes [] (s_CLASS ++ [32; 237; 160; 128; 10]) = Err
  (* the key hypothesis of the duplicate theorems holds of the empty mappings and of the example set *)
  /\ strict_keys [] /\ keys_nodup ex_classes
  (* round 5 (fix "a comment keeps its tabs and spaces through the Enigma format"): a comment with a TAB, a VT, a FF, a CR inside
     a line, runs of spaces, leading and trailing spaces, only spaces, only a TAB is inside the hypothesis and comes back
     character for character *)
  /\ docb (Some ex_ws_doc) = true
  /\ (match write_all [mkClass [Some [65]; None] (Some ex_ws_doc) [mkField [73] [Some [102]; None] (Some [9])] []] with
      | Ok t => read_all t = Ok [mkClass [Some [65]; None] (Some ex_ws_doc) [mkField [73] [Some [102]; None] (Some [9])] []]
      | Err => False
      end)
  (* the one comment shape the format cannot store — a line ending in CR: `a<CR>`, `a<CR><LF>b` — is outside the hypothesis,
     and the writer refuses it (no silent loss) *)
  /\ docb (Some [97; 13]) = false /\ docb (Some [97; 13; 10; 98]) = false /\ docb (Some [97; 10; 13]) = false
  /\ write_all [mkClass [Some [65]; None] (Some [97; 13]) [] []] = Err
  /\ write_all [mkClass [Some [65]; None] None [] [mkMeth [40; 41; 86] [Some [109]; None] None [mkParam 0 [None; Some [112]] (Some [97; 13; 10; 98])]]] = Err
  /\ write_dir [mkClass [Some [65]; None] None [mkField [73] [Some [102]; None] (Some [13])] []] = Err.

Lemma nodup_dec_str (l : list (list N * list N)) : nodupb key2_eqb l = true -> NoDup l.
Proof. apply TheoryClass.nodupb_key2_NoDup. Qed.

Ltac nd := repeat (apply NoDup_cons; [cbn; intuition discriminate|]); apply NoDup_nil.

Lemma nonvacuous_holds : nonvacuous.
Proof.
  unfold nonvacuous. split; [vm_compute; reflexivity|]. split; [vm_compute; reflexivity|]. split.
  - split.
    + apply nodupb_str_NoDup. vm_compute. reflexivity.
    + repeat (apply Forall_cons;
        [split; [cbn; nd|split; [cbn; nd|repeat (apply Forall_cons; [unfold meth_keys_ok; cbn; nd|]); apply Forall_nil]]|]);
      apply Forall_nil.
  - split; [|repeat split; vm_compute; reflexivity]. vm_compute. split; [reflexivity|discriminate].
Qed.

Lemma nonvacuous2_holds : nonvacuous2.
Proof.
  unfold nonvacuous2. split; [vm_compute; reflexivity|]. split.
  - destruct (forest_of (elines t_nested)) as [f|] eqn:E; [|vm_compute in E; discriminate].
    exists f. split; [reflexivity|]. assert (E' := E). apply forest_of_sound in E' as (_ & D).
    split; [|exact D]. vm_compute in E. injection E as <-. reflexivity.
  - repeat split; try (vm_compute; reflexivity);
      try (match goal with |- keys_nodup [] => constructor | |- Forall _ [] => constructor end).
    apply nodupb_str_NoDup. vm_compute. reflexivity.
Qed.
