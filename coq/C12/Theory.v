(* C12 theory, part 11: non-vacuity.  A concrete mapping set with a nested class, an inner
   class whose outer class is absent, a class without target name, a constructor, a static initialiser and
   an identity-mapped method (both keep their target names), a parameter with a comment, comments with blank lines, leading spaces and `#`, packages: it satisfies the
   hypotheses of every theorem, and the round trip is computed on it. *)
From FB Require Import C12.Model C12.TheoryTree C12.TheoryDet C12.TheoryRT.

Definition ex_classes : list class :=
  [ mkClass [Some [97; 47; 65]; Some [98; 47; 66]] (Some [104; 105; 10; 10; 32; 32; 35; 32; 120])   (* a/A -> b/B, "hi\n\n  # x" *)
      [mkField [73] [Some [102]; Some [103]] (Some [102; 100]); mkField [74] [Some [102]; None] None]
      [mkMeth [40; 73; 41; 86] [Some s_init; Some s_init] None
         [mkParam 1 [None; Some [112]] (Some [100; 10; 101])];
       mkMeth [40; 41; 86] [Some [109]; Some [110]] (Some [35]) [];
       mkMeth [40; 41; 86] [Some s_clinit; Some s_clinit] None [];             (* <clinit> -> <clinit>: keeps its target *)
       mkMeth [40; 41; 73] [Some [109]; Some [109]] None []];                  (* m -> m, identity-mapped *)
    mkClass [Some [97; 47; 65; 36; 67]; Some [98; 47; 66; 36; 68]] None [] [];                        (* a/A$C -> b/B$D *)
    mkClass [Some [97; 47; 65; 36; 67; 36; 49]; None] (Some []) [] [];                               (* a/A$C$1, no target *)
    mkClass [Some [88; 36; 89]; Some [90; 36; 87]] None [] [] ].                                     (* X$Y -> Z$W, X absent *)

Definition nonvacuous : Prop :=
  enigma_okb ex_classes = true /\ dir_okb ex_classes = true /\ keys_ok ex_classes
  /\ (match write_all ex_classes with
      | Ok t => match read_all t with
                | Ok r => equivb (mkMappings [] None r) (mkMappings [] None (enigma_norm ex_classes)) = true
                          /\ enigma_norm ex_classes <> ex_classes
                | Err => False
                end
      | Err => False
      end)
  /\ chain_depth ex_classes [97; 47; 65; 36; 67; 36; 49] = 2%nat
  /\ chain_depth ex_classes [88; 36; 89] = 0%nat.

Lemma nodup_dec_str (l : list (list N * list N)) : nodupb key2_eqb l = true -> NoDup l.
Proof. apply TheoryClass.nodupb_key2_NoDup. Qed.

Ltac nd := repeat (apply NoDup_cons; [cbn; intuition discriminate|]); apply NoDup_nil.

Lemma nonvacuous_holds : nonvacuous.
Proof.
  unfold nonvacuous. split; [vm_compute; reflexivity|]. split; [vm_compute; reflexivity|]. split.
  - split.
    + apply nodupb_str_NoDup. vm_compute. reflexivity.
    + repeat (apply Forall_cons;
        [split; [cbn; nd|split; [cbn; nd|repeat (apply Forall_cons; [unfold meth_keys_ok; cbn; nd|]); apply Forall_nil]]|]);
      apply Forall_nil.
  - split; [|split; reflexivity]. vm_compute. split; [reflexivity|discriminate].
Qed.
