(* C12 theory, part 0: examples (non-vacuity); the general theorems are in Theory1..n *)
From FB Require Import C12.Model.

Definition ex_classes : list class :=
  [ mkClass [Some [65]; Some [66]] (Some [104; 105; 10; 10; 32; 35])
      [mkField [73] [Some [102]; Some [103]] None]
      [mkMeth [40; 41; 86] [Some [109]; Some s_init] None [mkParam 1 [None; Some [112]] (Some [100])]];
    mkClass [Some [65; 36; 67]; Some [66; 36; 68]] None [] [];
    mkClass [Some [88; 36; 89]; None] None [] [] ].

Example ex_write_read :
  match write_all ex_classes with
  | Ok t => match read_all t with Ok r => length r = 3%nat | Err => False end
  | Err => False
  end.
Proof. vm_compute. reflexivity. Qed.
