(* C12 theory, part 13: exactness of the reader, for EVERY text.
   (a) read_into is the structural decoder: group the token lines into the lforest their indentation
       describes, then walk that lforest ([read_struct]); a text whose lines do not form a lforest is
       refused.  So nothing the loops do with peeking and indentation comparisons can merge, lose or
       re-parent a line.
   (b) An accepted text is decoded to acc ++ classes_of None f: one class per CLASS line under the
       names of the CLASS lines it is nested in, its members from the lines directly below it; the
       tags stand where they may stand; unique keys at every level (a duplicate is refused). *)
From FB Require Import C12.Model C12.ModelForest C12.TheoryTree C12.TheoryTok C12.TheoryLines C12.TheoryRead C12.TheoryClass
  C12.TheoryForest.
From Coq Require Import Lia Arith PeanoNat.

(* ---------- forests and lines ---------- *)

Fixpoint depth_ok (d : nat) (f : lforest) : Prop :=
  match f with
  | FNil => True
  | FNode l ch sib => el_ind l = d /\ depth_ok (S d) ch /\ depth_ok d sib
  end.

Lemma stops_flatten_app d f rest : depth_ok d f -> stops d rest -> stops (S d) (flatten f ++ rest).
Proof.
  destruct f as [|l ch sib]; cbn [flatten app depth_ok stops].
  - intros _ H. destruct rest as [|l r]; cbn [stops] in *; [exact I|lia].
  - intros (H & _ & _) _. lia.
Qed.

Theorem build_flatten fuel : forall d f rest,
  depth_ok d f -> stops d rest -> (length (flatten f ++ rest) < fuel)%nat ->
  build fuel d (flatten f ++ rest) = Some (f, rest).
Proof.
  induction fuel as [|fuel IH]; intros d f rest Hd Hs Hlen; [lia|].
  destruct f as [|l ch sib].
  - cbn [flatten app]. destruct rest as [|l r]; [reflexivity|].
    cbn [build]. cbn [stops] in Hs.
    destruct (Nat.compare_spec (el_ind l) d) as [E|E|E]; try lia. reflexivity.
  - cbn [flatten app depth_ok] in *. destruct Hd as (Hl & Hch & Hsib).
    cbn [build]. rewrite Hl, Nat.compare_refl.
    rewrite <- app_assoc.
    rewrite (IH (S d) ch (flatten sib ++ rest)).
    + rewrite (IH d sib rest); [reflexivity|exact Hsib|exact Hs|].
      cbn [length] in Hlen. rewrite <- app_assoc, app_length in Hlen. lia.
    + exact Hch.
    + apply stops_flatten_app; assumption.
    + cbn [length] in Hlen. rewrite <- app_assoc in Hlen. lia.
Qed.

(* grouping never drops, duplicates or reorders a line *)
Theorem build_sound fuel : forall d ls f rest,
  build fuel d ls = Some (f, rest) -> ls = flatten f ++ rest /\ depth_ok d f /\ stops d rest.
Proof.
  induction fuel as [|fuel IH]; intros d ls f rest H; [discriminate|].
  cbn [build] in H. destruct ls as [|l ls'].
  - injection H as <- <-. cbn. auto.
  - destruct (Nat.compare_spec (el_ind l) d) as [E|E|E].
    + destruct (build fuel (S d) ls') as [[ch r1]|] eqn:B1; [|discriminate].
      destruct (build fuel d r1) as [[sib r2]|] eqn:B2; [|discriminate].
      injection H as <- <-.
      apply IH in B1. destruct B1 as (E1 & D1 & S1).
      apply IH in B2. destruct B2 as (E2 & D2 & S2).
      subst ls' r1. cbn [flatten depth_ok app]. rewrite <- app_assoc. auto.
    + injection H as <- <-. cbn [flatten app depth_ok stops]. auto.
    + discriminate.
Qed.

(* the lforest of a list of lines is unique *)
Theorem forest_unique d f f' rest rest' :
  depth_ok d f -> depth_ok d f' -> stops d rest -> stops d rest' ->
  flatten f ++ rest = flatten f' ++ rest' -> f = f' /\ rest = rest'.
Proof.
  intros D D' St St' E.
  assert (H := build_flatten (S (length (flatten f ++ rest))) d f rest D St (Nat.lt_succ_diag_r _)).
  rewrite E in H. rewrite (build_flatten _ d f' rest' D' St') in H by lia.
  injection H as <- <-. auto.
Qed.

Lemma forest_of_flatten f : depth_ok 0 f -> forest_of (flatten f) = Some f.
Proof.
  intros D. unfold forest_of. rewrite <- (app_nil_r (flatten f)).
  rewrite (build_flatten _ 0 f [] D I) by lia. reflexivity.
Qed.

Lemma forest_of_sound ls f : forest_of ls = Some f -> ls = flatten f /\ depth_ok 0 f.
Proof.
  unfold forest_of. destruct (build _ 0 ls) as [[f0 [|x r]]|] eqn:B; try discriminate.
  intros [= <-]. apply build_sound in B as (E & D & _). rewrite app_nil_r in E. auto.
Qed.

(* ---------- the loops compute what the structural walk computes ---------- *)

Lemma parse_class_with_head loop d par l acc ls' :
  parse_class_with loop d par l acc ls' =
  do nm <- class_head d par l;
  do r <- loop (S d) (fst nm) (dst_or_src nm) (new_class nm) acc ls';
  if has_key (snd (fst r)) (fst nm) then Err else Ok (snd (fst r) ++ [fst (fst r)], snd r).
Proof.
  unfold parse_class_with, class_head. destruct (Nat.ltb max_class_nesting d); [reflexivity|].
  destruct (pat_class (el_fields l)) as [sd|]; cbn [bind]; [|reflexivity].
  destruct par as [[ps pd]|]; cbn [par_src par_dst]; (destruct (negb _); [reflexivity|]); reflexivity.
Qed.

Lemma gt_succ d : Nat.compare (S d) d = Gt.
Proof. apply Nat.compare_gt_iff. lia. Qed.

Lemma comments_loop_interp : forall f d doc rest, depth_ok d f -> stops d rest ->
  comments_loop d doc (flatten f ++ rest) =
  match interp_comments doc f with Ok doc' => Ok (doc', rest) | Err => Err end.
Proof.
  induction f as [|l ch _ sib IHsib]; intros d doc rest Hd Hs.
  - cbn [flatten app interp_comments]. apply comments_loop_stop. exact Hs.
  - cbn [depth_ok] in Hd. destruct Hd as (Hl & Hch & Hsib).
    cbn [flatten app comments_loop interp_comments]. rewrite Hl, Nat.compare_refl. unfold tagb.
    destruct (str_eqb (el_first l) s_COMMENT); [|reflexivity].
    destruct ch as [|l2 ch2 sib2]; cbn [leafb flatten app].
    + apply IHsib; assumption.
    + cbn [depth_ok] in Hch. destruct Hch as (Hl2 & _). cbn [comments_loop]. rewrite Hl2, gt_succ. reflexivity.
Qed.

Lemma method_loop_interp : forall f F d m rest, depth_ok d f -> stops d rest ->
  (length (flatten f ++ rest) < F)%nat ->
  method_loop F d m (flatten f ++ rest) =
  match interp_meth m f with Ok m' => Ok (m', rest) | Err => Err end.
Proof.
  induction f as [|l ch _ sib IHsib]; intros F d m rest Hd Hs HF.
  - cbn [flatten app interp_meth] in *. apply method_loop_stop; assumption.
  - cbn [depth_ok] in Hd. destruct Hd as (Hl & Hch & Hsib).
    destruct F as [|F]; [lia|]. cbn [flatten app] in *. rewrite method_loop_step.
    rewrite Hl, Nat.compare_refl. cbn [interp_meth]. unfold tagb.
    cbn [length] in HF. rewrite <- app_assoc, app_length in HF.
    destruct (str_eqb (el_first l) s_ARG).
    + destruct (el_fields l) as [|ri [|dst [|? ?]]]; try reflexivity.
      destruct (parse_usize ri) as [idx|]; cbn [bind]; [|reflexivity].
      destruct (negb (is_valid_unqualified_name dst)); [reflexivity|].
      destruct (has_param (m_params m) idx); [reflexivity|].
      rewrite <- app_assoc.
      rewrite (comments_loop_interp ch (S d) None (flatten sib ++ rest) Hch) by (apply stops_flatten_app; assumption).
      destruct (interp_comments None ch) as [doc|]; cbn [bind fst snd]; [|reflexivity].
      apply IHsib; [assumption|assumption|lia].
    + destruct (str_eqb (el_first l) s_COMMENT); [|reflexivity].
      destruct ch as [|l2 ch2 sib2]; cbn [leafb flatten app].
      * apply IHsib; [assumption|assumption|cbn [flatten length] in HF; lia].
      * cbn [depth_ok] in Hch. destruct Hch as (Hl2 & _). destruct F as [|F]; [reflexivity|].
        rewrite method_loop_step. rewrite Hl2, gt_succ. reflexivity.
Qed.

Lemma class_loop_interp : forall f F d ps pd cur acc rest, depth_ok d f -> stops d rest ->
  (length (flatten f ++ rest) < F)%nat ->
  class_loop F d ps pd cur acc (flatten f ++ rest) =
  match interp_class d (ps, pd) cur acc f with Ok (c, a) => Ok (c, a, rest) | Err => Err end.
Proof.
  induction f as [|l ch IHch sib IHsib]; intros F d ps pd cur acc rest Hd Hs HF.
  - cbn [flatten app interp_class] in *. apply class_loop_stop; assumption.
  - cbn [depth_ok] in Hd. destruct Hd as (Hl & Hch & Hsib).
    destruct F as [|F]; [lia|]. cbn [flatten app] in *. rewrite class_loop_step.
    rewrite Hl, Nat.compare_refl. cbv zeta. cbn [interp_class]. unfold tagb.
    cbn [length] in HF. rewrite <- app_assoc, app_length in HF.
    assert (Hs' : stops (S d) (flatten sib ++ rest)) by (apply stops_flatten_app; assumption).
    destruct (str_eqb (el_first l) s_CLASS).
    { rewrite parse_class_with_head.
      destruct (class_head d (Some (ps, pd)) l) as [nm|]; cbn [bind]; [|reflexivity].
      rewrite <- app_assoc. rewrite (IHch F (S d) (fst nm) (dst_or_src nm) (new_class nm) acc (flatten sib ++ rest) Hch Hs')
        by (rewrite app_length; lia).
      destruct (interp_class (S d) (fst nm, dst_or_src nm) (new_class nm) acc ch) as [[c a]|]; cbn [bind fst snd]; [|reflexivity].
      destruct (has_key a (fst nm)); [reflexivity|]. cbn [bind fst snd].
      apply IHsib; [assumption|assumption|lia]. }
    destruct (str_eqb (el_first l) s_FIELD).
    { destruct (pat_named (el_fields l)) as [x|]; cbn [bind]; [|reflexivity].
      destruct (negb _); [reflexivity|]. destruct (has_field _ _ _); [reflexivity|].
      rewrite <- app_assoc. rewrite (comments_loop_interp ch (S d) None (flatten sib ++ rest) Hch Hs').
      destruct (interp_comments None ch) as [doc|]; cbn [bind fst snd]; [|reflexivity].
      apply IHsib; [assumption|assumption|lia]. }
    destruct (str_eqb (el_first l) s_METHOD).
    { destruct (pat_named (el_fields l)) as [x|]; cbn [bind]; [|reflexivity].
      destruct (negb _); [reflexivity|]. destruct (has_meth _ _ _); [reflexivity|].
      rewrite <- app_assoc. rewrite (method_loop_interp ch F (S d) _ (flatten sib ++ rest) Hch Hs')
        by (rewrite app_length; lia).
      destruct (interp_meth _ ch) as [m|]; cbn [bind fst snd]; [|reflexivity].
      apply IHsib; [assumption|assumption|lia]. }
    destruct (str_eqb (el_first l) s_COMMENT); [|reflexivity].
    destruct ch as [|l2 ch2 sib2]; cbn [leafb flatten app].
    + apply IHsib; [assumption|assumption|cbn [flatten length] in HF; lia].
    + cbn [depth_ok] in Hch. destruct Hch as (Hl2 & _). destruct F as [|F]; [reflexivity|].
      rewrite class_loop_step. rewrite Hl2, gt_succ. reflexivity.
Qed.

Lemma root_loop_interp : forall f F acc, depth_ok 0 f -> (length (flatten f) < F)%nat ->
  root_loop F acc (flatten f) = interp_root acc f.
Proof.
  induction f as [|l ch _ sib IHsib]; intros F acc Hd HF.
  - destruct F; [cbn in HF; lia|]. reflexivity.
  - cbn [depth_ok] in Hd. destruct Hd as (Hl & Hch & Hsib).
    destruct F as [|F]; [lia|]. cbn [flatten] in *. rewrite root_loop_step. rewrite Hl.
    cbn [interp_root]. unfold tagb. cbn [length] in HF. rewrite app_length in HF.
    destruct (str_eqb (el_first l) s_CLASS); [|reflexivity].
    rewrite parse_class_with_head.
    destruct (class_head 0 None l) as [nm|]; cbn [bind]; [|reflexivity].
    assert (Hs' : stops 1 (flatten sib)).
    { destruct sib as [|l2 c2 s2]; cbn [flatten stops]; [exact I|]. cbn [depth_ok] in Hsib. destruct Hsib as (-> & _). lia. }
    rewrite (class_loop_interp ch F 1 (fst nm) (dst_or_src nm) (new_class nm) acc (flatten sib) Hch Hs')
      by (rewrite app_length; lia).
    destruct (interp_class 1 (fst nm, dst_or_src nm) (new_class nm) acc ch) as [[c a]|]; cbn [bind fst snd]; [|reflexivity].
    destruct (has_key a (fst nm)); [reflexivity|]. cbn [bind fst snd].
    apply IHsib; [assumption|lia].
Qed.

(* ---------- a text the loops accept has a lforest ---------- *)

Lemma comments_loop_forest d : forall ls doc doc' rest, comments_loop d doc ls = Ok (doc', rest) ->
  exists f, ls = flatten f ++ rest /\ depth_ok d f /\ stops d rest.
Proof.
  induction ls as [|l ls IH]; intros doc doc' rest; cbn [comments_loop].
  - intros [= <- <-]. exists FNil. cbn. auto.
  - destruct (Nat.compare_spec (el_ind l) d) as [E|E|E].
    + destruct (str_eqb (el_first l) s_COMMENT); [|discriminate]. intros H.
      apply IH in H as (f & -> & D & St). exists (FNode l FNil f). cbn [flatten app depth_ok]. auto.
    + intros [= <- <-]. exists FNil. cbn [flatten app depth_ok stops]. auto.
    + discriminate.
Qed.

Lemma method_loop_forest : forall F d m ls m' rest, method_loop F d m ls = Ok (m', rest) ->
  exists f, ls = flatten f ++ rest /\ depth_ok d f /\ stops d rest.
Proof.
  induction F as [|F IH]; intros d m ls m' rest H; [discriminate|].
  destruct ls as [|l ls].
  - cbn [method_loop] in H. injection H as <- <-. exists FNil. cbn. auto.
  - rewrite method_loop_step in H. destruct (Nat.compare_spec (el_ind l) d) as [E|E|E].
    + destruct (str_eqb (el_first l) s_ARG).
      * destruct (el_fields l) as [|ri [|dst [|? ?]]]; try discriminate.
        destruct (parse_usize ri) as [idx|]; cbn [bind] in H; [|discriminate].
        destruct (negb _); [discriminate|]. destruct (has_param _ _); [discriminate|].
        destruct (comments_loop (S d) None ls) as [[doc r1]|] eqn:Ec; cbn [bind fst snd] in H; [|discriminate].
        apply comments_loop_forest in Ec as (fc & -> & Dc & Sc).
        apply IH in H as (fs & -> & Ds & Ss). exists (FNode l fc fs).
        cbn [flatten app depth_ok]. rewrite <- app_assoc. auto.
      * destruct (str_eqb (el_first l) s_COMMENT); [|discriminate].
        apply IH in H as (fs & -> & Ds & Ss). exists (FNode l FNil fs). cbn [flatten app depth_ok]. auto.
    + injection H as <- <-. exists FNil. cbn [flatten app depth_ok stops]. auto.
    + discriminate.
Qed.

Lemma class_loop_forest : forall F d ps pd cur acc ls c a rest, class_loop F d ps pd cur acc ls = Ok (c, a, rest) ->
  exists f, ls = flatten f ++ rest /\ depth_ok d f /\ stops d rest.
Proof.
  induction F as [|F IH]; intros d ps pd cur acc ls c a rest H; [discriminate|].
  destruct ls as [|l ls].
  - cbn [class_loop] in H. injection H as <- <- <-. exists FNil. cbn. auto.
  - rewrite class_loop_step in H. cbv zeta in H. destruct (Nat.compare_spec (el_ind l) d) as [E|E|E].
    + destruct (str_eqb (el_first l) s_CLASS).
      { rewrite parse_class_with_head in H.
        destruct (class_head _ _ _) as [nm|]; cbn [bind] in H; [|discriminate].
        destruct (class_loop F (S d) _ _ _ acc ls) as [[[c1 a1] r1]|] eqn:Ec; cbn [bind fst snd] in H; [|discriminate].
        destruct (has_key a1 (fst nm)); [discriminate|]. cbn [bind fst snd] in H.
        apply IH in Ec as (fc & -> & Dc & Sc). apply IH in H as (fs & -> & Ds & Ss).
        exists (FNode l fc fs). cbn [flatten app depth_ok]. rewrite <- app_assoc. auto. }
      destruct (str_eqb (el_first l) s_FIELD).
      { destruct (pat_named _) as [x|]; cbn [bind] in H; [|discriminate].
        destruct (negb _); [discriminate|]. destruct (has_field _ _ _); [discriminate|].
        destruct (comments_loop (S d) None ls) as [[doc r1]|] eqn:Ec; cbn [bind fst snd] in H; [|discriminate].
        apply comments_loop_forest in Ec as (fc & -> & Dc & Sc). apply IH in H as (fs & -> & Ds & Ss).
        exists (FNode l fc fs). cbn [flatten app depth_ok]. rewrite <- app_assoc. auto. }
      destruct (str_eqb (el_first l) s_METHOD).
      { destruct (pat_named _) as [x|]; cbn [bind] in H; [|discriminate].
        destruct (negb _); [discriminate|]. destruct (has_meth _ _ _); [discriminate|].
        destruct (method_loop F (S d) _ ls) as [[m1 r1]|] eqn:Ec; cbn [bind fst snd] in H; [|discriminate].
        apply method_loop_forest in Ec as (fc & -> & Dc & Sc). apply IH in H as (fs & -> & Ds & Ss).
        exists (FNode l fc fs). cbn [flatten app depth_ok]. rewrite <- app_assoc. auto. }
      destruct (str_eqb (el_first l) s_COMMENT); [|discriminate].
      apply IH in H as (fs & -> & Ds & Ss). exists (FNode l FNil fs). cbn [flatten app depth_ok]. auto.
    + injection H as <- <- <-. exists FNil. cbn [flatten app depth_ok stops]. auto.
    + discriminate.
Qed.

Lemma root_loop_has_forest : forall F acc ls out, root_loop F acc ls = Ok out ->
  exists f, ls = flatten f /\ depth_ok 0 f.
Proof.
  induction F as [|F IH]; intros acc ls out H; [discriminate|].
  destruct ls as [|l ls].
  - exists FNil. cbn. auto.
  - rewrite root_loop_step in H. destruct (el_ind l) as [|n] eqn:El; [|discriminate].
    destruct (str_eqb (el_first l) s_CLASS); [|discriminate].
    rewrite parse_class_with_head in H.
    destruct (class_head _ _ _) as [nm|]; cbn [bind] in H; [|discriminate].
    destruct (class_loop F 1 _ _ _ acc ls) as [[[c1 a1] r1]|] eqn:Ec; cbn [bind fst snd] in H; [|discriminate].
    destruct (has_key a1 (fst nm)); [discriminate|]. cbn [bind fst snd] in H.
    apply class_loop_forest in Ec as (fc & -> & Dc & Sc). apply IH in H as (fs & -> & Ds).
    exists (FNode l fc fs). cbn [flatten depth_ok]. auto.
Qed.

(* ---------- (a) the reader is the structural decoder, on every text ---------- *)

Theorem read_into_struct acc text : read_into acc text = read_struct acc text.
Proof.
  unfold read_into, read_struct. remember (elines text) as ls eqn:Els. clear Els text.
  destruct (forest_of ls) as [f|] eqn:Ef.
  - apply forest_of_sound in Ef as (-> & D). apply root_loop_interp; [exact D|lia].
  - destruct (root_loop (S (length ls)) acc ls) as [out|] eqn:R; [|reflexivity].
    apply root_loop_has_forest in R as (f & -> & D). rewrite (forest_of_flatten f D) in Ef. discriminate.
Qed.

(* ---------- (b) what the structural walk returns ---------- *)

Lemma tag_neq a b l : a <> b -> tagb a l = true -> tagb b l = false.
Proof.
  unfold tagb. intros Hn Ha. apply str_eqb_eq in Ha. rewrite Ha. apply str_eqb_neq. exact Hn.
Qed.

Lemma interp_comments_exact : forall f doc doc', interp_comments doc f = Ok doc' ->
  doc' = doc_of doc f /\ only_comments f = true.
Proof.
  induction f as [|l ch _ sib IH]; intros doc doc' H; cbn [interp_comments doc_of only_comments] in *.
  - injection H as <-. auto.
  - destruct (tagb s_COMMENT l); [|discriminate]. destruct (leafb ch); [|discriminate].
    apply IH in H as (-> & ->). auto.
Qed.

Definition meth_keys (m : meth) : list N := map p_index (m_params m).

Lemma has_param_false_iff ps i : has_param ps i = false <-> ~ In i (map p_index ps).
Proof.
  unfold has_param. induction ps as [|p ps IH]; cbn [existsb map In]; [tauto|].
  rewrite orb_false_iff, IH, N.eqb_neq. intuition congruence.
Qed.

Lemma nodup_snoc {A} (l : list A) x : NoDup l -> ~ In x l -> NoDup (l ++ [x]).
Proof.
  induction l as [|a l IH]; intros Hn Hx; cbn [app]; [constructor; [intros []|constructor]|].
  inversion Hn as [|? ? Ha Hl]; subst. constructor.
  - intros Hin. apply in_app_or in Hin as [Hin|[<-|[]]]; [contradiction|]. apply Hx. left. reflexivity.
  - apply IH; [exact Hl|]. intros Hin. apply Hx. right. exact Hin.
Qed.

Lemma interp_meth_exact : forall f m m', interp_meth m f = Ok m' ->
  m' = mkMeth (m_desc m) (m_names m) (doc_of (m_doc m) f) (m_params m ++ params_of f)
  /\ shape_meth f = true
  /\ (NoDup (meth_keys m) -> NoDup (meth_keys m')).
Proof.
  induction f as [|l ch _ sib IH]; intros m m' H; cbn [interp_meth doc_of params_of shape_meth] in *.
  - injection H as <-. rewrite app_nil_r. destruct m; auto.
  - destruct (tagb s_ARG l) eqn:Ta.
    + rewrite (tag_neq s_ARG s_COMMENT l ltac:(discriminate) Ta).
      unfold param_of. destruct (el_fields l) as [|ri [|dst [|? ?]]]; try discriminate.
      destruct (parse_usize ri) as [idx|]; cbn [bind] in H; [|discriminate].
      destruct (negb _); [discriminate|]. destruct (has_param (m_params m) idx) eqn:Hp; [discriminate|].
      destruct (interp_comments None ch) as [doc|] eqn:Ec; cbn [bind] in H; [|discriminate].
      apply interp_comments_exact in Ec as (-> & Hc). apply IH in H as (Em' & Hs & Hn).
      split; [rewrite Em'; cbn [add_param m_desc m_names m_doc m_params unN]; rewrite <- app_assoc; reflexivity|].
      split; [rewrite Hc, Hs; reflexivity|].
      intros Hnd. apply Hn. unfold meth_keys. cbn [add_param m_params]. rewrite map_app. cbn [map p_index].
      apply has_param_false_iff in Hp. apply nodup_snoc; [exact Hnd|exact Hp].
    + destruct (tagb s_COMMENT l); [|discriminate]. destruct (leafb ch); [|discriminate].
      apply IH in H as (-> & Hs & Hn). cbn [set_mdoc m_desc m_names m_doc m_params] in *.
      split; [reflexivity|]. split; [exact Hs|]. exact Hn.
Qed.

Lemma has_field_false_iff fs n d : has_field fs n d = false <-> ~ In (n, d) (map fkey fs).
Proof.
  unfold has_field. induction fs as [|f fs IH]; cbn [existsb map In]; [tauto|].
  rewrite orb_false_iff, IH. unfold fkey at 2. split.
  - intros [Hf Hn] [E|Hin]; [|contradiction]. injection E as E1 E2. rewrite E1, E2, !str_eqb_refl in Hf. discriminate.
  - intros H. split; [|tauto]. apply andb_false_iff.
    destruct (str_eqb_spec (src_of (f_names f)) n) as [E1|]; [|auto].
    destruct (str_eqb_spec (f_desc f) d) as [E2|]; [|auto]. exfalso. apply H. left. rewrite E1, E2. reflexivity.
Qed.

Lemma has_meth_false_iff ms n d : has_meth ms n d = false <-> ~ In (n, d) (map mkey ms).
Proof.
  unfold has_meth. induction ms as [|m ms IH]; cbn [existsb map In]; [tauto|].
  rewrite orb_false_iff, IH. unfold mkey at 2. split.
  - intros [Hf Hn] [E|Hin]; [|contradiction]. injection E as E1 E2. rewrite E1, E2, !str_eqb_refl in Hf. discriminate.
  - intros H. split; [|tauto]. apply andb_false_iff.
    destruct (str_eqb_spec (src_of (m_names m)) n) as [E1|]; [|auto].
    destruct (str_eqb_spec (m_desc m) d) as [E2|]; [|auto]. exfalso. apply H. left. rewrite E1, E2. reflexivity.
Qed.

(* unique keys at every level of one class *)
Definition class_keys_strict (c : class) : Prop :=
  NoDup (map fkey (c_fields c)) /\ NoDup (map mkey (c_methods c))
  /\ Forall (fun m => NoDup (meth_keys m)) (c_methods c).
Definition strict_keys (M : list class) : Prop := keys_nodup M /\ Forall class_keys_strict M.

Lemma forall_snoc {A} (P : A -> Prop) l x : Forall P l -> P x -> Forall P (l ++ [x]).
Proof. intros Hl Hx. apply Forall_app. split; [exact Hl|constructor; [exact Hx|constructor]]. Qed.

Lemma has_key_false_iff M k : has_key M k = false <-> ~ In k (map cls_key M).
Proof.
  unfold has_key. induction M as [|c M IH]; cbn [existsb map In]; [tauto|].
  rewrite orb_false_iff, IH, str_eqb_neq. tauto.
Qed.

Lemma interp_class_exact : forall f d par cur acc c a, interp_class d par cur acc f = Ok (c, a) ->
  c = mkClass (c_names cur) (doc_of (c_doc cur) f) (c_fields cur ++ fields_of f) (c_methods cur ++ meths_of f)
  /\ a = acc ++ classes_of (Some par) f
  /\ shape_class f = true
  /\ (class_keys_strict cur -> class_keys_strict c)
  /\ (strict_keys acc -> strict_keys a).
Proof.
  induction f as [|l ch IHch sib IHsib]; intros d par cur acc c a H;
    cbn [interp_class doc_of fields_of meths_of classes_of shape_class] in *.
  - injection H as <- <-. rewrite !app_nil_r. destruct cur; auto.
  - destruct (tagb s_CLASS l) eqn:Tc.
    { rewrite (tag_neq s_CLASS s_FIELD l ltac:(discriminate) Tc), (tag_neq s_CLASS s_METHOD l ltac:(discriminate) Tc),
        (tag_neq s_CLASS s_COMMENT l ltac:(discriminate) Tc).
      destruct (class_head d (Some par) l) as [nm|] eqn:Eh; cbn [bind] in H; [|discriminate].
      destruct (interp_class (S d) _ _ acc ch) as [[c1 a1]|] eqn:Ec; cbn [bind fst snd] in H; [|discriminate].
      destruct (has_key a1 (fst nm)) eqn:Hk; [discriminate|].
      apply IHch in Ec as (-> & -> & Sc & Kc & Ka). apply IHsib in H as (-> & -> & Ss & Kcur & Kacc).
      assert (Enm : cnames_of (Some par) l = nm).
      { unfold class_head in Eh. destruct (Nat.ltb _ _); [discriminate|].
        unfold cnames_of. destruct (pat_class (el_fields l)) as [sd|]; cbn [bind] in Eh; [|discriminate].
        destruct (negb _); [discriminate|]. injection Eh as <-. reflexivity. }
      rewrite Enm. cbn [new_class c_names c_doc c_fields c_methods app].
      split; [reflexivity|]. split; [rewrite <- !app_assoc; reflexivity|]. split; [rewrite Sc, Ss; reflexivity|].
      split; [exact Kcur|]. intros Hacc. apply Kacc. destruct (Ka Hacc) as [Kn Kf]. split.
      - unfold keys_nodup. rewrite map_app. cbn [map cls_key c_names src_of]. apply nodup_snoc; [exact Kn|].
        apply has_key_false_iff. exact Hk.
      - apply forall_snoc; [exact Kf|]. apply Kc. unfold class_keys_strict, new_class. cbn. repeat split; constructor. }
    destruct (tagb s_FIELD l) eqn:Tf.
    { rewrite (tag_neq s_FIELD s_METHOD l ltac:(discriminate) Tf), (tag_neq s_FIELD s_COMMENT l ltac:(discriminate) Tf).
      unfold field_of, named_of.
      destruct (pat_named (el_fields l)) as [x|]; cbn [bind] in H; [|discriminate].
      destruct (negb _); [discriminate|]. destruct (has_field _ _ _) eqn:Hf; [discriminate|].
      destruct (interp_comments None ch) as [doc|] eqn:Ec; cbn [bind] in H; [|discriminate].
      apply interp_comments_exact in Ec as (-> & Hc). apply IHsib in H as (Ecur & -> & Ss & Kcur & Kacc).
      split; [rewrite Ecur; cbn [add_field c_names c_doc c_fields c_methods]; rewrite <- app_assoc; reflexivity|].
      split; [reflexivity|]. split; [rewrite Hc, Ss; reflexivity|]. split; [|exact Kacc].
      intros (K1 & K2 & K3). apply Kcur. unfold class_keys_strict. cbn [add_field c_fields c_methods].
      split; [|auto]. rewrite map_app. cbn [map]. apply nodup_snoc; [exact K1|].
      apply has_field_false_iff in Hf. exact Hf. }
    destruct (tagb s_METHOD l) eqn:Tm.
    { rewrite (tag_neq s_METHOD s_COMMENT l ltac:(discriminate) Tm).
      unfold meth_of, named_of.
      destruct (pat_named (el_fields l)) as [x|]; cbn [bind] in H; [|discriminate].
      destruct (negb _); [discriminate|]. destruct (has_meth _ _ _) eqn:Hm; [discriminate|].
      destruct (interp_meth _ ch) as [m|] eqn:Ec; cbn [bind] in H; [|discriminate].
      apply interp_meth_exact in Ec as (Em & Hc & Hn). apply IHsib in H as (Ecur & -> & Ss & Kcur & Kacc).
      split; [rewrite Ecur, Em; cbn [add_meth c_names c_doc c_fields c_methods m_desc m_names m_doc m_params app];
              rewrite <- app_assoc; reflexivity|].
      split; [reflexivity|]. split; [rewrite Hc, Ss; reflexivity|]. split; [|exact Kacc].
      intros (K1 & K2 & K3). apply Kcur. unfold class_keys_strict. cbn [add_meth c_fields c_methods].
      split; [exact K1|]. split.
      - rewrite map_app. cbn [map]. apply nodup_snoc; [exact K2|]. apply has_meth_false_iff in Hm.
        rewrite Em. unfold mkey at 1. cbn [m_names m_desc src_of]. exact Hm.
      - apply forall_snoc; [exact K3|]. apply Hn. constructor. }
    destruct (tagb s_COMMENT l); [|discriminate]. destruct (leafb ch); [|discriminate].
    apply IHsib in H as (-> & -> & Ss & Kcur & Kacc). cbn [set_cdoc c_names c_doc c_fields c_methods] in *.
    split; [reflexivity|]. split; [reflexivity|]. split; [exact Ss|]. split; [|exact Kacc].
    intros K. apply Kcur. exact K.
Qed.

Lemma interp_root_exact : forall f acc out, interp_root acc f = Ok out ->
  out = acc ++ classes_of None f /\ shape_root f = true /\ (strict_keys acc -> strict_keys out).
Proof.
  induction f as [|l ch _ sib IHsib]; intros acc out H; cbn [interp_root classes_of shape_root] in *.
  - injection H as <-. rewrite app_nil_r. auto.
  - destruct (tagb s_CLASS l) eqn:Tc; [|discriminate].
    destruct (class_head 0 None l) as [nm|] eqn:Eh; cbn [bind] in H; [|discriminate].
    destruct (interp_class 1 _ _ acc ch) as [[c1 a1]|] eqn:Ec; cbn [bind fst snd] in H; [|discriminate].
    destruct (has_key a1 (fst nm)) eqn:Hk; [discriminate|].
    apply interp_class_exact in Ec as (-> & -> & Sc & Kc & Ka). apply IHsib in H as (-> & Ss & Kacc).
    assert (Enm : cnames_of None l = nm).
    { unfold class_head in Eh. destruct (Nat.ltb _ _); [discriminate|].
      unfold cnames_of. destruct (pat_class (el_fields l)) as [sd|]; cbn [bind] in Eh; [|discriminate].
      destruct (negb _); [discriminate|]. injection Eh as <-. reflexivity. }
    rewrite Enm. cbn [new_class c_names c_doc c_fields c_methods app].
    split; [rewrite <- !app_assoc; reflexivity|]. split; [rewrite Sc, Ss; reflexivity|].
    intros Hacc. apply Kacc. destruct (Ka Hacc) as [Kn Kf]. split.
    + unfold keys_nodup. rewrite map_app. cbn [map cls_key c_names src_of]. apply nodup_snoc; [exact Kn|].
      apply has_key_false_iff. exact Hk.
    + apply forall_snoc; [exact Kf|]. apply Kc. unfold class_keys_strict, new_class. cbn. repeat split; constructor.
Qed.

(* Th: every accepted text is decoded structurally; existing classes are kept as they are *)
Theorem read_exact acc text out : read_into acc text = Ok out ->
  exists f, elines text = flatten f /\ depth_ok 0 f /\ shape_root f = true /\ out = acc ++ classes_of None f.
Proof.
  rewrite read_into_struct. unfold read_struct. destruct (forest_of (elines text)) as [f|] eqn:Ef; [|discriminate].
  intros H. apply forest_of_sound in Ef as (E & D). apply interp_root_exact in H as (-> & Sh & _).
  exists f. auto.
Qed.

(* whatever is read has unique keys at every level: a duplicate class, field, method or parameter
   is refused, never merged *)
Theorem read_keys_strict acc text out : strict_keys acc -> read_into acc text = Ok out -> strict_keys out.
Proof.
  intros Hacc. rewrite read_into_struct. unfold read_struct. destruct (forest_of (elines text)) as [f|]; [|discriminate].
  intros H. apply interp_root_exact in H as (_ & _ & K). exact (K Hacc).
Qed.

Theorem read_dup_refused acc text f : keys_nodup acc -> Forall class_keys_strict acc ->
  elines text = flatten f -> depth_ok 0 f ->
  ~ NoDup (map cls_key (acc ++ classes_of None f)) -> read_into acc text = Err.
Proof.
  intros Hk Hs E D Hdup. destruct (read_into acc text) as [out|] eqn:R; [|reflexivity]. exfalso. apply Hdup.
  assert (Hout := read_keys_strict acc text out (conj Hk Hs) R).
  destruct (read_exact acc text out R) as (f' & E' & D' & _ & ->).
  assert (f = f').
  { rewrite E in E'. rewrite <- (app_nil_r (flatten f)), <- (app_nil_r (flatten f')) in E'.
    apply (forest_unique 0 f f' [] [] D D' I I E'). }
  subst f'. apply Hout.
Qed.

(* ---------- no loss, no merge: one node per line ---------- *)

Definition nfields (M : list class) : nat := list_sum (map (fun c => length (c_fields c)) M).
Definition nmeths (M : list class) : nat := list_sum (map (fun c => length (c_methods c)) M).
Definition nparams (M : list class) : nat :=
  list_sum (map (fun c => list_sum (map (fun m => length (m_params m)) (c_methods c))) M).

Lemma count_tag_app t a b : count_tag t (a ++ b) = (count_tag t a + count_tag t b)%nat.
Proof. induction a as [|l a IH]; cbn [app count_tag]; [reflexivity|]. destruct (tagb t l); rewrite IH; reflexivity. Qed.

Lemma list_sum_app' a b : list_sum (a ++ b) = (list_sum a + list_sum b)%nat.
Proof. apply list_sum_app. Qed.

Lemma only_comments_count t f : t <> s_COMMENT -> only_comments f = true -> count_tag t (flatten f) = O.
Proof.
  intros Ht. induction f as [|l ch _ sib IH]; cbn [only_comments flatten count_tag]; [reflexivity|].
  intros H. apply andb_true_iff in H as [H Hs]. apply andb_true_iff in H as [Hc Hl].
  destruct ch; [|discriminate]. cbn [flatten app].
  rewrite (tag_neq s_COMMENT t l (fun E => Ht (eq_sym E)) Hc). apply IH. exact Hs.
Qed.

Lemma shape_meth_count f : shape_meth f = true ->
  count_tag s_ARG (flatten f) = length (params_of f)
  /\ count_tag s_CLASS (flatten f) = O /\ count_tag s_FIELD (flatten f) = O /\ count_tag s_METHOD (flatten f) = O.
Proof.
  induction f as [|l ch _ sib IH]; cbn [shape_meth flatten count_tag params_of]; [auto|].
  intros H. apply andb_true_iff in H as [H Hs]. destruct (IH Hs) as (I1 & I2 & I3 & I4).
  rewrite !count_tag_app. destruct (tagb s_ARG l) eqn:Ta.
  - rewrite (tag_neq s_ARG s_CLASS l ltac:(discriminate) Ta), (tag_neq s_ARG s_FIELD l ltac:(discriminate) Ta),
      (tag_neq s_ARG s_METHOD l ltac:(discriminate) Ta).
    rewrite !(only_comments_count _ ch) by (try discriminate; exact H). cbn [length]. rewrite I1, I2, I3, I4. auto.
  - apply andb_true_iff in H as [Hc Hl]. destruct ch; [|discriminate]. cbn [flatten count_tag].
    rewrite (tag_neq s_COMMENT s_CLASS l ltac:(discriminate) Hc), (tag_neq s_COMMENT s_FIELD l ltac:(discriminate) Hc),
      (tag_neq s_COMMENT s_METHOD l ltac:(discriminate) Hc). cbn [Nat.add]. auto.
Qed.

Lemma nsum_app M1 M2 : nfields (M1 ++ M2) = (nfields M1 + nfields M2)%nat
  /\ nmeths (M1 ++ M2) = (nmeths M1 + nmeths M2)%nat /\ nparams (M1 ++ M2) = (nparams M1 + nparams M2)%nat.
Proof. unfold nfields, nmeths, nparams. rewrite !map_app, !list_sum_app. auto. Qed.

Definition nparams_m (ms : list meth) : nat := list_sum (map (fun m => length (m_params m)) ms).

Lemma nsum_cons c M : nfields (c :: M) = (length (c_fields c) + nfields M)%nat
  /\ nmeths (c :: M) = (length (c_methods c) + nmeths M)%nat
  /\ nparams (c :: M) = (nparams_m (c_methods c) + nparams M)%nat.
Proof. repeat split; reflexivity. Qed.

Lemma shape_class_count : forall f par, shape_class f = true ->
  count_tag s_CLASS (flatten f) = length (classes_of par f)
  /\ count_tag s_FIELD (flatten f) = (length (fields_of f) + nfields (classes_of par f))%nat
  /\ count_tag s_METHOD (flatten f) = (length (meths_of f) + nmeths (classes_of par f))%nat
  /\ count_tag s_ARG (flatten f) = (nparams_m (meths_of f) + nparams (classes_of par f))%nat.
Proof.
  induction f as [|l ch IHch sib IHsib]; intros par; cbn [shape_class flatten count_tag classes_of fields_of meths_of];
    [cbn; auto|].
  intros H. apply andb_true_iff in H as [H Hs]. destruct (IHsib par Hs) as (I1 & I2 & I3 & I4).
  rewrite !count_tag_app. destruct (tagb s_CLASS l) eqn:Tc.
  { rewrite (tag_neq s_CLASS s_FIELD l ltac:(discriminate) Tc), (tag_neq s_CLASS s_METHOD l ltac:(discriminate) Tc),
      (tag_neq s_CLASS s_ARG l ltac:(discriminate) Tc).
    set (nm := cnames_of par l).
    destruct (IHch (Some (fst nm, dst_or_src nm)) H) as (J1 & J2 & J3 & J4).
    rewrite app_length. cbn [length].
    destruct (nsum_app (classes_of (Some (fst nm, dst_or_src nm)) ch)
                (mkClass [Some (fst nm); snd nm] (doc_of None ch) (fields_of ch) (meths_of ch) :: classes_of par sib)) as (-> & -> & ->).
    destruct (nsum_cons (mkClass [Some (fst nm); snd nm] (doc_of None ch) (fields_of ch) (meths_of ch)) (classes_of par sib)) as (-> & -> & ->).
    cbn [c_fields c_methods].
    rewrite I1, I2, I3, I4, J1, J2, J3, J4. repeat split; lia. }
  destruct (tagb s_FIELD l) eqn:Tf.
  { rewrite (tag_neq s_FIELD s_METHOD l ltac:(discriminate) Tf), (tag_neq s_FIELD s_ARG l ltac:(discriminate) Tf).
    rewrite !(only_comments_count _ ch) by (try discriminate; exact H). cbn [length]. rewrite I1, I2, I3, I4.
    repeat split; lia. }
  destruct (tagb s_METHOD l) eqn:Tm.
  { rewrite (tag_neq s_METHOD s_ARG l ltac:(discriminate) Tm).
    destruct (shape_meth_count ch H) as (M1 & M2 & M3 & M4). rewrite M1, M2, M3, M4. cbn [length].
    change (nparams_m (meth_of l ch :: meths_of sib)) with (length (params_of ch) + nparams_m (meths_of sib))%nat.
    rewrite I1, I2, I3, I4. repeat split; lia. }
  apply andb_true_iff in H as [Hc Hl]. destruct ch; [|discriminate]. cbn [flatten count_tag].
  rewrite (tag_neq s_COMMENT s_ARG l ltac:(discriminate) Hc). cbn [Nat.add]. auto.
Qed.

Lemma shape_root_count : forall f, shape_root f = true ->
  count_tag s_CLASS (flatten f) = length (classes_of None f)
  /\ count_tag s_FIELD (flatten f) = nfields (classes_of None f)
  /\ count_tag s_METHOD (flatten f) = nmeths (classes_of None f)
  /\ count_tag s_ARG (flatten f) = nparams (classes_of None f).
Proof.
  induction f as [|l ch _ sib IHsib]; cbn [shape_root flatten count_tag classes_of]; [cbn; auto|].
  intros H. apply andb_true_iff in H as [H Hs]. apply andb_true_iff in H as [Tc Hc].
  destruct (IHsib Hs) as (I1 & I2 & I3 & I4). rewrite !count_tag_app, Tc.
  rewrite (tag_neq s_CLASS s_FIELD l ltac:(discriminate) Tc), (tag_neq s_CLASS s_METHOD l ltac:(discriminate) Tc),
    (tag_neq s_CLASS s_ARG l ltac:(discriminate) Tc).
  set (nm := cnames_of None l).
  destruct (shape_class_count ch (Some (fst nm, dst_or_src nm)) Hc) as (J1 & J2 & J3 & J4).
  rewrite app_length. cbn [length].
  destruct (nsum_app (classes_of (Some (fst nm, dst_or_src nm)) ch)
              (mkClass [Some (fst nm); snd nm] (doc_of None ch) (fields_of ch) (meths_of ch) :: classes_of None sib)) as (-> & -> & ->).
    destruct (nsum_cons (mkClass [Some (fst nm); snd nm] (doc_of None ch) (fields_of ch) (meths_of ch)) (classes_of None sib)) as (-> & -> & ->).
    cbn [c_fields c_methods].
  rewrite I1, I2, I3, I4, J1, J2, J3, J4. repeat split; lia.
Qed.

(* Th: as many classes / fields / methods / parameters are added as the text has CLASS / FIELD /
   METHOD / ARG lines: no line is lost, no two lines are merged *)
Theorem read_counts acc text out : read_into acc text = Ok out ->
  length out = (length acc + count_tag s_CLASS (elines text))%nat
  /\ nfields out = (nfields acc + count_tag s_FIELD (elines text))%nat
  /\ nmeths out = (nmeths acc + count_tag s_METHOD (elines text))%nat
  /\ nparams out = (nparams acc + count_tag s_ARG (elines text))%nat.
Proof.
  intros H. destruct (read_exact acc text out H) as (f & -> & D & Sh & ->).
  destruct (shape_root_count f Sh) as (-> & -> & -> & ->).
  destruct (nsum_app acc (classes_of None f)) as (-> & -> & ->). rewrite app_length. auto.
Qed.

(* ---------- no re-parenting ---------- *)

(* every class decoded from below a CLASS line carries the names of that line in front of its own *)
Theorem nested_keys_prefixed : forall f ps pd, Forall (fun c => exists s, cls_key c = ps ++ cDOLLAR :: s) (classes_of (Some (ps, pd)) f).
Proof.
  induction f as [|l ch IHch sib IHsib]; intros ps pd; cbn [classes_of]; [constructor|].
  destruct (tagb s_CLASS l); [|apply IHsib].
  apply Forall_app. split.
  - unfold cnames_of. cbn [fst snd par_src].
    set (x := fst match pat_class (el_fields l) with Ok sd => sd | Err => ([], None) end).
    eapply Forall_impl; [|apply IHch]. cbn beta. intros c (s & ->). exists (x ++ cDOLLAR :: s).
    rewrite <- app_assoc. reflexivity.
  - constructor; [|apply IHsib]. unfold cnames_of. cbn [fst snd par_src cls_key c_names src_of]. eexists. reflexivity.
Qed.


(* ---------- the comment layer of the round trip, in isolation ---------- *)

(* the hypothesis on comments, written out: NO character is excluded — TAB, VT, FF, CR, runs of spaces, leading and
   trailing spaces, `#`, the empty comment, blank lines, a trailing line break are all inside —; the one thing a
   comment must not have is a line (LF separates them) that ENDS with CR, and such a comment the writer refuses
   (unwritable_comment_refused): nothing is lost silently *)
Theorem doc_hyp_spec : docb None = true /\ forall d, docb (Some d) = forallb (fun l => negb (ends_cr l)) (split_on cLF d).
Proof. split; reflexivity. Qed.

Theorem ends_cr_spec l : ends_cr l = true <-> exists p, l = p ++ [cCR].
Proof.
  induction l as [|c l IH]; cbn [ends_cr].
  - split; [discriminate|]. intros ([|? ?] & E); discriminate.
  - destruct l as [|x l].
    + split.
      * intros H. apply N.eqb_eq in H. subst c. exists []. reflexivity.
      * intros ([|y [|? ?]] & E); try discriminate. cbn [app] in E. injection E as ->. reflexivity.
    + rewrite IH. split.
      * intros (p & E). exists (c :: p). cbn [app]. rewrite E. reflexivity.
      * intros ([|y p] & E); [discriminate|]. cbn [app] in E. injection E as -> E. exists p. exact E.
Qed.

(* Th: for EVERY comment the writer accepts, at every indentation: the COMMENT lines the writer emits (one per
   `split('\n')` part, so a trailing line break gives a last `COMMENT ` line and the empty comment one
   bare `COMMENT ` line) are tokenised — tag, then the text as it is — and read back to exactly that comment *)
Theorem comment_roundtrip ind doc rest : docb doc = true -> stops ind rest ->
  filter_map enigma_line (comment_lines ind doc) = e_comments ind doc
  /\ forallb line_ok (comment_lines ind doc) = true
  /\ length (comment_lines ind doc) = match doc with Some d => length (split_on cLF d) | None => O end
  /\ comments_loop ind None (e_comments ind doc ++ rest) = Ok (doc, rest).
Proof.
  intros Hd Hr. destruct (good_comments ind doc Hd) as [G1 G2]. split; [exact G1|]. split; [exact G2|]. split.
  - destruct doc as [d|]; cbn [comment_lines]; [apply map_length|reflexivity].
  - apply comments_loop_doc; assumption.
Qed.

(* the reader's half needs no hypothesis at all: whatever text stands after `COMMENT` and one separator (any of the six
   Java white-space characters) is the comment line, character for character *)
Theorem comment_line_verbatim n w l : java_ws w = true ->
  enigma_line (tabs n ++ s_COMMENT ++ w :: l) = Some (mkEline n s_COMMENT [l])
  /\ forall doc, ins_comment doc (mkEline n s_COMMENT [l]) = Some (match doc with Some d => d ++ cLF :: l | None => l end).
Proof. intros Hw. split; [apply enigma_line_comment_any; exact Hw|]. intros [d|]; reflexivity. Qed.
