(* C12 theory, part 2: the orders of the sorts in the writer are total pre-orders that are
   antisymmetric on the elements of one map (distinct keys); hence the sorted output does not
   depend on the insertion order (Base/Sort.sorted_perm_unique). *)
From FB Require Import C12.Model.
From Coq Require Import Lia Permutation.

Definition cmp_spec {A} (cmp : A -> A -> comparison) : Prop :=
  (forall a b, cmp a b = Eq <-> a = b) /\
  (forall a b, cmp b a = CompOpp (cmp a b)) /\
  (forall c a b d, cmp a b = c -> cmp b d = c -> cmp a d = c).

Lemma cmp_spec_str : cmp_spec str_cmp.
Proof.
  split; [exact str_cmp_eq|]. split; [exact (fun a b => str_cmp_antisym a b)|].
  intros c a b d. apply str_cmp_trans.
Qed.

Lemma cmp_spec_N : cmp_spec N.compare.
Proof.
  split; [exact N.compare_eq_iff|]. split; [intros a b; apply N.compare_antisym|].
  intros c a b d H1 H2. destruct c.
  - apply N.compare_eq_iff in H1, H2. subst. apply N.compare_refl.
  - rewrite N.compare_lt_iff in *. lia.
  - rewrite N.compare_gt_iff in *. lia.
Qed.

Lemma cmp_spec_opt : cmp_spec opt_str_cmp.
Proof.
  destruct cmp_spec_str as (He & Ha & Ht). split; [|split].
  - intros [a|] [b|]; cbn [opt_str_cmp]; try (split; congruence).
    rewrite He. split; congruence.
  - intros [a|] [b|]; cbn [opt_str_cmp CompOpp]; auto.
  - intros c [a|] [b|] [d|]; cbn [opt_str_cmp]; try congruence. apply Ht.
Qed.

Lemma cmp_spec_names : cmp_spec names_cmp.
Proof.
  destruct cmp_spec_opt as (He & Ha & Ht). split; [|split].
  - induction a as [|x a IH]; intros [|y b]; cbn [names_cmp]; try (split; congruence).
    destruct (opt_str_cmp x y) eqn:E.
    + apply He in E. subst. rewrite IH. split; congruence.
    + split; [discriminate|]. intros [= -> _]. assert (opt_str_cmp y y = Eq) by (apply He; reflexivity). congruence.
    + split; [discriminate|]. intros [= -> _]. assert (opt_str_cmp y y = Eq) by (apply He; reflexivity). congruence.
  - induction a as [|x a IH]; intros [|y b]; cbn [names_cmp CompOpp]; auto.
    rewrite (Ha x y). destruct (opt_str_cmp x y); cbn [CompOpp]; auto.
  - intros c. induction a as [|x a IH]; intros [|y b] [|z d]; cbn [names_cmp]; try congruence.
    destruct (opt_str_cmp x y) eqn:E1; destruct (opt_str_cmp y z) eqn:E2; intros H1 H2; try congruence.
    + apply He in E1, E2. subst y z. assert (E : opt_str_cmp x x = Eq) by (apply He; reflexivity). rewrite E. eapply IH; eauto.
    + apply He in E1. subst y. rewrite E2. exact H2.
    + apply He in E1. subst y. rewrite E2. exact H2.
    + apply He in E2. subst z. rewrite E1. exact H1.
    + rewrite (Ht Lt x y z E1 E2). exact H1.
    + apply He in E2. subst z. rewrite E1. exact H1.
    + rewrite (Ht Gt x y z E1 E2). exact H1.
Qed.

Definition pair_cmp {A B} (c1 : A -> A -> comparison) (c2 : B -> B -> comparison) (a b : A * B) : comparison :=
  lex (c1 (fst a) (fst b)) (c2 (snd a) (snd b)).

Lemma cmp_spec_pair {A B} (c1 : A -> A -> comparison) (c2 : B -> B -> comparison) :
  cmp_spec c1 -> cmp_spec c2 -> cmp_spec (pair_cmp c1 c2).
Proof.
  intros (He1 & Ha1 & Ht1) (He2 & Ha2 & Ht2). unfold pair_cmp, lex. split; [|split].
  - intros [a1 a2] [b1 b2]. cbn [fst snd]. destruct (c1 a1 b1) eqn:E.
    + apply He1 in E. subst. rewrite He2. split; congruence.
    + split; [discriminate|]. intros [= -> _]. assert (c1 b1 b1 = Eq) by (apply He1; reflexivity). congruence.
    + split; [discriminate|]. intros [= -> _]. assert (c1 b1 b1 = Eq) by (apply He1; reflexivity). congruence.
  - intros [a1 a2] [b1 b2]. cbn [fst snd]. rewrite (Ha1 a1 b1). destruct (c1 a1 b1); cbn [CompOpp]; auto.
  - intros c [a1 a2] [b1 b2] [d1 d2]. cbn [fst snd].
    destruct (c1 a1 b1) eqn:E1; destruct (c1 b1 d1) eqn:E2; intros H1 H2; try congruence.
    + apply He1 in E1, E2. subst b1 d1. assert (E : c1 a1 a1 = Eq) by (apply He1; reflexivity). rewrite E. eapply Ht2; eauto.
    + apply He1 in E1. subst b1. rewrite E2. exact H2.
    + apply He1 in E1. subst b1. rewrite E2. exact H2.
    + apply He1 in E2. subst d1. rewrite E1. exact H1.
    + rewrite (Ht1 Lt a1 b1 d1 E1 E2). exact H1.
    + apply He1 in E2. subst d1. rewrite E1. exact H1.
    + rewrite (Ht1 Gt a1 b1 d1 E1 E2). exact H1.
Qed.

(* an order given by comparing a projection *)
Definition proj_leb {A K} (cmp : K -> K -> comparison) (pr : A -> K) (a b : A) : bool := is_le (cmp (pr a) (pr b)).

Lemma proj_total {A K} (cmp : K -> K -> comparison) (pr : A -> K) (P : A -> Prop) :
  cmp_spec cmp -> total_on (proj_leb cmp pr) P.
Proof.
  intros (_ & Ha & _) a b _ _. unfold proj_leb. rewrite (Ha (pr a) (pr b)).
  destruct (cmp (pr a) (pr b)); cbn [is_le CompOpp]; auto.
Qed.

Lemma proj_trans {A K} (cmp : K -> K -> comparison) (pr : A -> K) (P : A -> Prop) :
  cmp_spec cmp -> trans_on (proj_leb cmp pr) P.
Proof.
  intros (He & Ha & Ht) a b c _ _ _. unfold proj_leb.
  destruct (cmp (pr a) (pr b)) eqn:E1; destruct (cmp (pr b) (pr c)) eqn:E2; cbn [is_le]; try discriminate; intros _ _.
  - apply He in E1, E2. rewrite E1, E2. assert (E : cmp (pr c) (pr c) = Eq) by (apply He; reflexivity). rewrite E. reflexivity.
  - apply He in E1. rewrite E1, E2. reflexivity.
  - apply He in E2. rewrite <- E2, E1. reflexivity.
  - rewrite (Ht Lt _ _ _ E1 E2). reflexivity.
Qed.

Lemma proj_antisym {A K} (cmp : K -> K -> comparison) (pr : A -> K) (P : A -> Prop) :
  cmp_spec cmp -> (forall a b, P a -> P b -> pr a = pr b -> a = b) -> antisym_on (proj_leb cmp pr) P.
Proof.
  intros (He & Ha & _) Hinj a b Pa Pb. unfold proj_leb. rewrite (Ha (pr a) (pr b)).
  destruct (cmp (pr a) (pr b)) eqn:E; cbn [is_le CompOpp]; try discriminate; intros _ _.
  apply Hinj; auto. apply He. exact E.
Qed.

Lemma nodup_map_inj {A B} (g : A -> B) l a b : NoDup (map g l) -> In a l -> In b l -> g a = g b -> a = b.
Proof.
  induction l as [|x l IH]; intros Hn Ha Hb E; [destruct Ha|].
  cbn [map] in Hn. inversion Hn as [|? ? Hx Hn']; subst.
  destruct Ha as [->|Ha]; destruct Hb as [->|Hb]; auto.
  - exfalso. apply Hx. rewrite E. apply in_map. exact Hb.
  - exfalso. apply Hx. rewrite <- E. apply in_map. exact Ha.
Qed.

(* sorting by a projection that is injective on the list: the result only depends on the multiset *)
Lemma isort_proj_perm {A K} (cmp : K -> K -> comparison) (pr : A -> K) l l' :
  cmp_spec cmp -> NoDup (map pr l) -> Permutation l l' ->
  isort (proj_leb cmp pr) l = isort (proj_leb cmp pr) l'.
Proof.
  intros Hc Hn Hp. apply sorted_perm_unique with (P := fun x => In x l).
  - apply proj_total. exact Hc.
  - apply proj_trans. exact Hc.
  - apply proj_antisym; [exact Hc|]. intros a b Ha Hb. apply (nodup_map_inj pr l); assumption.
  - apply Forall_forall. auto.
  - exact Hp.
Qed.

(* the concrete sorts *)
Definition fproj (f : field) : names * str := (f_names f, f_desc f).
Definition mproj (m : meth) : names * str := (m_names m, m_desc m).
Definition pproj (p : param) : N * names := (p_index p, p_names p).

Lemma field_wleb_proj : field_wleb = proj_leb (pair_cmp names_cmp str_cmp) fproj.
Proof. reflexivity. Qed.
Lemma meth_wleb_proj : meth_wleb = proj_leb (pair_cmp names_cmp str_cmp) mproj.
Proof. reflexivity. Qed.
Lemma param_wleb_proj : param_wleb = proj_leb (pair_cmp N.compare names_cmp) pproj.
Proof. reflexivity. Qed.
Lemma key_leb_proj : key_leb = proj_leb str_cmp cls_key.
Proof. reflexivity. Qed.
Lemma file_leb_proj : file_leb = proj_leb str_cmp (@fst str class).
Proof. reflexivity. Qed.

Lemma cmp_spec_nd : cmp_spec (pair_cmp names_cmp str_cmp).
Proof. apply cmp_spec_pair; [apply cmp_spec_names|apply cmp_spec_str]. Qed.
Lemma cmp_spec_in : cmp_spec (pair_cmp N.compare names_cmp).
Proof. apply cmp_spec_pair; [apply cmp_spec_N|apply cmp_spec_names]. Qed.
