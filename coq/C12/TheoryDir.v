(* C12 theory, part 14: placement of orphan inner classes, and the directory form.
   - a class whose direct outer class is not in the set starts its own file, at indentation 0, with
     its full names — whatever further-out classes the set contains; a class is in the file of the
     class reached by following parent names as long as they are in the set;
   - enigma_dir::write only creates paths INSIDE the target directory: relative, no `.` or `..`
     component (a file name with `.` or a leading `/` is refused);
   - for names the name types admit, the only thing that can make the directory writer fail where
     the stream writer succeeds is the file system (NUL, a component longer than 255 bytes), and
     then it is an error, never a silent loss. *)
From FB Require Import C12.Model C12.TheoryTree C12.TheoryOrd C12.TheoryDet C12.TheoryPlace C12.TheoryTok C12.TheoryLines
  C12.TheoryForest C12.TheoryRT C18.Theory.
From Coq Require Import Lia Arith PeanoNat Permutation Sorted.

(* ---------- placement ---------- *)

(* the head of every tree is its root at indentation 0 *)
Lemma T_head f M c d : exists tl, T f M c d = (c, d) :: tl.
Proof. destruct f; cbn [T]; eexists; reflexivity. Qed.

Lemma files_complete M fs c : keys_nodup M -> files M = Ok fs -> In c M -> parent_in M c = None ->
  In (file_name c, c) fs.
Proof.
  intros HM Hf Hc Hp.
  assert (Hr : In c (roots M)) by (apply filter_In; split; [exact Hc|unfold is_root; rewrite Hp; reflexivity]).
  assert (Hin : In c (map snd fs)) by (eapply Permutation_in; [symmetry; apply files_roots; exact Hf|exact Hr]).
  apply in_map_iff in Hin as ([n c'] & E & Hin). cbn [snd] in E. subst c'.
  destruct (files_in M fs (n, c) Hf Hin) as [_ En]. cbn [fst snd] in En. subst n. exact Hin.
Qed.

(* Th: a class whose direct outer class is absent (or that is no inner class at all) gets its own
   file, named after its target (or source) name; it is the first class written there, at
   indentation 0, and its CLASS line carries its FULL source and target names.  Nothing is assumed
   about further-out classes: with A and A$B$C in the set and A$B absent, A$B$C is NOT written into
   the file of A. *)
Theorem orphan_own_file M fs c : keys_nodup M -> files M = Ok fs -> In c M -> parent_in M c = None ->
  In (file_name c, c) fs
  /\ (exists tl, tree_nodes M c = Ok ((c, O) :: tl))
  /\ (forall ls, write_class c 0 = Ok ls -> exists tl, ls = class_line 0 (cls_key c) (cls_dst c) :: tl).
Proof.
  intros HM Hf Hc Hp. split; [apply (files_complete M fs c); assumption|]. split.
  - rewrite (tree_nodes_T M c HM Hc). destruct (T_head (bound M) M c 0) as (tl & Et). rewrite Et. exists tl. reflexivity.
  - intros ls Hw. apply write_class_ok in Hw as [Hw _]. unfold write_class_lines in Hw. cbn [Nat.eqb negb short_name] in Hw.
    destruct (map_res _ _); cbn [bind] in Hw; [|discriminate]. injection Hw as <-.
    eexists. f_equal. destruct (cls_dst c); reflexivity.
Qed.

(* the hypothesis spelled out for the case of the seeded change: the name says "inner class of p",
   p is not in the set *)
Theorem orphan_inner_is_root M c p i : split_inner (cls_key c) = Some (p, i) -> has_key M p = false ->
  parent_in M c = None /\ chain_depth M (cls_key c) = O.
Proof.
  intros Hs Hk. assert (Hp : parent_in M c = None) by (unfold parent_in; rewrite Hs, Hk; reflexivity).
  split; [exact Hp|]. unfold chain_depth. destruct (length (cls_key c)); [reflexivity|].
  cbn [chain_depth_aux]. rewrite <- parent_in_up, Hp. reflexivity.
Qed.

(* Th: which file a class is in: the file of the class reached from it by [dx] parent steps inside
   the set, where [dx] is its indentation; that class has no parent in the set *)
Theorem placement M fs nodes : keys_nodup M -> files M = Ok fs -> file_nodes M fs = Ok nodes ->
  forall nc ns x dx, In (nc, ns) (combine fs nodes) -> In (x, dx) ns ->
    In x M /\ anc M dx (cls_key x) = Some (cls_key (snd nc)) /\ parent_in M (snd nc) = None
    /\ fst nc = file_name (snd nc) /\ exists tl, ns = (snd nc, O) :: tl.
Proof.
  intros HM Hf Hn nc ns x dx Hin Hx.
  rewrite (file_nodes_forest M fs HM Hf) in Hn. injection Hn as <-.
  assert (Ens : ns = T (bound M) M (snd nc) 0).
  { clear -Hin. induction fs as [|a fs IH]; cbn [map combine] in Hin; [destruct Hin|].
    destruct Hin as [E|Hin]; [injection E as <- <-; reflexivity|exact (IH Hin)]. }
  assert (Hnc : In nc fs).
  { clear -Hin. apply in_combine_l in Hin. exact Hin. }
  destruct (files_in M fs nc Hf Hnc) as [Hr En].
  assert (Hroot : In (snd nc) (roots M)).
  { eapply Permutation_in; [apply files_roots; exact Hf|apply in_map; exact Hnc]. }
  subst ns. destruct (T_sound M _ (snd nc) 0 x dx (inv_bound _ _ Hr) Hx) as (Hxm & n & Ha & ->).
  cbn [Nat.add]. split; [exact Hxm|]. split; [exact Ha|]. split.
  - apply filter_In in Hroot as [_ Hroot]. unfold is_root in Hroot. destruct (parent_in M (snd nc)); [discriminate|reflexivity].
  - split; [exact En|]. apply T_head.
Qed.

(* ---------- names the name types admit are harmless as paths ---------- *)

Lemma Unq_chars u : Unq u -> ~ In cDOT u /\ ~ In cSLASH u /\ u <> [].
Proof.
  intros [Hn Hf]. rewrite Forall_forall in Hf. repeat split; [| |exact Hn]; intros Hin; apply (Hf _ Hin); cbn; auto.
Qed.

Lemma ends_with_char_app c a b : b <> [] -> ends_with_char c (a ++ b) = ends_with_char c b.
Proof.
  intros Hb. unfold ends_with_char. rewrite rev_app_distr. destruct (rev b) as [|x r] eqn:E; [|reflexivity].
  exfalso. apply Hb. apply (f_equal (@rev N)) in E. rewrite rev_involutive in E. exact E.
Qed.

Lemma ends_with_char_last c s : ends_with_char c s = true -> exists s', s = s' ++ [c].
Proof.
  unfold ends_with_char. destruct (rev s) as [|x r] eqn:E; [discriminate|]. intros H. apply N.eqb_eq in H. subst x.
  exists (rev r). apply (f_equal (@rev N)) in E. rewrite rev_involutive in E. exact E.
Qed.

Lemma ClassNameG_path s : ClassNameG s ->
  ~ In cDOT s /\ starts_with [cSLASH] s = false /\ ends_with_char cSLASH s = false /\ s <> [].
Proof.
  induction 1 as [u Hu|u r Hu Hr IH].
  - destruct (Unq_chars u Hu) as (Hd & Hs & Hn). split; [exact Hd|]. split; [|split; [|exact Hn]].
    + destruct u as [|c u]; [congruence|]. cbn [starts_with]. rewrite andb_true_r.
      apply N.eqb_neq. intros E. apply Hs. left. symmetry. exact E.
    + destruct (ends_with_char cSLASH u) eqn:E; [|reflexivity]. exfalso.
      apply ends_with_char_last in E as (s' & ->). apply Hs. apply in_or_app. right. left. reflexivity.
  - destruct (Unq_chars u Hu) as (Hd & Hs & Hn). destruct IH as (Id & Is & Ie & In').
    split; [|split; [|split]].
    + intros Hin. apply in_app_or in Hin as [Hin|[E|Hin]]; [contradiction|discriminate|contradiction].
    + destruct u as [|c u]; [congruence|]. cbn [app starts_with]. rewrite andb_true_r.
      apply N.eqb_neq. intros E. apply Hs. left. symmetry. exact E.
    + change (u ++ cSLASH :: r) with (u ++ [cSLASH] ++ r). rewrite app_assoc, ends_with_char_app by exact In'. exact Ie.
    + destruct u; discriminate.
Qed.

Lemma valid_name_dir_ok s : is_valid_obj_class_name s = true ->
  dir_name_ok s = true /\ ends_with_char cSLASH s = false.
Proof.
  intros H. apply obj_class_name_spec in H. destruct (ClassNameG_path s H) as (Hd & Hs & He & _).
  split; [|exact He]. unfold dir_name_ok. rewrite Hs. cbn [negb]. rewrite andb_true_r.
  destruct (mem_N cDOT s) eqn:E; [|reflexivity]. apply mem_N_In in E. contradiction.
Qed.

Lemma file_name_valid c : class_okb c = true -> is_valid_obj_class_name (file_name c) = true.
Proof.
  unfold class_okb. intros H. split_ands H. unfold file_name. destruct (cls_dst c) as [x|]; [|exact H6].
  cbn [opt_b] in H5. apply andb_true_iff in H5. apply H5.
Qed.

(* what the file system may still refuse *)
Definition fs_okb (M : list class) : bool :=
  match files M with
  | Ok fs => forallb (fun nc => fs_name_ok (fst nc)) fs
  | Err => false
  end.

(* Th: inside the hypotheses of the round trip the directory hypothesis is nothing but the file
   system's limits (no NUL, components of at most 255 bytes): `.`, a leading or trailing `/`
   cannot occur in names the name types admit *)
Theorem dir_ok_iff_fs_ok M : enigma_okb M = true -> dir_okb M = fs_okb M.
Proof.
  intros Hok. destruct (enigma_ok_set M Hok) as (Hset & _ & fs & Hf). unfold dir_okb, fs_okb. rewrite Hf.
  assert (HM : keys_nodup M) by apply Hset.
  destruct (files_facts M fs HM Hf) as (_ & _ & _ & Hin). destruct Hset as (_ & Hcls & _).
  assert (Hall : forall nc, In nc fs -> dir_name_ok (fst nc) = true /\ ends_with_char cSLASH (fst nc) = false).
  { intros nc Hnc. destruct (Hin nc Hnc) as [Hr En]. rewrite En. apply valid_name_dir_ok. apply file_name_valid.
    apply Hcls. apply filter_In in Hr. apply Hr. }
  clear -Hall. induction fs as [|nc fs IH]; cbn [forallb]; [reflexivity|].
  destruct (Hall nc (or_introl eq_refl)) as [-> ->]. cbn [negb andb]. rewrite andb_true_r.
  rewrite IH by (intros x Hx; apply Hall; right; exact Hx). reflexivity.
Qed.

Theorem read_write_dir_fs M : enigma_okb M = true -> fs_okb M = true ->
  exists d back, write_dir M = Ok d /\ read_dir d = Ok back /\ classes_sim back (enigma_norm M).
Proof. intros Hok Hfs. apply read_write_dir; [exact Hok|]. rewrite (dir_ok_iff_fs_ok M Hok). exact Hfs. Qed.

Lemma map_res_err {A B} (f : A -> res B) l x : In x l -> f x = Err -> map_res f l = Err.
Proof.
  induction l as [|a l IH]; intros Hin Hx; [destruct Hin|]. cbn [map_res]. destruct Hin as [->|Hin].
  - rewrite Hx. reflexivity.
  - destruct (f a); cbn [bind]; [|reflexivity]. rewrite (IH Hin Hx). reflexivity.
Qed.

(* and when the file system refuses a name the directory writer reports an error: no class is
   silently dropped *)
Theorem write_dir_fs_err M : is_ok (files M) = true -> fs_okb M = false -> write_dir M = Err.
Proof.
  unfold fs_okb, write_dir. destruct (files M) as [fs|]; [|discriminate]. intros _ H. cbn [bind].
  assert (exists nc, In nc fs /\ fs_name_ok (fst nc) = false) as (nc & Hnc & Hb).
  { clear -H. induction fs as [|a fs IH]; cbn [forallb] in H; [discriminate|].
    destruct (fs_name_ok (fst a)) eqn:E; cbn [andb] in H.
    - destruct (IH H) as (nc & Hnc & Hb). exists nc. split; [right; exact Hnc|exact Hb].
    - exists a. split; [left; reflexivity|exact E]. }
  apply (map_res_err _ fs nc Hnc). rewrite Hb, andb_false_r. reflexivity.
Qed.

(* ---------- nothing is written outside the target directory ---------- *)

(* a relative path none of whose components is `.` or `..` (or empty at the start: absolute) *)
Definition path_inside (p : str) : bool :=
  negb (starts_with [cSLASH] p)
  && forallb (fun comp => negb (str_eqb comp [cDOT]) && negb (str_eqb comp [cDOT; cDOT])) (split_on cSLASH p).

Lemma split_on_app_nosep c : forall a b, ~ In c b ->
  split_on c (a ++ b) = removelast (split_on c a) ++ [last (split_on c a) [] ++ b].
Proof.
  induction a as [|x a IH]; intros b Hb.
  - cbn [app split_on removelast last]. apply split_on_noc. exact Hb.
  - cbn [app split_on]. rewrite (IH b Hb). destruct (N.eqb x c).
    + destruct (split_on c a) as [|p ps] eqn:E; [exfalso; exact (split_on_nonnil c a E)|]. reflexivity.
    + destruct (split_on c a) as [|p ps] eqn:E; [exfalso; exact (split_on_nonnil c a E)|].
      destruct ps as [|q qs]; reflexivity.
Qed.

Lemma in_removelast {A} (l : list A) x : In x (removelast l) -> In x l.
Proof.
  induction l as [|a l IH]; [intros []|]. cbn [removelast]. destruct l as [|b l]; [intros []|].
  intros [->|H]; [left; reflexivity|right; apply IH; exact H].
Qed.

Lemma split_on_parts_sub c s p x : In p (split_on c s) -> In x p -> In x s.
Proof.
  revert p. induction s as [|y s IH]; intros p; cbn [split_on].
  - intros [<-|[]] [].
  - destruct (N.eqb y c).
    + intros [<-|H] Hx; [destruct Hx|right; eapply IH; eauto].
    + destruct (split_on c s) as [|q qs] eqn:E; [exfalso; exact (split_on_nonnil c s E)|].
      intros [<-|H] Hx.
      * destruct Hx as [->|Hx]; [left; reflexivity|right; apply (IH q); [left; reflexivity|exact Hx]].
      * right. apply (IH p); [right; exact H|exact Hx].
Qed.

Lemma written_path_inside name : ~ In cDOT name -> starts_with [cSLASH] name = false -> name <> [] ->
  path_inside (name ++ s_dot_mapping) = true.
Proof.
  intros Hd Hs Hn. unfold path_inside. apply andb_true_iff. split.
  - destruct name as [|c name]; [congruence|]. cbn [app starts_with] in *. rewrite Hs. reflexivity.
  - rewrite split_on_app_nosep by (intros H; apply mem_N_In in H; vm_compute in H; discriminate).
    rewrite forallb_app. apply andb_true_iff. split.
    + apply forallb_forall. intros comp Hc. apply in_removelast in Hc.
      assert (Hnd : ~ In cDOT comp) by (intros H; apply Hd; eapply split_on_parts_sub; eauto).
      apply andb_true_iff. split; apply negb_true_iff; apply str_eqb_neq; intros ->; apply Hnd; cbn; auto.
    + cbn [forallb]. rewrite andb_true_r.
      assert (Hlen : (8 <= length (last (split_on cSLASH name) [] ++ s_dot_mapping))%nat)
        by (rewrite app_length; cbn [s_dot_mapping length]; lia).
      apply andb_true_iff. split; apply negb_true_iff; apply str_eqb_neq; intros E; rewrite E in Hlen; cbn in Hlen; lia.
Qed.

(* Th: every path enigma_dir::write creates lies inside the target directory — for ANY mapping set,
   also one with names the name types would refuse *)
Theorem write_dir_inside M d : write_dir M = Ok d -> forall p body, In (p, body) d -> path_inside p = true.
Proof.
  unfold write_dir. destruct (files M) as [fs|]; cbn [bind]; [|discriminate].
  revert d. induction fs as [|nc fs IH]; intros d H p body Hin; cbn [map_res] in H.
  - injection H as <-. destruct Hin.
  - destruct (dir_name_ok (fst nc) && fs_name_ok (fst nc)) eqn:Eok; cbn [bind] in H; [|discriminate].
    destruct (write_tree M (snd nc)) as [b|]; cbn [bind] in H; [|discriminate].
    destruct (map_res _ fs) as [ds|] eqn:Er; cbn [bind] in H; [|discriminate]. injection H as <-.
    destruct Hin as [E|Hin]; [|exact (IH ds eq_refl p body Hin)]. injection E as <- _.
    apply andb_true_iff in Eok as [Hdn Hfs]. unfold dir_name_ok in Hdn. apply andb_true_iff in Hdn as [H1 H2].
    apply negb_true_iff in H1, H2.
    destruct (fst nc) as [|c0 nm] eqn:En.
    + (* the empty name: `.mapping` *) reflexivity.
    + rewrite <- En in *. apply written_path_inside; [|exact H2|rewrite En; discriminate].
      intros Hin. apply mem_N_In in Hin. congruence.
Qed.

(* ---------- reading a path ---------- *)

Theorem read_path_spec p : read_path p =
  match p with
  | NoSuchPath => Err
  | PlainFile name content => if is_mapping_file name then read_all content else Ok []
  | Directory d => read_dir d
  end.
Proof.
  destruct p as [|name content|d]; [reflexivity| |reflexivity]. unfold read_path, read_dir. cbn [filter fst].
  destruct (is_mapping_file name); cbn [isort insert read_files]; [|reflexivity].
  unfold read_all. destruct (read_into [] content); reflexivity.
Qed.

(* ---------- the sorted directory walk: the result does not depend on the order of the listing ---------- *)

Lemma comps_cmp_eq : forall a b, comps_cmp a b = Eq <-> a = b.
Proof.
  induction a as [|x a IH]; intros [|y b]; cbn [comps_cmp]; try (split; congruence).
  destruct (str_cmp x y) eqn:E.
  - apply str_cmp_eq in E. subst y. rewrite IH. split; congruence.
  - split; [discriminate|]. intros [= -> _]. rewrite (proj2 (str_cmp_eq y y) eq_refl) in E. discriminate.
  - split; [discriminate|]. intros [= -> _]. rewrite (proj2 (str_cmp_eq y y) eq_refl) in E. discriminate.
Qed.

Lemma comps_cmp_antisym : forall a b, comps_cmp b a = CompOpp (comps_cmp a b).
Proof.
  induction a as [|x a IH]; intros [|y b]; cbn [comps_cmp]; try reflexivity.
  rewrite (str_cmp_antisym x y). destruct (str_cmp x y); cbn [CompOpp]; auto.
Qed.

Lemma comps_cmp_trans : forall c a b d, comps_cmp a b = c -> comps_cmp b d = c -> comps_cmp a d = c.
Proof.
  intros c. induction a as [|x a IH]; intros [|y b] [|z d]; cbn [comps_cmp]; try congruence.
  destruct (str_cmp x y) eqn:E1; destruct (str_cmp y z) eqn:E2; intros H1 H2; try congruence.
  - apply str_cmp_eq in E1, E2. subst y z. rewrite (proj2 (str_cmp_eq x x) eq_refl). eapply IH; eauto.
  - apply str_cmp_eq in E1. subst y. rewrite E2. exact H2.
  - apply str_cmp_eq in E1. subst y. rewrite E2. exact H2.
  - apply str_cmp_eq in E2. subst z. rewrite E1. exact H1.
  - rewrite (str_cmp_trans Lt x y z E1 E2). exact H1.
  - apply str_cmp_eq in E2. subst z. rewrite E1. exact H1.
  - rewrite (str_cmp_trans Gt x y z E1 E2). exact H1.
Qed.

Lemma cmp_spec_comps : cmp_spec comps_cmp.
Proof. split; [exact comps_cmp_eq|]. split; [exact comps_cmp_antisym|exact comps_cmp_trans]. Qed.

Definition path_comps (pc : str * str) : list str := split_on cSLASH (fst pc).

Lemma path_leb_proj : path_leb = proj_leb comps_cmp path_comps.
Proof. reflexivity. Qed.

Lemma split_on_inj c a b : split_on c a = split_on c b -> a = b.
Proof. intros E. rewrite <- (join_split_on c a), <- (join_split_on c b), E. reflexivity. Qed.

(* Th: enigma_dir::read walks the directory sorted: whatever order the operating system lists the
   entries in, the same files are read in the same order, so the result (insertion order included,
   and which of two colliding classes is reported) is the same *)
Theorem read_dir_order_independent d d' : NoDup (map fst d) -> Permutation d d' -> read_dir d = read_dir d'.
Proof.
  intros Hn Hp. unfold read_dir. f_equal. rewrite path_leb_proj. apply isort_proj_perm.
  - exact cmp_spec_comps.
  - assert (Hn' : NoDup (map fst (filter (fun pc : str * str => is_mapping_file (fst pc)) d))) by (apply nodup_map_filter; exact Hn).
    clear -Hn'. induction (filter (fun pc : str * str => is_mapping_file (fst pc)) d) as [|a l IH]; [constructor|].
    cbn [map] in *. inversion Hn' as [|? ? Ha Hl]; subst. constructor; [|exact (IH Hl)].
    intros Hin. apply Ha. apply in_map_iff in Hin as (b & Eb & Hb). apply in_map_iff. exists b. split; [|exact Hb].
    unfold path_comps in Eb. apply split_on_inj in Eb. exact Eb.
  - apply perm_filter. exact Hp.
Qed.

(* the files are read in ascending path order (component by component) *)
Theorem read_dir_sorted d : read_dir d = read_files [] (isort path_leb (filter (fun pc => is_mapping_file (fst pc)) d))
  /\ Sorted (lebP path_leb) (isort path_leb (filter (fun pc => is_mapping_file (fst pc)) d)).
Proof.
  split; [reflexivity|]. rewrite path_leb_proj.
  apply (isort_sorted _ (fun _ => True)).
  - apply proj_total. exact cmp_spec_comps.
  - apply Forall_forall. auto.
Qed.

(* ---------- the written text, line by line ---------- *)

(* Th: nesting in the TEXT mirrors source-name nesting: the token lines of what write_all writes are, file
   after file in sorted order, for every class in pre-order of the tree of present parents: its CLASS
   line at indentation = number of present ancestors (short names below a parent, full names at 0),
   then its comment, its sorted fields, its sorted methods with their sorted parameters *)
Theorem written_text_lines M : enigma_okb M = true ->
  exists fs text, files M = Ok fs /\ write_all M = Ok text
    /\ elines text = flat_map (fun cd => e_class (fst cd) (snd cd)) (TheoryTree.forest M (map snd fs))
    /\ (forall x dx, In (x, dx) (TheoryTree.forest M (map snd fs)) -> dx = chain_depth M (cls_key x))
    /\ Permutation M (map fst (TheoryTree.forest M (map snd fs))).
Proof.
  intros Hok. destruct (enigma_ok_set M Hok) as (Hset & _ & fs & Hf).
  assert (HM : keys_nodup M) by apply Hset.
  destruct (write_all_lines M fs Hset Hf) as [Hw Hg].
  exists fs, (unlines (flat_map (file_lines M) fs)). split; [exact Hf|]. split; [exact Hw|]. split.
  - rewrite (elines_good _ _ Hg). reflexivity.
  - split.
    + intros x dx Hin. apply (forest_depth M). unfold TheoryTree.forest in *.
      apply in_flat_map in Hin as (r & Hr & Hin). apply in_flat_map. exists r. split; [|exact Hin].
      eapply Permutation_in; [apply files_roots; exact Hf|exact Hr].
    + etransitivity; [apply forest_perm; exact HM|]. apply Permutation_map. unfold TheoryTree.forest.
      apply Permutation_flat_map. symmetry. apply files_roots. exact Hf.
Qed.

(* ---------- write_one ---------- *)

Lemma assoc_str_in {A} (k : str) (l : list (str * A)) v : NoDup (map fst l) -> (assoc_str k l = Some v <-> In (k, v) l).
Proof.
  induction l as [|[k' v'] l IH]; intros Hn; cbn [assoc_str In].
  - split; [discriminate|intros []].
  - cbn [map fst] in Hn. inversion Hn as [|? ? Hk Hl]; subst. destruct (str_eqb_spec k k') as [->|Hne].
    + split; [intros [= ->]; left; reflexivity|]. intros [[= ->]|Hin]; [reflexivity|].
      exfalso. apply Hk. apply in_map_iff. exists (k', v). auto.
    + rewrite (IH Hl). split; [auto|]. intros [[= E _]|Hin]; [congruence|exact Hin].
Qed.

Lemma files_names_nodup M fs : files M = Ok fs -> NoDup (map fst fs).
Proof.
  rewrite files_unfold. destruct (negb _); [discriminate|].
  destruct (nodupb str_eqb (map fst (named M))) eqn:En; cbn [negb]; [|discriminate]. intros [= <-].
  apply nodupb_str_NoDup in En. eapply Permutation_NoDup; [|exact En]. apply Permutation_map. symmetry. apply isort_perm.
Qed.

(* Th: the single files: write_one succeeds exactly for the file names of the parent-free classes and
   writes that class's tree; write_all is these texts in sorted order, each after its `#` header *)
Theorem write_one_iff M fs name t : files M = Ok fs ->
  (write_one M name = Ok t <-> exists c, In (name, c) fs /\ write_tree M c = Ok t).
Proof.
  intros Hf. unfold write_one. rewrite Hf. cbn [bind]. assert (Hn := files_names_nodup M fs Hf). split.
  - destruct (assoc_str name fs) as [c|] eqn:E; [|discriminate]. intros H. exists c. split; [|exact H].
    apply (assoc_str_in name fs c Hn). exact E.
  - intros (c & Hin & Hw). apply (assoc_str_in name fs c Hn) in Hin. rewrite Hin. exact Hw.
Qed.

(* ---------- round 5: a comment the format cannot store is refused, never written wrongly ---------- *)

Lemma map_res_err_in {A B} (f : A -> res B) l x : In x l -> f x = Err -> map_res f l = Err.
Proof.
  induction l as [|a l IH]; intros Hin Hx; [destruct Hin|]. cbn [map_res].
  destruct Hin as [->|Hin]; [rewrite Hx; reflexivity|].
  destruct (f a); [|reflexivity]. cbn [bind]. rewrite (IH Hin Hx). reflexivity.
Qed.

(* Th: when some class of the set carries a comment with a line ending in CR (on the class, a field, a method or a
   parameter), the stream writer and the directory writer return an error — whichever file the class belongs to *)
Theorem unwritable_comment_refused M c : keys_nodup M -> In c M -> class_docs_writable c = false ->
  write_all M = Err /\ write_dir M = Err.
Proof.
  intros HM Hc Hw. unfold write_all, write_dir. destruct (files M) as [fs|] eqn:Hf; [|split; reflexivity]. cbn [bind].
  destruct (one_file M fs HM Hf) as (nodes & Hn & Hp).
  rewrite (file_nodes_forest M fs HM Hf) in Hn. apply Ok_inj in Hn. subst nodes.
  assert (Hin : In c (map fst (concat (map (fun nc => T (bound M) M (snd nc) 0) fs)))) by (eapply Permutation_in; eauto).
  apply in_map_iff in Hin as ([c' d] & E & Hin). cbn [fst] in E. subst c'.
  apply in_concat in Hin as (ns & Hns & Hcd). apply in_map_iff in Hns as (nc & <- & Hnc).
  assert (Hr : In (snd nc) M).
  { assert (H : In (snd nc) (roots M)) by (eapply Permutation_in; [apply files_roots; exact Hf|apply in_map; exact Hnc]).
    apply filter_In in H. apply H. }
  assert (Ht : write_tree M (snd nc) = Err).
  { unfold write_tree. rewrite (tree_nodes_T M (snd nc) HM Hr). cbn [bind]. unfold write_nodes.
    rewrite (map_res_err_in _ _ (c, d) Hcd); [reflexivity|]. cbn [fst snd]. unfold write_class. rewrite Hw. reflexivity. }
  split.
  - rewrite (map_res_err_in _ fs nc Hnc); [reflexivity|]. rewrite Ht. reflexivity.
  - apply (map_res_err_in _ fs nc Hnc). destruct (dir_name_ok (fst nc) && fs_name_ok (fst nc)); [|reflexivity]. rewrite Ht. reflexivity.
Qed.

(* … and only then (for the comment layer): the predicate is exactly "some comment has a line ending in CR" *)
Theorem class_docs_writable_spec c :
  class_docs_writable c = true <->
  docb (c_doc c) = true /\ (forall f, In f (c_fields c) -> docb (f_doc f) = true)
  /\ (forall m, In m (c_methods c) -> docb (m_doc m) = true /\ forall p, In p (m_params m) -> docb (p_doc p) = true).
Proof.
  unfold class_docs_writable, meth_docs_writable, docb. rewrite !andb_true_iff, !forallb_forall. split.
  - intros [[H1 H2] H3]. split; [exact H1|]. split; [exact H2|]. intros m Hm. specialize (H3 m Hm).
    apply andb_true_iff in H3 as [H3 H4]. rewrite forallb_forall in H4. split; assumption.
  - intros (H1 & H2 & H3). split; [split; assumption|]. intros m Hm. destruct (H3 m Hm) as [H4 H5].
    apply andb_true_iff. split; [exact H4|]. apply forallb_forall. exact H5.
Qed.
