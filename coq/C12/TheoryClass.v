(* C12 theory, part 8: the reader on the token lines of a whole tree of classes. *)
From FB Require Import C12.Model C12.TheoryTree C12.TheoryTok C12.TheoryLines C12.TheoryRead C18.Theory.
From Coq Require Import Lia Arith PeanoNat Permutation.

Lemma class_loop_step f d psrc pdst cur acc l ls' :
  class_loop (S f) d psrc pdst cur acc (l :: ls') =
    match Nat.compare (el_ind l) d with
    | Lt => Ok (cur, acc, l :: ls')
    | Gt => Err
    | Eq =>
        let t := el_first l in
        if str_eqb t s_CLASS then
          do r <- parse_class_with (class_loop f) d (Some (psrc, pdst)) l acc ls';
          class_loop f d psrc pdst cur (fst r) (snd r)
        else if str_eqb t s_FIELD then
          do x <- pat_named (el_fields l);
          let src := fst (fst x) in
          let dst := snd (fst x) in
          let desc := snd x in
          if negb (is_valid_unqualified_name src && opt_valid is_valid_unqualified_name dst) then Err
          else if has_field (c_fields cur) src desc then Err
          else
            do dr <- comments_loop (S d) None ls';
            class_loop f d psrc pdst (add_field cur (mkField desc [Some src; dst] (fst dr))) acc (snd dr)
        else if str_eqb t s_METHOD then
          do x <- pat_named (el_fields l);
          let src := fst (fst x) in
          let dst := snd (fst x) in
          let desc := snd x in
          if negb (is_valid_method_name src && opt_valid is_valid_method_name dst) then Err
          else if has_meth (c_methods cur) src desc then Err
          else
            do mr <- method_loop f (S d) (mkMeth desc [Some src; dst] None []) ls';
            class_loop f d psrc pdst (add_meth cur (fst mr)) acc (snd mr)
        else if str_eqb t s_COMMENT then
          class_loop f d psrc pdst (set_cdoc cur (ins_comment (c_doc cur) l)) acc ls'
        else Err
    end.
Proof. reflexivity. Qed.

Lemma class_loop_stop F d ps pd cur acc rest : stops d rest -> (length rest < F)%nat ->
  class_loop F d ps pd cur acc rest = Ok (cur, acc, rest).
Proof.
  intros Hr HF. destruct F as [|f]; [lia|]. destruct rest as [|l rest]; [reflexivity|].
  rewrite class_loop_step. cbn [stops] in Hr. apply Nat.compare_lt_iff in Hr. rewrite Hr. reflexivity.
Qed.

Lemma class_loop_comments d ps pd nm fs ms acc L : forall doc F rest',
  (length (c_elines d L ++ rest') < F)%nat ->
  exists F', (length rest' < F')%nat /\
    class_loop F d ps pd (mkClass nm doc fs ms) acc (c_elines d L ++ rest')
    = class_loop F' d ps pd (mkClass nm (fold_left ins_doc L doc) fs ms) acc rest'.
Proof.
  induction L as [|l L IH]; intros doc F rest' HF.
  - exists F. split; [exact HF|reflexivity].
  - destruct F as [|f]; [lia|]. cbn [c_elines map app]. rewrite class_loop_step.
    cbn [el_ind el_first]. rewrite Nat.compare_refl. cbv zeta. rewrite tag_C_CLASS, tag_C_FIELD, tag_C_METHOD, tag_CC.
    unfold set_cdoc. cbn [c_names c_doc c_fields c_methods].
    rewrite ins_comment_doc.
    destruct (IH (ins_doc doc l) f rest') as (F' & HF' & E).
    { cbn [c_elines map app length] in HF. fold (c_elines d L) in HF. lia. }
    exists F'. split; [exact HF'|]. exact E.
Qed.

Lemma has_field_false fs n dsc : ~ In (n, dsc) (map fkey fs) -> has_field fs n dsc = false.
Proof.
  intros H. unfold has_field. destruct (existsb _ fs) eqn:E; [|reflexivity].
  apply existsb_exists in E as (f & Hf & Ef). apply andb_true_iff in Ef as [E1 E2].
  apply str_eqb_eq in E1, E2. exfalso. apply H. apply in_map_iff. exists f. split; [|exact Hf].
  unfold fkey. rewrite E1, E2. reflexivity.
Qed.
Lemma has_meth_false ms n dsc : ~ In (n, dsc) (map mkey ms) -> has_meth ms n dsc = false.
Proof.
  intros H. unfold has_meth. destruct (existsb _ ms) eqn:E; [|reflexivity].
  apply existsb_exists in E as (f & Hf & Ef). apply andb_true_iff in Ef as [E1 E2].
  apply str_eqb_eq in E1, E2. exfalso. apply H. apply in_map_iff. exists f. split; [|exact Hf].
  unfold mkey. rewrite E1, E2. reflexivity.
Qed.

(* the slice pattern on what the writer emits *)
Lemma pat_named_written src dst desc :
  (match dst with Some _ => is_modifier desc = false | None => True end) ->
  pat_named (src :: opt_list dst ++ [desc]) = Ok (src, dst, desc).
Proof.
  destruct dst as [x|]; cbn [opt_list app pat_named]; [|reflexivity]. intros ->. reflexivity.
Qed.

Lemma e_field_head d f : exists tl, e_field d f = mkEline d s_FIELD (src_of (f_names f) :: opt_list (dst_of (f_names f)) ++ [f_desc f]) :: tl.
Proof. eexists. reflexivity. Qed.
Lemma e_meth_head d m : exists tl, e_meth d m = mkEline d s_METHOD (src_of (m_names m) :: opt_list (meth_dst m) ++ [m_desc m]) :: tl.
Proof. eexists. reflexivity. Qed.

Lemma class_loop_fields d ps pd nm doc ms acc Fs : forall fs F rest',
  (forall f, In f Fs -> field_okb f = true) -> NoDup (map fkey (fs ++ Fs)) -> stops (S d) rest' ->
  (length (flat_map (e_field d) Fs ++ rest') < F)%nat ->
  exists F', (length rest' < F')%nat /\
    class_loop F d ps pd (mkClass nm doc fs ms) acc (flat_map (e_field d) Fs ++ rest')
    = class_loop F' d ps pd (mkClass nm doc (fs ++ map rb_field Fs) ms) acc rest'.
Proof.
  induction Fs as [|f0 Fs IH]; intros fs F rest' Hok Hnd Hr HF.
  - exists F. cbn [map flat_map app]. rewrite app_nil_r. split; [exact HF|reflexivity].
  - destruct F as [|f]; [lia|].
    assert (Hf : field_okb f0 = true) by (apply Hok; left; reflexivity).
    unfold field_okb in Hf. split_ands Hf.
    cbn [flat_map]. unfold e_field at 1. cbn [app]. rewrite class_loop_step.
    cbn [el_ind el_first el_fields]. rewrite Nat.compare_refl. cbv zeta. rewrite tag_F_CLASS.
    replace (str_eqb s_FIELD s_FIELD) with true by reflexivity.
    rewrite pat_named_written.
    2:{ destruct (dst_of (f_names f0)); [apply negb_true_iff; exact Hf1|exact I]. }
    cbn [bind fst snd]. rewrite Hf4.
    assert (Hv : opt_valid is_valid_unqualified_name (dst_of (f_names f0)) = true).
    { destruct (dst_of (f_names f0)); [|reflexivity]. cbn [opt_b opt_valid] in *. apply andb_true_iff in Hf3. apply Hf3. }
    rewrite Hv. cbn [andb negb c_fields].
    rewrite has_field_false.
    2:{ rewrite map_app in Hnd. cbn [map] in Hnd. apply NoDup_remove_2 in Hnd. intros Hin. apply Hnd.
        apply in_or_app. left. exact Hin. }
    rewrite <- app_assoc. rewrite comments_loop_doc.
    2:{ apply stops_flat_map; [|exact Hr]. intros x _. destruct (e_field_head d x) as (tl & ->).
        eexists; eexists; split; [reflexivity|cbn [el_ind]; lia]. }
    cbn [bind fst snd]. unfold add_field. cbn [c_names c_doc c_fields c_methods].
    destruct (IH (fs ++ [rb_field f0]) f rest') as (F' & HF' & E).
    { intros x Hx. apply Hok. right. exact Hx. }
    { rewrite <- app_assoc. cbn [app]. rewrite !map_app in *. cbn [map] in *. exact Hnd. }
    { exact Hr. }
    { cbn [flat_map] in HF. unfold e_field at 1 in HF. cbn [app length] in HF. rewrite <- app_assoc, app_length in HF. lia. }
    exists F'. split; [exact HF'|]. unfold rb_field at 1 in E. rewrite E. rewrite <- app_assoc. reflexivity.
Qed.

Lemma class_loop_meths d ps pd nm doc fs acc Ms : forall ms F rest',
  (forall m, In m Ms -> meth_okb m = true) -> NoDup (map mkey (ms ++ Ms)) -> stops (S d) rest' ->
  (length (flat_map (e_meth d) Ms ++ rest') < F)%nat ->
  exists F', (length rest' < F')%nat /\
    class_loop F d ps pd (mkClass nm doc fs ms) acc (flat_map (e_meth d) Ms ++ rest')
    = class_loop F' d ps pd (mkClass nm doc fs (ms ++ map rb_meth Ms)) acc rest'.
Proof.
  induction Ms as [|m0 Ms IH]; intros ms F rest' Hok Hnd Hr HF.
  - exists F. cbn [map flat_map app]. rewrite app_nil_r. split; [exact HF|reflexivity].
  - destruct F as [|f]; [lia|].
    assert (Hm : meth_okb m0 = true) by (apply Hok; left; reflexivity).
    assert (Hm' := Hm). unfold meth_okb in Hm. split_ands Hm.
    cbn [flat_map]. unfold e_meth at 1. cbn [app]. rewrite class_loop_step.
    cbn [el_ind el_first el_fields]. rewrite Nat.compare_refl. cbv zeta. rewrite tag_M_CLASS, tag_M_FIELD.
    replace (str_eqb s_METHOD s_METHOD) with true by reflexivity.
    rewrite pat_named_written.
    2:{ destruct (meth_dst m0); [apply negb_true_iff; exact Hm3|exact I]. }
    cbn [bind fst snd]. rewrite Hm6.
    assert (Hv : opt_valid is_valid_method_name (meth_dst m0) = true).
    { unfold meth_dst. destruct (dst_of (m_names m0)) as [x|]; [|reflexivity]. destruct (str_eqb x s_init); [reflexivity|].
      cbn [opt_b opt_valid] in *. apply andb_true_iff in Hm5. apply Hm5. }
    rewrite Hv. cbn [andb negb c_methods].
    rewrite has_meth_false.
    2:{ rewrite map_app in Hnd. cbn [map] in Hnd. apply NoDup_remove_2 in Hnd. intros Hin. apply Hnd.
        apply in_or_app. left. exact Hin. }
    rewrite <- !app_assoc. rewrite (method_block d m0 _ f Hm').
    2:{ apply stops_flat_map; [|exact Hr]. intros x _. destruct (e_meth_head d x) as (tl & ->).
        eexists; eexists; split; [reflexivity|cbn [el_ind]; lia]. }
    2:{ cbn [flat_map] in HF. unfold e_meth at 1 in HF. cbn [app length] in HF. rewrite <- !app_assoc in HF. lia. }
    cbn [bind fst snd]. unfold add_meth. cbn [c_names c_doc c_fields c_methods].
    destruct (IH (ms ++ [rb_meth m0]) f rest') as (F' & HF' & E).
    { intros x Hx. apply Hok. right. exact Hx. }
    { rewrite <- app_assoc. cbn [app]. rewrite !map_app in *. cbn [map] in *. exact Hnd. }
    { exact Hr. }
    { cbn [flat_map] in HF. unfold e_meth at 1 in HF. cbn [app length] in HF. rewrite <- !app_assoc, !app_length in HF. rewrite app_length. lia. }
    exists F'. split; [exact HF'|]. rewrite E. rewrite <- app_assoc. reflexivity.
Qed.

Lemma nodupb_key2_NoDup (l : list (str * str)) : nodupb key2_eqb l = true -> NoDup l.
Proof.
  induction l as [|a l IH]; cbn [nodupb]; intros H; [constructor|].
  apply andb_true_iff in H as [Ha Hl]. apply negb_true_iff in Ha. constructor; [|apply IH; exact Hl].
  intros Hin. assert (existsb (key2_eqb a) l = true); [|congruence].
  apply existsb_exists. exists a. split; [exact Hin|]. unfold key2_eqb. rewrite !str_eqb_refl. reflexivity.
Qed.

(* the own lines of a class (comment, fields, methods), read into the empty class *)
Lemma class_body d ps pd c acc rest' F : class_okb c = true -> stops (S (S d)) rest' ->
  (length (e_body c d ++ rest') < F)%nat ->
  exists F', (length rest' < F')%nat /\
    class_loop F (S d) ps pd (mkClass [Some (cls_key c); cls_dst c] None [] []) acc (e_body c d ++ rest')
    = class_loop F' (S d) ps pd (rb_class c) acc rest'.
Proof.
  unfold class_okb. intros H Hr HF. split_ands H. unfold e_body in *. rewrite <- !app_assoc in *.
  assert (Hfs : forall f, In f (isort field_wleb (c_fields c)) -> field_okb f = true).
  { intros f Hf. apply isort_in in Hf. rewrite forallb_forall in H3. apply H3. exact Hf. }
  assert (Hms : forall m, In m (isort meth_wleb (c_methods c)) -> meth_okb m = true).
  { intros m Hm. apply isort_in in Hm. rewrite forallb_forall in H1. apply H1. exact Hm. }
  assert (Hfn : NoDup (map fkey ([] ++ isort field_wleb (c_fields c)))).
  { cbn [app]. eapply Permutation_NoDup; [apply Permutation_map; symmetry; apply isort_perm|]. apply nodupb_key2_NoDup. exact H2. }
  assert (Hmn : NoDup (map mkey ([] ++ isort meth_wleb (c_methods c)))).
  { cbn [app]. eapply Permutation_NoDup; [apply Permutation_map; symmetry; apply isort_perm|]. apply nodupb_key2_NoDup. exact H0. }
  assert (Hs2 : stops (S (S d)) rest') by exact Hr.
  assert (Hs3 : stops (S (S d)) (flat_map (e_meth (S d)) (isort meth_wleb (c_methods c)) ++ rest')).
  { apply stops_flat_map; [|exact Hs2]. intros x _. destruct (e_meth_head (S d) x) as (tl & ->).
    eexists; eexists; split; [reflexivity|cbn [el_ind]; lia]. }
  rewrite e_comments_c in *.
  assert (Hdoc : exists F1, (length (flat_map (e_field (S d)) (isort field_wleb (c_fields c)) ++ flat_map (e_meth (S d)) (isort meth_wleb (c_methods c)) ++ rest') < F1)%nat /\
            class_loop F (S d) ps pd (mkClass [Some (cls_key c); cls_dst c] None [] []) acc
              (match c_doc c with Some s => c_elines (S d) (split_on cLF s) | None => [] end ++
                 flat_map (e_field (S d)) (isort field_wleb (c_fields c)) ++ flat_map (e_meth (S d)) (isort meth_wleb (c_methods c)) ++ rest')
            = class_loop F1 (S d) ps pd (mkClass [Some (cls_key c); cls_dst c] (c_doc c) [] []) acc
                (flat_map (e_field (S d)) (isort field_wleb (c_fields c)) ++ flat_map (e_meth (S d)) (isort meth_wleb (c_methods c)) ++ rest')).
  { destruct (c_doc c) as [s|] eqn:Edoc.
    - destruct (class_loop_comments (S d) ps pd [Some (cls_key c); cls_dst c] [] [] acc (split_on cLF s) None F
                 (flat_map (e_field (S d)) (isort field_wleb (c_fields c)) ++ flat_map (e_meth (S d)) (isort meth_wleb (c_methods c)) ++ rest'))
        as (F1 & HF1 & E1); [exact HF|].
      exists F1. split; [exact HF1|]. rewrite E1, fold_ins_doc_split. reflexivity.
    - exists F. split; [exact HF|reflexivity]. }
  destruct Hdoc as (F1 & HF1 & E1). rewrite E1.
  destruct (class_loop_fields (S d) ps pd [Some (cls_key c); cls_dst c] (c_doc c) [] acc (isort field_wleb (c_fields c)) [] F1
             (flat_map (e_meth (S d)) (isort meth_wleb (c_methods c)) ++ rest') Hfs Hfn Hs3 HF1) as (F2 & HF2 & E2).
  rewrite E2.
  destruct (class_loop_meths (S d) ps pd [Some (cls_key c); cls_dst c] (c_doc c) ([] ++ map rb_field (isort field_wleb (c_fields c))) acc
             (isort meth_wleb (c_methods c)) [] F2 rest' Hms Hmn Hs2 HF2) as (F3 & HF3 & E3).
  rewrite E3. exists F3. split; [exact HF3|reflexivity].
Qed.
