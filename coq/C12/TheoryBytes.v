(* C12, byte level (round 7): the strict UTF-8 decoder of the reader inverts the encoder of the writers, and
   accepts nothing but encodings; the round trip of Th 1 holds for the BYTES the writer produces. *)
From FB Require Import C12.Model C12.ModelBytes C12.TheoryDet C12.TheoryRT.
From Coq Require Import Lia ZArith.
Ltac Zify.zify_post_hook ::= Z.to_euclidean_division_equations.

Ltac btrue :=
  repeat match goal with
  | |- context [N.ltb ?a ?b] => first [ rewrite (proj2 (N.ltb_lt a b)) by lia | rewrite (proj2 (N.ltb_ge a b)) by lia ]
  | |- context [N.leb ?a ?b] => first [ rewrite (proj2 (N.leb_le a b)) by lia | rewrite (proj2 (N.leb_gt a b)) by lia ]
  end; cbn [andb negb].

Lemma dec1 f b0 r : b0 < 128 -> utf8_decode (S f) (b0 :: r) = option_map (cons b0) (utf8_decode f r).
Proof. intros H. cbn [utf8_decode]. btrue. reflexivity. Qed.

Lemma dec2 f b0 b1 r : 194 <= b0 <= 223 -> 128 <= b1 <= 191 ->
  utf8_decode (S f) (b0 :: b1 :: r) = option_map (cons ((b0 - 192) * 64 + (b1 - 128))) (utf8_decode f r).
Proof. intros H0 H1. cbn [utf8_decode]. unfold is_cont. btrue. reflexivity. Qed.

Lemma dec3 f b0 b1 b2 r : 224 <= b0 <= 239 -> 128 <= b1 <= 191 -> 128 <= b2 <= 191 ->
  2048 <= (b0 - 224) * 4096 + (b1 - 128) * 64 + (b2 - 128) ->
  ((b0 - 224) * 4096 + (b1 - 128) * 64 + (b2 - 128) < 55296 \/ 57343 < (b0 - 224) * 4096 + (b1 - 128) * 64 + (b2 - 128)) ->
  utf8_decode (S f) (b0 :: b1 :: b2 :: r)
  = option_map (cons ((b0 - 224) * 4096 + (b1 - 128) * 64 + (b2 - 128))) (utf8_decode f r).
Proof.
  intros H0 H1 H2 Hlo Hs. cbn [utf8_decode]. cbv zeta. unfold is_cont.
  set (cp := (b0 - 224) * 4096 + (b1 - 128) * 64 + (b2 - 128)) in *.
  destruct Hs as [Hs | Hs]; btrue; reflexivity.
Qed.

Lemma dec4 f b0 b1 b2 b3 r : 240 <= b0 <= 244 -> 128 <= b1 <= 191 -> 128 <= b2 <= 191 -> 128 <= b3 <= 191 ->
  65536 <= (b0 - 240) * 262144 + (b1 - 128) * 4096 + (b2 - 128) * 64 + (b3 - 128) <= 1114111 ->
  utf8_decode (S f) (b0 :: b1 :: b2 :: b3 :: r)
  = option_map (cons ((b0 - 240) * 262144 + (b1 - 128) * 4096 + (b2 - 128) * 64 + (b3 - 128))) (utf8_decode f r).
Proof.
  intros H0 H1 H2 H3 Hc. cbn [utf8_decode]. cbv zeta. unfold is_cont.
  set (cp := (b0 - 240) * 262144 + (b1 - 128) * 4096 + (b2 - 128) * 64 + (b3 - 128)) in *.
  btrue. reflexivity.
Qed.

Lemma is_usv_spec c : is_usv c = true <-> c < 1114112 /\ (c < 55296 \/ 57343 < c).
Proof.
  unfold is_usv. rewrite Bool.andb_true_iff, Bool.negb_true_iff, Bool.andb_false_iff, N.ltb_lt, !N.leb_gt. lia.
Qed.

Lemma decode_char c f rest : is_usv c = true ->
  utf8_decode (S f) (utf8_encode_char c ++ rest) = option_map (cons c) (utf8_decode f rest).
Proof.
  intros Hu. apply is_usv_spec in Hu. destruct Hu as [Hmax Hs]. unfold utf8_encode_char.
  destruct (N.ltb c 128) eqn:E1; [apply N.ltb_lt in E1 | apply N.ltb_ge in E1].
  { cbn [app]. apply dec1. exact E1. }
  destruct (N.ltb c 2048) eqn:E2; [apply N.ltb_lt in E2 | apply N.ltb_ge in E2].
  { cbn [app]. rewrite dec2 by lia. f_equal. f_equal. lia. }
  destruct (N.ltb c 65536) eqn:E3; [apply N.ltb_lt in E3 | apply N.ltb_ge in E3].
  { cbn [app].
    assert (Hv : (224 + c / 4096 - 224) * 4096 + (128 + (c / 64) mod 64 - 128) * 64 + (128 + c mod 64 - 128) = c) by lia.
    rewrite dec3; rewrite ?Hv; try lia. reflexivity. }
  cbn [app].
  assert (Hv : (240 + c / 262144 - 240) * 262144 + (128 + (c / 4096) mod 64 - 128) * 4096
               + (128 + (c / 64) mod 64 - 128) * 64 + (128 + c mod 64 - 128) = c) by lia.
  rewrite dec4; rewrite ?Hv; try lia. reflexivity.
Qed.

Lemma decode_encode s : forall f, (length s < f)%nat -> forallb is_usv s = true ->
  utf8_decode f (utf8_encode s) = Some s.
Proof.
  induction s as [|c s IH]; intros f Hf Hu; (destruct f as [|f]; [inversion Hf|]).
  - reflexivity.
  - cbn [utf8_encode forallb] in *. apply Bool.andb_true_iff in Hu. destruct Hu as [Hc Hu].
    rewrite decode_char by exact Hc. rewrite IH; [reflexivity | cbn [length] in Hf; lia | exact Hu].
Qed.

Lemma encode_char_length c : (1 <= length (utf8_encode_char c))%nat.
Proof. unfold utf8_encode_char. repeat destruct (N.ltb _ _); cbn [length]; lia. Qed.

Lemma encode_length s : (length s <= length (utf8_encode s))%nat.
Proof.
  induction s as [|c s IH]; cbn [utf8_encode length]; [lia|].
  rewrite app_length. pose proof (encode_char_length c). lia.
Qed.

(* the byte reader on the UTF-8 encoding of a text IS the text reader *)
Theorem read_bytes_encode acc text : forallb is_usv text = true ->
  read_bytes acc (utf8_encode text) = read_into acc text.
Proof.
  intros Hu. unfold read_bytes. rewrite decode_encode; [reflexivity | | exact Hu].
  pose proof (encode_length text). lia.
Qed.

(* the round trip of Th 1 on the bytes the writer hands to its `Write` *)
Theorem read_write_all_bytes M bs : enigma_okb M = true -> write_all_bytes M = Ok bs ->
  exists back, read_bytes [] bs = Ok back /\ classes_sim back (enigma_norm M).
Proof.
  intros Hok Hw. destruct (read_write_all M Hok) as (text & back & Hwa & Hr & Hs).
  unfold write_all_bytes, to_bytes in Hw. rewrite Hwa in Hw.
  destruct (forallb is_usv text) eqn:Hu; [|discriminate]. injection Hw as <-.
  exists back. split; [|exact Hs]. rewrite read_bytes_encode by exact Hu. exact Hr.
Qed.

(* the decoder is strict: it accepts nothing but the encoding of a string of scalar values (no over-long
   form, no surrogate, nothing above U+10FFFF) — so two different byte strings never decode to one text *)
Theorem decode_sound : forall f bs s, utf8_decode f bs = Some s -> bs = utf8_encode s /\ forallb is_usv s = true.
Proof.
  induction f as [|f IH]; intros bs s H; [discriminate|].
  destruct bs as [|b0 r0]; cbn [utf8_decode] in H.
  { injection H as <-. split; reflexivity. }
  destruct (N.ltb b0 128) eqn:E1; [apply N.ltb_lt in E1 | apply N.ltb_ge in E1].
  { destruct (utf8_decode f r0) as [s'|] eqn:Hd; [|discriminate]. injection H as <-.
    destruct (IH _ _ Hd) as [-> Hu]. cbn [utf8_encode forallb]. unfold utf8_encode_char.
    rewrite (proj2 (N.ltb_lt b0 128)) by lia. split; [reflexivity|].
    rewrite Hu, Bool.andb_true_r. apply is_usv_spec. lia. }
  destruct (N.leb 194 b0 && N.leb b0 223) eqn:E2.
  { apply Bool.andb_true_iff in E2. destruct E2 as [Ea Eb]. apply N.leb_le in Ea, Eb.
    destruct r0 as [|b1 r1]; [discriminate|]. unfold is_cont in H.
    destruct (N.leb 128 b1 && N.leb b1 191) eqn:Ec; [|discriminate].
    apply Bool.andb_true_iff in Ec. destruct Ec as [Ec Ed]. apply N.leb_le in Ec, Ed.
    destruct (utf8_decode f r1) as [s'|] eqn:Hd; [|discriminate]. injection H as <-.
    destruct (IH _ _ Hd) as [-> Hu]. cbn [utf8_encode forallb]. unfold utf8_encode_char.
    set (cp := (b0 - 192) * 64 + (b1 - 128)).
    assert (Hcp : 128 <= cp < 2048) by (unfold cp; lia).
    rewrite (proj2 (N.ltb_ge cp 128)) by lia. rewrite (proj2 (N.ltb_lt cp 2048)) by lia.
    split.
    - cbn [app]. f_equal; [unfold cp; lia|]. f_equal. unfold cp; lia.
    - rewrite Hu, Bool.andb_true_r. apply is_usv_spec. lia. }
  destruct (N.leb 224 b0 && N.leb b0 239) eqn:E3.
  { apply Bool.andb_true_iff in E3. destruct E3 as [Ea Eb]. apply N.leb_le in Ea, Eb.
    destruct r0 as [|b1 [|b2 r2]]; try discriminate. cbv zeta in H. unfold is_cont in H.
    set (cp := (b0 - 224) * 4096 + (b1 - 128) * 64 + (b2 - 128)) in *.
    destruct (N.leb 128 b1 && N.leb b1 191) eqn:Ec; [|discriminate].
    destruct (N.leb 128 b2 && N.leb b2 191) eqn:Ee; [|discriminate].
    destruct (N.leb 2048 cp) eqn:Eg; [|discriminate].
    destruct (N.leb 55296 cp && N.leb cp 57343) eqn:Eh; [discriminate|].
    cbn [andb negb] in H.
    apply Bool.andb_true_iff in Ec. destruct Ec as [Ec Ed]. apply N.leb_le in Ec, Ed.
    apply Bool.andb_true_iff in Ee. destruct Ee as [Ee Ef]. apply N.leb_le in Ee, Ef.
    apply N.leb_le in Eg.
    assert (Hsur : cp < 55296 \/ 57343 < cp).
    { apply Bool.andb_false_iff in Eh. destruct Eh as [Eh|Eh]; apply N.leb_gt in Eh; lia. }
    destruct (utf8_decode f r2) as [s'|] eqn:Hd; [|discriminate]. injection H as <-.
    destruct (IH _ _ Hd) as [-> Hu]. cbn [utf8_encode forallb]. unfold utf8_encode_char.
    assert (Hcp : cp < 65536) by (unfold cp; lia).
    rewrite (proj2 (N.ltb_ge cp 128)) by lia. rewrite (proj2 (N.ltb_ge cp 2048)) by lia.
    rewrite (proj2 (N.ltb_lt cp 65536)) by lia.
    split.
    - cbn [app]. f_equal; [unfold cp; lia|]. f_equal; [unfold cp; lia|]. f_equal. unfold cp; lia.
    - rewrite Hu, Bool.andb_true_r. apply is_usv_spec. lia. }
  destruct (N.leb 240 b0 && N.leb b0 244) eqn:E4; [|discriminate].
  apply Bool.andb_true_iff in E4. destruct E4 as [Ea Eb]. apply N.leb_le in Ea, Eb.
  destruct r0 as [|b1 [|b2 [|b3 r3]]]; try discriminate. cbv zeta in H. unfold is_cont in H.
  set (cp := (b0 - 240) * 262144 + (b1 - 128) * 4096 + (b2 - 128) * 64 + (b3 - 128)) in *.
  destruct (N.leb 128 b1 && N.leb b1 191) eqn:Ec; [|discriminate].
  destruct (N.leb 128 b2 && N.leb b2 191) eqn:Ee; [|discriminate].
  destruct (N.leb 128 b3 && N.leb b3 191) eqn:Ei; [|discriminate].
  destruct (N.leb 65536 cp) eqn:Eg; [|discriminate].
  destruct (N.leb cp 1114111) eqn:Eh; [|discriminate].
  cbn [andb] in H.
  apply Bool.andb_true_iff in Ec. destruct Ec as [Ec Ed]. apply N.leb_le in Ec, Ed.
  apply Bool.andb_true_iff in Ee. destruct Ee as [Ee Ef]. apply N.leb_le in Ee, Ef.
  apply Bool.andb_true_iff in Ei. destruct Ei as [Ei Ej]. apply N.leb_le in Ei, Ej.
  apply N.leb_le in Eg, Eh.
  destruct (utf8_decode f r3) as [s'|] eqn:Hd; [|discriminate]. injection H as <-.
  destruct (IH _ _ Hd) as [-> Hu]. cbn [utf8_encode forallb]. unfold utf8_encode_char.
  rewrite (proj2 (N.ltb_ge cp 128)) by lia. rewrite (proj2 (N.ltb_ge cp 2048)) by lia.
  rewrite (proj2 (N.ltb_ge cp 65536)) by lia.
  split.
  - cbn [app]. f_equal; [unfold cp; lia|]. f_equal; [unfold cp; lia|]. f_equal; [unfold cp; lia|]. f_equal. unfold cp; lia.
  - rewrite Hu, Bool.andb_true_r. apply is_usv_spec. lia.
Qed.

(* non-vacuity: 1-, 2-, 3- and 4-byte characters (U+0041, U+00E9, U+20AC, U+1F600, the boundaries U+007F / U+0080 /
   U+07FF / U+0800 / U+D7FF / U+E000 / U+FFFF / U+10000 / U+10FFFF) encode to the known bytes and come back; a class
   with such names and comment goes through the bytes; a surrogate and U+110000 have no bytes *)
Definition ex_chars : str := [65; 233; 8364; 128512; 127; 128; 2047; 2048; 55295; 57344; 65535; 65536; 1114111].
Definition ex_set : list class :=
  [mkClass [Some [112; 47; 233; 8364]; Some [113; 47; 128512]] (Some [233; 32; 8364; 10; 128512]) [] []].
Definition nonvacuous_bytes : Prop :=
  utf8_encode [65; 233; 8364; 128512] = [65; 195; 169; 226; 130; 172; 240; 159; 152; 128]
  /\ forallb is_usv ex_chars = true
  /\ utf8_decode (S (length (utf8_encode ex_chars))) (utf8_encode ex_chars) = Some ex_chars
  /\ is_usv 55296 = false /\ is_usv 57343 = false /\ is_usv 1114112 = false
  /\ enigma_okb ex_set = true
  /\ (exists bs back, write_all_bytes ex_set = Ok bs /\ (length bs > length (match write_all ex_set with Ok t => t | Err => [] end))%nat
                      /\ read_bytes [] bs = Ok back /\ back = ex_set)
  /\ to_bytes (Ok [67; 55296]) = Err.
Lemma nonvacuous_bytes_holds : nonvacuous_bytes.
Proof.
  unfold nonvacuous_bytes.
  split; [vm_compute; reflexivity|]. split; [vm_compute; reflexivity|]. split; [vm_compute; reflexivity|].
  split; [vm_compute; reflexivity|]. split; [vm_compute; reflexivity|]. split; [vm_compute; reflexivity|].
  split; [vm_compute; reflexivity|].
  split; [|vm_compute; reflexivity].
  eexists. eexists. split; [vm_compute; reflexivity|]. split; [vm_compute; lia|]. split; vm_compute; reflexivity.
Qed.
