(* C12 theory, part 6: the hypotheses of the round trip (decidable), and what the tokeniser
   makes of the lines write_class emits. *)
From FB Require Import C12.Model C12.TheoryTree C12.TheoryTok.
From Coq Require Import Lia.

(* ---------- hypotheses on one class (independent of the set) ---------- *)

Definition row2 (l : names) : bool := match l with [Some _; _] => true | _ => false end.
Definition opt_b (p : str -> bool) (o : option str) : bool := match o with Some s => p s | None => true end.
(* comments: whatever the writer accepts (Model.doc_writable: no line of the comment ends with CR) *)
Definition docb (d : option str) : bool := doc_writable d.

Definition field_okb (f : field) : bool :=
  row2 (f_names f)
  && tokb (src_of (f_names f)) && is_valid_unqualified_name (src_of (f_names f))
  && opt_b (fun d => tokb d && is_valid_unqualified_name d) (dst_of (f_names f))
  && tokb (f_desc f)
  && (match dst_of (f_names f) with Some _ => negb (is_modifier (f_desc f)) | None => true end)
  && docb (f_doc f).

(* a parameter has no first-namespace name: the format has no place for it (the reader builds
   [None; Some dst]); in the project's use the first namespace of parameters is always empty *)
Definition param_okb (p : param) : bool :=
  (match p_names p with [None; Some d] => tokb d && is_valid_unqualified_name d | _ => false end)
  && N.ltb (p_index p) usize_bound && docb (p_doc p).

Definition meth_okb (m : meth) : bool :=
  row2 (m_names m)
  && tokb (src_of (m_names m)) && is_valid_method_name (src_of (m_names m))
  && opt_b (fun d => tokb d && is_valid_method_name d) (dst_of (m_names m))
  && tokb (m_desc m)
  && (match meth_dst m with Some _ => negb (is_modifier (m_desc m)) | None => true end)
  && docb (m_doc m)
  && forallb param_okb (m_params m)
  && nodupb N.eqb (map p_index (m_params m)).

Definition fkey (f : field) : str * str := (src_of (f_names f), f_desc f).
Definition mkey (m : meth) : str * str := (src_of (m_names m), m_desc m).

Definition class_okb (c : class) : bool :=
  row2 (c_names c)
  && tokb (cls_key c) && is_valid_obj_class_name (cls_key c)
  && opt_b (fun d => tokb d && is_valid_obj_class_name d) (cls_dst c)
  && docb (c_doc c)
  && forallb field_okb (c_fields c) && nodupb key2_eqb (map fkey (c_fields c))
  && forallb meth_okb (c_methods c) && nodupb key2_eqb (map mkey (c_methods c)).

(* ---------- the lines as the tokeniser sees them ---------- *)

Definition opt_list (o : option str) : list str := match o with Some d => [d] | None => [] end.

Definition e_comments (ind : nat) (doc : option str) : list eline :=
  match doc with
  | None => []
  | Some d => map (fun l => mkEline ind s_COMMENT [l]) (split_on cLF d)
  end.
Definition e_field (ind : nat) (f : field) : list eline :=
  mkEline ind s_FIELD (src_of (f_names f) :: opt_list (dst_of (f_names f)) ++ [f_desc f])
    :: e_comments (S ind) (f_doc f).
Definition pdst (p : param) : str := match dst_of (p_names p) with Some d => d | None => [] end.
Definition e_param (ind : nat) (p : param) : list eline :=
  mkEline ind s_ARG [dec (p_index p); pdst p] :: e_comments (S ind) (p_doc p).
Definition e_meth (ind : nat) (m : meth) : list eline :=
  mkEline ind s_METHOD (src_of (m_names m) :: opt_list (meth_dst m) ++ [m_desc m])
    :: e_comments (S ind) (m_doc m) ++ flat_map (e_param (S ind)) (isort param_wleb (m_params m)).
Definition e_head (c : class) (ind : nat) : eline :=
  let nested := negb (Nat.eqb ind 0) in
  mkEline ind s_CLASS (short_name nested (cls_key c) :: opt_list (option_map (short_name nested) (cls_dst c))).
Definition e_body (c : class) (ind : nat) : list eline :=
  e_comments (S ind) (c_doc c)
    ++ flat_map (e_field (S ind)) (isort field_wleb (c_fields c))
    ++ flat_map (e_meth (S ind)) (isort meth_wleb (c_methods c)).
Definition e_class (c : class) (ind : nat) : list eline := e_head c ind :: e_body c ind.

(* [ls] tokenises to [els] and survives unlines/split_lines *)
Definition good (ls : list str) (els : list eline) : Prop :=
  filter_map enigma_line ls = els /\ forallb line_ok ls = true.

Lemma good_nil : good [] [].
Proof. split; reflexivity. Qed.

Lemma good_app a ea b eb : good a ea -> good b eb -> good (a ++ b) (ea ++ eb).
Proof.
  intros [H1 H2] [H3 H4]. split; [rewrite filter_map_app, H1, H3; reflexivity|].
  rewrite forallb_app, H2, H4. reflexivity.
Qed.

Lemma good_cons l e ls els : enigma_line l = Some e -> line_ok l = true -> good ls els -> good (l :: ls) (e :: els).
Proof.
  intros He Hl [H1 H2]. split; [cbn [filter_map]; rewrite He, H1; reflexivity|].
  cbn [forallb]. rewrite Hl, H2. reflexivity.
Qed.

Lemma good_flat_map {A} (g : A -> list str) (h : A -> list eline) l :
  (forall x, In x l -> good (g x) (h x)) -> good (flat_map g l) (flat_map h l).
Proof.
  induction l as [|x l IH]; intros H; cbn [flat_map]; [apply good_nil|].
  apply good_app; [apply H; left; reflexivity|]. apply IH. intros y Hy. apply H. right. exact Hy.
Qed.

Lemma good_comments ind doc : docb doc = true -> good (comment_lines ind doc) (e_comments ind doc).
Proof.
  destruct doc as [d|]; [|intros _; apply good_nil]. cbn [docb doc_writable comment_lines e_comments]. intros Hd.
  assert (Hall : forall l, In l (split_on cLF d) -> nolf l = true /\ ends_cr l = false).
  { intros l Hl. split; [eapply doc_line_nolf; exact Hl|]. rewrite forallb_forall in Hd. apply negb_true_iff. apply Hd. exact Hl. }
  clear Hd. induction (split_on cLF d) as [|l L IH]; cbn [map]; [apply good_nil|].
  apply good_cons.
  - apply enigma_line_comment.
  - destruct (Hall l (or_introl eq_refl)) as [Hn He]. apply comment_line_ok; assumption.
  - apply IH. intros x Hx. apply Hall. right. exact Hx.
Qed.

Lemma tag_line_good n tag toks : is_tag tag -> forallb tokb toks = true ->
  enigma_line (tabs n ++ join_sp (tag :: toks)) = Some (mkEline n tag toks)
  /\ line_ok (tabs n ++ join_sp (tag :: toks)) = true.
Proof.
  intros Ht Htoks. split; [apply enigma_line_tag; assumption|].
  apply no_lfcr_line_ok. rewrite no_lfcr_app, no_lfcr_tabs. cbn [andb]. apply no_lfcr_join_sp.
  cbn [forallb]. rewrite (tokb_no_lfcr _ (tag_tokb _ Ht)). cbn [andb].
  rewrite forallb_forall in *. intros x Hx. apply tokb_no_lfcr. apply Htoks. exact Hx.
Qed.

Lemma member_line_join ind tag src dst desc :
  member_line ind tag src dst desc = tabs ind ++ join_sp (tag :: src :: opt_list dst ++ [desc]).
Proof.
  unfold member_line. f_equal. destruct dst as [d|]; cbn [opt_list app join_sp]; rewrite <- ?app_assoc; reflexivity.
Qed.

Lemma class_line_join ind src dst : class_line ind src dst = tabs ind ++ join_sp (s_CLASS :: src :: opt_list dst).
Proof.
  unfold class_line. f_equal. destruct dst as [d|]; cbn [opt_list app join_sp]; rewrite ?app_nil_r, <- ?app_assoc; reflexivity.
Qed.

Lemma opt_b_tok (v : str -> bool) o : opt_b (fun d => tokb d && v d) o = true -> forallb tokb (opt_list o) = true.
Proof.
  destruct o as [d|]; [|reflexivity]. cbn [opt_b opt_list forallb]. intros H. apply andb_true_iff in H as [H _].
  rewrite H. reflexivity.
Qed.

Ltac split_ands H :=
  repeat match type of H with
         | (_ && _ = true) => let H1 := fresh H in apply andb_true_iff in H as [H H1]
         end.

Lemma good_field ind f : field_okb f = true -> good (write_field ind f) (e_field ind f).
Proof.
  unfold field_okb. intros H. split_ands H. unfold write_field, e_field. rewrite member_line_join.
  destruct (tag_line_good ind s_FIELD (src_of (f_names f) :: opt_list (dst_of (f_names f)) ++ [f_desc f])) as [He Hl].
  { right. left. reflexivity. }
  { cbn [forallb]. rewrite H5, forallb_app, (opt_b_tok _ _ H3). cbn [forallb]. rewrite H2. reflexivity. }
  apply good_cons; [exact He|exact Hl|]. apply good_comments. exact H0.
Qed.

Lemma row_dst_some l d : match l with [_; Some d0] => tokb d0 && is_valid_unqualified_name d0 | _ => false end = true ->
  dst_of l = Some d -> tokb d = true /\ is_valid_unqualified_name d = true.
Proof.
  destruct l as [|a [|[b|] [|? ?]]]; try discriminate. cbn [dst_of nth]. intros H [= <-].
  apply andb_true_iff in H. exact H.
Qed.

Lemma param_dst p : param_okb p = true -> exists d, dst_of (p_names p) = Some d /\ p_names p = [None; Some d]
  /\ tokb d = true /\ is_valid_unqualified_name d = true.
Proof.
  unfold param_okb. intros H. split_ands H.
  destruct (p_names p) as [|[a|] [|[b|] [|? ?]]]; try discriminate. exists b. cbn [dst_of nth].
  apply andb_true_iff in H. repeat split; try reflexivity; apply H.
Qed.

Lemma good_param ind p : param_okb p = true ->
  write_param ind p = Ok (match write_param ind p with Ok ls => ls | Err => [] end)
  /\ good (match write_param ind p with Ok ls => ls | Err => [] end) (e_param ind p).
Proof.
  intros Hok. destruct (param_dst p Hok) as (d & Hd & _ & Htok & _).
  unfold param_okb in Hok. split_ands Hok. unfold write_param, e_param, pdst. rewrite Hd. split; [reflexivity|].
  apply N.ltb_lt in Hok1. destruct (parse_dec _ Hok1) as [_ Hdec].
  change (tabs ind ++ s_ARG ++ cSP :: dec (p_index p) ++ cSP :: d) with (tabs ind ++ join_sp [s_ARG; dec (p_index p); d]).
  destruct (tag_line_good ind s_ARG [dec (p_index p); d]) as [He Hl].
  { right. right. right. reflexivity. }
  { cbn [forallb]. rewrite Hdec, Htok. reflexivity. }
  apply good_cons; [exact He|exact Hl|]. apply good_comments. exact Hok0.
Qed.

Lemma map_res_ok {A B} (f : A -> res B) (g : A -> B) l : (forall x, In x l -> f x = Ok (g x)) -> map_res f l = Ok (map g l).
Proof.
  induction l as [|x l IH]; intros H; cbn [map_res map]; [reflexivity|].
  rewrite H by (left; reflexivity). cbn [bind]. rewrite IH; [reflexivity|]. intros y Hy. apply H. right. exact Hy.
Qed.

Definition unres {A} (r : res (list A)) : list A := match r with Ok ls => ls | Err => [] end.

Lemma good_meth ind m : meth_okb m = true ->
  write_meth ind m = Ok (unres (write_meth ind m)) /\ good (unres (write_meth ind m)) (e_meth ind m).
Proof.
  unfold meth_okb. intros H. split_ands H. unfold write_meth, e_meth.
  assert (Hps : forall p, In p (isort param_wleb (m_params m)) -> param_okb p = true).
  { intros p Hp. apply isort_in in Hp. rewrite forallb_forall in H1. apply H1. exact Hp. }
  rewrite (map_res_ok (write_param (S ind)) (fun p => unres (write_param (S ind) p))).
  2:{ intros p Hp. apply (good_param (S ind) p (Hps p Hp)). }
  cbn [bind unres]. split; [reflexivity|]. rewrite member_line_join.
  destruct (tag_line_good ind s_METHOD (src_of (m_names m) :: opt_list (meth_dst m) ++ [m_desc m])) as [He Hl].
  { right. right. left. reflexivity. }
  { cbn [forallb]. rewrite H7, forallb_app. cbn [forallb]. rewrite H4.
    assert (Hd : forallb tokb (opt_list (meth_dst m)) = true).
    { unfold meth_dst. destruct (dst_of (m_names m)) as [d|]; [|reflexivity]. cbn [opt_b] in H5.
      destruct (str_eqb d s_init); [reflexivity|]. cbn [opt_list forallb]. apply andb_true_iff in H5 as [-> _]. reflexivity. }
    rewrite Hd. reflexivity. }
  apply good_cons; [exact He|exact Hl|]. apply good_app; [apply good_comments; exact H2|].
  rewrite <- flat_map_concat_map. apply good_flat_map. intros p Hp. apply (good_param (S ind) p (Hps p Hp)).
Qed.

(* inside the hypotheses every comment can be written: write_class is write_class_lines *)
Lemma class_okb_docs c : class_okb c = true -> write_class c = write_class_lines c.
Proof.
  unfold class_okb. intros H. split_ands H. unfold write_class.
  assert (E : class_docs_writable c = true); [|rewrite E; reflexivity].
  unfold class_docs_writable.
  assert (Hc : doc_writable (c_doc c) = true) by (match goal with X : docb (c_doc c) = true |- _ => exact X end).
  assert (Hfs : forallb field_okb (c_fields c) = true) by assumption.
  assert (Hms : forallb meth_okb (c_methods c) = true) by assumption.
  rewrite Hc. cbn [andb]. apply andb_true_iff. split.
  - apply forallb_forall. intros f Hf. rewrite forallb_forall in Hfs. specialize (Hfs f Hf). unfold field_okb in Hfs.
    split_ands Hfs. match goal with X : docb (f_doc f) = true |- _ => exact X end.
  - apply forallb_forall. intros m Hm. rewrite forallb_forall in Hms. specialize (Hms m Hm). unfold meth_okb in Hms.
    split_ands Hms. unfold meth_docs_writable.
    assert (Hd : doc_writable (m_doc m) = true) by (match goal with X : docb (m_doc m) = true |- _ => exact X end).
    assert (Hps : forallb param_okb (m_params m) = true) by assumption.
    rewrite Hd. cbn [andb].
    apply forallb_forall. intros p Hp. rewrite forallb_forall in Hps. specialize (Hps p Hp). unfold param_okb in Hps.
    split_ands Hps. match goal with X : docb (p_doc p) = true |- _ => exact X end.
Qed.

(* the class line: its tokens are given, the conditions on them depend on the set *)
Lemma good_class c ind : class_okb c = true ->
  forallb tokb (short_name (negb (Nat.eqb ind 0)) (cls_key c)
                  :: opt_list (option_map (short_name (negb (Nat.eqb ind 0))) (cls_dst c))) = true ->
  write_class c ind = Ok (unres (write_class c ind)) /\ good (unres (write_class c ind)) (e_class c ind).
Proof.
  intros Hok Htoks. rewrite (class_okb_docs c Hok). revert Hok.
  unfold class_okb. intros H. split_ands H. unfold write_class_lines, e_class, e_head, e_body.
  assert (Hms : forall m, In m (isort meth_wleb (c_methods c)) -> meth_okb m = true).
  { intros m Hm. apply isort_in in Hm. rewrite forallb_forall in H1. apply H1. exact Hm. }
  rewrite (map_res_ok (write_meth (S ind)) (fun m => unres (write_meth (S ind) m))).
  2:{ intros m Hm. apply (good_meth (S ind) m (Hms m Hm)). }
  cbn [bind unres]. split; [reflexivity|]. rewrite class_line_join.
  destruct (tag_line_good ind s_CLASS _ (or_introl eq_refl) Htoks) as [He Hl].
  apply good_cons; [exact He|exact Hl|].
  apply good_app; [apply good_comments; exact H4|].
  apply good_app.
  - apply good_flat_map. intros f Hf. apply good_field. apply isort_in in Hf. rewrite forallb_forall in H3. apply H3. exact Hf.
  - rewrite <- flat_map_concat_map. apply good_flat_map. intros m Hm. apply (good_meth (S ind) m (Hms m Hm)).
Qed.
