(* C12 theory, part 1: placement of classes.  The deque loop of write_one_tree_starting_at
   computes the pre-order of the forest whose edges are "the parent name is in the set";
   every class is in exactly one tree, exactly once, at the depth given by its chain of
   present ancestors. *)
From FB Require Import C12.Model C18.Theory.
From Coq Require Import Lia Permutation.

(* ---------- list helpers ---------- *)

Lemma flat_map_ext_in {A B} (f g : A -> list B) l :
  (forall x, In x l -> f x = g x) -> flat_map f l = flat_map g l.
Proof.
  induction l as [|a l IH]; intros H; cbn [flat_map]; [reflexivity|].
  rewrite H by (left; reflexivity). rewrite IH; [reflexivity|].
  intros x Hx. apply H. right. exact Hx.
Qed.

Lemma map_flat_map {A B C} (g : B -> C) (h : A -> list B) l :
  map g (flat_map h l) = flat_map (fun x => map g (h x)) l.
Proof.
  induction l as [|a l IH]; cbn [flat_map map]; [reflexivity|].
  rewrite map_app, IH. reflexivity.
Qed.

Lemma flat_map_map {A B C} (g : B -> list C) (h : A -> B) l :
  flat_map g (map h l) = flat_map (fun x => g (h x)) l.
Proof. induction l as [|a l IH]; cbn [map flat_map]; [reflexivity|]. rewrite IH. reflexivity. Qed.

Lemma nodup_app {A} (l1 l2 : list A) :
  NoDup l1 -> NoDup l2 -> (forall x, In x l1 -> In x l2 -> False) -> NoDup (l1 ++ l2).
Proof.
  induction l1 as [|a l1 IH]; intros H1 H2 Hd; cbn [app]; [exact H2|].
  inversion H1 as [|? ? Ha H1']; subst. constructor.
  - rewrite in_app_iff. intros [H|H]; [exact (Ha H)|]. apply (Hd a); [left; reflexivity|exact H].
  - apply IH; auto. intros x Hx1 Hx2. apply (Hd x); [right; exact Hx1|exact Hx2].
Qed.

Lemma nodup_flat_map {A B} (g : A -> list B) l :
  NoDup l -> (forall x, In x l -> NoDup (g x)) ->
  (forall x y b, In x l -> In y l -> In b (g x) -> In b (g y) -> x = y) ->
  NoDup (flat_map g l).
Proof.
  induction l as [|a l IH]; intros Hl Hg Hd; cbn [flat_map]; [constructor|].
  inversion Hl as [|? ? Ha Hl']; subst. apply nodup_app.
  - apply Hg. left. reflexivity.
  - apply IH; auto.
    + intros x Hx. apply Hg. right. exact Hx.
    + intros x y b Hx Hy. apply Hd; right; assumption.
  - intros b Hb1 Hb2. apply in_flat_map in Hb2 as (y & Hy & Hby).
    assert (E : a = y) by (apply (Hd a y b); [left; reflexivity|right; exact Hy|exact Hb1|exact Hby]).
    subst y. exact (Ha Hy).
Qed.

(* ---------- keys ---------- *)

Definition keys_nodup (M : list class) : Prop := NoDup (map cls_key M).

Lemma has_key_In M k : has_key M k = true <-> exists c, In c M /\ cls_key c = k.
Proof.
  unfold has_key. rewrite existsb_exists. split.
  - intros (c & Hc & E). exists c. split; [exact Hc|]. apply str_eqb_eq. exact E.
  - intros (c & Hc & E). exists c. split; [exact Hc|]. apply str_eqb_eq. exact E.
Qed.

Lemma key_inj M a b : keys_nodup M -> In a M -> In b M -> cls_key a = cls_key b -> a = b.
Proof.
  unfold keys_nodup. induction M as [|x M IH]; intros Hn Ha Hb E; [destruct Ha|].
  cbn [map] in Hn. inversion Hn as [|? ? Hx Hn']; subst.
  destruct Ha as [->|Ha]; destruct Hb as [->|Hb]; auto.
  - exfalso. apply Hx. rewrite E. apply in_map. exact Hb.
  - exfalso. apply Hx. rewrite <- E. apply in_map. exact Ha.
Qed.

Lemma keys_nodup_NoDup M : keys_nodup M -> NoDup M.
Proof. apply NoDup_map_inv. Qed.

(* the parent name when it is in the set *)
Definition up (M : list class) (k : str) : option str :=
  match split_inner k with
  | Some (p, _) => if has_key M p then Some p else None
  | None => None
  end.

Lemma parent_in_up M c : parent_in M c = up M (cls_key c).
Proof. reflexivity. Qed.

Lemma up_shorter M k p : up M k = Some p -> (length p + 2 <= length k)%nat.
Proof.
  unfold up. destruct (split_inner k) as [[p' i]|] eqn:E; [|discriminate].
  destruct (has_key M p'); [|discriminate]. intros [= <-].
  apply join_split in E as [<- (_ & Hi & _)]. unfold join_inner. rewrite app_length. cbn [length].
  destruct i; [congruence|]. cbn [length]. lia.
Qed.

Lemma up_has_key M k p : up M k = Some p -> has_key M p = true.
Proof.
  unfold up. destruct (split_inner k) as [[p' i]|]; [|discriminate].
  destruct (has_key M p') eqn:E; [|discriminate]. intros [= <-]. exact E.
Qed.

(* n-th present ancestor *)
Fixpoint anc (M : list class) (n : nat) (k : str) : option str :=
  match n with
  | O => Some k
  | S n' => match up M k with Some p => anc M n' p | None => None end
  end.

Lemma anc_len M n : forall k a, anc M n k = Some a -> (length a + 2 * n <= length k)%nat.
Proof.
  induction n as [|n IH]; intros k a; cbn [anc].
  - intros [= <-]. lia.
  - destruct (up M k) as [p|] eqn:E; [|discriminate]. intros H.
    apply IH in H. apply up_shorter in E. lia.
Qed.

Lemma anc_snoc M n : forall k a b, anc M n k = Some a -> up M a = Some b -> anc M (S n) k = Some b.
Proof.
  induction n as [|n IH]; intros k a b; cbn [anc].
  - intros [= <-] H. rewrite H. reflexivity.
  - destruct (up M k) as [p|] eqn:E; [|discriminate]. intros H1 H2.
    exact (IH _ _ _ H1 H2).
Qed.

Lemma anc_last M n : forall k b, anc M (S n) k = Some b -> exists a, anc M n k = Some a /\ up M a = Some b.
Proof.
  induction n as [|n IH]; intros k b H.
  - cbn [anc] in H. destruct (up M k) as [p|] eqn:E; [|discriminate]. injection H as <-.
    exists k. split; [reflexivity|exact E].
  - change (anc M (S (S n)) k) with (match up M k with Some p => anc M (S n) p | None => None end) in H.
    destruct (up M k) as [p|] eqn:E; [|discriminate].
    apply IH in H as (a & Ha & Hu). exists a. split; [|exact Hu].
    cbn [anc]. rewrite E. exact Ha.
Qed.

Lemma anc_inj_n M n : forall m k a, anc M n k = Some a -> anc M m k = Some a -> n = m.
Proof.
  induction n as [|n IH]; intros m k a Hn Hm.
  - cbn [anc] in Hn. injection Hn as <-. destruct m; [reflexivity|].
    apply anc_len in Hm. lia.
  - destruct m.
    + cbn [anc] in Hm. injection Hm as <-. apply anc_len in Hn. lia.
    + cbn [anc] in Hn, Hm. destruct (up M k) as [p|]; [|discriminate].
      f_equal. exact (IH _ _ _ Hn Hm).
Qed.

Lemma anc_has_key M n : forall k a, has_key M k = true -> anc M n k = Some a -> has_key M a = true.
Proof.
  induction n as [|n IH]; intros k a Hk; cbn [anc].
  - intros [= <-]. exact Hk.
  - destruct (up M k) as [p|] eqn:E; [|discriminate]. apply IH. exact (up_has_key _ _ _ E).
Qed.

Lemma in_has_key M c : In c M -> has_key M (cls_key c) = true.
Proof. intros H. apply has_key_In. exists c. auto. Qed.

(* ---------- children ---------- *)

Lemma kids_In M c x : In x (kids M c) <-> In x M /\ up M (cls_key x) = Some (cls_key c).
Proof.
  unfold kids. rewrite isort_in, filter_In, parent_in_up. split.
  - intros [Hx H]. split; [exact Hx|]. destruct (up M (cls_key x)) as [p|]; [|discriminate].
    apply str_eqb_eq in H. subst. reflexivity.
  - intros [Hx H]. split; [exact Hx|]. rewrite H. apply str_eqb_refl.
Qed.

Lemma kids_nodup M c : keys_nodup M -> NoDup (kids M c).
Proof.
  intros HM. unfold kids. eapply Permutation_NoDup; [symmetry; apply isort_perm|].
  apply NoDup_filter. apply keys_nodup_NoDup. exact HM.
Qed.

(* ---------- the recursive pre-order; fuel bounds the depth through the key length ---------- *)

Definition bound (M : list class) : nat := S (list_max (map (fun c => length (cls_key c)) M)).

Lemma bound_gt M c : In c M -> (length (cls_key c) < bound M)%nat.
Proof.
  intros H. unfold bound.
  assert (Hall := proj1 (list_max_le (map (fun c => length (cls_key c)) M) _) (le_n _)).
  rewrite Forall_forall in Hall. specialize (Hall (length (cls_key c))).
  assert (In (length (cls_key c)) (map (fun c => length (cls_key c)) M)) by (apply in_map_iff; exists c; auto).
  specialize (Hall H0). lia.
Qed.

Fixpoint T (f : nat) (M : list class) (c : class) (d : nat) : list (class * nat) :=
  (c, d) :: match f with
            | O => []
            | S f' => flat_map (fun ch => T f' M ch (S d)) (kids M c)
            end.

Definition inv (M : list class) (f : nat) (c : class) : Prop :=
  In c M /\ (bound M <= length (cls_key c) + f)%nat.

Lemma inv_pos M f c : inv M f c -> exists f', f = S f'.
Proof.
  intros [Hc Hb]. apply bound_gt in Hc. destruct f; [lia|]. exists f. reflexivity.
Qed.

Lemma inv_kid M f c ch : inv M (S f) c -> In ch (kids M c) -> inv M f ch.
Proof.
  intros [Hc Hb] Hk. apply kids_In in Hk as [Hch Hu]. split; [exact Hch|].
  apply up_shorter in Hu. lia.
Qed.

Lemma inv_mono M f f' c : inv M f c -> (f <= f')%nat -> inv M f' c.
Proof. intros [Hc Hb] Hle. split; [exact Hc|lia]. Qed.

Lemma inv_bound M c : In c M -> inv M (bound M) c.
Proof. intros H. split; [exact H|lia]. Qed.

Lemma T_stable M : forall f f' c d, inv M f c -> inv M f' c -> T f M c d = T f' M c d.
Proof.
  induction f as [|f IH]; intros f' c d H H'.
  - apply inv_pos in H as (? & ?). discriminate.
  - destruct (inv_pos _ _ _ H') as (f1 & ->). cbn [T]. f_equal.
    apply flat_map_ext_in. intros ch Hch. apply IH; eapply inv_kid; eauto.
Qed.

Lemma tree_loop_T M f : forall fuel q,
  Forall (fun cd => inv M f (fst cd)) q ->
  (length (flat_map (fun cd => T f M (fst cd) (snd cd)) q) < fuel)%nat ->
  tree_loop fuel M q = Ok (flat_map (fun cd => T f M (fst cd) (snd cd)) q).
Proof.
  induction fuel as [|fuel IH]; intros q Hq Hlen; [lia|].
  destruct q as [|[c d] q]; cbn [tree_loop]; [reflexivity|].
  inversion Hq as [|? ? Hc Hq']; subst. cbn [fst] in Hc.
  destruct (inv_pos _ _ _ Hc) as (f1 & ->).
  assert (E : flat_map (fun cd => T (S f1) M (fst cd) (snd cd)) ((c, d) :: q)
              = (c, d) :: flat_map (fun cd => T (S f1) M (fst cd) (snd cd)) (map (fun ch => (ch, S d)) (kids M c) ++ q)).
  { cbn [flat_map fst snd]. rewrite flat_map_app.
    change (T (S f1) M c d) with ((c, d) :: flat_map (fun ch => T f1 M ch (S d)) (kids M c)).
    cbn [app]. f_equal. f_equal.
    rewrite flat_map_map. apply flat_map_ext_in. intros ch Hch. cbn [fst snd].
    apply T_stable; [eapply inv_kid; eauto|]. eapply inv_mono; [eapply inv_kid; eauto|lia]. }
  rewrite E in Hlen |- *. cbn [length] in Hlen.
  rewrite IH; [reflexivity| |lia].
  apply Forall_app. split; [|exact Hq'].
  rewrite Forall_forall. intros cd Hcd. apply in_map_iff in Hcd as (ch & <- & Hch). cbn [fst].
  eapply inv_mono; [eapply inv_kid; eauto|lia].
Qed.

(* ---------- which classes a tree holds ---------- *)

Lemma T_sound M : forall f c d x dx, inv M f c -> In (x, dx) (T f M c d) ->
  In x M /\ exists n, anc M n (cls_key x) = Some (cls_key c) /\ dx = (d + n)%nat.
Proof.
  induction f as [|f IH]; intros c d x dx Hc Hin.
  - apply inv_pos in Hc as (? & ?). discriminate.
  - cbn [T] in Hin. destruct Hin as [E|Hin].
    + injection E as <- <-. split; [apply Hc|]. exists O. split; [reflexivity|lia].
    + apply in_flat_map in Hin as (ch & Hch & Hin).
      destruct (IH ch (S d) x dx (inv_kid _ _ _ _ Hc Hch) Hin) as (Hx & n & Ha & ->).
      split; [exact Hx|]. exists (S n). split; [|lia].
      apply kids_In in Hch as [_ Hu]. exact (anc_snoc _ _ _ _ _ Ha Hu).
Qed.

Lemma T_complete M (HM : keys_nodup M) : forall n f c d x, inv M f c -> In x M ->
  anc M n (cls_key x) = Some (cls_key c) -> In (x, (d + n)%nat) (T f M c d).
Proof.
  induction n as [|n IH]; intros f c d x Hc Hx Ha.
  - cbn [anc] in Ha. injection Ha as Ha.
    assert (x = c) by (apply (key_inj M); auto; apply Hc). subst x.
    replace (d + 0)%nat with d by lia. destruct f; left; reflexivity.
  - destruct (inv_pos _ _ _ Hc) as (f1 & ->).
    apply anc_last in Ha as (a & Ha & Hu).
    assert (Hk : has_key M a = true) by (eapply anc_has_key; [apply in_has_key; exact Hx|exact Ha]).
    apply has_key_In in Hk as (y & Hy & <-).
    assert (Hkid : In y (kids M c)) by (apply kids_In; auto).
    cbn [T]. right. apply in_flat_map. exists y. split; [exact Hkid|].
    replace (d + S n)%nat with (S d + n)%nat by lia.
    apply IH; auto. eapply inv_kid; eauto.
Qed.

Lemma T_nodup M (HM : keys_nodup M) : forall f c d, inv M f c -> NoDup (map fst (T f M c d)).
Proof.
  induction f as [|f IH]; intros c d Hc.
  - apply inv_pos in Hc as (? & ?). discriminate.
  - cbn [T map fst]. constructor.
    + intros Hin. apply in_map_iff in Hin as ([x dx] & E & Hin). cbn [fst] in E. subst x.
      apply in_flat_map in Hin as (ch & Hch & Hin).
      destruct (T_sound M f ch (S d) c dx (inv_kid _ _ _ _ Hc Hch) Hin) as (_ & n & Ha & _).
      apply anc_len in Ha. apply kids_In in Hch as [_ Hu]. apply up_shorter in Hu. lia.
    + rewrite map_flat_map. apply nodup_flat_map.
      * apply kids_nodup. exact HM.
      * intros ch Hch. apply IH. eapply inv_kid; eauto.
      * intros ch1 ch2 x H1 H2 Hx1 Hx2.
        apply in_map_iff in Hx1 as ([x1 d1] & E1 & Hx1). apply in_map_iff in Hx2 as ([x2 d2] & E2 & Hx2).
        cbn [fst] in E1, E2. subst x1 x2.
        destruct (T_sound M f ch1 (S d) x d1 (inv_kid _ _ _ _ Hc H1) Hx1) as (_ & n1 & Ha1 & _).
        destruct (T_sound M f ch2 (S d) x d2 (inv_kid _ _ _ _ Hc H2) Hx2) as (_ & n2 & Ha2 & _).
        apply kids_In in H1 as [Hm1 Hu1]. apply kids_In in H2 as [Hm2 Hu2].
        assert (En : S n1 = S n2).
        { eapply anc_inj_n; eapply anc_snoc; eauto. }
        injection En as ->. rewrite Ha1 in Ha2. injection Ha2 as Ek.
        apply (key_inj M); auto.
Qed.

Lemma T_incl M f c d x dx : inv M f c -> In (x, dx) (T f M c d) -> In x M.
Proof. intros Hc Hin. exact (proj1 (T_sound M f c d x dx Hc Hin)). Qed.

Lemma T_length M (HM : keys_nodup M) f c d : inv M f c -> (length (T f M c d) <= length M)%nat.
Proof.
  intros Hc. rewrite <- (map_length fst). apply NoDup_incl_length.
  - apply T_nodup; auto.
  - intros x Hx. apply in_map_iff in Hx as ([x' dx] & <- & Hin). cbn [fst]. eapply T_incl; eauto.
Qed.

(* the deque loop of the code computes that pre-order: the fuel of the model is never exhausted *)
Theorem tree_nodes_T M r : keys_nodup M -> In r M -> tree_nodes M r = Ok (T (bound M) M r 0).
Proof.
  intros HM Hr. unfold tree_nodes.
  rewrite (tree_loop_T M (bound M)).
  - cbn [flat_map fst snd]. rewrite app_nil_r. reflexivity.
  - constructor; [|constructor]. apply inv_bound. exact Hr.
  - cbn [flat_map fst snd]. rewrite app_nil_r.
    assert (H := T_length M HM (bound M) r 0 (inv_bound _ _ Hr)). lia.
Qed.

(* ---------- every class has exactly one root ---------- *)

Definition roots (M : list class) : list class := filter (is_root M) M.

Lemma is_root_up M c : is_root M c = true <-> up M (cls_key c) = None.
Proof. unfold is_root. rewrite parent_in_up. destruct (up M (cls_key c)); split; congruence. Qed.

Lemma has_root M : forall len x, (length (cls_key x) <= len)%nat -> In x M ->
  exists n r, In r (roots M) /\ anc M n (cls_key x) = Some (cls_key r).
Proof.
  induction len as [|len IH]; intros x Hlen Hx.
  - exists O, x. split; [|reflexivity]. apply filter_In. split; [exact Hx|].
    apply is_root_up. destruct (up M (cls_key x)) eqn:E; [|reflexivity]. apply up_shorter in E. lia.
  - destruct (up M (cls_key x)) as [p|] eqn:E.
    + assert (Hk := up_has_key _ _ _ E). apply has_key_In in Hk as (y & Hy & Ey). subst p.
      destruct (IH y) as (n & r & Hr & Ha); [apply up_shorter in E; lia|exact Hy|].
      exists (S n), r. split; [exact Hr|]. cbn [anc]. rewrite E. exact Ha.
    + exists O, x. split; [|reflexivity]. apply filter_In. split; [exact Hx|]. apply is_root_up. exact E.
Qed.

Lemma anc_root_unique M : forall n m k a b, (n <= m)%nat ->
  anc M n k = Some a -> anc M m k = Some b -> up M a = None -> a = b.
Proof.
  induction n as [|n IH]; intros m k a b Hle Ha Hb Hua.
  - cbn [anc] in Ha. injection Ha as <-. destruct m; cbn [anc] in Hb; [congruence|].
    rewrite Hua in Hb. discriminate.
  - destruct m; [lia|]. cbn [anc] in Ha, Hb. destruct (up M k) as [p|]; [|discriminate].
    apply (IH m p); auto. lia.
Qed.

Definition forest (M : list class) (rs : list class) : list (class * nat) :=
  flat_map (fun r => T (bound M) M r 0) rs.

Lemma forest_nodup M rs : keys_nodup M -> NoDup rs -> incl rs (roots M) -> NoDup (map fst (forest M rs)).
Proof.
  intros HM Hrs Hincl. unfold forest. rewrite map_flat_map. apply nodup_flat_map.
  - exact Hrs.
  - intros r Hr. apply T_nodup; auto. apply inv_bound. apply Hincl in Hr. apply filter_In in Hr. apply Hr.
  - intros r1 r2 x H1 H2 Hx1 Hx2.
    apply Hincl in H1. apply Hincl in H2. apply filter_In in H1 as [Hm1 Hr1]. apply filter_In in H2 as [Hm2 Hr2].
    apply in_map_iff in Hx1 as ([x1 d1] & E1 & Hx1). apply in_map_iff in Hx2 as ([x2 d2] & E2 & Hx2).
    cbn [fst] in E1, E2. subst x1 x2.
    destruct (T_sound M _ r1 0 x d1 (inv_bound _ _ Hm1) Hx1) as (_ & n1 & Ha1 & _).
    destruct (T_sound M _ r2 0 x d2 (inv_bound _ _ Hm2) Hx2) as (_ & n2 & Ha2 & _).
    apply is_root_up in Hr1. apply is_root_up in Hr2.
    assert (Ek : cls_key r1 = cls_key r2).
    { destruct (Compare_dec.le_ge_dec n1 n2) as [Hle|Hle].
      - eapply (anc_root_unique M n1 n2); eauto.
      - symmetry. eapply (anc_root_unique M n2 n1); eauto. }
    apply (key_inj M); auto.
Qed.

(* every class of the set is in the forest of the parent-free classes exactly once *)
Theorem forest_perm M : keys_nodup M -> Permutation M (map fst (forest M (roots M))).
Proof.
  intros HM. apply NoDup_Permutation.
  - apply keys_nodup_NoDup. exact HM.
  - apply forest_nodup; auto.
    + apply NoDup_filter. apply keys_nodup_NoDup. exact HM.
    + intros x Hx. exact Hx.
  - intros x. split.
    + intros Hx. destruct (has_root M _ x (le_n _) Hx) as (n & r & Hr & Ha).
      apply in_map_iff. exists (x, (0 + n)%nat). split; [reflexivity|].
      unfold forest. apply in_flat_map. exists r. split; [exact Hr|].
      apply T_complete; auto. apply inv_bound. apply filter_In in Hr. apply Hr.
    + intros Hx. apply in_map_iff in Hx as ([x' dx] & <- & Hin). cbn [fst].
      unfold forest in Hin. apply in_flat_map in Hin as (r & Hr & Hin).
      eapply T_incl; [|exact Hin]. apply inv_bound. apply filter_In in Hr. apply Hr.
Qed.

(* ---------- depth ---------- *)

(* number of ancestors reached by following parent names as long as they are in the set *)
Fixpoint chain_depth_aux (fuel : nat) (M : list class) (k : str) : nat :=
  match fuel with
  | O => O
  | S f => match up M k with Some p => S (chain_depth_aux f M p) | None => O end
  end.
Definition chain_depth (M : list class) (k : str) : nat := chain_depth_aux (length k) M k.

Lemma chain_depth_anc M : forall n fuel k r, (length k <= fuel)%nat ->
  anc M n k = Some r -> up M r = None -> chain_depth_aux fuel M k = n.
Proof.
  induction n as [|n IH]; intros fuel k r Hf Ha Hr.
  - cbn [anc] in Ha. injection Ha as <-. destruct fuel; [reflexivity|]. cbn [chain_depth_aux]. rewrite Hr. reflexivity.
  - cbn [anc] in Ha. destruct (up M k) as [p|] eqn:E; [|discriminate].
    destruct fuel; [apply up_shorter in E; lia|]. cbn [chain_depth_aux]. rewrite E. f_equal.
    eapply IH; eauto. apply up_shorter in E. lia.
Qed.

(* the indentation depth of a class in its tree is the length of its chain of present ancestors *)
Theorem forest_depth M x dx : In (x, dx) (forest M (roots M)) -> dx = chain_depth M (cls_key x).
Proof.
  intros Hin. unfold forest in Hin. apply in_flat_map in Hin as (r & Hr & Hin).
  apply filter_In in Hr as [Hm Hr].
  destruct (T_sound M _ r 0 x dx (inv_bound _ _ Hm) Hin) as (_ & n & Ha & ->).
  symmetry. cbn [Nat.add]. unfold chain_depth. eapply chain_depth_anc; eauto. apply is_root_up. exact Hr.
Qed.

(* a class that is written is one whose comments the writer accepts *)
Lemma write_class_ok c d ls : write_class c d = Ok ls -> write_class_lines c d = Ok ls /\ class_docs_writable c = true.
Proof. unfold write_class. destruct (class_docs_writable c); [auto|discriminate]. Qed.

