(* C12 theory, part 5: the text layer.  Lines survive unlines/split_lines, the tokeniser gives
   back the tokens of a written line, comment words joined by one space give back the comment
   line, decimal parameter indices parse back. *)
From FB Require Import C12.Model.
From Coq Require Import Lia.

(* ---------- lines ---------- *)

(* no LF inside, no CR at the end *)
Fixpoint line_ok (l : str) : bool :=
  match l with
  | [] => true
  | c :: l' => negb (N.eqb c cLF) && (match l' with [] => negb (N.eqb c cCR) | _ => line_ok l' end)
  end.

Lemma split_lines_line l rest : line_ok l = true -> split_lines (l ++ cLF :: rest) = l :: split_lines rest.
Proof.
  induction l as [|c l IH]; intros H.
  - cbn [app split_lines]. rewrite N.eqb_refl. reflexivity.
  - cbn [line_ok] in H. apply andb_true_iff in H as [Hc Hl]. apply negb_true_iff in Hc.
    cbn [app split_lines]. rewrite Hc. destruct l as [|x l].
    + apply negb_true_iff in Hl. rewrite Hl. cbn [andb app split_lines]. rewrite N.eqb_refl. reflexivity.
    + assert (Hx : N.eqb x cLF = false).
      { cbn [line_ok] in Hl. apply andb_true_iff in Hl as [Hx _]. apply negb_true_iff in Hx. exact Hx. }
      cbn [app]. rewrite Hx, andb_false_r.
      change (x :: l ++ cLF :: rest) with ((x :: l) ++ cLF :: rest). rewrite (IH Hl). reflexivity.
Qed.

Lemma split_lines_unlines ls : forallb line_ok ls = true -> split_lines (unlines ls) = ls.
Proof.
  induction ls as [|l ls IH]; intros H; [reflexivity|].
  cbn [forallb] in H. apply andb_true_iff in H as [Hl Hls].
  unfold unlines. cbn [flat_map]. rewrite <- app_assoc. cbn [app].
  rewrite (split_lines_line l _ Hl). f_equal. apply IH. exact Hls.
Qed.

Lemma unlines_app a b : unlines (a ++ b) = unlines a ++ unlines b.
Proof. unfold unlines. apply flat_map_app. Qed.

Lemma filter_map_app {A B} (f : A -> option B) l1 l2 : filter_map f (l1 ++ l2) = filter_map f l1 ++ filter_map f l2.
Proof.
  induction l1 as [|x l1 IH]; cbn [app filter_map]; [reflexivity|].
  destruct (f x); rewrite IH; reflexivity.
Qed.

(* ---------- splitting and joining on white space ---------- *)

Definition nows (s : str) : bool := forallb (fun c => negb (java_ws c)) s.

Lemma split_ws_nonempty s : split_ws s <> [].
Proof.
  induction s as [|c s IH]; cbn [split_ws]; [discriminate|].
  destruct (java_ws c); [discriminate|]. destruct (split_ws s); [congruence|discriminate].
Qed.

Lemma split_ws_nows_app x r : nows x = true -> split_ws (x ++ cSP :: r) = x :: split_ws r.
Proof.
  induction x as [|c x IH]; intros H.
  - reflexivity.
  - cbn [nows forallb] in H. apply andb_true_iff in H as [Hc Hx]. apply negb_true_iff in Hc.
    cbn [app split_ws]. rewrite Hc. rewrite (IH Hx). reflexivity.
Qed.

Lemma split_ws_nows x : nows x = true -> split_ws x = [x].
Proof.
  induction x as [|c x IH]; intros H; [reflexivity|].
  cbn [nows forallb] in H. apply andb_true_iff in H as [Hc Hx]. apply negb_true_iff in Hc.
  cbn [split_ws]. rewrite Hc, (IH Hx). reflexivity.
Qed.

Lemma split_ws_join l : l <> [] -> forallb nows l = true -> split_ws (join_sp l) = l.
Proof.
  induction l as [|x l IH]; intros Hne H; [congruence|].
  cbn [forallb] in H. apply andb_true_iff in H as [Hx Hl].
  destruct l as [|y l].
  - cbn [join_sp]. apply split_ws_nows. exact Hx.
  - change (join_sp (x :: y :: l)) with (x ++ cSP :: join_sp (y :: l)).
    rewrite (split_ws_nows_app x _ Hx). f_equal. apply IH; [discriminate|exact Hl].
Qed.

Lemma join_sp_cons_first c p ps : join_sp ((c :: p) :: ps) = c :: join_sp (p :: ps).
Proof. destruct ps; reflexivity. Qed.

Definition sp_only (l : str) : bool := forallb (fun c => negb (java_ws c) || N.eqb c cSP) l.

Lemma join_split_ws l : sp_only l = true -> join_sp (split_ws l) = l.
Proof.
  induction l as [|c l IH]; intros H; [reflexivity|].
  cbn [sp_only forallb] in H. apply andb_true_iff in H as [Hc Hl]. specialize (IH Hl).
  cbn [split_ws]. destruct (java_ws c) eqn:E.
  - cbn [negb orb] in Hc. apply N.eqb_eq in Hc. subst c.
    destruct (split_ws l) as [|p ps] eqn:Es; [exfalso; exact (split_ws_nonempty l Es)|].
    change (join_sp ([] :: p :: ps)) with ([] ++ cSP :: join_sp (p :: ps)). cbn [app]. f_equal. exact IH.
  - destruct (split_ws l) as [|p ps] eqn:Es; [exfalso; exact (split_ws_nonempty l Es)|].
    cbn [cons_first]. rewrite join_sp_cons_first. f_equal. exact IH.
Qed.

(* join with an arbitrary separator, inverse of split_on *)
Fixpoint join_c (c : N) (l : list str) : str :=
  match l with
  | [] => []
  | [x] => x
  | x :: l' => x ++ c :: join_c c l'
  end.

Lemma split_on_nonempty c s : split_on c s <> [].
Proof.
  induction s as [|x s IH]; cbn [split_on]; [discriminate|].
  destruct (N.eqb x c); [discriminate|]. destruct (split_on c s); discriminate.
Qed.

Lemma join_c_cons_first c x p ps : join_c c ((x :: p) :: ps) = x :: join_c c (p :: ps).
Proof. destruct ps; reflexivity. Qed.

Lemma join_split_on c s : join_c c (split_on c s) = s.
Proof.
  induction s as [|x s IH]; [reflexivity|]. cbn [split_on].
  destruct (N.eqb_spec x c) as [->|Hn].
  - destruct (split_on c s) as [|p ps] eqn:Es; [exfalso; exact (split_on_nonempty c s Es)|].
    change (join_c c ([] :: p :: ps)) with ([] ++ c :: join_c c (p :: ps)). cbn [app]. f_equal. exact IH.
  - destruct (split_on c s) as [|p ps] eqn:Es; [exfalso; exact (split_on_nonempty c s Es)|].
    rewrite join_c_cons_first. f_equal. exact IH.
Qed.

Lemma split_on_parts_free c s p : In p (split_on c s) -> ~ In c p.
Proof.
  revert p. induction s as [|x s IH]; intros p; cbn [split_on].
  - intros [<-|[]] [].
  - destruct (N.eqb_spec x c) as [->|Hn].
    + intros [<-|H]; [intros []|apply IH; exact H].
    + destruct (split_on c s) as [|q qs] eqn:Es; [exfalso; exact (split_on_nonempty c s Es)|].
      intros [<-|H].
      * intros [E|Hin]; [congruence|]. apply (IH q); [left; reflexivity|exact Hin].
      * apply IH. right. exact H.
Qed.

Lemma split_on_parts_forallb (P : N -> bool) c s p : forallb P s = true -> In p (split_on c s) -> forallb P p = true.
Proof.
  revert p. induction s as [|x s IH]; intros p Hs; cbn [split_on].
  - intros [<-|[]]. reflexivity.
  - cbn [forallb] in Hs. apply andb_true_iff in Hs as [Hx Hs].
    destruct (N.eqb x c).
    + intros [<-|H]; [reflexivity|apply IH; assumption].
    + destruct (split_on c s) as [|q qs] eqn:Es; [exfalso; exact (split_on_nonempty c s Es)|].
      intros [<-|H].
      * cbn [forallb]. rewrite Hx. apply IH; [exact Hs|left; reflexivity].
      * apply IH; [exact Hs|right; exact H].
Qed.

(* ---------- tokens ---------- *)

(* non-empty and the last character is not trimmed away *)
Fixpoint ends_nows (r : str) : bool :=
  match r with
  | [] => false
  | c :: r' => match r' with [] => negb (uni_ws c) | _ => ends_nows r' end
  end.

(* a character of a written token: no separator, no `#`, and a scalar value (the Display impls of
   the name types fail on surrogates) *)
Definition tok_char (c : N) : bool :=
  negb (java_ws c) && (negb (N.eqb c cHASH) && negb (N.leb 55296 c && N.leb c 57343)).
Definition tokb (s : str) : bool := forallb tok_char s && ends_nows s.

Lemma ends_nows_app x t : t <> [] -> ends_nows (x ++ t) = ends_nows t.
Proof.
  intros Ht. induction x as [|c x IH]; [reflexivity|].
  cbn [app ends_nows]. destruct (x ++ t) eqn:E; [|exact IH].
  destruct x; cbn [app] in E; [congruence|discriminate].
Qed.

Lemma ends_nows_last r : ends_nows r = true -> exists r' z, r = r' ++ [z] /\ uni_ws z = false.
Proof.
  induction r as [|c r IH]; intros H; [discriminate|].
  cbn [ends_nows] in H. destruct r as [|y r].
  - exists [], c. split; [reflexivity|]. apply negb_true_iff. exact H.
  - destruct (IH H) as (r' & z & E & Hz). exists (c :: r'), z. split; [cbn [app]; rewrite <- E; reflexivity|exact Hz].
Qed.

Lemma tokb_nows s : tokb s = true -> nows s = true.
Proof.
  unfold tokb, nows. intros H. apply andb_true_iff in H as [H _].
  rewrite forallb_forall in *. intros c Hc. specialize (H c Hc). unfold tok_char in H.
  apply andb_true_iff in H. apply H.
Qed.

Lemma tokb_nonempty s : tokb s = true -> s <> [].
Proof. unfold tokb. intros H Hn. subst s. cbn in H. discriminate. Qed.

Lemma tokb_suffix p c i : tokb (p ++ c :: i) = true -> i <> [] -> tokb i = true.
Proof.
  unfold tokb. intros H Hi. apply andb_true_iff in H as [Hc He]. apply andb_true_iff. split.
  - rewrite forallb_app in Hc. apply andb_true_iff in Hc as [_ Hc]. cbn [forallb] in Hc.
    apply andb_true_iff in Hc. apply Hc.
  - change (p ++ c :: i) with (p ++ [c] ++ i) in He. rewrite app_assoc in He.
    rewrite ends_nows_app in He by exact Hi. exact He.
Qed.

Lemma forallb_join_sp (P : N -> bool) l : P cSP = true -> forallb (forallb P) l = true -> forallb P (join_sp l) = true.
Proof.
  intros Hsp. induction l as [|x l IH]; intros H; [reflexivity|].
  cbn [forallb] in H. apply andb_true_iff in H as [Hx Hl]. destruct l as [|y l]; [exact Hx|].
  change (join_sp (x :: y :: l)) with (x ++ cSP :: join_sp (y :: l)).
  rewrite forallb_app. cbn [forallb]. rewrite Hx, Hsp, (IH Hl). reflexivity.
Qed.

Lemma ends_nows_join l : l <> [] -> forallb ends_nows l = true -> ends_nows (join_sp l) = true.
Proof.
  induction l as [|x l IH]; intros Hne H; [congruence|].
  cbn [forallb] in H. apply andb_true_iff in H as [Hx Hl]. destruct l as [|y l]; [exact Hx|].
  change (join_sp (x :: y :: l)) with (x ++ [cSP] ++ join_sp (y :: l)).
  assert (Hj := IH (ltac:(discriminate)) Hl).
  rewrite app_assoc, ends_nows_app; [exact Hj|]. intros E. rewrite E in Hj. discriminate.
Qed.

Lemma count_tabs_tabs n r :
  match r with c :: _ => N.eqb c cTAB = false | [] => True end -> count_tabs (tabs n ++ r) = (n, r).
Proof.
  intros Hr. induction n as [|n IH].
  - cbn [tabs repeat app]. destruct r as [|c r]; [reflexivity|]. cbn [count_tabs]. rewrite Hr. reflexivity.
  - cbn [tabs repeat app count_tabs]. rewrite N.eqb_refl. fold (tabs n). rewrite IH. reflexivity.
Qed.

Lemma strip_hash_id r : forallb (fun c => negb (N.eqb c cHASH)) r = true -> strip_hash r = r.
Proof.
  induction r as [|c r IH]; intros H; [reflexivity|].
  cbn [forallb] in H. apply andb_true_iff in H as [Hc Hr]. apply negb_true_iff in Hc.
  cbn [strip_hash]. rewrite Hc, (IH Hr). reflexivity.
Qed.

Lemma trim_id c r : uni_ws c = false -> ends_nows (c :: r) = true -> trim (c :: r) = c :: r.
Proof.
  intros Hc He. unfold trim. cbn [drop_while]. rewrite Hc.
  destruct (ends_nows_last _ He) as (r' & z & E & Hz). rewrite E, rev_app_distr. cbn [rev app drop_while].
  rewrite Hz. cbn [rev]. rewrite rev_involutive. reflexivity.
Qed.

Definition is_tag (t : str) : Prop := t = s_CLASS \/ t = s_FIELD \/ t = s_METHOD \/ t = s_ARG.

Lemma tag_tokb t : is_tag t -> tokb t = true.
Proof. intros [->|[->|[->| ->]]]; vm_compute; reflexivity. Qed.

(* a written line `<tabs><TAG> tok ... tok` is tokenised into exactly these tokens *)
Lemma enigma_line_tag n tag toks : is_tag tag -> forallb tokb toks = true ->
  enigma_line (tabs n ++ join_sp (tag :: toks)) = Some (mkEline n tag toks).
Proof.
  intros Htag Htoks.
  assert (Hall : forallb tokb (tag :: toks) = true) by (cbn [forallb]; rewrite (tag_tokb _ Htag), Htoks; reflexivity).
  assert (Hnows : forallb nows (tag :: toks) = true).
  { rewrite forallb_forall in *. intros x Hx. apply tokb_nows. apply Hall. exact Hx. }
  assert (Hhash : forallb (fun c => negb (N.eqb c cHASH)) (join_sp (tag :: toks)) = true).
  { apply forallb_join_sp; [reflexivity|]. rewrite forallb_forall in *. intros x Hx. specialize (Hall x Hx).
    unfold tokb in Hall. apply andb_true_iff in Hall as [Hall _]. rewrite forallb_forall in *. intros c Hc.
    specialize (Hall c Hc). unfold tok_char in Hall. apply andb_true_iff in Hall as [_ Hall].
    apply andb_true_iff in Hall. apply Hall. }
  assert (Hends : ends_nows (join_sp (tag :: toks)) = true).
  { apply ends_nows_join; [discriminate|]. rewrite forallb_forall in *. intros x Hx. specialize (Hall x Hx).
    unfold tokb in Hall. apply andb_true_iff in Hall. apply Hall. }
  assert (Hsplit := split_ws_join (tag :: toks) ltac:(discriminate) Hnows).
  assert (Hshape : exists c r, join_sp (tag :: toks) = c :: r /\ N.eqb c cTAB = false /\ uni_ws c = false
                               /\ starts_with s_COMMENT (c :: r) = false).
  { destruct Htag as [->|[->|[->| ->]]]; destruct toks; eexists; eexists; (split; [reflexivity|]); repeat split; reflexivity. }
  destruct Hshape as (c & r & E & Htab & Hws & Hcom).
  unfold enigma_line. rewrite E in *. rewrite count_tabs_tabs by exact Htab.
  rewrite Hcom, (strip_hash_id _ Hhash), (trim_id c r Hws Hends), Hsplit. reflexivity.
Qed.

Lemma split_first_ws_nows_app x w r : nows x = true -> java_ws w = true -> split_first_ws (x ++ w :: r) = [x; r].
Proof.
  intros Hx Hw. induction x as [|c x IH].
  - cbn [app split_first_ws]. rewrite Hw. reflexivity.
  - cbn [nows forallb] in Hx. apply andb_true_iff in Hx as [Hc Hx]. apply negb_true_iff in Hc.
    cbn [app split_first_ws]. rewrite Hc, (IH Hx). reflexivity.
Qed.

(* a written COMMENT line: the tag, and the text after the one separating space AS IT IS — whatever it contains *)
Lemma enigma_line_comment n l :
  enigma_line (tabs n ++ s_COMMENT ++ cSP :: l) = Some (mkEline n s_COMMENT [l]).
Proof.
  unfold enigma_line. rewrite count_tabs_tabs by reflexivity.
  assert (Hs : starts_with s_COMMENT (s_COMMENT ++ cSP :: l) = true) by (apply starts_with_app; eexists; reflexivity).
  rewrite Hs. reflexivity.
Qed.

(* the tokeniser on ANY line that starts (after its tabs) with `COMMENT` and a separator: nothing is trimmed, `#` stays,
   the text is not split *)
Lemma enigma_line_comment_any n w l : java_ws w = true ->
  enigma_line (tabs n ++ s_COMMENT ++ w :: l) = Some (mkEline n s_COMMENT [l]).
Proof.
  intros Hw. unfold enigma_line. rewrite count_tabs_tabs by reflexivity.
  assert (Hs : starts_with s_COMMENT (s_COMMENT ++ w :: l) = true) by (apply starts_with_app; eexists; reflexivity).
  rewrite Hs. rewrite (split_first_ws_nows_app s_COMMENT w l) by (reflexivity || exact Hw). reflexivity.
Qed.

Lemma enigma_line_header fname : enigma_line (cHASH :: cSP :: fname) = None.
Proof. reflexivity. Qed.
Lemma enigma_line_hash : enigma_line [cHASH] = None.
Proof. reflexivity. Qed.

(* line_ok of what the writer emits *)
Definition no_lfcr (s : str) : bool := forallb (fun c => negb (N.eqb c cLF) && negb (N.eqb c cCR)) s.

Lemma no_lfcr_line_ok s : no_lfcr s = true -> line_ok s = true.
Proof.
  induction s as [|c s IH]; intros H; [reflexivity|].
  cbn [no_lfcr forallb] in H. apply andb_true_iff in H as [Hc Hs]. apply andb_true_iff in Hc as [H1 H2].
  cbn [line_ok]. rewrite H1. destruct s; [exact H2|]. apply IH. exact Hs.
Qed.

Lemma no_lfcr_app a b : no_lfcr (a ++ b) = no_lfcr a && no_lfcr b.
Proof. apply forallb_app. Qed.

Lemma tokb_no_lfcr s : tokb s = true -> no_lfcr s = true.
Proof.
  intros H. unfold tokb in H. apply andb_true_iff in H as [H _]. unfold no_lfcr.
  rewrite forallb_forall in *. intros c Hc. specialize (H c Hc). unfold tok_char in H.
  apply andb_true_iff in H as [H _]. unfold java_ws, mem_N in H. cbn [existsb] in H.
  rewrite !negb_orb in H. repeat (apply andb_true_iff in H as [? H]).
  apply andb_true_iff. split; assumption.
Qed.

Lemma no_lfcr_tabs n : no_lfcr (tabs n) = true.
Proof. induction n as [|n IH]; [reflexivity|]. cbn [tabs repeat no_lfcr forallb]. fold (tabs n). exact IH. Qed.

Lemma no_lfcr_join_sp l : forallb no_lfcr l = true -> no_lfcr (join_sp l) = true.
Proof. apply forallb_join_sp. reflexivity. Qed.

(* ---------- comments ---------- *)

Definition ins_doc (a : option str) (s : str) : option str :=
  match a with Some d => Some (d ++ cLF :: s) | None => Some s end.

Lemma ins_comment_doc doc n l : ins_comment doc (mkEline n s_COMMENT [l]) = ins_doc doc l.
Proof. reflexivity. Qed.

Lemma fold_ins_doc_some L a : fold_left ins_doc L (Some a) = Some (join_c cLF (a :: L)).
Proof.
  revert a. induction L as [|x L IH]; intros a; [reflexivity|].
  cbn [fold_left ins_doc]. rewrite IH. f_equal.
  change (join_c cLF (a :: x :: L)) with (a ++ cLF :: join_c cLF (x :: L)).
  destruct L as [|y L]; cbn [join_c]; rewrite <- ?app_assoc; reflexivity.
Qed.

(* the comment lines of a doc, read back from nothing, give the doc *)
Lemma fold_ins_doc_split d : fold_left ins_doc (split_on cLF d) None = Some d.
Proof.
  destruct (split_on cLF d) as [|x L] eqn:E; [exfalso; exact (split_on_nonempty _ _ E)|].
  cbn [fold_left ins_doc]. rewrite fold_ins_doc_some, <- E, join_split_on. reflexivity.
Qed.

(* a comment the writer accepts: none of its lines (LF separates them) ends with CR — Model.doc_writable *)
Definition nolf (s : str) : bool := forallb (fun c => negb (N.eqb c cLF)) s.

Lemma ends_cr_app x t : t <> [] -> ends_cr (x ++ t) = ends_cr t.
Proof.
  intros Ht. induction x as [|c x IH]; [reflexivity|].
  cbn [app ends_cr]. destruct (x ++ t) eqn:E; [|exact IH].
  destruct x; cbn [app] in E; [congruence|discriminate].
Qed.

Lemma nolf_line_ok l : nolf l = true -> ends_cr l = false -> line_ok l = true.
Proof.
  induction l as [|c l IH]; intros Hn He; [reflexivity|].
  cbn [nolf forallb] in Hn. apply andb_true_iff in Hn as [Hc Hl].
  cbn [line_ok]. rewrite Hc. cbn [andb]. destruct l as [|x l].
  - cbn [ends_cr] in He. rewrite He. reflexivity.
  - apply IH; [exact Hl|]. exact He.
Qed.

Lemma line_ok_nolf l : line_ok l = true -> nolf l = true /\ ends_cr l = false.
Proof.
  induction l as [|c l IH]; intros H; [split; reflexivity|].
  cbn [line_ok] in H. apply andb_true_iff in H as [Hc Hl]. destruct l as [|x l].
  - split; [cbn [nolf forallb]; rewrite Hc; reflexivity|]. cbn [ends_cr]. apply negb_true_iff. exact Hl.
  - destruct (IH Hl) as [Hn He]. split; [cbn [nolf forallb] in *; rewrite Hc; exact Hn|exact He].
Qed.

Lemma doc_line_nolf d l : In l (split_on cLF d) -> nolf l = true.
Proof.
  intros Hl. assert (Hfree := split_on_parts_free _ _ _ Hl). unfold nolf. apply forallb_forall.
  intros c Hc. apply negb_true_iff. apply N.eqb_neq. intros ->. contradiction.
Qed.

Lemma comment_line_ok n l : nolf l = true -> ends_cr l = false -> line_ok (tabs n ++ s_COMMENT ++ cSP :: l) = true.
Proof.
  intros Hn He. apply nolf_line_ok.
  - unfold nolf. rewrite !forallb_app. cbn [forallb]. fold (nolf l). rewrite Hn.
    replace (forallb (fun c => negb (N.eqb c cLF)) s_COMMENT) with true by reflexivity.
    assert (Ht : forallb (fun c => negb (N.eqb c cLF)) (tabs n) = true).
    { induction n as [|n IH]; [reflexivity|]. cbn [tabs repeat forallb]. fold (tabs n). exact IH. }
    rewrite Ht. reflexivity.
  - rewrite app_assoc, ends_cr_app by discriminate. cbn [ends_cr]. destruct l; [reflexivity|exact He].
Qed.

(* ---------- decimal indices ---------- *)

Fixpoint pow10 (f : nat) : N := match f with O => 1 | S f' => 10 * pow10 f' end.

Lemma digits_val_app ds rest a :
  digits_val (ds ++ rest) a = match digits_val ds a with Some b => digits_val rest b | None => None end.
Proof.
  revert a. induction ds as [|c ds IH]; intros a; [reflexivity|].
  cbn [app digits_val]. destruct (is_digit c); [apply IH|reflexivity].
Qed.

Lemma digit_of n : n < 10 -> is_digit (48 + n) = true /\ 48 + n - 48 = n.
Proof. intros H. unfold is_digit. split; [|lia]. apply andb_true_iff. split; apply N.leb_le; lia. Qed.

Lemma dec_aux_spec f : forall n acc, n < pow10 (S f) ->
  exists ds, dec_aux (S f) n acc = ds ++ acc /\ ds <> [] /\ forallb is_digit ds = true /\ digits_val ds 0 = Some n.
Proof.
  induction f as [|f IH]; intros n acc Hn.
  - cbn [pow10] in Hn. assert (Hlt : n < 10) by lia.
    exists [48 + n mod 10]. cbn [dec_aux]. rewrite N.mod_small by exact Hlt.
    destruct (digit_of n Hlt) as [Hd He]. split; [destruct (N.ltb n 10); reflexivity|].
    split; [discriminate|]. split; [cbn [forallb]; rewrite Hd; reflexivity|].
    cbn [digits_val]. rewrite Hd. f_equal. lia.
  - change (dec_aux (S (S f)) n acc) with
      (if N.ltb n 10 then (48 + n mod 10) :: acc else dec_aux (S f) (n / 10) ((48 + n mod 10) :: acc)).
    assert (Hm : n mod 10 < 10) by (apply N.mod_lt; lia).
    destruct (digit_of _ Hm) as [Hd He].
    destruct (N.ltb_spec n 10) as [Hlt|Hge].
    + exists [48 + n mod 10]. rewrite N.mod_small in * by exact Hlt.
      split; [reflexivity|]. split; [discriminate|]. split; [cbn [forallb]; rewrite Hd; reflexivity|].
      cbn [digits_val]. rewrite Hd. f_equal. lia.
    + assert (Hq : n / 10 < pow10 (S f)).
      { apply N.div_lt_upper_bound; [lia|]. change (pow10 (S (S f))) with (10 * pow10 (S f)) in Hn. exact Hn. }
      destruct (IH (n / 10) ((48 + n mod 10) :: acc) Hq) as (ds & E & Hne & Hdig & Hval).
      exists (ds ++ [48 + n mod 10]). rewrite E, <- app_assoc. split; [reflexivity|].
      split; [destruct ds; discriminate|]. split; [rewrite forallb_app; cbn [forallb]; rewrite Hdig, Hd; reflexivity|].
      rewrite digits_val_app, Hval. cbn [digits_val]. rewrite Hd. f_equal.
      rewrite He. rewrite (N.div_mod' n 10) at 3. lia.
Qed.

Lemma is_digit_tok_char c : is_digit c = true -> tok_char c = true /\ uni_ws c = false /\ N.eqb c 43 = false.
Proof.
  unfold is_digit. intros H. apply andb_true_iff in H as [H1 H2]. apply N.leb_le in H1, H2.
  assert (Hc : c = 48 \/ c = 49 \/ c = 50 \/ c = 51 \/ c = 52 \/ c = 53 \/ c = 54 \/ c = 55 \/ c = 56 \/ c = 57) by lia.
  repeat (destruct Hc as [->|Hc]; [vm_compute; auto|]). subst c. vm_compute. auto.
Qed.

Theorem parse_dec n : n < usize_bound -> parse_usize (dec n) = Ok n /\ tokb (dec n) = true.
Proof.
  intros Hn. assert (Hp : n < pow10 20) by (unfold usize_bound in Hn; change (pow10 20) with 100000000000000000000; lia).
  destruct (dec_aux_spec 19 n [] Hp) as (ds & E & Hne & Hdig & Hval).
  unfold dec. rewrite E, app_nil_r. destruct ds as [|c ds]; [congruence|].
  assert (Hc : is_digit c = true) by (cbn [forallb] in Hdig; apply andb_true_iff in Hdig; apply Hdig).
  destruct (is_digit_tok_char c Hc) as (_ & _ & H43). split.
  - unfold parse_usize. rewrite H43, Hval. apply N.ltb_lt in Hn. rewrite Hn. reflexivity.
  - unfold tokb. apply andb_true_iff. split.
    + rewrite forallb_forall in *. intros x Hx. apply is_digit_tok_char. apply Hdig. exact Hx.
    + clear E Hval Hne H43 Hc. revert c Hdig. induction ds as [|y ds IH]; intros c Hdig.
      * cbn [ends_nows]. cbn [forallb] in Hdig. apply andb_true_iff in Hdig as [Hc _].
        apply negb_true_iff. apply is_digit_tok_char. exact Hc.
      * cbn [ends_nows]. apply (IH y). cbn [forallb] in Hdig. apply andb_true_iff in Hdig. apply Hdig.
Qed.
