(* C12 theory, part 9: reading the token lines of a forest of classes gives every class back
   under its source key (prefix re-attachment), children before their parent. *)
From FB Require Import C12.Model C12.TheoryTree C12.TheoryTok C12.TheoryLines C12.TheoryRead C12.TheoryClass C18.Theory.
From Coq Require Import Lia Arith PeanoNat Permutation.

(* ---------- hypotheses on the set ---------- *)

Definition link_okb (M : list class) (c : class) : bool :=
  match parent_in M c with
  | None => opt_b (fun d => negb (is_modifier d)) (cls_dst c)
  | Some p =>
      match find (fun x => str_eqb (cls_key x) p) M with
      | Some P =>
          match cls_dst c with
          | None => true
          | Some d => match split_inner d with
                      | Some (q, j) => str_eqb q (file_name P) && negb (is_modifier j)
                      | None => false
                      end
          end
      | None => false
      end
  end.

(* how the names of a class at depth [d] relate to the names [par] of the class it is written in *)
Definition link (par : option (str * str)) (c : class) (d : nat) : Prop :=
  match d, par with
  | O, None => opt_b (fun x => negb (is_modifier x)) (cls_dst c) = true
  | S _, Some (ps, pd) =>
      (exists i, split_inner (cls_key c) = Some (ps, i)) /\
      match cls_dst c with
      | None => True
      | Some dd => exists j, split_inner dd = Some (pd, j) /\ is_modifier j = false
      end
  | _, _ => False
  end.

Definition psrc_of (par : option (str * str)) (s : str) : str :=
  match par with Some (ps, _) => ps ++ cDOLLAR :: s | None => s end.
Definition pdst_of (par : option (str * str)) (o : option str) : option str :=
  match par with Some (_, pd) => option_map (fun x => pd ++ cDOLLAR :: x) o | None => o end.

Lemma split_inner_tok s p i : split_inner s = Some (p, i) -> tokb s = true -> s = p ++ cDOLLAR :: i /\ tokb i = true.
Proof.
  intros Hs Ht. apply join_split in Hs as [<- (_ & Hi & _)]. unfold join_inner in *. split; [reflexivity|].
  eapply tokb_suffix; eauto.
Qed.

Lemma head_spec par c d : link par c d -> class_okb c = true ->
  forallb tokb (short_name (negb (Nat.eqb d 0)) (cls_key c)
                  :: opt_list (option_map (short_name (negb (Nat.eqb d 0))) (cls_dst c))) = true
  /\ exists sd, pat_class (el_fields (e_head c d)) = Ok sd
                /\ psrc_of par (fst sd) = cls_key c /\ pdst_of par (snd sd) = cls_dst c.
Proof.
  intros Hl Hok. unfold class_okb in Hok. split_ands Hok. unfold e_head. cbn [el_fields].
  destruct d as [|d]; destruct par as [[ps pd]|]; cbn [link] in Hl; try contradiction.
  - cbn [Nat.eqb negb short_name]. destruct (cls_dst c) as [x|]; cbn [option_map opt_list forallb opt_b short_name] in *.
    + apply andb_true_iff in Hok5 as [Hx _]. rewrite Hok7, Hx. split; [reflexivity|].
      apply negb_true_iff in Hl. cbn [pat_class]. rewrite Hl. eexists. split; [reflexivity|]. split; reflexivity.
    + rewrite Hok7. split; [reflexivity|]. eexists. split; [reflexivity|]. split; reflexivity.
  - cbn [Nat.eqb negb short_name]. destruct Hl as [(i & Hi) Hd]. rewrite Hi.
    destruct (split_inner_tok _ _ _ Hi Hok7) as [Ek Hti].
    destruct (cls_dst c) as [x|]; cbn [option_map opt_list forallb opt_b short_name] in *.
    + destruct Hd as (j & Hj & Hmod). rewrite Hj. apply andb_true_iff in Hok5 as [Hx _].
      destruct (split_inner_tok _ _ _ Hj Hx) as [Ex Htj]. rewrite Hti, Htj. split; [reflexivity|].
      cbn [pat_class]. rewrite Hmod. eexists. split; [reflexivity|]. cbn [fst snd psrc_of pdst_of option_map].
      rewrite <- Ek, <- Ex. split; reflexivity.
    + rewrite Hti. split; [reflexivity|]. eexists. split; [reflexivity|]. cbn [fst snd psrc_of pdst_of option_map].
      rewrite <- Ek. split; reflexivity.
Qed.

(* ---------- the token lines of a tree and what is read back ---------- *)

Definition E (nodes : list (class * nat)) : list eline := flat_map (fun cd => e_class (fst cd) (snd cd)) nodes.

Fixpoint post (f : nat) (M : list class) (c : class) : list class :=
  match f with
  | O => [rb_class c]
  | S f' => flat_map (post f' M) (kids M c) ++ [rb_class c]
  end.

Lemma flat_map_flat_map {A B C} (g : B -> list C) (h : A -> list B) l :
  flat_map g (flat_map h l) = flat_map (fun x => flat_map g (h x)) l.
Proof. induction l as [|a l IH]; cbn [flat_map]; [reflexivity|]. rewrite flat_map_app, IH. reflexivity. Qed.

Lemma E_T_S f M c d : E (T (S f) M c d) = e_head c d :: e_body c d ++ flat_map (fun ch => E (T f M ch (S d))) (kids M c).
Proof. unfold E. cbn [T flat_map fst snd]. unfold e_class. cbn [app]. rewrite flat_map_flat_map. reflexivity. Qed.

Lemma E_head f M c d : exists tl, E (T f M c d) = e_head c d :: tl.
Proof. unfold E. destruct f; cbn [T flat_map fst snd]; unfold e_class; cbn [app]; eexists; reflexivity. Qed.

Lemma rb_class_key c : cls_key (rb_class c) = cls_key c.
Proof. reflexivity. Qed.

Lemma post_keys M : forall f c d y, In y (post f M c) -> exists x dx, In (x, dx) (T f M c d) /\ cls_key y = cls_key x.
Proof.
  induction f as [|f IH]; intros c d y Hy.
  - cbn [post] in Hy. destruct Hy as [<-|[]]. exists c, d. split; [left; reflexivity|reflexivity].
  - cbn [post] in Hy. apply in_app_or in Hy as [Hy|[<-|[]]].
    + apply in_flat_map in Hy as (ch & Hch & Hy). destruct (IH ch (S d) y Hy) as (x & dx & Hx & E).
      exists x, dx. split; [|exact E]. cbn [T]. right. apply in_flat_map. exists ch. auto.
    + exists c, d. split; [left; reflexivity|reflexivity].
Qed.

Lemma has_key_app A B k : has_key (A ++ B) k = has_key A k || has_key B k.
Proof. unfold has_key. apply existsb_app. Qed.

Lemma has_key_false M k : (forall y, In y M -> cls_key y <> k) -> has_key M k = false.
Proof.
  intros H. destruct (has_key M k) eqn:E; [|reflexivity]. apply has_key_In in E as (y & Hy & Ek).
  exfalso. exact (H y Hy Ek).
Qed.

Definition set_ok (M : list class) : Prop :=
  keys_nodup M /\ (forall c, In c M -> class_okb c = true) /\ (forall c, In c M -> link_okb M c = true).

Lemma kid_link M c ch d : set_ok M -> In c M -> In ch (kids M c) -> link (Some (cls_key c, file_name c)) ch (S d).
Proof.
  intros (HM & _ & Hlink) Hc Hch. apply kids_In in Hch as [Hchm Hu].
  assert (Hl := Hlink ch Hchm). unfold link_okb in Hl. rewrite parent_in_up, Hu in Hl.
  destruct (find (fun x => str_eqb (cls_key x) (cls_key c)) M) as [P|] eqn:Ef; [|discriminate].
  apply find_some in Ef as [HP EP]. apply str_eqb_eq in EP. assert (P = c) by (apply (key_inj M); auto). subst P.
  cbn [link]. split.
  - unfold up in Hu. destruct (split_inner (cls_key ch)) as [[p i]|]; [|discriminate].
    destruct (has_key M p); [|discriminate]. injection Hu as ->. exists i. reflexivity.
  - destruct (cls_dst ch) as [dd|]; [|exact I]. destruct (split_inner dd) as [[q j]|]; [|discriminate].
    apply andb_true_iff in Hl as [Hq Hj]. apply str_eqb_eq in Hq. subst q. exists j. split; [reflexivity|].
    apply negb_true_iff. exact Hj.
Qed.

(* the statement proved by induction on the depth fuel of T *)
Definition P (M : list class) (f : nat) : Prop :=
  forall c d par acc rest F,
    inv M f c ->
    (forall x dx, In (x, dx) (T f M c d) -> (dx <= max_class_nesting)%nat) ->
    link par c d ->
    (forall x dx, In (x, dx) (T f M c d) -> has_key acc (cls_key x) = false) ->
    stops (S d) rest ->
    (length (E (T f M c d) ++ rest) <= F)%nat ->
    parse_class_with (class_loop F) d par (e_head c d) acc (tl (E (T f M c d)) ++ rest) = Ok (acc ++ post f M c, rest).

Lemma nodup_keys_of M l : keys_nodup M -> NoDup l -> incl l M -> NoDup (map cls_key l).
Proof.
  intros HM Hn Hi. induction l as [|a l IH]; cbn [map]; [constructor|].
  inversion Hn as [|? ? Ha Hn']; subst. constructor.
  - intros Hin. apply in_map_iff in Hin as (b & Eb & Hb). assert (b = a); [|subst; contradiction].
    apply (key_inj M); auto; apply Hi; [right; exact Hb|left; reflexivity].
  - apply IH; [exact Hn'|]. intros x Hx. apply Hi. right. exact Hx.
Qed.

Lemma nodup_app_r {A} (a b : list A) : NoDup (a ++ b) -> NoDup b.
Proof. induction a as [|x a IH]; cbn [app]; intros H; [exact H|]. inversion H; subst. auto. Qed.

Lemma kids_phase M f c d cur : set_ok M -> P M f -> inv M (S f) c ->
  (forall x dx, In (x, dx) (T (S f) M c d) -> (dx <= max_class_nesting)%nat) ->
  forall ks acc rest F,
  (forall ch, In ch ks -> In ch (kids M c)) ->
  NoDup (map cls_key (map fst (flat_map (fun ch => T f M ch (S d)) ks))) ->
  (forall ch x dx, In ch ks -> In (x, dx) (T f M ch (S d)) -> has_key acc (cls_key x) = false) ->
  stops (S d) rest ->
  (length (flat_map (fun ch => E (T f M ch (S d))) ks ++ rest) < F)%nat ->
  exists F', (length rest < F')%nat /\
    class_loop F (S d) (cls_key c) (file_name c) cur acc (flat_map (fun ch => E (T f M ch (S d))) ks ++ rest)
    = class_loop F' (S d) (cls_key c) (file_name c) cur (acc ++ flat_map (post f M) ks) rest.
Proof.
  intros Hset HP Hc Hdep. induction ks as [|ch ks IH]; intros acc rest F Hks Hnd Hacc Hr HF.
  - exists F. cbn [flat_map app]. rewrite app_nil_r. split; [exact HF|reflexivity].
  - destruct F as [|F0]; [lia|]. cbn [flat_map] in *. rewrite <- app_assoc in *.
    assert (Hch : In ch (kids M c)) by (apply Hks; left; reflexivity).
    destruct (E_head f M ch (S d)) as (tl0 & Etl).
    assert (Etl' : tl (E (T f M ch (S d))) = tl0) by (rewrite Etl; reflexivity).
    rewrite Etl in HF |- *. cbn [app]. rewrite class_loop_step. unfold e_head at 1. cbn [el_ind el_first].
    rewrite Nat.compare_refl. cbv zeta. replace (str_eqb s_CLASS s_CLASS) with true by reflexivity.
    fold (e_head ch (S d)).
    assert (Hstop : stops (S (S d)) (flat_map (fun ch0 => E (T f M ch0 (S d))) ks ++ rest)).
    { apply stops_flat_map; [|apply (stops_weaken (S d)); [exact Hr|lia]].
      intros x _. destruct (E_head f M x (S d)) as (t & ->). eexists; eexists; split; [reflexivity|].
      unfold e_head. cbn [el_ind]. lia. }
    rewrite <- Etl'. rewrite (HP ch (S d) (Some (cls_key c, file_name c)) acc _ F0).
    + cbn [bind fst snd].
      destruct (IH (acc ++ post f M ch) rest F0) as (F' & HF' & E').
      * intros x Hx. apply Hks. right. exact Hx.
      * rewrite map_app, map_app in Hnd. apply nodup_app_r in Hnd. exact Hnd.
      * intros ch2 x dx Hch2 Hx. rewrite has_key_app, (Hacc ch2 x dx (or_intror Hch2) Hx). cbn [orb].
        apply has_key_false. intros y Hy Ek. destruct (post_keys M f ch (S d) y Hy) as (x' & dx' & Hx' & Ey).
        rewrite map_app, map_app in Hnd. rewrite Ey in Ek.
        assert (H1 : In (cls_key x') (map cls_key (map fst (T f M ch (S d))))).
        { apply in_map. apply in_map_iff. exists (x', dx'). auto. }
        assert (H2 : In (cls_key x) (map cls_key (map fst (flat_map (fun ch => T f M ch (S d)) ks)))).
        { apply in_map. apply in_map_iff. exists (x, dx). split; [reflexivity|]. apply in_flat_map. exists ch2. auto. }
        rewrite Ek in H1. clear -Hnd H1 H2.
        induction (map cls_key (map fst (T f M ch (S d)))) as [|a l IHl]; [destruct H1|].
        cbn [app] in Hnd. inversion Hnd as [|? ? Ha Hn']; subst. destruct H1 as [->|H1]; [|exact (IHl Hn' H1)].
        apply Ha. apply in_or_app. right. exact H2.
      * exact Hr.
      * rewrite Etl in *. cbn [app length] in HF. rewrite app_length in HF. lia.
      * exists F'. split; [exact HF'|]. rewrite E'. rewrite <- app_assoc. reflexivity.
    + eapply inv_kid; eauto.
    + intros x dx Hx. apply (Hdep x dx). cbn [T]. right. apply in_flat_map. exists ch. auto.
    + apply (kid_link M); auto. apply Hc.
    + intros x dx Hx. apply (Hacc ch x dx); [left; reflexivity|exact Hx].
    + exact Hstop.
    + rewrite Etl. cbn [app length] in *. lia.
Qed.

Theorem P_all M : set_ok M -> forall f, P M f.
Proof.
  intros Hset. assert (Hset' := Hset). destruct Hset' as (HM & Hcls & Hlink).
  induction f as [|f IH]; intros c d par acc rest F Hinv Hdep Hl Hacc Hr HF.
  - apply inv_pos in Hinv as (? & ?). discriminate.
  - assert (Hc : In c M) by apply Hinv. assert (Hok := Hcls c Hc).
    rewrite E_T_S in *. cbn [tl]. cbn [app length] in HF. rewrite <- app_assoc in *.
    destruct (head_spec par c d Hl Hok) as (_ & sd & Epat & Es & Ed).
    unfold parse_class_with.
    assert (Hd64 : Nat.ltb max_class_nesting d = false).
    { apply Nat.ltb_ge. apply (Hdep c d). cbn [T]. left. reflexivity. }
    rewrite Hd64, Epat. cbn [bind]. cbv zeta.
    assert (Esrc : match par with Some (ps, _) => ps ++ cDOLLAR :: fst sd | None => fst sd end = cls_key c).
    { destruct par as [[ps pd]|]; exact Es. }
    assert (Edst : match par with Some (_, pd) => option_map (fun x => pd ++ cDOLLAR :: x) (snd sd) | None => snd sd end = cls_dst c).
    { destruct par as [[ps pd]|]; exact Ed. }
    rewrite Esrc, Edst.
    assert (Hok' := Hok). unfold class_okb in Hok'. split_ands Hok'.
    assert (Hv : is_valid_obj_class_name (cls_key c) && opt_valid is_valid_obj_class_name (cls_dst c) = true).
    { rewrite Hok'6. destruct (cls_dst c); [|reflexivity]. cbn [opt_b opt_valid] in *. apply andb_true_iff in Hok'5. apply Hok'5. }
    rewrite Hv. cbn [negb].
    assert (Efn : match cls_dst c with Some x => x | None => cls_key c end = file_name c) by reflexivity.
    change (match cls_dst c with Some x => x | None => cls_key c end) with (file_name c). clear Efn.
    set (KIDS := flat_map (fun ch => E (T f M ch (S d))) (kids M c)) in *.
    assert (Hstop2 : stops (S (S d)) (KIDS ++ rest)).
    { apply stops_flat_map; [|apply (stops_weaken (S d)); [exact Hr|lia]].
      intros x _. destruct (E_head f M x (S d)) as (t & ->). eexists; eexists; split; [reflexivity|].
      unfold e_head. cbn [el_ind]. lia. }
    destruct (class_body d (cls_key c) (file_name c) c acc (KIDS ++ rest) F Hok Hstop2) as (F1 & HF1 & E1); [lia|].
    match goal with |- bind ?a ?k = _ =>
      replace a with (class_loop F1 (S d) (cls_key c) (file_name c) (rb_class c) acc (KIDS ++ rest)) by (symmetry; exact E1) end.
    subst KIDS.
    assert (Hnd := T_nodup M HM (S f) c d Hinv). cbn [T map fst] in Hnd. inversion Hnd as [|? ? Hcnot Hnd']; subst.
    destruct (kids_phase M f c d (rb_class c) Hset IH Hinv Hdep (kids M c) acc rest F1) as (F2 & HF2 & E2).
    + auto.
    + apply (nodup_keys_of M); [exact HM|exact Hnd'|].
      intros x Hx. apply in_map_iff in Hx as ([x' dx] & <- & Hx). cbn [fst].
      eapply (T_incl M (S f) c d); [exact Hinv|]. cbn [T]. right. exact Hx.
    + intros ch x dx Hch Hx. apply (Hacc x dx). cbn [T]. right. apply in_flat_map. exists ch. auto.
    + exact Hr.
    + exact HF1.
    + rewrite E2. rewrite class_loop_stop; [|exact Hr|exact HF2]. cbn [bind fst snd].
      assert (Hk : has_key (acc ++ flat_map (post f M) (kids M c)) (cls_key c) = false).
      { rewrite has_key_app, (Hacc c d) by (cbn [T]; left; reflexivity). cbn [orb].
        apply has_key_false. intros y Hy Ek. apply in_flat_map in Hy as (ch & Hch & Hy).
        destruct (post_keys M f ch (S d) y Hy) as (x & dx & Hx & Ey). rewrite Ey in Ek.
        assert (Hxm : In x M) by (eapply T_incl; [eapply inv_kid; eauto|exact Hx]).
        assert (x = c) by (apply (key_inj M); auto). subst x.
        apply Hcnot. apply in_map_iff. exists (c, dx). split; [reflexivity|]. apply in_flat_map. exists ch. auto. }
      rewrite Hk. cbn [post]. rewrite <- app_assoc. reflexivity.
Qed.

(* ---------- the outermost loop over a list of parent-free classes ---------- *)

Lemma root_loop_step f acc l ls' :
  root_loop (S f) acc (l :: ls') =
    match el_ind l with
    | O => if str_eqb (el_first l) s_CLASS then
             do r <- parse_class_with (class_loop f) 0 None l acc ls'; root_loop f (fst r) (snd r)
           else Err
    | S _ => Err
    end.
Proof. reflexivity. Qed.

Definition forest_post (M : list class) (rs : list class) : list class := flat_map (post (bound M) M) rs.

Lemma root_loop_forest M : set_ok M ->
  (forall x dx, In (x, dx) (forest M (roots M)) -> (dx <= max_class_nesting)%nat) ->
  forall rs acc F,
  incl rs (roots M) -> NoDup rs ->
  (forall r x dx, In r rs -> In (x, dx) (T (bound M) M r 0) -> has_key acc (cls_key x) = false) ->
  (length (E (forest M rs)) < F)%nat ->
  root_loop F acc (E (forest M rs)) = Ok (acc ++ forest_post M rs).
Proof.
  intros Hset Hdep. assert (Hset' := Hset). destruct Hset' as (HM & Hcls & Hlink).
  induction rs as [|r rs IH]; intros acc F Hincl Hnd Hacc HF.
  - destruct F; [cbn in HF; lia|]. cbn. rewrite app_nil_r. reflexivity.
  - destruct F as [|F0]; [lia|].
    assert (Hr : In r (roots M)) by (apply Hincl; left; reflexivity).
    assert (Hrm : In r M) by (apply filter_In in Hr; apply Hr).
    unfold forest in *. cbn [flat_map] in *. unfold E in *. rewrite flat_map_app in *. fold (E (T (bound M) M r 0)) in *.
    fold (E (flat_map (fun r0 => T (bound M) M r0 0) rs)) in *.
    destruct (E_head (bound M) M r O) as (tl0 & Etl).
    assert (Etl' : tl (E (T (bound M) M r 0)) = tl0) by (rewrite Etl; reflexivity).
    rewrite Etl in HF |- *. cbn [app]. rewrite root_loop_step. unfold e_head at 1. cbn [el_ind el_first].
    replace (str_eqb s_CLASS s_CLASS) with true by reflexivity. fold (e_head r 0). rewrite <- Etl'.
    rewrite (P_all M Hset (bound M) r O None acc _ F0).
    + cbn [bind fst snd]. inversion Hnd as [|? ? Hrn Hnd']; subst.
      rewrite (IH (acc ++ post (bound M) M r) F0).
      * unfold forest_post. cbn [flat_map]. rewrite <- app_assoc. reflexivity.
      * intros x Hx. apply Hincl. right. exact Hx.
      * exact Hnd'.
      * intros r2 x dx Hr2 Hx. rewrite has_key_app, (Hacc r2 x dx (or_intror Hr2) Hx). cbn [orb].
        apply has_key_false. intros y Hy Ek.
        destruct (post_keys M (bound M) r O y Hy) as (x' & dx' & Hx' & Ey). rewrite Ey in Ek.
        assert (Hfn := forest_nodup M (r :: rs) HM Hnd Hincl). unfold forest in Hfn. cbn [flat_map] in Hfn.
        rewrite map_app in Hfn.
        assert (Hr2m : In r2 M) by (assert (H := Hincl r2 (or_intror Hr2)); apply filter_In in H; apply H).
        assert (Hxm : In x M) by (eapply T_incl; [apply inv_bound; exact Hr2m|exact Hx]).
        assert (Hx'm : In x' M) by (eapply T_incl; [apply inv_bound; exact Hrm|exact Hx']).
        assert (x' = x) by (apply (key_inj M); auto). subst x'.
        assert (H1 : In x (map fst (T (bound M) M r 0))) by (apply in_map_iff; exists (x, dx'); auto).
        assert (H2 : In x (map fst (flat_map (fun r0 => T (bound M) M r0 0) rs))).
        { apply in_map_iff. exists (x, dx). split; [reflexivity|]. apply in_flat_map. exists r2. auto. }
        clear -Hfn H1 H2. induction (map fst (T (bound M) M r 0)) as [|a l IHl]; [destruct H1|].
        cbn [app] in Hfn. inversion Hfn as [|? ? Ha Hn']; subst. destruct H1 as [->|H1]; [|exact (IHl Hn' H1)].
        apply Ha. apply in_or_app. right. exact H2.
      * rewrite Etl in *. cbn [app length] in HF. rewrite app_length in HF. lia.
    + apply inv_bound. exact Hrm.
    + intros x dx Hx. apply (Hdep x dx). unfold forest. apply in_flat_map. exists r. auto.
    + cbn [link]. assert (H := Hlink r Hrm). unfold link_okb in H. apply filter_In in Hr as [_ Hroot].
      unfold is_root in Hroot. destruct (parent_in M r); [discriminate|]. exact H.
    + intros x dx Hx. apply (Hacc r x dx); [left; reflexivity|exact Hx].
    + destruct rs as [|r2 rs']; [exact I|]. cbn [flat_map]. unfold E. rewrite flat_map_app.
      fold (E (T (bound M) M r2 O)). destruct (E_head (bound M) M r2 O) as (t2 & ->). cbn. lia.
    + rewrite Etl. cbn [app length] in *. lia.
Qed.
