(* C12 theory, part 12: the fuel of the reader model is irrelevant on every input: any fuel above
   the number of lines gives the same answer, so no Err of read_into is an out-of-fuel artefact. *)
From FB Require Import C12.Model.
From Coq Require Import Lia Arith PeanoNat.

Lemma comments_loop_len d : forall ls doc doc' rest, comments_loop d doc ls = Ok (doc', rest) -> (length rest <= length ls)%nat.
Proof.
  induction ls as [|l ls IH]; intros doc doc' rest; cbn [comments_loop].
  - intros [= <- <-]. lia.
  - destruct (Nat.compare (el_ind l) d).
    + destruct (str_eqb (el_first l) s_COMMENT); [|discriminate]. intros H. apply IH in H. cbn [length]. lia.
    + intros [= <- <-]. lia.
    + discriminate.
Qed.

Definition fuel_ok {A} (run : nat -> list eline -> res (A * list eline)) (ls : list eline) : Prop :=
  forall F1 F2, (length ls < F1)%nat -> (length ls < F2)%nat ->
    run F1 ls = run F2 ls /\ (forall a rest, run F1 ls = Ok (a, rest) -> (length rest <= length ls)%nat).

Lemma method_loop_fuel : forall n ls d m, (length ls <= n)%nat -> fuel_ok (fun F => method_loop F d m) ls.
Proof.
  induction n as [|n IH]; intros ls d m Hn F1 F2 H1 H2.
  - destruct ls; [|cbn [length] in Hn; lia]. destruct F1; [lia|]. destruct F2; [lia|]. cbn [method_loop].
    split; [reflexivity|]. intros a rest [= <- <-]. lia.
  - destruct F1 as [|f1]; [lia|]. destruct F2 as [|f2]; [lia|]. destruct ls as [|l ls]; cbn [method_loop].
    + split; [reflexivity|]. intros a rest [= <- <-]. lia.
    + cbn [length] in *. destruct (Nat.compare (el_ind l) d).
      * destruct (str_eqb (el_first l) s_ARG).
        -- destruct (el_fields l) as [|ri [|dst [|? ?]]]; try (split; [reflexivity|discriminate]).
           destruct (parse_usize ri) as [idx|]; cbn [bind]; [|split; [reflexivity|discriminate]].
           destruct (negb (is_valid_unqualified_name dst)); [split; [reflexivity|discriminate]|].
           destruct (has_param (m_params m) idx); [split; [reflexivity|discriminate]|].
           destruct (comments_loop (S d) None ls) as [[doc rest0]|] eqn:Ec; cbn [bind fst snd]; [|split; [reflexivity|discriminate]].
           apply comments_loop_len in Ec.
           destruct (IH rest0 d (add_param m (mkParam idx [None; Some dst] doc)) ltac:(lia) f1 f2 ltac:(lia) ltac:(lia)) as [E L].
           split; [exact E|]. intros a rest Hr. apply L in Hr. lia.
        -- destruct (str_eqb (el_first l) s_COMMENT); [|split; [reflexivity|discriminate]].
           destruct (IH ls d (set_mdoc m (ins_comment (m_doc m) l)) ltac:(lia) f1 f2 ltac:(lia) ltac:(lia)) as [E L].
           split; [exact E|]. intros a rest Hr. apply L in Hr. lia.
      * split; [reflexivity|]. intros a rest [= <- <-]. cbn [length]. lia.
      * split; [reflexivity|discriminate].
Qed.

Definition cfuel_ok (ls : list eline) : Prop :=
  forall d ps pd cur acc F1 F2, (length ls < F1)%nat -> (length ls < F2)%nat ->
    class_loop F1 d ps pd cur acc ls = class_loop F2 d ps pd cur acc ls
    /\ (forall c a rest, class_loop F1 d ps pd cur acc ls = Ok (c, a, rest) -> (length rest <= length ls)%nat).

Lemma parse_class_fuel ls' : cfuel_ok ls' -> forall d par l acc f1 f2, (length ls' < f1)%nat -> (length ls' < f2)%nat ->
  parse_class_with (class_loop f1) d par l acc ls' = parse_class_with (class_loop f2) d par l acc ls'
  /\ (forall a rest, parse_class_with (class_loop f1) d par l acc ls' = Ok (a, rest) -> (length rest <= length ls')%nat).
Proof.
  intros Hc d par l acc f1 f2 H1 H2. unfold parse_class_with.
  destruct (Nat.ltb max_class_nesting d); [split; [reflexivity|discriminate]|].
  destruct (pat_class (el_fields l)) as [sd|]; cbn [bind]; [|split; [reflexivity|discriminate]].
  destruct (negb _); [split; [reflexivity|discriminate]|].
  match goal with |- context [class_loop f1 ?a ?b ?c ?e ?g ls'] =>
    destruct (Hc a b c e g f1 f2 H1 H2) as [E L]; rewrite <- E;
    destruct (class_loop f1 a b c e g ls') as [[[c0 a0] r0]|] eqn:Er; cbn [bind fst snd]; [|split; [reflexivity|discriminate]]
  end.
  split; [reflexivity|]. destruct (has_key a0 _); [discriminate|]. intros a rest [= <- <-]. eapply L. reflexivity.
Qed.

Lemma class_loop_fuel : forall n ls, (length ls <= n)%nat -> cfuel_ok ls.
Proof.
  induction n as [|n IH]; intros ls Hn d ps pd cur acc F1 F2 H1 H2.
  - destruct ls; [|cbn [length] in Hn; lia]. destruct F1; [lia|]. destruct F2; [lia|]. cbn [class_loop].
    split; [reflexivity|]. intros c a rest [= <- <- <-]. lia.
  - destruct F1 as [|f1]; [lia|]. destruct F2 as [|f2]; [lia|]. destruct ls as [|l ls]; cbn [class_loop].
    + split; [reflexivity|]. intros c a rest [= <- <- <-]. lia.
    + cbn [length] in *. assert (Hls : cfuel_ok ls) by (apply IH; lia).
      destruct (Nat.compare (el_ind l) d).
      * cbv zeta. destruct (str_eqb (el_first l) s_CLASS).
        { destruct (parse_class_fuel ls Hls d (Some (ps, pd)) l acc f1 f2 ltac:(lia) ltac:(lia)) as [E L]. rewrite <- E.
          destruct (parse_class_with (class_loop f1) d (Some (ps, pd)) l acc ls) as [[a0 r0]|] eqn:Er; cbn [bind fst snd]; [|split; [reflexivity|discriminate]].
          assert (Lr := L a0 r0 eq_refl).
          destruct (IH r0 ltac:(lia) d ps pd cur a0 f1 f2 ltac:(lia) ltac:(lia)) as [E2 L2].
          split; [exact E2|]. intros c a rest Hr. apply L2 in Hr. lia. }
        destruct (str_eqb (el_first l) s_FIELD).
        { destruct (pat_named (el_fields l)) as [x|]; cbn [bind]; [|split; [reflexivity|discriminate]].
          destruct (negb _); [split; [reflexivity|discriminate]|].
          destruct (has_field _ _ _); [split; [reflexivity|discriminate]|].
          destruct (comments_loop (S d) None ls) as [[doc rest0]|] eqn:Ec; cbn [bind fst snd]; [|split; [reflexivity|discriminate]].
          apply comments_loop_len in Ec.
          match goal with |- context [class_loop f1 d ps pd ?cur' acc rest0] =>
            destruct (IH rest0 ltac:(lia) d ps pd cur' acc f1 f2 ltac:(lia) ltac:(lia)) as [E2 L2] end.
          split; [exact E2|]. intros c a rest Hr. apply L2 in Hr. lia. }
        destruct (str_eqb (el_first l) s_METHOD).
        { destruct (pat_named (el_fields l)) as [x|]; cbn [bind]; [|split; [reflexivity|discriminate]].
          destruct (negb _); [split; [reflexivity|discriminate]|].
          destruct (has_meth _ _ _); [split; [reflexivity|discriminate]|].
          match goal with |- context [method_loop f1 (S d) ?m0 ls] =>
            destruct (method_loop_fuel (length ls) ls (S d) m0 (le_n _) f1 f2 ltac:(lia) ltac:(lia)) as [E L]; cbv beta in E, L; rewrite <- E;
            destruct (method_loop f1 (S d) m0 ls) as [[m1 rest0]|] eqn:Em; cbn [bind fst snd]; [|split; [reflexivity|discriminate]]
          end.
          assert (Lr := L m1 rest0 eq_refl).
          match goal with |- context [class_loop f1 d ps pd ?cur' acc rest0] =>
            destruct (IH rest0 ltac:(lia) d ps pd cur' acc f1 f2 ltac:(lia) ltac:(lia)) as [E2 L2] end.
          split; [exact E2|]. intros c a rest Hr. apply L2 in Hr. lia. }
        destruct (str_eqb (el_first l) s_COMMENT); [|split; [reflexivity|discriminate]].
        match goal with |- context [class_loop f1 d ps pd ?cur' acc ls] =>
          destruct (Hls d ps pd cur' acc f1 f2 ltac:(lia) ltac:(lia)) as [E2 L2] end.
        split; [exact E2|]. intros c a rest Hr. apply L2 in Hr. lia.
      * split; [reflexivity|]. intros c a rest [= <- <- <-]. cbn [length]. lia.
      * split; [reflexivity|discriminate].
Qed.

Lemma root_loop_fuel : forall n ls acc F1 F2, (length ls <= n)%nat -> (length ls < F1)%nat -> (length ls < F2)%nat ->
  root_loop F1 acc ls = root_loop F2 acc ls.
Proof.
  induction n as [|n IH]; intros ls acc F1 F2 Hn H1 H2.
  - destruct ls; [|cbn [length] in Hn; lia]. destruct F1; [lia|]. destruct F2; [lia|]. reflexivity.
  - destruct F1 as [|f1]; [lia|]. destruct F2 as [|f2]; [lia|]. destruct ls as [|l ls]; cbn [root_loop]; [reflexivity|].
    cbn [length] in *. destruct (el_ind l); [|reflexivity]. destruct (str_eqb (el_first l) s_CLASS); [|reflexivity].
    assert (Hls : cfuel_ok ls) by (apply (class_loop_fuel (length ls)); lia).
    destruct (parse_class_fuel ls Hls 0%nat None l acc f1 f2 ltac:(lia) ltac:(lia)) as [E L]. rewrite <- E.
    destruct (parse_class_with (class_loop f1) 0 None l acc ls) as [[a0 r0]|] eqn:Er; cbn [bind fst snd]; [|reflexivity].
    assert (Lr := L a0 r0 eq_refl). apply IH; lia.
Qed.

(* the answer of read_into is the answer of the loops run with any larger fuel *)
Theorem reader_fuel_irrelevant acc text F : (length (elines text) < F)%nat ->
  root_loop F acc (elines text) = read_into acc text.
Proof.
  intros HF. unfold read_into. apply (root_loop_fuel (length (elines text))); lia.
Qed.
