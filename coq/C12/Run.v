(* C12 correspondence cases: what the implementation answered, to be compared with the model *)
From FB Require Export C12.Model.

Definition classes_eqb : list class -> list class -> bool := list_eqb class_eqb.
Definition file_eqb (a b : str * str) : bool := str_eqb (fst a) (fst b) && str_eqb (snd a) (snd b).
Definition plain_leb (a b : str * str) : bool := is_le (str_cmp (fst a) (fst b)).

Definition dir_res_eqb (a b : res (list (str * str))) : bool :=
  res_eqb (list_eqb file_eqb)
    (match a with Ok d => Ok (isort plain_leb d) | Err => Err end)
    (match b with Ok d => Ok (isort plain_leb d) | Err => Err end).

Inductive case :=
(* one mapping set through the whole public API (the set is printed once):
   wall    = enigma_file::write_all
   back    = enigma_file::read_into (fresh mappings) on the text write_all returned, IndexMap order
   ones    = enigma_file::write_one for some file names (existing and not)
   dirw    = enigma_dir::write into an empty directory: the files found afterwards
   dirback = enigma_dir::read of that directory *)
| CSet (M : list class) (wall : res str) (back : option (res (list class)))
       (ones : list (str * res str))
       (dirw : option (res (list (str * str)))) (dirback : option (res (list class)))
| CRead (text : str) (r : res (list class))                (* enigma_file::read_into on fresh mappings *)
| CReadDir (d : list (str * str)) (r : res (list class)).  (* enigma_dir::read of a directory with these files *)

Definition check (c : case) : bool :=
  match c with
  | CSet M wall back ones dirw dirback =>
      res_eqb str_eqb (write_all M) wall
      && (match back, write_all M with
          | Some r, Ok t => res_eqb classes_eqb (read_all t) r
          | Some _, Err => false
          | None, _ => true
          end)
      && forallb (fun nr => res_eqb str_eqb (write_one M (fst nr)) (snd nr)) ones
      && (match dirw with Some r => dir_res_eqb (write_dir M) r | None => true end)
      && (match dirback, write_dir M with
          | Some r, Ok d => res_eqb classes_eqb (read_dir d) r
          | Some _, Err => false
          | None, _ => true
          end)
  | CRead t r => res_eqb classes_eqb (read_all t) r
  | CReadDir d r => res_eqb classes_eqb (read_dir d) r
  end.
