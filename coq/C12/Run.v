(* C12 correspondence cases: what the implementation answered, to be compared with the model *)
From FB Require Export C12.Model C12.ModelForest C12.ModelBytes.
From FB Require Import C12.TheoryRT.   (* only for the decidable hypothesis enigma_okb / dir_okb *)

(* code points below 128 as constants: the harness prints `c67` instead of `67` (a numeral costs a
   number-notation interpretation each, which dominated the time to load a shard) *)
Definition c0 : N := 0. Definition c1 : N := 1. Definition c2 : N := 2. Definition c3 : N := 3. Definition c4 : N := 4. Definition c5 : N := 5. Definition c6 : N := 6. Definition c7 : N := 7.
Definition c8 : N := 8. Definition c9 : N := 9. Definition c10 : N := 10. Definition c11 : N := 11. Definition c12 : N := 12. Definition c13 : N := 13. Definition c14 : N := 14. Definition c15 : N := 15.
Definition c16 : N := 16. Definition c17 : N := 17. Definition c18 : N := 18. Definition c19 : N := 19. Definition c20 : N := 20. Definition c21 : N := 21. Definition c22 : N := 22. Definition c23 : N := 23.
Definition c24 : N := 24. Definition c25 : N := 25. Definition c26 : N := 26. Definition c27 : N := 27. Definition c28 : N := 28. Definition c29 : N := 29. Definition c30 : N := 30. Definition c31 : N := 31.
Definition c32 : N := 32. Definition c33 : N := 33. Definition c34 : N := 34. Definition c35 : N := 35. Definition c36 : N := 36. Definition c37 : N := 37. Definition c38 : N := 38. Definition c39 : N := 39.
Definition c40 : N := 40. Definition c41 : N := 41. Definition c42 : N := 42. Definition c43 : N := 43. Definition c44 : N := 44. Definition c45 : N := 45. Definition c46 : N := 46. Definition c47 : N := 47.
Definition c48 : N := 48. Definition c49 : N := 49. Definition c50 : N := 50. Definition c51 : N := 51. Definition c52 : N := 52. Definition c53 : N := 53. Definition c54 : N := 54. Definition c55 : N := 55.
Definition c56 : N := 56. Definition c57 : N := 57. Definition c58 : N := 58. Definition c59 : N := 59. Definition c60 : N := 60. Definition c61 : N := 61. Definition c62 : N := 62. Definition c63 : N := 63.
Definition c64 : N := 64. Definition c65 : N := 65. Definition c66 : N := 66. Definition c67 : N := 67. Definition c68 : N := 68. Definition c69 : N := 69. Definition c70 : N := 70. Definition c71 : N := 71.
Definition c72 : N := 72. Definition c73 : N := 73. Definition c74 : N := 74. Definition c75 : N := 75. Definition c76 : N := 76. Definition c77 : N := 77. Definition c78 : N := 78. Definition c79 : N := 79.
Definition c80 : N := 80. Definition c81 : N := 81. Definition c82 : N := 82. Definition c83 : N := 83. Definition c84 : N := 84. Definition c85 : N := 85. Definition c86 : N := 86. Definition c87 : N := 87.
Definition c88 : N := 88. Definition c89 : N := 89. Definition c90 : N := 90. Definition c91 : N := 91. Definition c92 : N := 92. Definition c93 : N := 93. Definition c94 : N := 94. Definition c95 : N := 95.
Definition c96 : N := 96. Definition c97 : N := 97. Definition c98 : N := 98. Definition c99 : N := 99. Definition c100 : N := 100. Definition c101 : N := 101. Definition c102 : N := 102. Definition c103 : N := 103.
Definition c104 : N := 104. Definition c105 : N := 105. Definition c106 : N := 106. Definition c107 : N := 107. Definition c108 : N := 108. Definition c109 : N := 109. Definition c110 : N := 110. Definition c111 : N := 111.
Definition c112 : N := 112. Definition c113 : N := 113. Definition c114 : N := 114. Definition c115 : N := 115. Definition c116 : N := 116. Definition c117 : N := 117. Definition c118 : N := 118. Definition c119 : N := 119.
Definition c120 : N := 120. Definition c121 : N := 121. Definition c122 : N := 122. Definition c123 : N := 123. Definition c124 : N := 124. Definition c125 : N := 125. Definition c126 : N := 126. Definition c127 : N := 127.

(* What is compared how.
   - what `read_into` / `enigma_dir::read` return is compared EXACTLY, IndexMap insertion order
     included (classes in the order the reader adds them: nested classes before the class they are
     nested in, members in the order of the text, files in sorted path order) — Th 7 (read_exact)
     states that order;
   - what `write_all` returns: the `#` lines (the header comment write_all puts in front of every
     file's part) are no part of the property: the texts are compared line by line after dropping
     the lines that start with `#` (the reader drops them too);
   - `write_one` and the files of `enigma_dir::write` are compared byte for byte: the property says
     the output is deterministic and sorted, and the model follows the code line by line
     (correspondence proper). *)
Definition classes_eqb (a b : list class) : bool := list_eqb class_eqb a b.
Definition no_hash_lines (t : str) : list str :=
  filter (fun l => negb (starts_with [cHASH] l)) (split_on cLF t).
Definition text_eqb (a b : str) : bool := list_eqb str_eqb (no_hash_lines a) (no_hash_lines b).
Definition file_eqb (a b : str * str) : bool := str_eqb (fst a) (fst b) && str_eqb (snd a) (snd b).
Definition plain_leb (a b : str * str) : bool := is_le (str_cmp (fst a) (fst b)).

Definition dir_res_eqb (a b : res (list (str * str))) : bool :=
  res_eqb (list_eqb file_eqb)
    (match a with Ok d => Ok (isort plain_leb d) | Err => Err end)
    (match b with Ok d => Ok (isort plain_leb d) | Err => Err end).

Inductive case :=
(* one mapping set through the whole public API (the set is printed once):
   ok      = the harness' own (independently written) decision whether the set satisfies the
             hypotheses of the round-trip theorems: must agree with enigma_okb
   wall    = enigma_file::write_all
   back    = enigma_file::read_into (fresh mappings) on the text write_all returned
   ones    = enigma_file::write_one for some file names (existing and not)
   dirw    = enigma_dir::write into an empty directory: the files found afterwards
   dirback = enigma_dir::read of that directory *)
| CSet (M : list class) (ok : bool) (wall : res str) (back : option (res (list class)))
       (ones : list (str * res str))
       (dirw : option (res (list (str * str)))) (dirback : option (res (list class)))
| CRead (text : str) (r : res (list class))                (* enigma_file::read_into on fresh mappings *)
| CReadS (text : str) (r : res (list class))               (* the same, compared with the structural decoder read_struct *)
| CReadInto (acc : list class) (text : str) (r : res (list class))   (* read_into on mappings that already hold [acc] *)
| CReadBytes (bs : list N) (r : res (list class))          (* read_into on raw bytes (possibly not UTF-8) *)
| CReadDir (d : list (str * str)) (r : res (list class))   (* enigma_dir::read of a directory with these files *)
| CReadPath (p : fs_node) (r : res (list class))           (* enigma_dir::read of a missing path / a plain file *)
| CWriteDir (M : list class) (r : res (list (str * str))) (* enigma_dir::write alone (names special to the file system) *)
| CBytes (text : str) (bs : list N)                        (* the UTF-8 bytes of a Rust String (round 7) *)
| CWriteOneBytes (M : list class) (name : str) (r : res (list N)). (* the raw bytes enigma_file::write_one hands to its writer *)

Definition check (c : case) : bool :=
  match c with
  | CSet M ok wall back ones dirw dirback =>
      Bool.eqb (enigma_okb M) ok
      && res_eqb text_eqb (write_all M) wall
      && (match back, write_all M with
          | Some r, Ok t => res_eqb classes_eqb (read_all t) r
          | Some _, Err => false
          | None, _ => true
          end)
      && forallb (fun nr => res_eqb str_eqb (write_one M (fst nr)) (snd nr)) ones
      && (match dirw with Some r => dir_res_eqb (write_dir M) r | None => true end)
      && (match dirback, write_dir M with
          | Some r, Ok d => res_eqb classes_eqb (read_dir d) r
          | Some _, Err => false
          | None, _ => true
          end)
  | CRead t r => res_eqb classes_eqb (read_all t) r
  | CReadS t r => res_eqb classes_eqb (read_struct [] t) r
  | CReadInto acc t r => res_eqb classes_eqb (read_into acc t) r
  | CReadBytes bs r => res_eqb classes_eqb (read_bytes [] bs) r
  | CReadDir d r => res_eqb classes_eqb (read_dir d) r
  | CReadPath p r => res_eqb classes_eqb (read_path p) r
  | CWriteDir M r => dir_res_eqb (write_dir M) r
  | CBytes t bs => list_eqb N.eqb (utf8_encode t) bs
  | CWriteOneBytes M name r => res_eqb (list_eqb N.eqb) (write_one_bytes M name) r
  end.
