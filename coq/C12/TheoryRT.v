(* C12 theory, part 10: the round trip.  write_all, then read_into, gives back every class under
   its source key with the same names, comments, fields, methods and parameters, up to insertion
   order and constructors unnamed (nothing else changes); the same through a directory. *)
From FB Require Import C12.Model C12.TheoryTree C12.TheoryOrd C12.TheoryDet C12.TheoryPlace C12.TheoryTok
  C12.TheoryLines C12.TheoryRead C12.TheoryClass C12.TheoryForest C18.Theory.
From Coq Require Import Lia Arith PeanoNat Permutation.

(* ---------- the hypotheses, decidable ---------- *)

Definition enigma_okb (M : list class) : bool :=
  nodupb str_eqb (map cls_key M)
  && forallb class_okb M
  && forallb (link_okb M) M
  && forallb (fun c => Nat.leb (chain_depth M (cls_key c)) max_class_nesting) M
  && is_ok (files M).

(* what a round trip may change — ONLY this: a method target name `<init>` is not written
   (constructors are unnamed).  Everything else, parameters included, comes back as it was
   (parameters have no first-namespace name by hypothesis param_okb). *)
Definition norm_meth (m : meth) : meth :=
  mkMeth (m_desc m) [Some (src_of (m_names m)); meth_dst m] (m_doc m) (m_params m).
Definition norm_class (c : class) : class :=
  mkClass (c_names c) (c_doc c) (c_fields c) (map norm_meth (c_methods c)).
Definition enigma_norm (M : list class) : list class := map norm_class M.

(* the normaliser written out: the one thing it touches is the target cell of a method whose
   target is `<init>` *)
Lemma enigma_norm_spec M :
  enigma_norm M =
  map (fun c => mkClass (c_names c) (c_doc c) (c_fields c)
         (map (fun m => mkMeth (m_desc m)
                          [Some (src_of (m_names m));
                           match dst_of (m_names m) with
                           | Some d => if str_eqb d s_init then None else Some d
                           | None => None
                           end]
                          (m_doc m) (m_params m)) (c_methods c))) M.
Proof. reflexivity. Qed.

(* on a two-cell names row it is the identity unless the target is `<init>` *)
Lemma norm_meth_id m : row2 (m_names m) = true -> dst_of (m_names m) <> Some s_init -> norm_meth m = m.
Proof.
  destruct m as [desc nm doc ps]. unfold norm_meth, meth_dst, row2. cbn [m_names m_desc m_doc m_params].
  destruct nm as [|[a|] [|b [|? ?]]]; try discriminate. intros _ H. cbn [src_of dst_of nth] in *.
  destruct b as [d|]; [|reflexivity]. destruct (str_eqb d s_init) eqn:E; [|reflexivity].
  apply str_eqb_eq in E. subst d. exfalso. apply H. reflexivity.
Qed.

Lemma enigma_ok_set M : enigma_okb M = true ->
  set_ok M /\ (forall c, In c M -> (chain_depth M (cls_key c) <= max_class_nesting)%nat) /\ exists fs, files M = Ok fs.
Proof.
  unfold enigma_okb. intros H. split_ands H. split; [|split].
  - split; [apply nodupb_str_NoDup; exact H|]. split; intros c Hc.
    + rewrite forallb_forall in H3. apply H3. exact Hc.
    + rewrite forallb_forall in H2. apply H2. exact Hc.
  - intros c Hc. rewrite forallb_forall in H1. apply Nat.leb_le. apply (H1 c Hc).
  - destruct (files M) as [fs|]; [exists fs; reflexivity|discriminate].
Qed.

(* ---------- every node of a tree is linked to the class it is written in ---------- *)

Lemma node_link M : set_ok M -> forall f c d par, inv M f c -> link par c d ->
  forall x dx, In (x, dx) (T f M c d) -> exists par', link par' x dx.
Proof.
  intros Hset. induction f as [|f IH]; intros c d par Hinv Hl x dx Hx.
  - apply inv_pos in Hinv as (? & ?). discriminate.
  - cbn [T] in Hx. destruct Hx as [E|Hx]; [injection E as <- <-; exists par; exact Hl|].
    apply in_flat_map in Hx as (ch & Hch & Hx).
    eapply (IH ch (S d) (Some (cls_key c, file_name c))); [eapply inv_kid; eauto| |exact Hx].
    apply (kid_link M); auto. apply Hinv.
Qed.

Lemma root_link M r : set_ok M -> In r (roots M) -> link None r 0.
Proof.
  intros (_ & _ & Hlink) Hr. apply filter_In in Hr as [Hrm Hroot]. assert (H := Hlink r Hrm).
  unfold link_okb in H. unfold is_root in Hroot. destruct (parent_in M r); [discriminate|]. exact H.
Qed.

(* ---------- the text of a tree ---------- *)

Definition node_lines (cd : class * nat) : list str := unres (write_class (fst cd) (snd cd)).
Definition tree_lines (M : list class) (r : class) : list str := flat_map node_lines (T (bound M) M r 0).

Lemma write_tree_lines M r : set_ok M -> In r (roots M) ->
  write_tree M r = Ok (unlines (tree_lines M r)) /\ good (tree_lines M r) (E (T (bound M) M r 0)).
Proof.
  intros Hset Hr. assert (Hset' := Hset). destruct Hset' as (HM & Hcls & _).
  assert (Hrm : In r M) by (apply filter_In in Hr; apply Hr).
  unfold write_tree. rewrite (tree_nodes_T M r HM Hrm). cbn [bind]. unfold write_nodes.
  assert (Hnode : forall cd, In cd (T (bound M) M r 0) ->
            write_class (fst cd) (snd cd) = Ok (node_lines cd) /\ good (node_lines cd) (e_class (fst cd) (snd cd))).
  { intros [x dx] Hx. cbn [fst snd]. unfold node_lines. cbn [fst snd].
    destruct (node_link M Hset _ r 0 None (inv_bound _ _ Hrm) (root_link M r Hset Hr) x dx Hx) as (par & Hl).
    assert (Hxm : In x M) by (eapply T_incl; [apply inv_bound; exact Hrm|exact Hx]).
    apply good_class; [apply Hcls; exact Hxm|]. apply (head_spec par x dx Hl (Hcls x Hxm)). }
  rewrite (map_res_ok _ node_lines) by (intros cd Hcd; apply (Hnode cd Hcd)). cbn [bind].
  split; [unfold tree_lines; rewrite flat_map_concat_map; reflexivity|].
  unfold tree_lines, E. apply good_flat_map. intros cd Hcd. apply (Hnode cd Hcd).
Qed.

(* ---------- the whole stream ---------- *)

Definition file_lines (M : list class) (nc : str * class) : list str :=
  [cHASH] :: (cHASH :: cSP :: fst nc) :: tree_lines M (snd nc).

Lemma header_unlines fname : header fname = unlines [[cHASH]; cHASH :: cSP :: fname].
Proof. unfold header, unlines. cbn [flat_map app]. rewrite app_nil_r. reflexivity. Qed.

Lemma file_name_tok c : class_okb c = true -> tokb (file_name c) = true.
Proof.
  unfold class_okb. intros H. split_ands H. unfold file_name. destruct (cls_dst c) as [x|]; [|exact H7].
  cbn [opt_b] in H5. apply andb_true_iff in H5. apply H5.
Qed.

Lemma good_file M nc : set_ok M -> In (snd nc) (roots M) -> fst nc = file_name (snd nc) ->
  good (file_lines M nc) (E (T (bound M) M (snd nc) 0)).
Proof.
  intros Hset Hr Hn. unfold file_lines. destruct (write_tree_lines M (snd nc) Hset Hr) as [_ [Hg Hl]].
  split.
  - cbn [filter_map]. rewrite enigma_line_hash, enigma_line_header. exact Hg.
  - cbn [forallb]. rewrite Hl. replace (line_ok [cHASH]) with true by reflexivity. cbn [andb].
    rewrite andb_true_r. apply no_lfcr_line_ok. change (cHASH :: cSP :: fst nc) with ([cHASH; cSP] ++ fst nc).
    rewrite no_lfcr_app. replace (no_lfcr [cHASH; cSP]) with true by reflexivity. cbn [andb].
    apply tokb_no_lfcr. rewrite Hn. apply file_name_tok. destruct Hset as (_ & Hcls & _). apply Hcls.
    apply filter_In in Hr. apply Hr.
Qed.

Lemma files_facts M fs : keys_nodup M -> files M = Ok fs ->
  Permutation (map snd fs) (roots M) /\ NoDup (map snd fs) /\ incl (map snd fs) (roots M)
  /\ forall nc, In nc fs -> In (snd nc) (roots M) /\ fst nc = file_name (snd nc).
Proof.
  intros HM Hf. assert (Hp := files_roots M fs Hf). split; [exact Hp|]. split; [|split].
  - eapply Permutation_NoDup; [symmetry; exact Hp|]. apply NoDup_filter. apply keys_nodup_NoDup. exact HM.
  - intros x Hx. eapply Permutation_in; eauto.
  - intros nc Hnc. split; [|apply (files_in M fs nc Hf Hnc)].
    eapply Permutation_in; [exact Hp|]. apply in_map. exact Hnc.
Qed.

Lemma write_all_lines M fs : set_ok M -> files M = Ok fs ->
  write_all M = Ok (unlines (flat_map (file_lines M) fs)) /\ good (flat_map (file_lines M) fs) (E (forest M (map snd fs))).
Proof.
  intros Hset Hf. assert (HM : keys_nodup M) by apply Hset.
  destruct (files_facts M fs HM Hf) as (_ & _ & _ & Hin).
  unfold write_all. rewrite Hf. cbn [bind].
  rewrite (map_res_ok _ (fun nc => unlines (file_lines M nc))).
  2:{ intros nc Hnc. destruct (Hin nc Hnc) as [Hr _]. destruct (write_tree_lines M (snd nc) Hset Hr) as [-> _].
      cbn [bind]. rewrite header_unlines. unfold file_lines.
      change ([cHASH] :: (cHASH :: cSP :: fst nc) :: tree_lines M (snd nc)) with ([[cHASH]; cHASH :: cSP :: fst nc] ++ tree_lines M (snd nc)).
      rewrite unlines_app. reflexivity. }
  cbn [bind]. split.
  - f_equal. clear. induction fs as [|nc fs IH]; [reflexivity|]. cbn [map concat flat_map]. rewrite unlines_app, IH. reflexivity.
  - unfold forest, E. rewrite flat_map_flat_map, flat_map_map. apply good_flat_map.
    intros nc Hnc. destruct (Hin nc Hnc) as [Hr Hn]. apply (good_file M nc Hset Hr Hn).
Qed.

Lemma elines_good ls els : good ls els -> elines (unlines ls) = els.
Proof. intros [H1 H2]. unfold elines. rewrite split_lines_unlines by exact H2. exact H1. Qed.

(* ---------- what is read back, against the mappings ---------- *)

Lemma perm_flat_map_pointwise {A B} (g h : A -> list B) l :
  (forall x, In x l -> Permutation (g x) (h x)) -> Permutation (flat_map g l) (flat_map h l).
Proof.
  induction l as [|a l IH]; intros H; cbn [flat_map]; [constructor|].
  apply Permutation_app; [apply H; left; reflexivity|]. apply IH. intros x Hx. apply H. right. exact Hx.
Qed.

Lemma post_perm M : forall f c d, Permutation (post f M c) (map rb_class (map fst (T f M c d))).
Proof.
  induction f as [|f IH]; intros c d; cbn [post T map fst]; [constructor; constructor|].
  etransitivity; [apply Permutation_app_comm|]. cbn [app]. constructor.
  rewrite !map_flat_map. apply perm_flat_map_pointwise. intros ch _. apply IH.
Qed.

Lemma forest_post_perm M rs : Permutation (forest_post M rs) (map rb_class (map fst (forest M rs))).
Proof.
  unfold forest_post, forest. rewrite !map_flat_map. apply perm_flat_map_pointwise. intros r _. apply post_perm.
Qed.

Lemma rb_field_id f : row2 (f_names f) = true -> rb_field f = f.
Proof.
  destruct f as [desc nm doc]. unfold rb_field. cbn [f_names f_desc f_doc]. unfold row2.
  destruct nm as [|[a|] [|b [|? ?]]]; try discriminate. reflexivity.
Qed.

Lemma rb_param_id p : param_okb p = true -> rb_param p = p.
Proof.
  intros H. destruct (param_dst p H) as (d & Hd & Hn & _). unfold rb_param, pdst. rewrite Hd, <- Hn.
  destruct p; reflexivity.
Qed.

Lemma map_ext_in' {A B} (f g : A -> B) l : (forall x, In x l -> f x = g x) -> map f l = map g l.
Proof. induction l as [|a l IH]; intros H; cbn [map]; [reflexivity|]. rewrite H, IH; auto; [intros x Hx; apply H; right; exact Hx|left; reflexivity]. Qed.

Lemma rb_meth_sim m : meth_okb m = true -> meth_sim (rb_meth m) (norm_meth m).
Proof.
  unfold meth_okb. intros H. split_ands H. unfold rb_meth, norm_meth, meth_sim. cbn [m_desc m_names m_doc m_params].
  repeat split; try reflexivity.
  rewrite (map_ext_in' rb_param (fun p => p)), map_id; [apply isort_perm|].
  intros p Hp. apply rb_param_id. apply isort_in in Hp. rewrite forallb_forall in H1. apply H1. exact Hp.
Qed.

Lemma rb_class_sim c : class_okb c = true -> class_sim (rb_class c) (norm_class c).
Proof.
  intros Hok. assert (H := Hok). unfold class_okb in H. split_ands H.
  unfold rb_class, norm_class, class_sim. cbn [c_names c_doc c_fields c_methods]. split; [|split; [reflexivity|split]].
  - unfold cls_key, cls_dst, row2 in *. destruct (c_names c) as [|[a|] [|b [|? ?]]]; try discriminate. reflexivity.
  - rewrite (map_ext_in' rb_field (fun f => f)), map_id; [apply isort_perm|].
    intros f Hf. apply rb_field_id. apply isort_in in Hf. rewrite forallb_forall in H3. specialize (H3 f Hf).
    unfold field_okb in H3. split_ands H3. exact H3.
  - exists (map rb_meth (c_methods c)). split; [apply Permutation_map; apply isort_perm|].
    apply forall2_map. rewrite forallb_forall in H1. clear -H1.
    induction (c_methods c) as [|m l IH]; constructor.
    + apply rb_meth_sim. apply H1. left. reflexivity.
    + apply IH. intros x Hx. apply H1. right. exact Hx.
Qed.

Lemma forest_post_sim M rs : set_ok M -> Permutation rs (roots M) -> classes_sim (forest_post M rs) (enigma_norm M).
Proof.
  intros (HM & Hcls & _) Hp. exists (map rb_class M). split.
  - etransitivity; [apply forest_post_perm|]. apply Permutation_map. symmetry.
    etransitivity; [apply forest_perm; exact HM|]. apply Permutation_map. unfold forest. apply Permutation_flat_map.
    symmetry. exact Hp.
  - unfold enigma_norm. apply forall2_map. clear -Hcls. induction M as [|c M IH]; constructor.
    + apply rb_class_sim. apply Hcls. left. reflexivity.
    + apply IH. intros x Hx. apply Hcls. right. exact Hx.
Qed.

Lemma forest_depth_ok M : (forall c, In c M -> (chain_depth M (cls_key c) <= max_class_nesting)%nat) ->
  forall x dx, In (x, dx) (forest M (roots M)) -> (dx <= max_class_nesting)%nat.
Proof.
  intros Hd x dx Hx. rewrite (forest_depth M x dx Hx). apply Hd.
  unfold forest in Hx. apply in_flat_map in Hx as (r & Hr & Hx). eapply T_incl; [|exact Hx].
  apply inv_bound. apply filter_In in Hr. apply Hr.
Qed.

(* ---------- Theorem 1 ---------- *)

Theorem read_write_all M : enigma_okb M = true ->
  exists text back, write_all M = Ok text /\ read_all text = Ok back /\ classes_sim back (enigma_norm M).
Proof.
  intros Hok. destruct (enigma_ok_set M Hok) as (Hset & Hdep & fs & Hf).
  assert (HM : keys_nodup M) by apply Hset.
  destruct (files_facts M fs HM Hf) as (Hp & Hnd & Hincl & _).
  destruct (write_all_lines M fs Hset Hf) as [Hw Hg].
  exists (unlines (flat_map (file_lines M) fs)), (forest_post M (map snd fs)).
  split; [exact Hw|]. split.
  - unfold read_all, read_into. rewrite (elines_good _ _ Hg).
    rewrite (root_loop_forest M Hset (forest_depth_ok M Hdep) (map snd fs) []); auto.
  - apply forest_post_sim; assumption.
Qed.

(* ---------- the directory ---------- *)

Definition dir_okb (M : list class) : bool :=
  match files M with
  | Ok fs => forallb (fun nc => (dir_name_ok (fst nc) && fs_name_ok (fst nc)) && negb (ends_with_char cSLASH (fst nc))) fs
  | Err => false
  end.

Lemma app_split_last (c : N) : forall (a s p i : str), a ++ s = p ++ c :: i -> ~ In c s -> ~ In c i ->
  exists b, i = b ++ s /\ a = p ++ c :: b.
Proof.
  intros a s p. revert a. induction p as [|x p IH]; intros a i E Hs Hi.
  - cbn [app] in E. destruct a as [|y a].
    + cbn [app] in E. exfalso. apply Hs. rewrite E. left. reflexivity.
    + cbn [app] in E. injection E as -> E.
      assert (forall a, a ++ s = i -> exists b, i = b ++ s /\ c :: a = [] ++ c :: b) as Hgen by (intros a0 <-; exists a0; auto).
      apply Hgen. exact E.
  - destruct a as [|y a].
    + cbn [app] in E. exfalso. apply Hs. rewrite E. cbn [app]. right. apply in_or_app. right. left. reflexivity.
    + cbn [app] in E. injection E as -> E. destruct (IH a i E Hs Hi) as (b & Hb & Ha). exists b. split; [exact Hb|].
      cbn [app]. rewrite Ha. reflexivity.
Qed.

Lemma is_mapping_file_written fname : fname <> [] -> ends_with_char cSLASH fname = false ->
  is_mapping_file (fname ++ s_dot_mapping) = true.
Proof.
  intros Hne Hend. unfold is_mapping_file, extension, get_simple_name.
  assert (Hm : ~ In cDOT s_mapping) by (intros H; apply mem_N_In in H; vm_compute in H; discriminate).
  assert (Hsl : ~ In cSLASH s_dot_mapping) by (intros H; apply mem_N_In in H; vm_compute in H; discriminate).
  change s_dot_mapping with (cDOT :: s_mapping) in *.
  destruct (rsplit_once cSLASH (fname ++ cDOT :: s_mapping)) as [[p i]|] eqn:E.
  - apply rsplit_once_sound in E as [E Hi].
    destruct (app_split_last cSLASH fname (cDOT :: s_mapping) p i E Hsl Hi) as (b & -> & Hf).
    rewrite rsplit_once_app by exact Hm.
    destruct b as [|y b]; [|cbn [is_nil]; apply str_eqb_refl].
    exfalso. subst fname. unfold ends_with_char in Hend. rewrite rev_app_distr in Hend. cbn [rev app] in Hend.
    rewrite N.eqb_refl in Hend. discriminate.
  - rewrite rsplit_once_app by exact Hm. destruct fname; [congruence|]. cbn [is_nil]. apply str_eqb_refl.
Qed.

Lemma filter_all {A} (p : A -> bool) l : forallb p l = true -> filter p l = l.
Proof.
  induction l as [|a l IH]; cbn [forallb filter]; intros H; [reflexivity|].
  apply andb_true_iff in H as [Ha Hl]. rewrite Ha, (IH Hl). reflexivity.
Qed.

Definition dir_entry (M : list class) (nc : str * class) : str * str :=
  (fst nc ++ s_dot_mapping, unlines (tree_lines M (snd nc))).

Lemma write_dir_entries M fs : set_ok M -> files M = Ok fs -> dir_okb M = true ->
  write_dir M = Ok (map (dir_entry M) fs).
Proof.
  intros Hset Hf Hd. assert (HM : keys_nodup M) by apply Hset.
  destruct (files_facts M fs HM Hf) as (_ & _ & _ & Hin).
  unfold write_dir, dir_okb in *. rewrite Hf in *. cbn [bind]. apply map_res_ok.
  intros nc Hnc. rewrite forallb_forall in Hd. specialize (Hd nc Hnc). apply andb_true_iff in Hd as [-> _].
  destruct (Hin nc Hnc) as [Hr _]. destruct (write_tree_lines M (snd nc) Hset Hr) as [-> _]. reflexivity.
Qed.

Lemma post_tree_disjoint M r rs : keys_nodup M -> NoDup (r :: rs) -> incl (r :: rs) (roots M) ->
  forall y r2 x dx, In y (post (bound M) M r) -> In r2 rs -> In (x, dx) (T (bound M) M r2 0) -> cls_key y <> cls_key x.
Proof.
  intros HM Hnd Hincl y r2 x dx Hy Hr2 Hx Ek.
  destruct (post_keys M (bound M) r O y Hy) as (x' & dx' & Hx' & Ey). rewrite Ey in Ek.
  assert (Hfn := forest_nodup M (r :: rs) HM Hnd Hincl). unfold forest in Hfn. cbn [flat_map] in Hfn. rewrite map_app in Hfn.
  assert (Hrm : In r M) by (assert (H := Hincl r (or_introl eq_refl)); apply filter_In in H; apply H).
  assert (Hr2m : In r2 M) by (assert (H := Hincl r2 (or_intror Hr2)); apply filter_In in H; apply H).
  assert (Hxm : In x M) by (eapply T_incl; [apply inv_bound; exact Hr2m|exact Hx]).
  assert (Hx'm : In x' M) by (eapply T_incl; [apply inv_bound; exact Hrm|exact Hx']).
  assert (x' = x) by (apply (key_inj M); auto). subst x'.
  assert (H1 : In x (map fst (T (bound M) M r 0))) by (apply in_map_iff; exists (x, dx'); auto).
  assert (H2 : In x (map fst (flat_map (fun r0 => T (bound M) M r0 0) rs))).
  { apply in_map_iff. exists (x, dx). split; [reflexivity|]. apply in_flat_map. exists r2. auto. }
  clear -Hfn H1 H2. induction (map fst (T (bound M) M r 0)) as [|a l IHl]; [destruct H1|].
  cbn [app] in Hfn. inversion Hfn as [|? ? Ha Hn']; subst. destruct H1 as [->|H1]; [|exact (IHl Hn' H1)].
  apply Ha. apply in_or_app. right. exact H2.
Qed.

Lemma read_files_forest M : set_ok M ->
  (forall x dx, In (x, dx) (forest M (roots M)) -> (dx <= max_class_nesting)%nat) ->
  forall fs acc,
  (forall nc, In nc fs -> In (snd nc) (roots M) /\ fst nc = file_name (snd nc)) ->
  NoDup (map snd fs) ->
  (forall nc x dx, In nc fs -> In (x, dx) (T (bound M) M (snd nc) 0) -> has_key acc (cls_key x) = false) ->
  read_files acc (map (dir_entry M) fs) = Ok (acc ++ forest_post M (map snd fs)).
Proof.
  intros Hset Hdep. assert (HM : keys_nodup M) by apply Hset.
  induction fs as [|nc fs IH]; intros acc Hin Hnd Hacc.
  - cbn. rewrite app_nil_r. reflexivity.
  - cbn [map read_files dir_entry]. destruct (Hin nc (or_introl eq_refl)) as [Hr Hn].
    assert (Hg : good (tree_lines M (snd nc)) (E (forest M [snd nc]))).
    { unfold forest. cbn [flat_map]. rewrite app_nil_r. apply (write_tree_lines M (snd nc) Hset Hr). }
    unfold read_into. rewrite (elines_good _ _ Hg).
    rewrite (root_loop_forest M Hset Hdep [snd nc] acc).
    + cbn [bind]. unfold forest_post at 1. cbn [flat_map]. rewrite app_nil_r.
      cbn [map] in Hnd. inversion Hnd as [|? ? Hnot Hnd']; subst.
      rewrite IH.
      * unfold forest_post. cbn [map flat_map]. rewrite <- app_assoc. reflexivity.
      * intros x Hx. apply Hin. right. exact Hx.
      * exact Hnd'.
      * intros nc2 x dx Hnc2 Hx. rewrite has_key_app, (Hacc nc2 x dx (or_intror Hnc2) Hx). cbn [orb].
        apply has_key_false. intros y Hy.
        apply (post_tree_disjoint M (snd nc) (map snd fs) HM Hnd) with (r2 := snd nc2) (dx := dx); auto.
        -- intros z [<-|Hz]; [exact Hr|]. apply in_map_iff in Hz as (nz & <- & Hnz). apply (Hin nz (or_intror Hnz)).
        -- apply in_map. exact Hnc2.
    + intros x [<-|[]]. exact Hr.
    + constructor; [intros []|constructor].
    + intros r x dx [<-|[]] Hx. apply (Hacc nc x dx (or_introl eq_refl) Hx).
    + lia.
Qed.

Theorem read_write_dir M : enigma_okb M = true -> dir_okb M = true ->
  exists d back, write_dir M = Ok d /\ read_dir d = Ok back /\ classes_sim back (enigma_norm M).
Proof.
  intros Hok Hdir. destruct (enigma_ok_set M Hok) as (Hset & Hdep & fs & Hf).
  assert (HM : keys_nodup M) by apply Hset.
  destruct (files_facts M fs HM Hf) as (Hp & Hnd & Hincl & Hin).
  exists (map (dir_entry M) fs). unfold read_dir.
  assert (Hall : forallb (fun pc => is_mapping_file (fst pc)) (map (dir_entry M) fs) = true).
  { apply forallb_forall. intros pc Hpc. apply in_map_iff in Hpc as (nc & <- & Hnc). cbn [dir_entry fst].
    unfold dir_okb in Hdir. rewrite Hf in Hdir. rewrite forallb_forall in Hdir. specialize (Hdir nc Hnc).
    apply andb_true_iff in Hdir as [_ He]. apply negb_true_iff in He. apply is_mapping_file_written; [|exact He].
    destruct (Hin nc Hnc) as [Hr Hn]. rewrite Hn. apply tokb_nonempty. apply file_name_tok.
    destruct Hset as (_ & Hcls & _). apply Hcls. apply filter_In in Hr. apply Hr. }
  rewrite (filter_all _ _ Hall).
  assert (Hs := isort_perm path_leb (map (dir_entry M) fs)).
  apply Permutation_map_inv in Hs as (fs' & Es & Hp').
  rewrite Es. exists (forest_post M (map snd fs')).
  split; [apply write_dir_entries; assumption|]. split.
  - rewrite (read_files_forest M Hset (forest_depth_ok M Hdep) fs' []); [reflexivity| | |reflexivity].
    + intros nc Hnc. apply Hin. eapply Permutation_in; [symmetry; exact Hp'|exact Hnc].
    + eapply Permutation_NoDup; [apply Permutation_map; exact Hp'|exact Hnd].
  - apply forest_post_sim; [exact Hset|]. etransitivity; [apply Permutation_map; symmetry; exact Hp'|exact Hp].
Qed.

(* the directory and the stream hold the same mappings *)
Theorem dir_equiv M : enigma_okb M = true -> dir_okb M = true ->
  exists text d a b, write_all M = Ok text /\ write_dir M = Ok d /\ read_all text = Ok a /\ read_dir d = Ok b
                     /\ classes_sim a (enigma_norm M) /\ classes_sim b (enigma_norm M).
Proof.
  intros Hok Hdir. destruct (read_write_all M Hok) as (text & a & H1 & H2 & H3).
  destruct (read_write_dir M Hok Hdir) as (d & b & H4 & H5 & H6).
  exists text, d, a, b. auto 10.
Qed.
