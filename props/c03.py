SPEC = {
    "trusted": [
        "C03: BufRead::lines and UTF-8 decoding are modelled (raw_lines on code points: LF ends a line, one CR before it is dropped, a last line without LF keeps its CR), not verified; all texts of the correspondence run are valid UTF-8, a reader input that is not UTF-8 is outside the model",
        "C03: the nested WithMoreIdentIter loops of tiny_v2::read are modelled as grouping by indentation (build) followed by structurally recursive handlers that reject children under a line whose handler does not descend; that this factorisation has the same Ok/Err behaviour and the same results as the Rust control flow is tied by correspondence only (exhaustively for every sequence of up to 3 (quick) / 4 (thorough) lines out of 16 line shapes below a header, plus mutated and random texts)",
        "C03: Rust's sort_by_key is assumed to return the stable sorted permutation; the model uses insertion sort over the derived Ord of the info structs (Quill/Mappings.v); lemma sorted_perm_unique makes the algorithm irrelevant for well-formed sets",
        "C03: the name-validity predicates used by the reader (ObjClassName/FieldName/MethodName/ParameterName::check_valid) are those of the C18 model (coq/C18/Model.v)",
        "C03: write_string on a name containing an unpaired surrogate panics inside io::Write::write_fmt (duke's Display returns fmt::Error); the model's write answers Err for exactly this outcome and the correspondence compares it as WPanic",
        "C03: correspondence cases carry strings as packed UTF-8 in primitive 63-bit integers (decoder C03.Run.u, evaluated by vm_compute; Uint63 is used only there, never in a theorem)",
        "C03: the harness' independent one-pass row classifier (ref_rows) and its copy of wf/textual (checked against Coq's on every generated mapping set) are the oracles used to search for failing inputs on the implementation",
    ],
    "assumptions": [
        "wf M (Quill/Mappings.v): at least two namespaces with non-empty names; every names row has one cell per namespace and no empty string; classes, fields and methods have a first-namespace name; keys (class name / member name+descriptor / parameter index) are unique within their parent - the invariants quill's IndexMaps and checked constructors maintain (and which read is proved to establish: C03_read_ok_wf)",
        "textual M (C03/Model.v): namespace names, names and descriptors contain no TAB and no LF and do not end in CR (a cell at the end of a line would lose it); names and descriptors consist of Unicode scalar values; names are valid for their type (the reader uses the checked constructors: class names / unqualified names / method names as in C18); parameter indices fit usize. No condition on comments (after fix 1ac2bb2) and none on the mappings' own comment (after fix 29d9cf3).",
        "the theorems hold for every number of namespaces >= 2, not only 2..4",
    ],
    "stated_not_proved": [],
}
