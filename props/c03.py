SPEC = {
    "trusted": [
        "C03: BufRead::lines and UTF-8 decoding are modelled (raw_lines on code points: LF ends a line, one CR before it is dropped, a last line without LF keeps its CR), not verified; texts in the correspondence run are valid UTF-8",
        "C03: Rust's sort_by_key is assumed to return the sorted permutation (stable); the model uses insertion sort over the derived Ord of the info structs (Quill/Mappings.v), lemma sorted_perm_unique makes the algorithm irrelevant",
        "C03: the name-validity predicates used by the reader (ObjClassName/FieldName/MethodName/ParameterName::check_valid) are those of the C18 model (coq/C18/Model.v)",
        "C03: correspondence cases carry strings as packed UTF-8 in primitive 63-bit integers (decoder C03.Run.u, evaluated by vm_compute; Uint63 is used only there, never in a theorem)",
    ],
    "assumptions": [
        "wf M (Quill/Mappings.v): at least two namespaces with non-empty names; every names row has one cell per namespace and no empty string; classes, fields and methods have a first-namespace name; keys (class name / member name+descriptor / parameter index) are unique within their parent - the invariants quill's IndexMaps and checked constructors maintain",
        "textual M (C03/Model.v): namespace names, names and descriptors contain no TAB and no LF, names and namespace names do not end in CR (a cell at the end of a line would lose it); names and descriptors consist of Unicode scalar values (an unpaired surrogate cannot be written as UTF-8: write_string panics inside write_fmt for a name, and substitutes U+FFFD in a descriptor); names are valid for their type (the reader uses the checked constructors); parameter indices fit usize. No condition on comments.",
    ],
    "stated_not_proved": [],
}
