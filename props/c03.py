import os
import sys

sys.path.insert(0, os.path.join(os.path.dirname(os.path.dirname(os.path.abspath(__file__))), "translate"))
import c03_source

SPEC = {
    "translators": [c03_source.translate],
    "trusted": [
        "C03: BufRead::lines and UTF-8 are MODELLED at the byte level (C03/ModelBytes.v: raw_lines on bytes - LF ends a line, one CR before it is dropped, a last line without LF keeps its CR; every line validated on its own by a strict decoder: no overlong forms, no surrogates, nothing above U+10FFFF) and proved equal to `decode the whole file, then read the code points` (C03_read_bytes_spec); that std's lines()/from_utf8 behave like this model is tied by the byte-level correspondence stream (22 kinds of ill-formed sequences in the header, in the deepest line, at the end without LF, alone; separators inside a multi-byte character; the first and last character of every encoded length), not verified",
        "C03: the nested WithMoreIdentIter loops of tiny_v2::read are modelled as grouping by indentation (build) followed by structurally recursive handlers that reject children under a line whose handler does not descend; that this factorisation has the same Ok/Err behaviour and the same results as the Rust control flow is tied by correspondence only (exhaustively for every sequence of up to 3 (quick) / 4 (thorough) lines out of 16 line shapes below a header, plus mutated, reordered, re-line-ended and random texts)",
        "C03: Rust's sort_by_key is assumed to return the stable sorted permutation; the model uses insertion sort over the derived Ord of the info structs (Quill/Mappings.v); lemma sorted_perm_unique makes the algorithm irrelevant for well-formed sets. That the derived Ord of a struct is lexicographic in declaration order and that [Option<T>; N] orders None < Some element-wise is Rust's definition of derive(Ord) (trusted); the field ORDER, the sort key `&x.info` of all four loops of `write`, the ESCAPES table, the shape of escape/unescape and the header literals are regenerated from the sources by translate/c03_source.py (fails closed) into C03/SrcGen.v and compared with the model by C03_writer_order_from_source, C03_escapes_from_source, C03_header_from_source",
        "C03: the name-validity predicates used by the reader (ObjClassName/FieldName/MethodName/ParameterName::check_valid) are those of the C18 model (coq/C18/Model.v)",
        "C03: write_string on a name containing an unpaired surrogate panics inside io::Write::write_fmt (duke's Display returns fmt::Error); the model's write answers Err for exactly this outcome and the correspondence compares it as WPanic",
        "C03: correspondence cases carry strings and byte files as packed bytes in primitive 63-bit integers (decoders C03.Run.u / C03.Run.ub, evaluated by vm_compute; Uint63 is used only there, never in a theorem)",
        "C03: the harness' independent one-pass row classifier (ref_rows), its independent grouping of lines by indentation (group, used to reorder sibling sections), and its copy of wf/textual (checked against Coq's on every generated mapping set) are the oracles used to search for failing inputs on the implementation",
    ],
    "assumptions": [
        "wf M (Quill/Mappings.v): at least two namespaces with non-empty names; every names row has one cell per namespace and no empty string; classes, fields and methods have a first-namespace name; keys (class name / member name+descriptor / parameter index) are unique within their parent - the invariants quill's IndexMaps and checked constructors maintain (and which read is proved to establish: C03_read_ok_wf)",
        "textual M (C03/Model.v): namespace names, names and descriptors contain no TAB and no LF and do not end in CR (a cell at the end of a line would lose it); names and descriptors consist of Unicode scalar values; names are valid for their type (the reader uses the checked constructors: class names / unqualified names / method names as in C18); parameter indices fit usize. No condition on comments (after fix 1ac2bb2) and none on the mappings' own comment (after fix 29d9cf3).",
        "rust_strings M (C03/Theory13.v; only for the byte-level round trip C03_read_write_bytes and C03_write_scalar): namespace names and comments consist of Unicode scalar values - they are Rust `String`s",
        "C03_read_forest / C03_read_sibling_order: the lines of the text are a header followed by a forest in which every line sits one level below its parent (depth_ok) - exactly the texts that are not rejected for their indentation (C03_read_not_indented_err covers the rest); fperm is the closure of `swap two adjacent siblings` under the forest structure",
        "line endings: C03_read_crlf needs `no CR directly before a LF in the original` (C03_crlf_condition_needed shows the header `a b CR LF` converted once more reads the namespace `b CR`); C03_read_final_lf needs the last character to be neither LF nor CR (C03_final_cr_example); C03_read_extra_lf is unconditional; an empty line anywhere else ends every open section (C03_blank_middle_example)",
        "the theorems hold for every number of namespaces >= 2, not only 2..4",
    ],
    "stated_not_proved": [
    ],
}
