import os
import sys

sys.path.insert(0, os.path.join(os.path.dirname(os.path.dirname(os.path.abspath(__file__))), "translate"))
import c18_newtypes  # noqa: E402


def c18_newtypes_tr():
    """runs the translator; its shape observations (never errors) are shown among the assumptions of the evidence"""
    errs = c18_newtypes.translate()
    keep = [a for a in SPEC["assumptions"] if not a.startswith("translator note: ")]
    SPEC["assumptions"][:] = keep + ["translator note: " + n for n in c18_newtypes.NOTES]
    return errs


c18_newtypes_tr.__name__ = "c18_newtypes"

SPEC = {
    # coq/C18/NamesGen.v is regenerated on every run from duke/src/macros.rs, every make_string_str_like! call site under
    # duke/src/tree and `mod names` of duke/src/tree/mod.rs: which predicate guards which checked newtype, the excluded
    # character sets, the special method names, the `[` and `/` literals; and from duke/src/tree/descriptor.rs the letter tables
    # of read_field_type / write_field_type (letter <-> Type/ArrayType variant, dimension cap, L ; [) and the literals of
    # get_arguments_size (wide letters, slot counts, initial size, checked_add).  Theorems C18_newtype_guards,
    # C18_predicate_literals(_model), C18_name_types_guarded, C18_descriptor_tables(_model) pin the expected tables; Run.v looks the guard of every name kind
    # up in the generated table, so a changed guard also moves the model the correspondence compares with.
    "translators": [c18_newtypes_tr],
    "trusted": [
        "C18: the specification side of the theorems is the inductive grammar FieldTypeG/ReturnG/MethodG/ClassNameG of coq/C18/Theory.v (JVMS 4.2.1, 4.2.2, 4.3.2, 4.3.3 transcribed by hand); for get_arguments_size on arbitrary strings the token relation LTok/LenientArgs of coq/C18/Theory2.v (what the function reads, it does not validate)",
        "C18: the harness' independent JVMS recogniser (harness/src/bin/c18.rs o_*) is the oracle used to search for failing inputs on the implementation",
        "C18: translate/c18_newtypes.py regenerates coq/C18/NamesGen.v on every run (fail closed: a TryFrom/is_valid of the macro that no longer goes through check_valid, an unchecked From impl, an unreadable invocation, a check_valid that consults none/several/unknown predicates, unresolvable character sets, unreadable letter arms / dimension cap / slot counts in descriptor.rs); it extracts tables and literals, the control flow around them is tied by the correspondence run",
        "C18: oracle parity (round 5): every entry point whose answer goes to the model is also judged on the implementation alone, on EVERY string, not only on valid ones - get_arguments_size against a token scanner written from its documentation (harness o_args_lenient; the Coq counterpart is LenientArgs), ArrClassNameSlice::dimension against the count of leading `[` (as u8, assertion on 0), ClassNameSlice::is_array / as_arr / as_obj against `starts with [`, get_inner_class_parent / get_inner_class_name against the split (their own answers, not the split's halves, fill the value tables of the sweeps); Ord/PartialEq of the generated newtypes against partners that differ in the first place, in the last place and in length",
        "C18: MethodDescriptorSlice::get_arguments_size is pub(crate); it is observed through its only caller, the class writer (count operand of invokeinterface in a one-method class written by duke::write_class and read back from the bytes)",
    ],
    "assumptions": [
        "strings are sequences of code points; the java_string crate's chars() iterator is trusted to yield them",
        "round-trip theorems: type values handed to the writers are well-formed (wf_ty: binary class names, 1..255 dimensions - what the checked constructors allow); C18_*_roundtrip_iff_wf show this is exactly the set on which parse(write(t)) = t, C18_write_total says what write() does on every other value (its assertion panics iff the class name starts with `[`)",
        "the dimension cap is proved as an equation for every number k of leading `[` and every base type, in every place a field type can stand (C18_dimension_cap: field / return descriptor, ArrClassName, ClassName, dimension(); C18_dimension_cap_method: parameter and return position behind any parameters; C18_dimension_cap_any_tail: 256 or more `[` are an error whatever follows), with the numbers 254..257 evaluated (C18_dimension_cap_examples) and run through the implementation (stream boundary: 1, 2, 254, 255, 256, 257, 300, 512 dimensions x 10 tails x field / parameter / return position, every string through all parsers, predicates, conversions and get_arguments_size)",
        "the three inner-class helpers agree on every string (C18_inner_helpers_agree) and answer exactly on parent$inner with a non-empty parent not ending in `/` and an inner name free of `/` and `$` (C18_split_iff, C18_inner_name_iff, C18_inner_parent_iff); com/sun/proxy/$Proxy0, $Proxy0, a/$b, a/B$ are valid object class names that none of the three treats as an inner class (C18_inner_examples)",
        "inner-class / simple-name validity theorems: the input is a valid object class name (ClassNameG), which is what the ObjClassNameSlice type promises; the split/join inverse laws hold for all strings",
        "note: FieldDescriptor, MethodDescriptor, ReturnDescriptor, the three signature types, RecordName, ModuleName and PackageName are UNCHECKED in the source (check_valid is `Ok(())`, marked TODO): their TryFrom accepts every string. The table row says GAlways and the harness confirms it; the property names only the seven name types, so this is recorded as an observation, not as a finding",
        "note: the descriptor grammar does not bound the number of parameters; JVMS 4.3.3's limit of 255 argument slots is enforced by get_arguments_size when an invokeinterface is written (C18_args_size_of_method), not by MethodDescriptorSlice::parse",
    ],
    "stated_not_proved": [],
}
