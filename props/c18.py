SPEC = {
    "trusted": [
        "C18: the specification side of the theorems is the inductive grammar FieldTypeG/ReturnG/MethodG/ClassNameG of coq/C18/Theory.v (JVMS 4.2.1, 4.2.2, 4.3.2, 4.3.3 transcribed by hand)",
        "C18: the harness' independent JVMS recogniser (harness/src/c18.rs o_*) is the oracle used to search for failing inputs on the implementation",
    ],
    "assumptions": [
        "strings are sequences of code points; the java_string crate's chars() iterator is trusted to yield them",
        "type values handed to the writers are well-formed (wf_ty): names are binary class names, 1..255 dimensions — what the checked constructors allow",
    ],
}
