SPEC = {
    "trusted": [
        "C04: the repository has no .tinydiff writer; the printer `print` of coq/C04/Text.v (duplicated in harness/src/bin/c04.rs `print_tinydiff`, the two are compared on every printed diff) is the specification of the text form",
        "C04: the harness' independent map-based reference `ref_apply` (harness/src/bin/c04.rs) is the oracle used to search for failing inputs of apply_to on the implementation",
        "C04: BufRead::lines, UTF-8 decoding and usize::from_str are modelled (split_lines, parse_usize), validated by the correspondence run only",
    ],
    "assumptions": [
        "mapping trees and diff trees have pairwise distinct keys per map (IndexMap invariant) and every names row has one cell per namespace (const generic N)",
        "the target namespace of apply_to is not the first namespace (Names::change_name refuses it; keys live there)",
    ],
    "stated_not_proved": [],
}
