SPEC = {
    "trusted": [
        "C04: the repository has no .tinydiff writer; the printer `print` of coq/C04/Text.v (duplicated in harness/src/bin/c04.rs `print_tinydiff`, the two are compared on every printed diff) is the specification of the text form",
        "C04: the harness' independent map-based reference `ref_apply` (harness/src/bin/c04.rs) is the oracle used to search for failing inputs of apply_to on the implementation",
        "C04: BufRead::lines, UTF-8 decoding and usize::from_str are modelled (split_lines, parse_usize), validated by the correspondence run only",
    ],
    "assumptions": [
        "mapping trees and diff trees have pairwise distinct keys per map (IndexMap invariant) and every names row has one cell per namespace (const generic N)",
        "apply theorems hold for every target namespace index; with the first namespace as target every name action is refused (C04_change_name), comment actions are applied",
        "inverse law: A and B are well-formed (Quill.Mappings.wf) two-namespace sets with the same, pairwise different namespace names, and every entry has a second-namespace name (named) - exactly the domain on which diff is defined (C04_diff_ok_iff)",
        "text form: names are valid per duke's checked constructors and contain no TAB/LF/CR, parameter indices fit usize, the mappings-level comment is the same on both sides (the text form has no line for it)",
    ],
    "stated_not_proved": [
        "diff_apply_full (coq/C04/Theory2.v): forall A B, inverse_hyps A B -> inverse_law A B  -- refuted by C04_diff_apply_refuted (known finding F3); proved restriction: C04_diff_apply_partial (f3_class A B = false)",
        "text_inverse_full (coq/C04/TextTheory3.v): forall A B, text_hyps A B -> f3_class A B = false -> text_inverse_law A B  -- refuted by C04_text_inverse_refuted (known finding F4); proved restriction: C04_text_inverse_partial (f4_class A B = false)",
        "mequiv (lookup-based equality up to the order of every map, Prop) is not linked to the boolean Quill.Mappings.equivb (sorted canonical form); the harness compares with its own canonical form",
    ],
}
