SPEC = {
    "trusted": [
        "C08: the specification side is the relation `reordered` / `class_rel` / `field_rel` / `meth_rel` / `param_rel` of coq/C08/Theory.v, the token grammar `toks_wf` of coq/C08/TheoryB.v and the shared well-formedness predicate `wf` of coq/Quill/Mappings.v",
        "C08: the harness' independent reference reorder (harness/src/bin/c08.rs ref_reorder, ref_map_desc) is the oracle used to search for failing inputs on the implementation; it compares up to insertion order (MMappings::equiv: rows, descriptors, parameter indices and the comments of every level INCLUDING the mapping set's own comment, which the C08 generators set with probability 1/3 — the shared generator leaves it None); exact IndexMap order is compared only in the model correspondence",
        "C08: IndexMap is modelled as an insertion-ordered association list (insert on an existing key replaces in place); the correspondence compares results in IndexMap iteration order",
    ],
    "assumptions": [
        "inverse law (C08_reorder_inv): `no_collision M p0` — no class name that a descriptor mentions without being a first-namespace key of M equals the p0-name of a class of M; otherwise the class renaming is not injective and no inverse exists (witness: C08_reorder_inv_refuted_without_no_collision, replayed on the implementation in the `collision` stream). Classified as precondition, not defect.",
        "inverse law: `class_names_clean M` — class names contain no `;` (true of every checked ObjClassName; the tree can be filled through unchecked constructors, witness C08_reorder_inv_refuted_without_clean)",
        "identity law: `descs_scan M` — every member descriptor scans (each `L` is followed by a non-empty name and `;`), true of every valid descriptor; on a malformed descriptor reorder returns Err even for the identity order (stream malformed-descriptor)",
        "`wf M` (coq/Quill/Mappings.v): at least two namespaces, one cell per namespace in every row, no empty names, a first name on every class/field/method, unique keys per level — the invariants the mapping tree maintains",
        "by-name theorems: namespace names pairwise distinct (`nodup_ns`); `Namespaces::try_from` does not enforce this, `get_namespace` then picks the first match (modelled, covered by the non-permutation stream)",
        "the const-generic N is the length of the namespace list; the harness instantiates N = 2, 3, 4, the theorems hold for every length",
    ],
    "stated_not_proved": [],
}
