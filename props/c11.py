SPEC = {
    "trusted": [
        "C11: the specification side of the theorems is the inductive relation Ext (extended name along the chain of outer classes), Broken (a missing or unnamed outer class on that chain), ext_rel / contract_rel (everything but the chosen namespace cell identical) of coq/C11/Theory.v and Theory2.v, transcribed by hand from the property statement",
        "C11: the inner-class split/join model (split_inner, join_inner) is shared with C18 (coq/C18/Model.v; inverse laws C18_split_join / C18_join_split)",
        "C11: IndexMap<ObjClassName, _> is modelled as the list of class nodes in insertion order, lookup by key = first class whose first-namespace name equals the key (coq/Quill/Mappings.v); the harness checks after every call that keys and node infos are still in sync",
        "C11: the harness' independent reference extension/contraction (harness/src/bin/c11.rs ref_extend, ref_contract: iterative, hash index by source name) is the oracle used to search for failing inputs on the implementation",
    ],
    "assumptions": [
        "strings are sequences of code points; the java_string crate's chars()/rsplit_once are trusted to act on them",
        "contract_extend needs simple_names M ns (decidable, evaluated on every generated input both by the harness and by the model): in namespace ns the name of a class with a nested source name contains neither `$` nor `/`; the name of a top-level class is not splittable as an inner class name and does not end with `/`; names are non-empty. Outside it the law fails on the real code (e.g. A->a, A$B->p/b extends to a$p/b which contracts to itself): a precondition of the property, not a defect",
        "extend_err_iff is stated for well-formed mapping sets (wf of coq/Quill/Mappings.v: every names row has one cell per namespace, at least two namespaces, first-namespace names present and unique) — exactly the values that can be built as Mappings<N,_>; extend_err_iff_gen drops the hypothesis",
        "a class that has NO name in the chosen namespace is left alone without looking at its outer classes (follows the code: `if let (src, Some(b))`), and asking for the first namespace succeeds on a mapping set without classes",
    ],
    "stated_not_proved": [],
}
