SPEC = {
    "trusted": [
        "C11: the specification side of the theorems is the inductive relation Ext (extended name along the chain of outer classes), Broken (a missing or unnamed outer class on that chain), ext_rel / contract_rel (everything but the chosen namespace cell identical) of coq/C11/Theory.v and Theory2.v, transcribed by hand from the property statement",
        "C11: the inner-class split/join model (split_inner, join_inner) is shared with C18 (coq/C18/Model.v; the inverse laws of get_inner_class_parent / get_inner_class_name / from_inner_class are C18_split_join / C18_join_split, re-exported as C11_split_join / C11_join_split)",
        "C11: IndexMap<ObjClassName, _> is modelled as the list of class nodes in insertion order, lookup by key = first class whose first-namespace name equals the key (coq/Quill/Mappings.v); the harness checks after every call that keys and node infos are still in sync",
        "C11: the harness' independent reference extension/contraction (harness/src/bin/c11.rs ref_extend, ref_contract: iterative, hash index by source name) is the oracle used to search for failing inputs on the implementation",
    ],
    "assumptions": [
        "strings are sequences of code points; the java_string crate's chars()/rsplit_once are trusted to act on them",
        "contract_extend needs simple_names M ns (decidable, evaluated on every generated input both by the harness and by the model): in namespace ns the name of a class with a nested source name contains neither `$` nor `/`; the name of a top-level class is not splittable as an inner class name and does not end with `/`; names are non-empty. Outside it the law fails on the real code (e.g. A->a, A$B->p/b extends to a$p/b which contracts to itself): a precondition of the property, not a defect",
        "extend_err_iff is stated for well-formed mapping sets (wf of coq/Quill/Mappings.v: every names row has one cell per namespace, at least two namespaces, first-namespace names present and unique) — exactly the values that can be built as Mappings<N,_>; extend_err_iff_gen drops the hypothesis",
        "a class that has NO name in the chosen namespace is left alone without looking at its outer classes (follows the code: `if let (src, Some(b))`), ",
        "the property quantifies over a target namespace at a NON-FIRST index. Asking `extend` for the first namespace: with classes present it must fail (the names of the first namespace are the map keys; C11_extend_first_namespace, required by the oracle); on a set WITHOUT classes the present code answers Ok(unchanged) — the model follows the code there (C11_extend_spec's last clause and the general C11_extend_err_iff say what the code does), but the property does not promise it: the oracle accepts Err as well as Ok-unchanged, and C11_extend_err_iff_nonfirst is the failure characterisation on the property's domain, independent of that choice. An early bail for namespace 0 in `extend` (mirroring `contract`, fix 4d8ec0a) would show up as a model/implementation disagreement to be followed in the model, not as a violation of the property",
    ],
    "stated_not_proved": [],
}
