SPEC = {
    "trusted": [
        "C09: IndexMap<K,V> is modelled as the list of its nodes in insertion order with the key derived from the node's info (Quill/Mappings.v); IndexMap::get / IndexSet::from_iter are modelled by find_by / uniq (first occurrence wins)",
        "C09: the harness' independent reference join (harness/src/bin/c09.rs ref_join, conflicts, restrict) is the oracle used to search for failing inputs on the implementation",
    ],
    "assumptions": [
        "inputs of Mappings::merge are well-formed two-namespace sets (wf2): every names row has two cells, no empty-string name, classes/fields/methods have a first-namespace name, keys are unique per map and equal to the key derived from the node (what quill's constructors and readers maintain)",
        "error messages are not modelled: every error is the single outcome Err",
    ],
    "stated_not_proved": [],
}
