SPEC = {
    "trusted": [
        "C09: IndexMap<K,V> is modelled as the list of its nodes in insertion order with the key derived from the node's info (coq/Quill/Mappings.v); IndexMap::get and IndexSet::from_iter are modelled by find_by / uniq (first occurrence wins); `unreachable!()` in zip_map is modelled as Err and proved unreachable",
        "C09: the specification side of the theorems is the vocabulary at the end of coq/C09/Model.v (union, cls/fld/mth/prm lookups along key paths, row3, first_some, view, restrict), doc_conflict / conflict in coq/C09/Theory2.v, Theory4.v, the order law reord / reorder in coq/C09/Theory9.v (characterised by C09_reord_spec) and C03's nested-permutation relation mappings_equiv (coq/C03/Theory6.v)",
        "C09: correspondence cases with a string table (CMergeT): coq/C09/Run.v rs/rmappings substitute table entries for the one-element index lists the harness prints; Intern in harness/src/bin/c09.rs produces them",
        "C09: the harness' independent reference join and conflict scan (harness/src/bin/c09.rs ref_join, conflicts, restrict, reorder, check_columns, key_paths) are the oracle used to search for failing inputs on the implementation",
    ],
    "assumptions": [
        "inputs of Mappings::merge are well-formed two-namespace sets (wf2, decidable, re-checked inside Coq on every correspondence case): every names row has two cells, no empty-string name or namespace, classes/fields/methods have a first-namespace name, keys are unique per map and are the keys derived from the nodes — what quill's constructors and readers maintain; a tree whose IndexMap keys disagree with its nodes (possible only by mutating the public fields) is outside the model and is exercised by an oracle-only stream",
        "error messages are not modelled: every error is the single outcome Err",
    ],
    "stated_not_proved": [
    ],
}
