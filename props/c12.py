SPEC = {
    "trusted": [
        "C12: hand-written model coq/C12/Model.v of quill/src/enigma_file.rs, the indentation iterator of quill/src/lines.rs as the Enigma reader uses it, and quill/src/enigma_dir.rs; it reuses the name predicates and the inner-class split of coq/C18/Model.v (tied by C18's own correspondence)",
        "C12: the file system is a finite map from relative paths to contents; walkdir's sort_by_file_name is modelled as sorting paths component by component; Path::extension as 'text after the last dot of the last component, stem non-empty'",
        "C12: BufRead::lines (LF ends a line, a CR directly before it is dropped, no final empty line), str::trim (Unicode White_Space table), usize::from_str and the decimal Display of usize are modelled by hand and validated by the correspondence run",
    ],
    "assumptions": [
        "mapping sets have two namespaces; names and descriptors are sequences of scalar values at the places the writer prints them (a name with an unpaired surrogate below file-name level makes the writer panic; recorded by the harness, outside the model)",
        "comments are Rust Strings (scalar values only)",
    ],
    "stated_not_proved": [],
}
