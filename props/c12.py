SPEC = {
    "trusted": [
        "C12: hand-written model coq/C12/Model.v of quill/src/enigma_file.rs (EnigmaLine::new, read_into/parse_class, insert_comment, write_class, figure_out_files, write_one_tree_starting_at, write_all, write_one), of the indentation iterator of quill/src/lines.rs as the Enigma reader drives it, and of quill/src/enigma_dir.rs; it reuses the name predicates and the inner-class split of coq/C18/Model.v (tied by C18's own correspondence) — tied to the code by the correspondence run on write_all, read_into, write_one, enigma_dir::write and ::read",
        "C12: the file system is a finite map from relative paths to contents; walkdir's sort_by_file_name is modelled as sorting paths component by component, Path::extension as 'text after the last dot of the last component, stem non-empty'; paths with characters that are special to the file system are not generated",
        "C12: BufRead::lines (LF ends a line, a CR directly before it is dropped, no final empty line), str::trim (Unicode White_Space table), usize::from_str and the decimal Display of usize are modelled by hand and validated by the correspondence run",
        "C12: Rust's sort_by/sort_unstable_by_key/sort_unstable_keys return a sorted permutation (insertion sort in the model; Base/Sort.sorted_perm_unique makes the algorithm irrelevant where keys are distinct)",
    ],
    "assumptions": [
        "enigma_okb (decidable, coq/C12/TheoryRT.v; the harness' independently written predicate is compared with it on every generated set): two cells per names row; distinct class keys, field/method keys, parameter indices; names valid for their types (object class names, unqualified names, method names); every written token non-empty, free of Java white space, `#` and surrogates, not ending in Unicode white space; a written class target not starting with `ACC:`, a descriptor not starting with `ACC:` when a target name precedes it; comments free of TAB, VT, FF, CR; the target of a class written inside its parent is absent or <target-or-source of the parent>$<simple>; parameters have a target name and an index below 2^64; nesting depth at most 64 (MAX_CLASS_NESTING of the reader); file names of parent-free classes pairwise distinct and free of surrogates",
        "dir_okb for the directory theorems: file names without `.`, not starting and not ending with `/`",
        "what a round trip is allowed to change (enigma_norm): a method target `<init>` becomes absent; a parameter's source name becomes absent (the format has no place for it)",
        "a name with an unpaired surrogate below file-name level makes the writer panic (write! on a failing Display); recorded by the harness as a note, outside the model",
    ],
    "stated_not_proved": [],
}
