import os
import sys

sys.path.insert(0, os.path.join(os.path.dirname(os.path.dirname(os.path.abspath(__file__))), "translate"))
import c02_sites

SPEC = {
    "translators": [c02_sites.run],
    "trusted": [
        "C02: coq/C02/Model.v is a hand transliteration, branch by branch, of write_code / if_helper / goto_helper / switch_helper / align_to_4_byte_boundary and the patch loop (duke/src/simple_class_writer.rs), Labels (simple_class_writer/labels.rs), PoolWrite::put and put_bootstrap_method (simple_class_writer/pool.rs), write_attribute / write_usize_as_uN (lib.rs), at the layout level: an instruction without label operand enters as the bytes duke emits for it",
        "C02: coq/C02/Frames.v: hand transliteration of the StackMapTable part of write_code and of write_verification_type_info (emit side), and a byte-only decoder transcribed from class_reader.rs read_stack_map_frame / read_verification_type_info and the reader's offset loop (decode side); VerificationTypeInfo::Object(class) enters the layout-level model as the pool index of the class in the written file (looked up by the harness in the written pool; the pool theorems say it is unique)",
        "C02: coq/C02/Encode.v is the specification side of write_is_encode / targets_preserved: the general position-dependent encoder (per instruction a choice narrow/wide, padding forced by position, offsets computed from the induced layout) and a decoder of branch/switch operands that looks only at bytes (JVMS 6.5 opcode classes and opposite conditions transcribed by hand)",
        "C02: translate/c02_sites.py regenerates coq/C02/Gen.v from the source on every run (every write_attribute_fix_length call site with the writes that follow it, every if_helper / goto_helper call site with its opcode constants, the trampoline literals) and fails closed on any call shape it does not recognise",
        "C02: the harness' abstraction of a duke tree to the layout level (harness/src/bin/c02/main.rs: branch_of, tables_of; the bytes of non-branching instructions are read from a probe write of the same tree in which label-carrying instructions are nops, so that ldc/ldc_w follow the real pool) and its contraction of inverted-condition trampolines before facts are compared",
        "C02: fbh::classfile (independent strict parser raw::parse as structural validator, facts_from_raw / facts_from_duke as the pool-independent meaning of a class, assembler, generator, boundary constructions, vendored javac corpus) and the harness' own mini assembler (harness/src/bin/c02/mini.rs) for growth-driven boundary cases",
    ],
    "assumptions": [
        "trees come from duke::read_class (possibly renamed): every label sits on at most one instruction and the last label on none (unique_labels) — checked by the harness on every tree it reads (counter hypothesis_unique_labels_violated_by_reader stays 0)",
        "tableswitch: high - low + 1 fits i32 (spans_ok); otherwise the writer's own i32 arithmetic overflows before it compares with the table length — the reader cannot produce such a tree",
        "local-variable and type-annotation ranges have their start label not after their end label (ranges_ok); otherwise `end - start` on u16 overflows in Labels::try_get_range — the reader builds ranges as (start_pc, start_pc + length)",
        "frames_ok: the tags of the simple verification types are < 7 and Object pool indices are u16 (by construction of the harness' abstraction); one optional frame per instruction",
        "low/high/keys of switches are i32 values and instruction bytes are < 256 (body_ok) for targets_preserved",
        "Rust's HashMap/HashSet behave as finite maps/sets (wide: list with membership, labels: association list where the most recent binding wins, pool map: association list)",
    ],
    "stated_not_proved": [
        "write_fails_cleanly characterises Err at the wide set the loop ends with (exists W with attempt W = AErr and cause W); a closed form of that final W in terms of the body alone is not stated (the layout is not monotone in W because switch padding can shrink)",
        "expand W body as a body with explicit `inv`/`goto_w` instruction pairs and fresh labels is not defined; instead the wide form of a conditional is an 8-byte encoding of the same instruction and C02_targets_preserved shows that the byte decoder sees the inverted condition jumping to the next instruction followed by a goto_w to the target (index embedding = positions)",
        "the class skeleton (magic, version, this/super/interfaces, member headers), the byte layouts of annotations, element values, type annotations and type paths, module, record components, inner classes, method parameters, and which pool-put each of them uses are not modelled in Coq: they are covered by the oracle (strict parser accepts the output; facts of the output = facts of the tree) on generated classes and the corpus only",
        "modified UTF-8 encoding of pool strings is not modelled",
    ],
}
