SPEC = {
    "trusted": [
        "C02: coq/C02/Model.v is a hand transliteration of write_code / if_helper / goto_helper / switch_helper (duke/src/simple_class_writer.rs), Labels (labels.rs) and PoolWrite::put (pool.rs) at the layout level: non-branching instructions enter as their bytes",
        "C02: coq/C02/Encode.v (general position-dependent encoder and byte-level decoder of branch/switch operands, JVMS 6.5) is the specification side of write_is_encode / targets_preserved",
        "C02: the harness' abstraction of a duke tree to the layout level (harness/src/bin/c02/main.rs: branch_of, tables_of, probe write for the bytes of non-branching instructions) and the independent strict class-file parser harness/src/classfile/raw.rs used as oracle",
    ],
    "assumptions": [
        "trees come from duke::read_class: labels are unique (each label on at most one instruction, last_label distinct) — checked by the harness on every tree (hypothesis_unique_labels_violated_by_reader must stay 0)",
        "tableswitch: high - low + 1 fits i32 (otherwise the writer's own arithmetic overflows; the reader cannot produce such a tree)",
    ],
    "stated_not_proved": [],
}
