SPEC = {
    "trusted": [
        "C14: the Gallina model coq/C14/Model.v of dukenest (nester_jar: filter, remap, attribute synthesis; nester_run: build_translation, apply, undo; nests_mapper_run: map_nests, inner_name, rsplit_underscore; io: Nests::read) and of the parts of quill::remapper it calls (map_desc, map_class, remapper_b without super classes); tied to the crates by the correspondence run (CApply, CUndo, CMapNests, CRead, CStrip, CJar cases)",
        "C14: the harness' independent reference implementation of the documented nesting rules (harness/src/bin/c14/oracle.rs, jar.rs) is the oracle used to search for failing inputs on the implementation; output classes of nest_jar are read back with the independent strict class-file parser harness/src/classfile/raw.rs + facts_raw.rs, input classes are assembled by the harness' own constant-pool builder on top of raw::write",
        "C14: class-level view of the jar in the model: class names with their method lists in entry order; the rewriting of references inside class files (dukebox::remap) is not modelled in Coq, it is checked on every generated jar by comparing the independently parsed output with the renamed input spec",
    ],
    "assumptions": [
        "nests tables have unique class names (they are IndexMaps keyed by class name) and are acyclic (no class transitively enclosed by itself; decidable, C14_acyclic_decidable); on a cyclic table the Rust code recurses without bound (exhibited in a child process by the harness), the model runs out of fuel",
        "undo∘apply: the translation is injective on the classes of the table and the classes the mappings mention in the source namespace (inj_on; otherwise an unlisted class that already carries the name Enclosing$Inner of a listed class is renamed by undo), table names contain no ';', mappings are well-formed (FB.Quill.Mappings.wf: unique keys, two namespaces)",
        "map_nests keeps every nest when no two listed classes are mapped to the same target name (NoDup hypothesis of C14_map_nests_total); Nests::add replaces an earlier nest of the same class",
        "jar = mapping agreement is stated for tables whose entries all apply to the jar (all_apply), as in the property; for other tables C14_jar_name_filtered says the jar side is the mappings construction over the filtered table",
    ],
    "stated_not_proved": [
        "refs_rewritten (every reference to a renamed class inside the class files is rewritten): belongs to C07's table of dukebox::remap; here it is checked by the harness oracle on every generated jar (independent parser, facts of output == facts of the renamed input spec), not proved in Coq",
    ],
    "harness_timeout": 3000,
}
