SPEC = {
    "trusted": [
        "C14: the Gallina model coq/C14/Model.v of dukenest (nester_jar, nester_run, nests_mapper_run, io) and of the parts of quill::remapper it calls (map_desc, remapper_b without super classes)",
        "C14: the harness' independent reference implementation of the documented nesting rules (harness/src/bin/c14) is the oracle used to search for failing inputs on the implementation",
    ],
    "assumptions": [
        "nests tables have unique class names (they are IndexMaps keyed by class name) and are acyclic (no class transitively enclosed by itself); on a cyclic table the Rust code recurses without bound, the model runs out of fuel",
    ],
    "stated_not_proved": [],
}
