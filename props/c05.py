import os
import sys

sys.path.insert(0, os.path.join(os.path.dirname(os.path.dirname(os.path.abspath(__file__))), "translate"))
import c05_consts

SPEC = {
    "translators": [c05_consts.translate],
    "trusted": [
        "C05: a directory is modelled as the list of its (file name, content) pairs in read_dir order; the file system itself (read_dir, reading a path later yields the content listed) is not modelled",
        "C05: petgraph is modelled, not verified: NodeIndex = creation order, a node's edge list is newest-first (neighbors_directed, find_edge), astar with unit costs returns SOME shortest path (the model keeps the set of all shortest paths; the correspondence demands membership)",
        "C05: the FIFO walker queue of resolve is modelled generation by generation (all walkers with |path| = k before those with |path| = k+1, same order); validated by the correspondence on depths and Ok/Err",
        "C05: reading .tiny/.tinydiff, contract/extend of inner class names and apply are PARAMETERS of the graph model and of the graph theorems (sections 1-5 of Props/C05.v); in the CDir correspondence cases they are finite tables filled by calling quill's own functions on the real file contents",
        "C05: the instance vg_ops (coq/C05/Instance.v) composes the models of C03 (read, 2 namespaces), C11 (contract/extend with \"named\") and C04 (.tinydiff read, apply_to with \"named\") in the way resolve/apply_diffs call them — five lines read off src/version_graph.rs, pinned by C05_instance_definitions, and compared end to end with the implementation in the CInst correspondence cases (whole file contents; resolve Ok/Err and apply_diffs of every lookup name up to map order). The instantiated theorems inherit the trusted base of C03, C04 and C11 (their models are tied to quill by those properties' own correspondence runs); C04's .tinydiff printer is the specification of the text form (the repository has none)",
        "C05: the accessors get_all / get_diff are modelled (coq/C05/Model.v) and compared on every CDir case (get_all of several name lists, get_diff of every node pair incl. WHICH file is read when collisions make parallel edges); parents/children/versions/is_root_then_get_mappings/depth were compared before; the remaining helpers of src/version_graph.rs (VersionEntry ==/hash/make_owned, get_environment, get_minecraft_version, write_as_dot, map_shortcut) are exercised by the harness oracle only (no model)",
        "C05: file-name constants (.tiny, .tinydiff, '~', '#', \"named\") are regenerated from src/version_graph.rs by translate/c05_consts.py on every run",
    ],
    "stated_not_proved": [
        "history_sound_instantiated_full: the instantiated history theorem WITHOUT the restrictions inherited from C04's open findings — histories in which a parameter's first-namespace name changes along an edge (F3) or some comment is the empty string (F4) — is not proved (C04 refutes the inverse law there: C04_diff_apply_refuted, C04_text_inverse_refuted); likewise an edge that changes the top-level comment (not expressible in the .tinydiff text)",
        "root_from_c04_hypotheses: C05_root_ok_from_contracted needs C03.textual of the contracted root set; it does not follow from version_ok alone, because C04's textual_mappings does not constrain a parameter's first-namespace name (C03's textual does) — the two hypotheses are kept side by side",
        "answer_order: which representative of the mequiv class apply_diffs returns (the order of classes/fields/methods/parameters in the answer) is not stated; the CInst correspondence compares up to order as well",
        "queue_generations: the level-by-level formulation of the walk equals the FIFO queue formulation of the Rust code — a modelling step (trusted base), validated by the correspondence on depths and Ok/Err (C05_depth_spec and C05_walk_err_iff_cycle are theorems about the level-by-level formulation)",
        "shortest_fuel_any_graph: on graphs that did not come out of a successful resolve, |nodes|+1 levels still reach every node (pigeonhole); not needed because candidates are only asked of resolved graphs (resolve_walks_bounded is proved and used instead)",
    ],
    "assumptions": [
        "file names are valid UTF-8 (the implementation returns an error otherwise) and directory entries are plain files",
        "the directory does not change between resolve and apply_diffs",
        "the theorems of section 7 of Props/C05.v (depth_spec, indices_valid, resolve_err_iff, walk_err_iff_cycle, get_all_spec, get_diff) hold for EVERY directory, collisions of lookup names included; C05_malformed_iff (the name-level reading: error iff bad name / not exactly one .tiny / unreadable root / a cycle among the named versions reachable from the root) needs well_formed",
        "well_formed d: the lookup names (plain names, both halves of a~b names) of different version strings are pairwise different and the halves of one name differ — decidable, checked by the harness' reference reader on every generated directory (collision directories are generated too, for correspondence only); for the order-independence theorems additionally distinct file names (true of every real directory)",
        "generic history theorems (C05_history_sound, _eq, _composed, C05_history_sim): the laws of the composed operations are explicit premises; they are DISCHARGED for the concrete operations in C05_history_sound_instantiated / C05_history_dir_sound, whose hypotheses are all decidable and evaluated by vm_compute on the example: per version version_ok (wf, two namespaces with \"named\" second, every entry named in it, C04 textual_mappings, no empty comment = outside C04's known class F4), per edge edge_ok (same namespaces, same top-level comment because the .tinydiff text has no line for it, outside C04's known class F3: a parameter's first-namespace name is not part of a diff), for the root root_ok (C11 simple_names — shown necessary in C11 — and C03 textual of the EXTENDED root set, which is what is written), for the directory: well_formed, exactly one .tiny file, no .tinydiff name without #, no cycle (a rank that every edge increases; in hist_ok: parents listed before children)",
        "instantiated conclusion is up to C04's mequiv (same namespaces and top-level comment; at every level the same keys with equal names, descriptors, comments): the order of the maps in the answer is not characterised (it depends on the path and on IndexMap insertion/swap_remove order; the example's grandchild answer differs in order from extend (H v))",
    ],
}
