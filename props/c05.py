import os
import sys

sys.path.insert(0, os.path.join(os.path.dirname(os.path.dirname(os.path.abspath(__file__))), "translate"))
import c05_consts

SPEC = {
    "translators": [c05_consts.translate],
    "trusted": [
        "C05: a directory is modelled as the list of its (file name, content) pairs in read_dir order; the file system itself (read_dir, reading a path later yields the content listed) is not modelled",
        "C05: petgraph is modelled, not verified: NodeIndex = creation order, a node's edge list is newest-first (neighbors_directed, find_edge), astar with unit costs returns SOME shortest path (the model keeps the set of all shortest paths; the correspondence demands membership)",
        "C05: the FIFO walker queue of resolve is modelled generation by generation (all walkers with |path| = k before those with |path| = k+1, same order); validated by the correspondence on depths and Ok/Err",
        "C05: reading .tiny/.tinydiff, contract/extend of inner class names and apply are PARAMETERS of the model and of every theorem (they are the subject of C03, C04, C11); in the correspondence run they are finite tables filled by calling quill's own functions on the real file contents",
        "C05: file-name constants (.tiny, .tinydiff, '~', '#', \"named\") are regenerated from src/version_graph.rs by translate/c05_consts.py on every run",
    ],
    "stated_not_proved": [
        "depth_spec: resolve lr d = Ok g -> nth i (g_depths g) 0 = length of a shortest walk from the root to i (0 for the root and for unreachable nodes) — the depths are part of the model and are compared with the implementation on every correspondence case, and the harness oracle checks depth = BFS distance on the implementation; no theorem",
        "queue_generations: the level-by-level formulation of the walk equals the FIFO queue formulation of the Rust code — a modelling step (trusted base), validated by the correspondence on depths and Ok/Err",
        "shortest_fuel_any_graph: on graphs that did not come out of a successful resolve, |nodes|+1 levels still reach every node (pigeonhole); not needed because candidates are only asked of resolved graphs (resolve_walks_bounded is proved and used instead)",
    ],
    "assumptions": [
        "file names are valid UTF-8 (the implementation returns an error otherwise) and directory entries are plain files",
        "the directory does not change between resolve and apply_diffs",
        "well_formed d: the lookup names (plain names, both halves of a~b names) of different version strings are pairwise different and the halves of one name differ — decidable, checked by the harness' reference reader on every generated directory (collision directories are generated too, for correspondence only); for the order-independence theorems additionally distinct file names (true of every real directory)",
        "history theorems: the laws of the composed operations (C03 text round trip, C04 diff/apply through the text form, C11 contract after extend, compatibility with the comparison relation R) are explicit premises, to be discharged by instantiating the parameters with the models of C03/C04/C11",
    ],
}
