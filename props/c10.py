import os
import sys

sys.path.insert(0, os.path.join(os.path.dirname(os.path.dirname(os.path.abspath(__file__))), "translate"))
import c10_consts  # noqa: E402

SPEC = {
    # the placeholder constants are EXTRACTED from the Rust source (not hand-written): translate/c10_consts.py
    # parses the keep-condition of each retain level of remove_dummy.rs (strict shape, fail closed), the
    # MethodName::INIT/CLINIT constants of duke and the format!("p_{}", k.index) of insert_dummy.rs and
    # writes coq/C10/Consts.v.  Theorem C10_placeholder_constants pins the generated values to the
    # documented ones, so a changed prefix breaks an obligation; the correspondence run cross-checks them.
    "translators": [c10_consts.c10_consts],
    "trusted": [
        "C10: translate/c10_consts.py (regex / balanced-parenthesis reader of remove_dummy.rs, insert_dummy.rs and the two MethodName constants; fails closed on any other shape of the keep-conditions); its output coq/C10/Consts.v is pinned by theorem C10_placeholder_constants and exercised by every correspondence case",
        "C10: the specification side of the theorems is the declarative reading in coq/C10/Theory.v (Placeholder, Kept*, Retained, Spec*, Changes, Rewritten), restated definition by definition in C10_kept_definitions / C10_insert_definitions so that the pinned statements are self-explanatory",
        "C10: the harness' independent reference of the documented rules (harness/src/bin/c10.rs ref_*: literal prefixes, bottom-up Option-returning recursion) is the oracle used to search for failing inputs on the implementation",
        "C10: the model's diff tree (coq/C10/Model.v mdiff) stores IndexMap keys beside the nodes; the harness builds MappingsDiff by inserting into the public IndexMaps",
    ],
    "assumptions": [
        "an IndexMap is modelled as the list of its entries in insertion order and retain as an order-preserving filter; results are compared up to the order of entries (sorted by key on both sides)",
        "no well-formedness hypothesis: the theorems hold for all trees (the filters never look at keys); generated inputs are nevertheless valid IndexMaps (unique keys)",
        "parameter indices are unbounded naturals in the model (usize in the code; indices up to usize::MAX are in the generated cases)",
    ],
    "stated_not_proved": [],
}
