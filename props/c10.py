import os
import sys

sys.path.insert(0, os.path.join(os.path.dirname(os.path.dirname(os.path.abspath(__file__))), "translate"))
import c10_consts  # noqa: E402

def c10_consts_tr():
    """runs the translator; its shape observations (never errors) are shown among the assumptions of the evidence"""
    errs = c10_consts.translate()
    keep = [a for a in SPEC["assumptions"] if not a.startswith("translator note: ")]
    SPEC["assumptions"][:] = keep + ["translator note: " + n for n in c10_consts.NOTES]
    return errs


c10_consts_tr.__name__ = "c10_consts"


SPEC = {
    # the placeholder constants AND the shape of every retain condition are EXTRACTED from the Rust source (not
    # hand-written): translate/c10_consts.py collects, per retain level of remove_dummy.rs, the literals of the
    # starts_with(…) calls and the MethodName::… constants / == "…" comparisons (tolerant of renames, operand order,
    # hoisted constants, braces), the value of the MethodName constants of duke and the prefix of the
    # format!("p_{}", k.index) of insert_dummy.rs, and writes coq/C10/Consts.v; and (round 4) it parses the value of
    # every retain closure of both files as a boolean expression over its atoms (javadoc test, children is_empty(),
    # the whole name test, the `match &v.info` check variable, info.is_diff()), the value of every arm of that match
    # and which arms assign Action::Edit, and writes them as Gallina boolean functions into coq/C10/Shapes.v.
    # Theorem C10_placeholder_constants pins the constants, C10_retain_shapes pins the shapes EXTENSIONALLY (for all
    # values of the atoms, so reordering / parenthesising / De Morgan rewrites stay provable while a regrouping such
    # as check && (info || doc || !children.is_empty()) does not), C10_model_uses_shapes states that the model's
    # keep_* conditions are these functions of the model's atoms.  An atom the translator does not know fails closed.
    "translators": [c10_consts_tr],
    "trusted": [
        "C10: translate/c10_consts.py — (a) literal extractor: per retain level of remove_dummy.rs the arguments of starts_with(…), the MethodName::… constants and == \"…\" comparisons; the prefix of the one format!(\"<prefix>{}\", index) of insert_dummy.rs; the string literal of each MethodName constant referred to; identifiers resolved through const/static/let string definitions of the same file; canonical order; output coq/C10/Consts.v pinned by theorem C10_placeholder_constants. (b) shape extractor (round 4): the tail expression of every retain closure of remove_dummy.rs and insert_dummy.rs parsed as a boolean expression (||, &&, !, parentheses, braces) over the atoms javadoc.is_some() / javadoc[.as_ref()].is_diff(), <children>.is_empty(), the whole name test names[ns].as_ref().is_some_and(|x| disjunction of x.as_inner().starts_with(…) / x == …), the `let <check> = match &v.info {…}` variable and info.is_diff(); per arm of that match its boolean value and whether it assigns Action::Edit(…); whether every prefix test is on <x>.as_inner(); output coq/C10/Shapes.v (Gallina boolean functions) pinned by C10_retain_shapes for all values of the atoms and connected to the model by C10_model_uses_shapes. Fails closed on: a literal that cannot be found or is ambiguous, a term in a condition that is none of the known atoms, a name test that is not a plain disjunction, a statement in a closure other than nested retains / the check match / a local fn, a match that does not list the four Action variants. Tolerant of (tested on mutated copies by translate/c10_mutation_test.py, 16 mutations): renaming closure parameters or the check variable, reordering || operands, De Morgan rewrites, extra parentheses, hoisting a literal into a const. What it does not see: the three key-derived placeholders (k.name.clone(), p_<index>, get_inner_class_name) — tied by the correspondence run and the reference oracle; shape observations are reported as `translator note:` lines among the assumptions",
        "C10: the specification side of the theorems is the declarative reading in coq/C10/Theory.v (Placeholder, Kept*, Retained, Spec*, Changes, Rewritten), restated definition by definition in C10_kept_definitions / C10_insert_definitions so that the pinned statements are self-explanatory",
        "C10: the harness' independent reference of the documented rules (harness/src/bin/c10.rs ref_*: literal prefixes, bottom-up Option-returning recursion) is the oracle used to search for failing inputs on the implementation",
        "C10: inner_class_name of coq/C10/Model.v is C10's own transcription of ObjClassNameSlice::get_inner_class_name; it is proved equal to C18's split_inner / inner_name (C10_inner_class_name_is_C18, C10_class_placeholder_is_C18; C10's Coq build therefore depends on coq/C18/Model.v), compared with the real function on 30 key shapes (CInner), and C10_dollar_leading_key_kept states the `$`-leading case in closed form",
        "C10: JavaStr::starts_with / == on the names is modelled on lists of code points (prefixes and exact names are ASCII); exercised by the exotic-names stream (unpaired surrogates, non-BMP, control characters around the prefixes)",
        "C10: the model's diff tree (coq/C10/Model.v mdiff) stores IndexMap keys beside the nodes; the harness builds MappingsDiff by inserting into the public IndexMaps",
    ],
    "assumptions": [
        "an IndexMap is modelled as the list of its entries in insertion order and retain as an order-preserving filter; results are compared up to the order of entries (sorted by key on both sides)",
        "no well-formedness hypothesis: the theorems hold for all trees (the filters never look at keys); generated inputs are nevertheless valid IndexMaps (unique keys)",
        "parameter indices are unbounded naturals in the model (usize in the code; indices up to usize::MAX are in the generated cases)",
    ],
    "stated_not_proved": [],
}
