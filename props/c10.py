import os
import sys

sys.path.insert(0, os.path.join(os.path.dirname(os.path.dirname(os.path.abspath(__file__))), "translate"))
import c10_consts  # noqa: E402

def c10_consts_tr():
    """runs the translator; its shape observations (never errors) are shown among the assumptions of the evidence"""
    errs = c10_consts.translate()
    keep = [a for a in SPEC["assumptions"] if not a.startswith("translator note: ")]
    SPEC["assumptions"][:] = keep + ["translator note: " + n for n in c10_consts.NOTES]
    return errs


c10_consts_tr.__name__ = "c10_consts"


SPEC = {
    # the placeholder constants are EXTRACTED from the Rust source (not hand-written): translate/c10_consts.py
    # collects, per retain level of remove_dummy.rs, the literals of the starts_with(…) calls and the
    # MethodName::… constants / == "…" comparisons (tolerant of renames, operand order, hoisted constants,
    # braces), the value of the MethodName constants of duke and the prefix of the format!("p_{}", k.index) of
    # insert_dummy.rs, and writes coq/C10/Consts.v.  It fails closed only when a literal cannot be found or
    # is ambiguous; it does NOT check the shape of the conditions (the model hard-codes the shape; the
    # correspondence run and the oracle tie it).  Theorem C10_placeholder_constants pins the generated values
    # to the documented ones, so a changed prefix breaks an obligation.
    "translators": [c10_consts_tr],
    "trusted": [
        "C10: translate/c10_consts.py (literal extractor: per retain level of remove_dummy.rs the arguments of starts_with(…), the MethodName::… constants and == \"…\" comparisons; the prefix of the one format!(\"<prefix>{}\", index) of insert_dummy.rs; the string literal of each MethodName constant referred to; identifiers resolved through const/static/let string definitions of the same file; canonical order). It fails closed only when a literal cannot be found or is ambiguous, and is deliberately blind to the SHAPE of the conditions (renaming closure parameters or locals, reordering || operands, hoisting a literal into a const, inlining get_simplified leave Consts.v unchanged — tested on mutated copies of the three source files); shape observations are reported as `translator note:` lines among the assumptions. Its output coq/C10/Consts.v is pinned by theorem C10_placeholder_constants; the shape of the keep-conditions and the three key-derived placeholders are tied by the correspondence run (every level's truth table) and the reference oracle only",
        "C10: the specification side of the theorems is the declarative reading in coq/C10/Theory.v (Placeholder, Kept*, Retained, Spec*, Changes, Rewritten), restated definition by definition in C10_kept_definitions / C10_insert_definitions so that the pinned statements are self-explanatory",
        "C10: the harness' independent reference of the documented rules (harness/src/bin/c10.rs ref_*: literal prefixes, bottom-up Option-returning recursion) is the oracle used to search for failing inputs on the implementation",
        "C10: the model's diff tree (coq/C10/Model.v mdiff) stores IndexMap keys beside the nodes; the harness builds MappingsDiff by inserting into the public IndexMaps",
    ],
    "assumptions": [
        "an IndexMap is modelled as the list of its entries in insertion order and retain as an order-preserving filter; results are compared up to the order of entries (sorted by key on both sides)",
        "no well-formedness hypothesis: the theorems hold for all trees (the filters never look at keys); generated inputs are nevertheless valid IndexMaps (unique keys)",
        "parameter indices are unbounded naturals in the model (usize in the code; indices up to usize::MAX are in the generated cases)",
    ],
    "stated_not_proved": [],
}
