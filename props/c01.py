import os
import sys

sys.path.insert(0, os.path.join(os.path.dirname(os.path.dirname(os.path.abspath(__file__))), "translate"))
import c01_opcodes
import c01_tables

SPEC = {
    "translators": [c01_opcodes.run, c01_tables.run],
    "trusted": [
        "C01: translate/c01_opcodes.py (opcode constants; the first-pass and second-pass match arms of read_code -> coq/C01/Opcodes.v: per opcode the operand bytes skipped / label creation in pass 1, the Instruction constructor and the operand reads in pass 2) and translate/c01_tables.py (attribute dispatch arms of the five attribute loops, visitor calls of read_code, bit tables of the nine flag structs -> coq/C01/Tables.v); both fail closed on any arm shape they do not recognise",
        "C01: the harness' own class-file assembler and JVMS opcode table (harness/src/bin/c01/asm.rs, written from JVMS chapters 4 and 6 independently of duke); its encoder is compared with the model's general encoder on every generated body (CEnc cases)",
        "C01: fbh::classfile (independent strict parser `raw`, facts_from_raw / facts_from_duke / facts_of_spec, assembler with pool-order / attribute-order / encoding knobs, boundary constructions, vendored javac corpus) as the oracle for everything the Coq model does not cover (annotation and element-value trees, type annotations and paths, module, record, nest, inner-class, method-parameter data, signatures, descriptors of members)",
        "C01: the specification side of C01_flags_match_jvms is the hand-transcribed bit table jvms_flags of coq/C01/Theory6.v (JVMS tables 4.1-B, 4.5-A, 4.6-A, 4.7.6-A, 4.7.24, 4.7.25)",
    ],
    "assumptions": [
        "constant-pool strings enter the model decoded (MUTF-8 is not modelled); names and descriptors in the pools are valid (the validity predicates of the name/descriptor newtypes are C18's and are not repeated in the pool model)",
        "label identities are erased: a label is compared by the index of the instruction that carries it (offset = code length: the last label); a label attached to no instruction compares as None",
        "the budget of 65536 expanded bootstrap arguments per instruction (pool.rs MAX_BOOTSTRAP_ARGUMENTS_EXPANDED) is not modelled; the nesting limit of 64 is",
        "the byte-level framing of the label-carrying tables inside the Code attribute (exception table, LineNumberTable, LocalVariable(Type)Table, StackMapTable frame encodings) is not modelled: the model starts from their u16 fields; it is covered by the facts oracle against the independent parser",
        "CLDC StackMap attributes and type annotations inside Code are outside the Coq model (compared by the facts oracle only)",
    ],
    "stated_not_proved": [
        "nothing_dropped_full (coq/C01/Theory6.v): forall c name, c <= 4 -> In name (ctx_known c) -> delivered c name  -- FALSE today: RuntimeVisibleParameterAnnotations / RuntimeInvisibleParameterAnnotations of methods are recognised and skipped (known finding F13p); proved instead: C01_nothing_dropped_partial (outside that class) and C01_nothing_dropped_refuted (the witness)",
        "skeleton (DESIGN 5, C01 Th 0): magic/version gate, this/super/interfaces and member headers are not modelled in Coq; they are compared by the facts oracle (generated classes of versions 49..66 and the corpus) only",
        "pool_layout_independent is proved in the direction 'resolves in p => resolves identically in the re-laid-out p''; the converse (an index that fails in p also fails in p') is not stated: it needs pi to be a bijection on the used indices",
        "read_encode quantifies over the label-carrying tables as lists of u16 fields; that duke parses those fields from the attribute bytes as the JVMS lays them out is not a theorem (facts oracle + CClass correspondence on generated and corpus classes)",
    ],
}
