import os
import sys

sys.path.insert(0, os.path.join(os.path.dirname(os.path.dirname(os.path.abspath(__file__))), "translate"))
import c01_opcodes
import c01_tables

SPEC = {
    "translators": [c01_opcodes.run, c01_tables.run],
    "trusted": [
        "C01: translate/c01_opcodes.py (opcode constants, first-pass and second-pass match arms of read_code -> coq/C01/Opcodes.v) and translate/c01_tables.py (attribute dispatch arms, flag bit tables -> coq/C01/Tables.v); both fail closed on any arm shape they do not recognise",
        "C01: the harness' own class-file assembler and JVMS opcode table (harness/src/bin/c01/asm.rs), written from JVMS chapters 4 and 6 independently of duke; its encoder is compared with the model's encoder on every generated body (CEnc cases)",
    ],
    "assumptions": [
        "constant-pool strings enter the model decoded (MUTF-8 is not modelled); names and descriptors in the pools are valid (the validity predicates are C18's)",
        "label identities are erased: a label is compared by the index of the instruction that carries it",
    ],
    "stated_not_proved": [],
}
