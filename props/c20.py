import os
import sys

sys.path.insert(0, os.path.join(os.path.dirname(os.path.dirname(os.path.abspath(__file__))), "translate"))
import c20_raw_notation


def raw_notation():
    """raw_class_file/src/lib.rs notation!( … ) -> coq/C20/RawGen.v (fail closed)"""
    return c20_raw_notation.run()


SPEC = {
    "translators": [raw_notation],
    "trusted": [
        "C20: translate/c20_raw_notation.py (parses every notation!( … ) of raw_class_file/src/lib.rs with the grammar of the macro's struct/enum arms, fail closed; regenerates coq/C20/RawGen.v at the start of every check; pins the token streams of macros.rs, fn pool_has_utf8, fn pool_get, fn pool_slots and impl ClassFile, which the hand-written interpreters follow; every other impl block must be a `pub fn slots(&self) -> usize { match self { T::A { .. } | … => 2, _ => 1, } }` table, translated into the v_wide flag of the variants; the `Vec<T> slots {…}` field form and `pool_slots(&this.f)` are accepted only in the struct arm and only for a T with such a table)",
        "C20: coq/C20/Fmt.v — the three generic interpreters fwrite/fread/flen are a hand transcription of macros.rs arm by arm; they are validated against ClassFile::{read,to_bytes,write,length} by the correspondence run (corpus, generated raw values of every declared variant with and without Long/Double pool entries, values outside the hypotheses, pools announced with a wrong count, attribute names designating every index of a pool with 8-byte constants and sitting at the first / a middle / the last pool position also directly behind an 8-byte constant, boundary values of every count width, mutated files); ClassFile::write is additionally run through writers that accept 7..64 bytes per call, are interrupted, sit behind a 16-byte BufWriter, or are slices of exactly / one less than length() bytes (oracle only: the model has no notion of a writer)",
        "C20: coq/C20/Jvms.v — JVMS 4.1-4.7 layouts transcribed by hand in the same declaration language (the specification side of layout_is_jvms)",
        "C20: the harness' strict JVMS walker (harness/src/bin/c20.rs mod jvms) and duke::read_class are the independent consumers used by the oracle that searches failing inputs on the implementation",
    ],
    "stated_not_proved": [
        "C20_reads_every_wellformed_class : forall bs, accepted by a reader generated from jvms_env (pool counted in indices, 8-byte constants taking two) -> exists v, read_sty raw_env true fuel None class_ty bs = Ok (v, []) — the link from 'equal layouts' (C20_layout_is_jvms) to 'equal read behaviour' is argued from the layout/dispatch/attr_len theorems and checked by the oracle (independent strict JVMS walker with the two-index rule on corpus/C20, all 571 classes of corpus/classes — 70 of them with long/double constants —, written and mutated files), not proved as one Coq theorem",
        "closed form of `resolves` for attribute variants (attribute_name_index designates the Utf8 entry with the variant's own name, which no earlier variant claims): evaluated by the model on every generated value (case flag hyp) and exercised by the violating-4..7 streams, not stated as a theorem; the closed forms for the stack map frames ARE proved (C20_frames_closed_form)",
    ],
    "assumptions": [
        "ALARMS THAT ARE NOT PROPERTY FAILURES: (1) the translator pins the token hashes of macros.rs, fn pool_has_utf8, fn pool_get, fn pool_slots and impl ClassFile; any edit of those tokens - also a harmless one (a renamed local, an added doc-free helper call, write(&mut Vec) restructured) - makes the check report 'broken: translator: ... the hand-written model of it must be re-validated'. That line means 'the hand-transcribed interpreters of coq/C20/Fmt.v need a human look and a new pin', not 'the property fails'; a real failure additionally shows up as an oracle VIOLATION with a replay (the partial-writer, position, boundary and walker oracles run on the implementation alone and do not depend on the pins) or as a correspondence disagreement. (2) C20_layout_is_jvms compares the regenerated declaration table with the hand-written JVMS table in one direction of trust: a declaration added to lib.rs for an attribute the hand-written table does not know yet (e.g. a future JVMS attribute) fails the instance theorems although nothing is wrong - the JVMS table in coq/C20/Jvms.v has to be extended",
        "'fits' in `resolves` covers every count width: u8 counts (MethodParameters, Runtime*ParameterAnnotations: 255 inside, 256 outside), u16 counts and lengths (interfaces, tables, Utf8 length, constant_pool_count = indices + 1: 65535 inside, 65536 outside - written as 0, read back differs or fails), u32 lengths (attribute bodies of 65535/65536/70000 bytes are nothing special). The harness exercises each boundary deterministically (streams boundary / boundary-violating); the values with about 10^5 numbers are oracle-only in the quick tier (a 65536-byte Utf8 is also a correspondence case in the thorough tier), the 254..257 and 255/256-element ones are correspondence cases whose hypothesis flag the model re-computes",
        "class files fit in memory and are shorter than 2^32 bytes (ClassFile::length is u32 arithmetic); the harness is built with overflow checks, so arithmetic overflow inside a notation expression is a panic (modelled as Err), casts `as u8/u16/u32` truncate",
        "read_write holds for values inside `resolves` (numbers and counts fit their widths, each enum value's written tag selects its own variant when read, nowrite/length expressions evaluate back to the stored data) and environments inside `denv_wf` (every vector element type occupies at least one byte); both are decidable and checked on the generated table / by the correspondence run on generated values",
        "write_read (byte-exactness) holds for inputs on which the strict reader succeeds: every computed count/length/tag in the file is the one the declarations compute",
    ],
}
