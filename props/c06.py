SPEC = {
    "trusted": [
        "C06: the descriptor grammar on the specification side is C18's FieldTypeG/ReturnG/MethodG (through parse_field/parse_method/parse_return, proved equivalent to it in coq/C18/Theory.v); map_ty/map_mty/map_ret (coq/C06/Model.v) define 'exactly the class names mapped'",
        "C06: dfs_pre/first_declaring/preorder (coq/C06/Theory2.v) define 'first declaring type in depth-first pre-order, declaration order'; a type 'declares' a member when its class row has a name in both namespaces and the member row has a name in both (declared, coq/C06/Model.v)",
        "C06: the harness' independent reference (harness/src/bin/c06.rs: own JVMS recogniser with parse -> map -> print, own iterative depth-first search with an explicit stack, row-level reading of the mapping set, X -> Y -> X on the implementation) is the oracle used to search for failing inputs on the implementation",
    ],
    "assumptions": [
        "strings are sequences of code points; java_string's char_indices()/chars() are trusted to yield them",
        "the super class provider is a finite map (JarSuperProv, or a Vec of them where the first provider that knows the class wins) whose get_super_classes never returns Err",
        "acyclic provider (acyclic_rank / decidable acyclicb): the Rust code recurses without bound on a cycle (the harness shows the child process dying with SIGABRT); the model answers Err when its fuel runs out, which the theorems exclude for acyclic providers",
        "IndexMap::insert replaces the value of an equal key: when two rows share a name in `from` the last row answers (modelled by get_last; the theorems that tie answers to rows assume pairwise distinct keys, tables_inj)",
        "round trips: tables_inj (swap_b R) (target names pairwise distinct per table), names_valid R (target class names are binary class names), closedb R c (a class name that is mapped, or is not some other class's target name); all decidable and re-checked by the model on every generated world of the `injective` stream",
        "theorems are about the repaired code (/repo commit 'fix: remapper searches the super types of an owner class that has no mapping')",
    ],
    "stated_not_proved": [
        "roundtrip for INHERITED members (map_member (swap_b R) I' (map_class c) (map_member R I c k) = k with I' = JarSuperProv::remap I): not proved; it needs an extra hypothesis beyond tables_inj — no type earlier in the pre-order may declare, under another source key, the same target key (Sub.m -> n and Base.p -> n with Sub extends Base: Sub.p -> n -> m) — and injectivity of map_class on the provider's keys",
    ],
}
