SPEC = {
    "trusted": [
        "C13: the projection of duke class trees onto the model's abstract classes (harness/src/bin/c13/classes.rs: keyed components as fields, everything the merge only copies as one interned number) and of jars onto entry lists; byte strings of classes are represented by interned identities (equal number = equal bytes)",
        "C13: the harness' own oracle (exact-once entries, side marks, byte identity, member/interface union and order) is what searches for failing inputs on the implementation; the zip container and duke's class reader/writer are exercised, not modelled",
    ],
    "assumptions": [
        "member keys (name, descriptor), interface lists and entry names are duplicate-free within one class / one jar (a class file or an IndexMap/zip directory cannot hold duplicates); duplicates are still run through the correspondence in a separate stream",
        "the two versions of a class agree in version, access flags, deprecated/synthetic flags, super class and name: otherwise dukebox::merge::merge panics (assert) or returns Err; that behaviour is modelled (outcomes Panic/Fail) and observed in separate streams, it is not part of the property",
        "class bytes are readable by duke::read_class; unreadable bytes make the merge return Err (modelled, separate stream)",
    ],
}
