SPEC = {
    "trusted": [
        "C15: the abstraction of a class file to what the model sees (name, super class, interfaces; per method the five access flags the code tests, name, descriptor, whether it has Code and the ordered targets of its invokevirtual/special/static/interface instructions) is done by the harness: for generated jars it is the description the harness' own assembler (harness/src/bin/c15/asm.rs, JVMS 4) built the bytes from; for the vendored javac-17 classes of corpus/C15 and /repo's fixtures it is the vendored .spec file (javap -c plus a 60-line header reader, corpus/C15/mkspec.py), re-confirmed on every run by the independent parser fbh::classfile::raw; for the shared corpus /verif/corpus/classes it is that independent parser's reading",
        "C15: duke's class reader (class file -> visitor events) is outside the model; the correspondence run goes through it on every case (a corpus jar that duke refuses to read is counted and skipped: that is C01/C16's subject)",
        "C15: the harness' independent reference of the documented rule (harness/src/bin/c15/oracle.rs: own descriptor splitter, ancestor closure with a visited set, own inheritance lookup over the mapping mirrors) is the oracle used to search for failing inputs on the implementation",
        "C15: src/specialized_methods/mod.rs is compiled into the harness binary by include!(FBH_REPO); the marker types Official/Intermediary/Named are re-declared there as in /repo/src/main.rs; the private map specialized_to_bridge is observed through SpecializedMethods::remap with a recording identity remapper",
        "C15: descriptor parsing is the C18 model (FB.C18.Model.parse_method, tied to duke's parser by C18's own check)",
        "C15: the string pool z0.. in coq/C15/Run.v is a table of abbreviations read by the harness from that file (case terms are printed as concatenations of pool entries to keep coqc's elaboration time low)",
    ],
    "assumptions": [
        "the theorems speak about runs of the model that do not exhaust the fuel of the hierarchy work-lists: get_ancestors / get_descendants have no visited set, on a cyclic class hierarchy the Rust loops do not terminate (not exercised: such a jar is not loadable by a JVM); fuel is quadratic in the number of hierarchy edges and sufficed for every generated and corpus jar (a fuel shortage would show as a model/implementation disagreement)",
        "mapping sets have distinct class keys (and distinct method keys per class for the membership corollaries): Quill.Mappings.wf, what quill's IndexMaps guarantee; C15_wf_class_keys / C15_wf_meth_keys derive the hypotheses from the decidable wf",
        "frame_delegate is stated under `one_bridge_per_delegate` (the property's own restriction); without it the last bridge in iteration order wins, which C15_mappings_frame states through lastp",
        "the inheritance lookup of the remapper (named_ref, cal_ref) enters the theorems as the modelled function of coq/C15/Model.v (its own specification is C06's subject); C15_mappings_frame holds for every lookup function",
    ],
    "stated_not_proved": [
        "fuel_suffices: forall J, the parent relation of J is acyclic -> the number of hierarchy paths from any class is below jar_fuel J -> get_specialized J <> Err  (only C15_walk_fuel_mono — more fuel never changes an answer — is proved)",
    ],
}
