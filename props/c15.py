SPEC = {
    "trusted": [
        "C15: the abstraction of a class file to (name, super class, interfaces, methods with the five access flags the code tests, name, descriptor, ordered invoke targets) is done by the harness: for generated jars it is the description the harness' own assembler (harness/src/bin/c15/asm.rs, JVMS 4) built the bytes from; for the vendored javac-17 classes and /repo's fixtures it is the vendored .spec file derived once from `javap -v` output (corpus/C15/mkspec.py)",
        "C15: duke's class reader (class file -> visitor events) is outside the model; the correspondence run goes through it on every case",
        "C15: the harness' independent reference of the documented rule (harness/src/bin/c15/oracle.rs) is the oracle used to search for failing inputs on the implementation",
        "C15: src/specialized_methods/mod.rs is compiled into the harness binary by include!; the marker types Official/Intermediary/Named are re-declared there as in /repo/src/main.rs",
    ],
    "assumptions": [
        "the theorems speak about runs of the model that do not exhaust the fuel of the hierarchy work-lists (get_ancestors / get_descendants have no visited set: on a cyclic class hierarchy the Rust loops do not terminate; fuel is quadratic in the number of hierarchy edges, which covers every generated and corpus jar)",
        "mapping sets are well-formed (Quill.Mappings.wf: distinct keys per level) — what quill's IndexMaps guarantee",
    ],
    "stated_not_proved": [],
}
