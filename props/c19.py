import os
import sys

sys.path.insert(0, os.path.join(os.path.dirname(os.path.dirname(os.path.abspath(__file__))), "translate"))
from c19_scope_table import c19_scope_table

SPEC = {
    "translators": [c19_scope_table],
    "harness_timeout": 1200,
    "trusted": [
        "C19: translate/c19_scope_table.py regenerates coq/C19/ScopeGen.v (scope enum, Display/FromStr names, the_scope_table arms, the unwrap_or defaults) from maven_dependency_resolver/src/lib.rs on every run and fails closed on anything it does not recognise",
        "C19: the specification side of scope_table_is_maven is the table of 'Introduction to the Dependency Mechanism' transcribed by hand (coq/C19/Theory.v maven_scope_table); the documentation lists compile/provided/runtime/test only, the system row and column follow its sentence 'system is similar to provided'",
        "C19: XML deserialisation (serde-xml-rs) is outside the model; the harness checks for every generated document - a third of them rendered as realistic XML (XML declaration, xmlns/xsi attributes, comments, CRLF/indentation, padded and CDATA values, children in any order, relativePath, name/licenses/scm/properties/build with plugin dependencies/repositories/modules, empty <dependencies/> and <dependencyManagement/>) - that serde yields the abstract POM handed to the model (field-by-field comparison of the re-serialised MavenPom; fields unknown to the harness are ignored). A document for which the tie cannot be established is a note in the evidence (distribution key xml_tie_not_established), not a failure: the oracle judges the crate on the XML it was given",
        "C19: the Downloader is modelled as a finite map from URLs to POMs; async scheduling is not modelled (the resolver awaits sequentially)",
        "C19: the harness' reference resolver (harness/src/bin/c19/reference.rs), written from Maven's documented rules, is the oracle used to search for failing inputs on the implementation",
    ],
    "assumptions": [
        "POM universes are acyclic (parents, imports, dependencies): the model recurses on fuel (number of documents + 1) and answers Err when it runs out; C19_fuel_suffices shows that in a universe passing the decidable rank check acyclic_check (coq/C19/Acyclic.v; generated universes pass it, stream acyclic-check) the fuel is irrelevant, C19_fuel_monotone that an Ok answer never depends on it. The real code has no recursion limiter: on a cyclic universe it only stops because the harness' Downloader gives up after a download budget (stream cyclic)",
        "supported subset of the property: literal versions, no property interpolation, ranges, exclusions or profiles; managed entries declared before imports; children not re-declaring a parent's dependency (streams violating the last two are compared with the model only)",
        "EXCLUDED from the oracle (classified, counted as import_vs_inherited_management_*): universes in which an imported BOM and a managed entry INHERITED from a parent fix different things for one artifact. The documentation ranks own entries over imports, the first import over later ones, and the child over the parent, but not an import against the parent's entries. The crate (and the model: C19_merge_parent_spec, management = own expanded in place ++ parent's) lets the import win; Maven's model builder assembles inheritance first and its importer only adds still-unmanaged keys, so the parent's entry wins (witness in the notes of every run: parent manages g:x:1.0, child imports a BOM managing g:x:2.0, child depends on g:x: crate 2.0, Maven 1.0). The harness computes both readings with its reference resolver; where they differ the crate must match one of them (else VIOLATION) and which one is recorded. Proposed as known finding F19p",
        "round-trip theorems: coordinate fields free of ':' (and of ' @ ' for FoundDependency); the repository's name is not printed, parsing sets it to the url",
        "note: C19_tree_children_spec + C19_tree_children_complete: a node's children are exactly the followed dependencies and nothing is asked of the cut ones (cut before resolution); exercised by stream cut-before-resolution (9 ways of cutting x 7 kinds of unresolvable target x 2 depths, plus followed-edge controls) and by dangling cut edges in a quarter of the generated POMs",
        "note: harness conditions that are notes, not failures: XML tie not established, a 'broken' document that deserialises (universe skipped), download budget hit on an acyclic universe (universe skipped), stack smaller than 1 GiB for the harness thread (fallback 512/256/128 MiB, recorded)",
    ],
    "stated_not_proved": [],
}
