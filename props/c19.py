import os
import sys

sys.path.insert(0, os.path.join(os.path.dirname(os.path.dirname(os.path.abspath(__file__))), "translate"))
from c19_scope_table import c19_scope_table

SPEC = {
    "translators": [c19_scope_table],
    "harness_timeout": 1200,
    "trusted": [
        "C19: translate/c19_scope_table.py regenerates coq/C19/ScopeGen.v (scope enum, Display/FromStr names, the_scope_table arms, the unwrap_or defaults) from maven_dependency_resolver/src/lib.rs on every run and fails closed on anything it does not recognise",
        "C19: the specification side of scope_table_is_maven is the table of 'Introduction to the Dependency Mechanism' transcribed by hand (coq/C19/Theory.v maven_scope_table); the documentation lists compile/provided/runtime/test only, the system row and column follow its sentence 'system is similar to provided'",
        "C19: XML deserialisation (serde-xml-rs) is outside the model; the harness checks for every generated document that serde yields exactly the abstract POM handed to the model (Debug text comparison)",
        "C19: the Downloader is modelled as a finite map from URLs to POMs; async scheduling is not modelled (the resolver awaits sequentially)",
        "C19: the harness' reference resolver (harness/src/bin/c19/reference.rs), written from Maven's documented rules, is the oracle used to search for failing inputs on the implementation",
    ],
    "assumptions": [
        "POM universes are acyclic (parents, imports, dependencies): the model recurses on fuel (number of documents + 1) and answers Err when it runs out; C19_fuel_suffices shows that in a universe passing the decidable rank check acyclic_check (coq/C19/Acyclic.v; generated universes pass it, stream acyclic-check) the fuel is irrelevant, C19_fuel_monotone that an Ok answer never depends on it. The real code has no recursion limiter: on a cyclic universe it only stops because the harness' Downloader gives up after a download budget (stream cyclic)",
        "supported subset of the property: literal versions, no property interpolation, ranges, exclusions or profiles; managed entries declared before imports; children not re-declaring a parent's dependency (streams violating the last two are compared with the model only)",
        "when an imported BOM and a parent both manage one artifact the documentation fixes no precedence; code, model and reference take the import (it is expanded in place, the parent's entries come after)",
        "round-trip theorems: coordinate fields free of ':' (and of ' @ ' for FoundDependency); the repository's name is not printed, parsing sets it to the url",
    ],
    "stated_not_proved": [],
}
