SPEC = {
    "trusted": [
        "C16: the harness sandbox (harness/src/bin/c16/sbx.rs): child processes of the harness binary under `ulimit -v 1048576 -s 8192 -t 120` plus a 10 s wall-clock watchdog per input and a counting global allocator; exit status / signal / panic message / peak heap are what is observed",
        "C16: the independent class-file walker and assembler of the harness (harness/src/bin/c16/cf.rs) decide where the length/count/index/offset fields are",
        "C16: Panic in the model stands for a Rust panic (overflow check, slice index) and, as stand-ins justified only by the correspondence run, for unbounded recursion (out of fuel) and for an allocation not bounded by the input (alloc_ok)",
    ],
    "assumptions": [
        "the theorems cover the modelled skeleton only: label arithmetic and id counter, stack-map offset accumulation, the first pass over the bytecode (cursor slice, operand skipping, branch targets, switch counts and entries), bootstrap-argument resolution, element-value / Enigma CLASS nesting, read_u8_vec, `&line[idents..]`, descriptor parsing; everything else of the parsers (attribute dispatch, pool lookups, tree building, the class writer) is covered by the sandboxed search only",
        "text lines are `String`s (BufRead::lines yields valid UTF-8 or an error): utf8_valid is the model of that guarantee",
        "memory and stack are runtime phenomena: the limits (1 GiB address space, 8 MiB stack, heap <= 32 MiB + 512 x input size) are the operational meaning of 'does not overflow the stack / allocate memory unrelated to the input size'",
    ],
    "stated_not_proved": [
        "no_panic_read_class : forall bytes, read_class_out bytes <> Panic  (whole class reader; only the skeleton above is modelled)",
        "writer_total : forall bytes c, read_class bytes = Ok c -> write_class_out c <> Panic  (class writer not modelled; searched by the harness: every accepted class is written and re-read)",
        "no_panic_tiny_v2 / tiny_diff / enigma / nests as whole parsers (only their one partial operation, the line slice, and the CLASS recursion are modelled)",
        "bootstrap_work_bounded : the number of resolve calls for one instruction is at most max_expanded + 1 (the budget is modelled and threaded, the bound is not proved)",
    ],
    "harness_timeout": 3000,
}
