SPEC = {
    "trusted": [
        "C16: the harness sandbox (harness/src/bin/c16/sbx.rs): child processes of the harness binary under `ulimit -v 1048576 -s 8192 -t 120` plus a 10 s wall-clock watchdog per input and a counting global allocator; exit status / signal / panic message / peak heap are what is observed",
        "C16: the independent class-file walker and assembler of the harness (harness/src/bin/c16/cf.rs) decide where the length/count/index/offset fields are",
        "C16: Panic in the model stands for a Rust panic (overflow check, slice index) and, as stand-ins justified only by the correspondence run, for unbounded recursion (out of fuel) and for an allocation not bounded by the input (alloc_ok)",
    ],
    "assumptions": [
        "the theorems cover the modelled skeleton only: label arithmetic and id counter, stack-map offset accumulation, the first pass over the bytecode (cursor slice, operand skipping, branch targets, switch counts and entries), bootstrap-argument resolution with its per-instruction budget, element-value / Enigma CLASS nesting, read_u8_vec, `&line[idents..]`, descriptor parsing, the writer's u8 argument size (get_arguments_size); everything else of the parsers (attribute dispatch, pool lookups, tree building, the rest of the class writer) is covered by the sandboxed search only",
        "the bootstrap budget model charges one unit per get_loadable_nested call with nesting > 0 and creates ONE budget per instruction (as_invoke_dynamic: before the loop over the arguments; get_loadable: per ldc); that the code really does so is tied by the correspondence cases CBootN (accept/refuse and the exact number of expanded arguments found in the accepted tree, sums 65535/65536/65537 over 1..255 top-level arguments) and by the harness oracle that counts the Loadables of every instruction of every accepted class (> 65536 is a violation)",
        "tiny_v2::unescape iterates `chars()` (no byte index is computed), so it is total by construction and modelled on code points (unescape_cp; correspondence CUnesc on every string of length <= 3 over {backslash, n, e-acute, euro, U+10400, c} and the backslash-before-multi-byte cells). An implementation that slices the String at byte offsets would have to slice at char boundaries only; no theorem covers that — it is searched: backslash before 2-, 3-, 4-byte characters and combining marks, at the end of the line, doubled, before TAB, multi-byte characters next to every structural character, in every comment position of tiny v2 / tiny diff / Enigma and every field of nests",
        "text lines are `String`s (BufRead::lines yields valid UTF-8 or an error): utf8_valid is the model of that guarantee",
        "memory and stack are runtime phenomena: the limits (1 GiB address space, 8 MiB stack, heap <= 32 MiB + 512 x input size) are the operational meaning of 'does not overflow the stack / allocate memory unrelated to the input size'",
    ],
    "stated_not_proved": [
        "no_panic_read_class : forall bytes, read_class_out bytes <> Panic  (whole class reader; only the skeleton above is modelled)",
        "writer_total : forall bytes c, read_class bytes = Ok c -> write_class_out c <> Panic  (class writer not modelled; searched by the harness: every accepted class is written and re-read)",
        "no_panic_tiny_v2 / tiny_diff / enigma / nests as whole parsers (only their one partial operation, the line slice, and the CLASS recursion are modelled)",
        "writer_arguments_size_is_the_only_u8 : get_arguments_size is modelled and proved overflow-free; other narrowing conversions of the writer (e.g. counts `as u16`) are not modelled",
    ],
    "harness_timeout": 3000,
}
