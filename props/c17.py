import os
import sys

sys.path.insert(0, os.path.join(os.path.dirname(os.path.dirname(os.path.abspath(__file__))), "translate"))
import c17_attr_table

SPEC = {
    "translators": [c17_attr_table.attr_table],
    "trusted": [
        "C17: translate/c17_attr_table.py (reads every attribute loop of duke/src/class_reader.rs, skip_attributes, the Break arms and both passes over the members into coq/C17/AttrTable.v; fails closed on any arm it cannot classify)",
        "C17: the hand-written Gallina model coq/C17/Model.v of class_reader.rs at the level of attribute framing (header, pool entry sizes, counts, name index, attribute_length, skip / read, nested Code and Record), driven by the generated tables",
        "C17: the recording visitors of harness/src/bin/c17/rec.rs (written against duke's public visitor traits; fields and record components through duke's own tree builders) and the projection / position / replay oracles of harness/src/bin/c17/main.rs",
        "C17: replay (ClassFile::accept) is checked on the implementation only (tree equality, event multisets for the full and for every masked visitor); no Coq model of tree/*.rs accept",
    ],
    "assumptions": [
        "attribute bodies that the reader parses by their own grammar consume exactly attribute_length bytes (theorems: hypothesis g_resp on an arbitrary grammar function g; correspondence: g_len, and every compared stream is checked by the model to decode to structures satisfying wf_b)",
        "visitors are total: a visit_* call returns Ok (the tree builder's `only one X attribute is allowed` errors are outside the model)",
        "contents of parsed attributes, instruction decoding and label creation are not modelled; that a partial visitor receives the same contents (labels up to renaming, a label may be absent where nothing delivered refers to it) is checked by the harness oracle on the implementation",
        "field and record-component visitors cannot be written outside duke (crate-private traits): at these two levels the implementation is observed through duke's own tree builders (all interests; accept/decline only), their events as a multiset",
        "seeking past the end of the stream is not modelled (the model answers Err); streams in the domain of the theorems never do it",
    ],
    "stated_not_proved": [
        "replay : forall c v, wf c -> events (ClassFile::accept (tree (enc c)) v) == project v (events (read (enc c) v_full)) with attribute-level events as a multiset and members / instructions in order, and tree (accept (tree bs) tree_builder) = tree bs  -- no Coq model of duke/src/tree/*.rs accept(); checked on the implementation by the harness for every class and every visitor configuration (3 divergences found there were fixed in /repo: 7fcc9dd, 39dba73, 72c6a4f)",
        "content_projection : the VALUES handed to a partial visitor equal those of the full read (the Coq events carry the raw body bytes of each delivered attribute, not the parsed values; equality of the parsed values is the harness oracle)",
    ],
}
