import os
import sys

sys.path.insert(0, os.path.join(os.path.dirname(os.path.dirname(os.path.abspath(__file__))), "translate"))
import c17_attr_table
import c17_accept_table

SPEC = {
    "translators": [c17_attr_table.attr_table, c17_accept_table.accept_table],
    "trusted": [
        "C17: translate/c17_attr_table.py (reads every attribute loop of duke/src/class_reader.rs, skip_attributes, the Break arms and both passes over the members into coq/C17/AttrTable.v; fails closed on any arm it cannot classify)",
        "C17: translate/c17_accept_table.py (reads, per level, the visit call of every reader arm (class_reader.rs), every fn of the five tree-builder impls (visitor/implementations/tree.rs: field and insert_if_empty / assignment / extend / push) and every statement of the five accept() functions (tree/{class,field,method,method/code,record}.rs: order, interest flag, emptiness guard, visit call, Break arms, the declined visit_code) into coq/C17/AcceptTable.v; fails closed on any fn body / statement it cannot classify)",
        "C17: the hand-written Gallina model coq/C17/Model.v of class_reader.rs at the level of attribute framing (header, pool entry sizes, counts, name index, attribute_length, skip / read, nested Code and Record), driven by the generated tables",
        "C17: the hand-written Gallina model coq/C17/Replay.v of the tree-building visitor and of accept(): an interpreter of the generated tables (which event fills which field and how; which statement emits what under which flag); the contents of a field are the body bytes of the attribute(s) that filled it, of which the model reads only the leading u16 (number of annotations / rows, which decides is_empty()); instructions, exception table, last label and labels are not modelled (their statements are in the table, their events are not in the vocabulary), max_stack / max_locals are always both present (as after any read)",
        "C17: the recording visitors of harness/src/bin/c17/rec.rs (written against duke's public visitor traits; fields and record components through duke's own tree builders) and the projection / position / replay oracles of harness/src/bin/c17/main.rs; harness/src/bin/c17/edge.rs (edits of class files through fbh::classfile::raw)",
    ],
    "assumptions": [
        "attribute bodies that the reader parses by their own grammar consume exactly attribute_length bytes (theorems: hypothesis g_resp on an arbitrary grammar function g; correspondence: g_len, and every compared stream is checked by the model to decode to structures satisfying wf_b)",
        "visitors other than the tree builder are total: a visit_* call returns Ok; the tree builder's `only one X attribute is allowed` errors ARE modelled (build = Err), and the correspondence run checks that the model's builder succeeds exactly when duke::read_class does",
        "replay theorems: hypothesis `build strict T AT (events of the full read) = Ok tree` (decidable; evaluated by the correspondence run on every class); that every wf_b class without duplicate at-most-once attributes builds is not proved (see stated_not_proved)",
        "contents of parsed attributes, instruction decoding and label creation are not modelled; that a partial visitor receives the same contents (labels up to renaming, a label may be absent where nothing delivered refers to it) and that the replayed contents equal the read contents is checked by the harness oracle on the implementation (debug text of every value, tree PartialEq)",
        "field and record-component visitors cannot be written outside duke (crate-private traits): at these two levels the implementation is observed through duke's own tree builders (all interests; accept/decline only), their events as a multiset, an annotations attribute without annotations is invisible there",
        "seeking past the end of the stream is not modelled (the model answers Err); streams in the domain of the theorems never do it",
    ],
    "stated_not_proved": [
        "build_succeeds : forall c, wf_b tables c = true -> no item of c has two attributes of one at-most-once kind -> exists tree, build false tables accept_tables_gen (full read of enc c) = Ok tree  -- the replay theorems carry `build ... = Ok tree` as a (decidable) hypothesis instead; the correspondence run evaluates it on every class and compares it with duke::read_class succeeding",
        "replay_full : forall c, wf_b tables c = true -> forall tree, build false ... = Ok tree -> forall v, sim_trace (accept_class v tree) (project v (full read))  -- FALSE as stated (C17_replay_full_refuted); proved restricted by the decidable class replay_inexact (C17_replay_known / C17_replay_decidable); witnesses C17_replay_empty_annotations_refuted (finding F20a), C17_replay_rowless_locals_refuted (finding F20b), C17_replay_duplicate_refuted (precondition)",
        "content_projection / content_replay : the VALUES handed to a partial visitor, and the values replayed from a tree, equal those of the full read (the Coq events carry the raw body bytes of each delivered attribute, not the parsed values; instruction / exception-table / label events are not in the model's vocabulary); equality of the parsed values is the harness oracle (debug text, PartialEq of rebuilt trees)",
    ],
}
