import os
import sys

sys.path.insert(0, os.path.join(os.path.dirname(os.path.dirname(os.path.abspath(__file__))), "translate"))
import c17_attr_table

SPEC = {
    "translators": [c17_attr_table.attr_table],
    "trusted": [
        "C17: translate/c17_attr_table.py (reads every attribute loop of duke/src/class_reader.rs into coq/C17/AttrTable.v; fails closed on any arm it cannot classify)",
        "C17: the recording visitors of harness/src/bin/c17/rec.rs (written against duke's public visitor traits) and the projection oracle of harness/src/bin/c17/main.rs",
    ],
    "assumptions": [
        "attribute bodies that the reader parses by their own grammar consume exactly attribute_length bytes on the generated inputs (class files written by javac 17 and by the harness assembler); the theorems are stated for an arbitrary grammar function g under the hypothesis that declared lengths are honest w.r.t. g",
        "visitors are total: a visit_* call returns Ok (the tree builder's `only one X attribute is allowed` errors are outside the model)",
        "field and record-component visitors cannot be written outside duke (crate-private traits): at these two levels the implementation is observed through duke's own tree builders (all interests), accept/decline only",
    ],
}
