import os
import sys

sys.path.insert(0, os.path.join(os.path.dirname(os.path.dirname(os.path.abspath(__file__))), "translate"))
import c07_remap_table


def c07_remap_table_translator():
    return c07_remap_table.run()


c07_remap_table_translator.__name__ = "translate/c07_remap_table.py"

SPEC = {
    "translators": [c07_remap_table_translator],
    "trusted": [
        "C07: translate/c07_remap_table.py (python3, fail closed) — regenerates coq/C07/RemapTable.v (type_defs, impls, rows, class_suffix) from dukebox/src/remap.rs and duke/src/{tree,visitor} on every run; it recognises a fixed set of body / expression shapes and reports anything else as an error of the check",
        "C07: the specification side is coq/C07/Spec.v (leaf reference types, closure over duke's type definitions, position rules, the explicit exclusions: generic signatures, invokedynamic / dynamic-constant names, local-variable and parameter names, InnerClass.inner_name, module and package names, unknown attributes) written by hand from the property text and JVMS 4",
        "C07: coq/C07/WithC06.v instantiates the abstract remapper with C06's model of quill's BRemapperImpl (coq/C06/Model.v, theorems of Props/C06.v): C07_composes_with_C06 rests on C06's model being faithful (C06's own correspondence run)",
        "C07: coq/C07/Model.v models the default methods of quill's ARemapper/BRemapper traits and remap_jar_entry_name_java / the entry loop of remap by hand; tied to the code by the correspondence run; remap_enum_const uses C18's models of FieldDescriptorSlice::parse and FieldName::check_valid",
        "C07: correspondence cases are written as text (grammar in coq/C07/Run.v), packed 7 bytes per Uint63 literal and decoded in Gallina (p_case / D7, evaluated by vm_compute with Coq's primitive 63-bit integers); a text that does not decode counts as a disagreement",
        "C07: the harness oracle spec_remap (harness/src/bin/c07/spec.rs) is written from the same specification of reference positions, not from remap.rs, and uses the remapper's own answers; the zip container, duke's class writer (C02) and, for reading the output, the independent parser harness/src/classfile/raw.rs are trusted as far as the comparison goes",
    ],
    "assumptions": [
        "entry names: every class entry is named <internal class name>.class (multi-release entries META-INF/versions/N/… are renamed by their path, not by the class inside — outside the hypothesis)",
        "the remapper does not send two entry names of the jar to the same name (IndexMap::insert would silently replace the first; modelled by im_insert and exercised by a separate stream)",
        "remapper answers are functions of their arguments (the harness records them as a finite table)",
        "the super-type graph handed to quill's remapper is acyclic (its search recurses without bound on a cycle: C06's hypothesis acyclic_rank; the harness drops classes that would close a cycle)",
        "the remapper does not rename java/lang/String (JVMS 4.7.2 ties string ConstantValues to a field of exactly that type; a jar remapped that way is rejected by the independent parser)",
        "access flags are compared on the bits the JVMS defines (duke's flag structs cannot hold the others)",
    ],
    "stated_not_proved": [
        "every_ref_remapped_full / nothing_else_changes_full (coq/C07/Theory.v): the table theorems without the known_row restriction — refuted today by C07_every_ref_remapped_refuted / C07_nothing_else_changes_refuted (record components, module data)",
        "remap_tree: a generic interpreter of the table over arbitrary class trees with the theorem `table rows satisfy Th1/Th2 => remap_tree = spec_remap on every tree` is not written; the step from rows to whole classes is covered by the correspondence run (every reference position of generated and corpus classes, before and after)",
    ],
}
