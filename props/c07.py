import os
import sys

sys.path.insert(0, os.path.join(os.path.dirname(os.path.dirname(os.path.abspath(__file__))), "translate"))
import c07_remap_table


def c07_remap_table_translator():
    return c07_remap_table.run()


c07_remap_table_translator.__name__ = "translate/c07_remap_table.py"

SPEC = {
    "translators": [c07_remap_table_translator],
    "trusted": [
        "C07: translate/c07_remap_table.py (python3, fail closed) — regenerates coq/C07/RemapTable.v (type_defs, impls, rows, class_suffix) from dukebox/src/remap.rs and duke/src/{tree,visitor} on every run; it recognises a fixed set of body / expression shapes and reports anything else as an error of the check",
        "C07: the specification side is coq/C07/Spec.v (leaf reference types, closure over duke's type definitions, position rules, the explicit exclusions: generic signatures, invokedynamic / dynamic-constant names, local-variable and parameter names, InnerClass.inner_name, module and package names, unknown attributes) written by hand from the property text and JVMS 4",
        "C07: coq/C07/WithC06.v instantiates the abstract remapper with C06's model of quill's BRemapperImpl (coq/C06/Model.v, theorems of Props/C06.v): C07_composes_with_C06 rests on C06's model being faithful (C06's own correspondence run)",
        "C07: coq/C07/Model.v models the default methods of quill's ARemapper/BRemapper traits and remap_jar_entry_name_java / the entry loop of remap by hand; tied to the code by the correspondence run; remap_enum_const uses C18's models of FieldDescriptorSlice::parse and FieldName::check_valid",
        "C07: correspondence cases are written as text (grammar in coq/C07/Run.v), packed 7 bytes per Uint63 literal and decoded in Gallina (p_case / D7, evaluated by vm_compute with Coq's primitive 63-bit integers); a text that does not decode counts as a disagreement",
        "C07: whole trees — coq/C07/Tree.v: the universe of tree values typed by the regenerated type definitions (has_ty), the generic interpreter remap_val of a table (impl dispatch, rows, class name handed down as CNone / CThisClass / CSelfName say, the joint positions Field/Method name+descriptor, EnclosingMethod, enum constants, dropped fields) and the specification spec_remap_val (from Spec.v and the type definitions only). The meaning of the table's action vocabulary (apply_leaf / apply_pos / pass_ctx) is hand-written and shared by interpreter and specification where both name the same remapper method; the interpreter is tied to remap.rs by the CTree correspondence cases (whole trees in, whole trees out)",
        "C07: CTree cases: the harness serialises the `{:?}` rendering of duke's tree (harness/src/classfile/dbg.rs parser; the one custom rendering, Annotation, written back as its struct) without any knowledge of the class tree; the schema-directed reading into tree values (of_dbg in coq/C07/Run.v, flag words -> is_<word> fields, unit variants, tuple fields 0,1,..) is part of the comparison and is trusted as far as the comparison goes; f32/f64 leaves are compared through their Debug text (NaN payloads are not distinguished)",
        "C07: coq/C07/Laws.v, Laws2.v, Occ.v prove the identity law, the composition law (remap g after remap f = remap (comp f g)) and locality / member_refs_use_owner for every occurrence about the SPECIFICATION spec_val and carry them to remap_val gen_table through Th 6 (C07_remap_val_spec_full): they are theorems about the interpreter of the regenerated table, not about the Rust traversal; the implementation side of the two laws is the harness' two-step oracle (remap(remap(jar,f),id) and remap(remap(jar,f),g) against remap(jar, Compose(f,g)), compared byte for byte); Laws2.v uses C18's model and theorems of the field-descriptor parser (parse_print_field, print_parse_field, obj_class_name_spec) for the enum-constant position",
        "C07: the harness oracle spec_remap (harness/src/bin/c07/spec.rs) is written from the same specification of reference positions, not from remap.rs, and uses the remapper's own answers; the zip container, duke's class writer (C02) and, for reading the output, the independent parser harness/src/classfile/raw.rs are trusted as far as the comparison goes",
    ],
    "assumptions": [
        "entry names: every class entry is named <internal class name>.class. An entry that is not (multi-release layout META-INF/versions/N/…, WEB-INF/classes/…) is renamed by its whole path, not by the class inside: modelled (entry_name), compared (multi-release stream, also with mapping rows for the paths), proved (C07_entry_name_path) and the clause 'stored under the name of its remapped class' REFUTED for it (C07_multi_release_entry_not_moved; the unrestricted statement is the unproved Definition stored_under_remapped_class_full) — known finding F07m: the harness classifies exactly that witness class (entry = <non-empty prefix>/<binary name of the class inside>.class, class renamed, path kept) and judges everything else about the entry",
        "the remapper does not send two entry names of the jar to the same name (IndexMap::insert would silently replace the first; modelled by im_insert and exercised by a separate stream); C07_remap_entries_injective derives this from distinct input names and a remapper that is injective on the jar's class entries",
        "composition law: the FIRST remapper's answers can be read again (wf_first: class answers not empty, without `;`, not starting with `[`, valid exactly when the name asked about is; field answers are field names with the class-by-class rewritten descriptor) — C07_valid_answers_wf derives it from valid answers, C07_composition_example shows it cannot be dropped; the harness' first remappers are quill's over generated mappings, which satisfy it",
        "entry time stamps: the DOS last-modified time of every entry is preserved (compared); the extended-timestamp extra field is read by the code but cannot be written with the zip crate in use (not compared)",
        "remapper answers are functions of their arguments (the harness records them as a finite table)",
        "the super-type graph handed to quill's remapper is acyclic (C06's hypothesis acyclic_rank; on a cycle the search answers an error since 6383b89 — it recursed without bound before; the harness drops classes that would close a cycle, so that the remapper has answers)",
        "the remapper does not rename java/lang/String (JVMS 4.7.2 ties string ConstantValues to a field of exactly that type; a jar remapped that way is rejected by the independent parser)",
        "access flags are compared on the bits the JVMS defines (duke's flag structs cannot hold the others)",
        "the name of a record component is a valid unqualified name (JVMS 4.7.30): remap asks about it as the field of that name and returns an error otherwise (modelled: DRecord; has_ty does not demand it, the interpreter and the specification both answer Err)",
    ],
    "stated_not_proved": [
        "remap_val = the Rust traversal of remap.rs is not a theorem (there is no Rust semantics here): it is the CTree correspondence (whole class trees of corpus and generated classes, input and output of remap_class, compared node by node with remap_val gen_table, and with spec_remap_val) plus the translator's fail-closed recognition of every impl body",
        "each class entry is stored under the name of its remapped class, for entries NOT named by their class (stored_under_remapped_class_full): false of the code (C07_multi_release_entry_not_moved)",
        "the step from the tree returned by remap_class to the bytes in the output jar (duke's writer, C02; zip container) is covered by the spec_remap oracle on the re-opened jar, not by a theorem (instruction lists are compared instruction by instruction with targets as instruction indices; every run includes jars whose classes have method bodies over 32 KiB with forward and backward jumps beyond the 16-bit range — javac's BigMethod, classfile::gen::boundary, harness/src/bin/c07/far.rs — every class renamed and so re-written by duke's multi-attempt layout; the harness fails the run if that stream is empty or was not compared); F01p (parameter annotations not in duke's tree) and the empty Record attribute (duke's tree cannot represent it: C01's F13r; reported under F18c) live there",
    ],
}
