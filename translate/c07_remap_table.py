#!/usr/bin/env python3
"""C07 translator: what dukebox/src/remap.rs does with every field of the duke class tree.

reads   /repo/dukebox/src/remap.rs              every `impl Mappable… for T` (and the free functions)
        /repo/duke/src/tree/**/*.rs             struct / enum / string-newtype definitions (field -> type)
        /repo/duke/src/visitor/**/*.rs          only for tree types that remap.rs rebuilds and that live there
                                                (StackMapData, VerificationTypeInfo)
writes  /verif/coq/C07/RemapTable.v             type_defs, impls, rows, entry-name constants

Per impl the body must have one of these shapes (anything else is an error of the check — fail closed):

  leaf        remapper.<method>(self) / remapper.<method>(&self)
  identity    Ok(self)      or   eprintln!(..); return Ok(self); todo!(..)         (signatures, MethodParameter)
  struct      [let name_and_desc = remapper.map_field|map_method(this_class, &self.name, &self.descriptor)?;]
              Ok(T { field: <expr>, ... })             every field of T exactly once
  RecordComponent   struct shape after `let field_name = FieldName::try_from(self.name.into_inner())?;
              let name_and_desc = remapper.map_field(this_class, &field_name, &self.descriptor)?;`, the name
              rebuilt by `RecordName::try_from(name_and_desc.name.into_inner())?`
  enum        use T::*; Ok(match self { <pattern> => <expr>, ... })                every variant exactly once
  EnclosingMethod   the if-let on self.method with map_method_ref / map_class_any (recognised literally)
  InnerClass        struct shape with the nested identity helper map_inner_class_name

and per field expression

  self.f                                          Copied
  self.f.remap(remapper)? | (&self.f).remap(remapper)? | self.f.as_ref().remap(remapper)?        Rec
  self.f.remap_with_class_name(remapper, this_class | &self.name)?                               RecWith
  name_and_desc.name | name_and_desc.desc                                                        Decl…
  remapper.<method>(&x)?                                                                         Direct
  Vec::new() | None                                                                              Dropped
"""
import hashlib
import os
import re
import sys

sys.path.insert(0, os.path.join(os.path.dirname(os.path.dirname(os.path.abspath(__file__))), "lib"))
import vcheck  # noqa: E402  (REPO = repository under test, COQ = Coq project the generated file goes into)

REPO = vcheck.REPO
OUT = os.path.join(vcheck.COQ, "C07", "RemapTable.v")

PRIMS = {"u8", "u16", "u32", "u64", "usize", "i8", "i16", "i32", "i64", "f32", "f64", "bool", "JavaString", "String"}
REMAPPER_METHODS = {
    "map_class": "MClass", "map_class_any": "MClassAny",
    "map_field_desc": "MFieldDesc", "map_method_desc": "MMethodDesc", "map_return_desc": "MReturnDesc",
    "map_field_ref": "MFieldRef", "map_method_ref": "MMethodRef",
}


class Fail(Exception):
    pass


def strip_comments(src):
    out = []
    i, n = 0, len(src)
    while i < n:
        c = src[i]
        if c == '"':
            j = i + 1
            while src[j] != '"':
                j += 2 if src[j] == "\\" else 1
            out.append(src[i:j + 1])
            i = j + 1
        elif src.startswith("//", i):
            while i < n and src[i] != "\n":
                i += 1
        elif src.startswith("/*", i):
            j = src.index("*/", i)
            out.append(" ")
            i = j + 2
        elif c == "'" and i + 2 < n and (src[i + 2] == "'" or (src[i + 1] == "\\" and src[i + 3] == "'")):
            j = i + (3 if src[i + 2] == "'" else 4)
            out.append(src[i:j])
            i = j
        else:
            out.append(c)
            i += 1
    return "".join(out)


OPEN = {"(": ")", "[": "]", "{": "}"}


def match_close(src, i):
    """src[i] in ([{ -> index of the matching closer (string literals respected)."""
    stack = [OPEN[src[i]]]
    j = i + 1
    while j < len(src):
        c = src[j]
        if c == '"':
            j += 1
            while src[j] != '"':
                j += 2 if src[j] == "\\" else 1
        elif c in OPEN:
            stack.append(OPEN[c])
        elif c in ")]}":
            if c != stack.pop():
                raise Fail("unbalanced bracket near %r" % src[max(0, j - 30):j + 10])
            if not stack:
                return j
        j += 1
    raise Fail("unbalanced bracket")


def split_top(s, sep=","):
    """split at top-level separators (brackets (),[],{} and the <> of generic arguments respected)."""
    parts, depth, angle, cur, i = [], 0, 0, [], 0
    while i < len(s):
        c = s[i]
        if c == '"':
            j = i + 1
            while s[j] != '"':
                j += 2 if s[j] == "\\" else 1
            cur.append(s[i:j + 1])
            i = j + 1
            continue
        if c in "([{":
            depth += 1
        elif c in ")]}":
            depth -= 1
        elif c == "<" and sep == "," and re.match(r"[A-Za-z_0-9]", s[i - 1:i] or " "):
            angle += 1      # Name<…>: generic arguments
        elif c == ">" and angle > 0 and s[i - 1:i] not in ("-", "="):
            angle -= 1
        if c == sep and depth == 0 and angle == 0:
            parts.append("".join(cur))
            cur = []
        else:
            cur.append(c)
        i += 1
    last = "".join(cur)
    if last.strip():
        parts.append(last)
    return [p.strip() for p in parts]


def squash(s):
    return re.sub(r"\s+", "", s)


# ---------------------------------------------------------------------------------------------
# (b) type definitions of the duke tree

def parse_type(t):
    t = t.strip()
    if t.startswith("(") and t.endswith(")"):
        parts = split_top(t[1:-1])
        if len(parts) != 2:
            raise Fail("tuple type of arity %d: %s" % (len(parts), t))
        return ("pair", parse_type(parts[0]), parse_type(parts[1]))
    m = re.fullmatch(r"([A-Za-z_][A-Za-z_0-9]*)\s*<(.*)>", t, re.S)
    if m:
        head, arg = m.group(1), m.group(2)
        if len(split_top(arg)) != 1:
            raise Fail("generic with several arguments: %s" % t)
        if head == "Option":
            return ("opt", parse_type(arg))
        if head == "Vec":
            return ("vec", parse_type(arg))
        return ("app", head, parse_type(arg))
    if re.fullmatch(r"[A-Za-z_][A-Za-z_0-9]*", t):
        if t in PRIMS:
            return ("prim", t)
        return ("name", t)
    raise Fail("type expression not understood: %r" % t)


def parse_fields(body, what):
    """`[pub|pub(crate)] name: Type,` list -> [(name, type, vis)]"""
    out = []
    for part in split_top(body):
        part = re.sub(r"#\[[^\]]*\]", "", part).strip()
        if not part:
            continue
        m = re.fullmatch(r"(pub\s*\(crate\)\s+|pub\s+)?([a-z_][a-z_0-9]*)\s*:\s*(.+)", part, re.S)
        if not m:
            raise Fail("%s: field not understood: %r" % (what, part))
        out.append((m.group(2), parse_type(m.group(3)), squash(m.group(1) or "private")))
    return out


def parse_defs(path, defs, errs):
    src = strip_comments(open(path).read())
    rel = os.path.relpath(path, REPO)
    # string newtypes
    for m in re.finditer(r"make_string_str_like!\s*\(", src):
        end = match_close(src, m.end() - 1)
        body = re.sub(r"#\[[^\]]*\]", "", src[m.end():end])
        items = [x.strip() for x in body.split(";") if x.strip()]
        if len(items) != 2:
            errs.append("%s: make_string_str_like! with %d items" % (rel, len(items)))
            continue
        mo = re.fullmatch(r"pub\s+([A-Za-z0-9_]+)\s*\(\s*JavaString\s*\)", items[0])
        mb = re.fullmatch(r"pub\s+([A-Za-z0-9_]+)\s*\(\s*JavaStr\s*\)", items[1])
        if not mo or not mb:
            errs.append("%s: make_string_str_like! items not understood: %r" % (rel, items))
            continue
        defs.setdefault(mo.group(1), []).append(("str", rel))
    # structs
    for m in re.finditer(r"\bpub(?:\s*\(crate\))?\s+struct\s+([A-Za-z0-9_]+)\s*(<\s*([A-Za-z0-9_]+)\s*>)?\s*([({;])", src):
        name, param, opener = m.group(1), m.group(3), m.group(4)
        if opener == ";":
            defs.setdefault(name, []).append(("struct", rel, None, []))
            continue
        end = match_close(src, m.end() - 1)
        body = src[m.end():end]
        if opener == "(":
            fields = []
            for k, part in enumerate(split_top(body)):
                part = re.sub(r"^pub(\s*\(crate\))?\s+", "", part.strip())
                fields.append((str(k), parse_type(part), "pub"))
        else:
            fields = parse_fields(body, "%s: struct %s" % (rel, name))
        if param:
            fields = [(f, subst_param(t, param), v) for f, t, v in fields]
        defs.setdefault(name, []).append(("struct", rel, param, fields))
    # enums
    for m in re.finditer(r"\bpub(?:\s*\(crate\))?\s+enum\s+([A-Za-z0-9_]+)\s*\{", src):
        name = m.group(1)
        end = match_close(src, m.end() - 1)
        variants = []
        for part in split_top(src[m.end():end]):
            part = re.sub(r"#\[[^\]]*\]", "", part).strip()
            if not part:
                continue
            mv = re.fullmatch(r"([A-Z][A-Za-z0-9_]*)\s*(.*)", part, re.S)
            if not mv:
                raise Fail("%s: enum %s: variant not understood: %r" % (rel, name, part))
            vname, rest = mv.group(1), mv.group(2).strip()
            if rest == "":
                variants.append((vname, "unit", []))
            elif rest.startswith("("):
                if match_close(rest, 0) != len(rest) - 1:
                    raise Fail("%s: enum %s: variant %s not understood" % (rel, name, vname))
                variants.append((vname, "tuple", [(str(k), parse_type(p)) for k, p in enumerate(split_top(rest[1:-1]))]))
            elif rest.startswith("{"):
                if match_close(rest, 0) != len(rest) - 1:
                    raise Fail("%s: enum %s: variant %s not understood" % (rel, name, vname))
                variants.append((vname, "named", [(f, t) for f, t, _ in parse_fields(rest[1:-1], "%s: enum %s::%s" % (rel, name, vname))]))
            else:
                raise Fail("%s: enum %s: variant %s not understood: %r" % (rel, name, vname, rest))
        defs.setdefault(name, []).append(("enum", rel, variants))


def subst_param(t, p):
    if t[0] == "name" and t[1] == p:
        return ("param",)
    if t[0] in ("opt", "vec"):
        return (t[0], subst_param(t[1], p))
    if t[0] == "pair":
        return ("pair", subst_param(t[1], p), subst_param(t[2], p))
    if t[0] == "app":
        return ("app", t[1], subst_param(t[2], p))
    return t


def type_names(t):
    if t[0] == "name":
        return [t[1]]
    if t[0] in ("opt", "vec"):
        return type_names(t[1])
    if t[0] == "pair":
        return type_names(t[1]) + type_names(t[2])
    if t[0] == "app":
        return [t[1]] + type_names(t[2])
    return []


def base_name(t):
    """the type whose impl a `.remap` on a value of type t ends up in (Option / Vec are element-wise)."""
    while t[0] in ("opt", "vec"):
        t = t[1]
    if t[0] == "name":
        return t[1]
    if t[0] == "app":
        return t[1]
    return None


def walk_rs(d):
    for root, _, files in sorted(os.walk(d)):
        for fn in sorted(files):
            if fn.endswith(".rs"):
                yield os.path.join(root, fn)


def load_defs(errs):
    tree, visitor = {}, {}
    for p in walk_rs(os.path.join(REPO, "duke", "src", "tree")):
        parse_defs(p, tree, errs)
    for p in walk_rs(os.path.join(REPO, "duke", "src", "visitor")):
        try:
            parse_defs(p, visitor, [])
        except Fail:
            pass  # visitor files are only consulted for names the tree refers to
    # reachable from ClassFile; a name defined in several files (ArrayType) is resolved to the
    # definition in the file of the type that refers to it, otherwise it must be unique
    def resolve(n, from_file):
        cands = tree.get(n) or visitor.get(n) or []
        same = [d for d in cands if d[1] == from_file]
        if len(same) == 1:
            return same[0]
        if len(cands) == 1:
            return cands[0]
        if not cands:
            errs.append("type %s is referenced by the class tree but its definition was not found under duke/src/tree or duke/src/visitor" % n)
        else:
            errs.append("type %s (referenced from %s) has %d definitions: %s" % (n, from_file, len(cands), [d[1] for d in cands]))
        return None
    reach, todo = {}, [("ClassFile", None)]
    while todo:
        n, ff = todo.pop()
        d = resolve(n, ff)
        if d is None:
            continue
        if n in reach:
            if reach[n] is not d:
                errs.append("type name %s resolves to two different definitions (%s, %s)" % (n, reach[n][1], d[1]))
            continue
        reach[n] = d
        if d[0] == "struct":
            for _, t, _ in d[3]:
                todo += [(x, d[1]) for x in type_names(t)]
        elif d[0] == "enum":
            for _, _, fs in d[2]:
                for _, t in fs:
                    todo += [(x, d[1]) for x in type_names(t)]
    return reach


# ---------------------------------------------------------------------------------------------
# (a) remap.rs

BLANKET = {
    # normalised header -> normalised body that is expected (element-wise / by-reference delegation)
    "impl<T>MappableforTwherefor<'a>&'aT:Mappable<T>":
        "fnremap(self,remapper:&implBRemapper)->Result<T>{(&self).remap(remapper)}",
    "impl<T,U>Mappable<Option<U>>forOption<T>whereT:Mappable<U>":
        "fnremap(self,remapper:&implBRemapper)->Result<Option<U>>{self.map(|x|x.remap(remapper)).transpose()}",
    "impl<T,U>MappableWithClassName<Option<U>>forOption<T>whereT:MappableWithClassName<U>":
        "fnremap_with_class_name(self,remapper:&implBRemapper,this_class:&ObjClassName)->Result<Option<U>>{self.map(|x|x.remap_with_class_name(remapper,this_class)).transpose()}",
    "impl<T,U>Mappable<Vec<U>>forVec<T>whereT:Mappable<U>":
        "fnremap(self,remapper:&implBRemapper)->Result<Vec<U>>{self.into_iter().map(|i|i.remap(remapper)).collect()}",
    "impl<T,U>MappableWithClassName<Vec<U>>forVec<T>whereT:MappableWithClassName<U>":
        "fnremap_with_class_name(self,remapper:&implBRemapper,this_class:&ObjClassName)->Result<Vec<U>>{self.into_iter().map(|i|i.remap_with_class_name(remapper,this_class)).collect()}",
}

TRAITS = {
    "traitMappable<Output=Self>:Sized": "fnremap(self,remapper:&implBRemapper)->Result<Output>;",
    "traitMappableWithClassName<Output=Self>:Sized": "fnremap_with_class_name(self,remapper:&implBRemapper,this_class:&ObjClassName)->Result<Output>;",
}

ENCLOSING_METHOD_BODY = squash("""
    if let Some(method) = self.method {
        let method_ref = method.with_class(self.class);
        let method_ref = remapper.map_method_ref(&method_ref)?;
        let name_and_desc = MethodNameAndDesc { name: method_ref.name, desc: method_ref.desc, };
        Ok(EnclosingMethod { class: method_ref.class, method: Some(name_and_desc), })
    } else {
        Ok(EnclosingMethod { class: remapper.map_class_any(&self.class)?, method: None, })
    }""")

INNER_HELPER = squash("""
    fn map_inner_class_name(remapper: &impl BRemapper, name: &ClassName, outer_class: Option<&ClassName>, inner_name: &JavaString) -> Result<JavaString> {
        return Ok(inner_name.clone());
        todo!()
    }""")
INNER_NAME_EXPR = squash("""self.inner_name.map(|inner_name| map_inner_class_name(remapper, &self.inner_class, self.outer_class.as_ref(), &inner_name)).transpose()?""")

ENUM_CONST_LET = squash("""
    let const_name = match (type_name.parse(), <&FieldNameSlice>::try_from(const_name.as_java_str())) {
        (Ok(ParsedFieldDescriptor(Type::Object(enum_class))), Ok(field_name)) =>
            remapper.map_field(&enum_class, field_name, &type_name)?.name.into_inner(),
        _ => const_name,
    };""")

FREE_FNS = {
    # name -> list of regexes (on the whitespace-free body) that must all match
    "remap": [
        r"letmutopened=jar\.open\(\)\?;",
        r"forkeyinopened\.entry_keys\(\)\{letentry=opened\.by_entry_key\(key\)\?;",
        r"letname=remap_jar_entry_name\(entry\.name\(\),&remapper\)\?;",
        r"attr:entry\.attrs\(\),",
        r"content:entry\.to_jar_entry_enum\(\)\?\.try_map_both\(\|class\|Ok\(ClassRepr::Parsed\{class:remap_class\(&remapper,class\)\?\}\),\|other\|remap_other\(&remapper,other\)\)\?,",
        r"resulting_entries\.insert\(name,entry\);",
        r"Ok\(ParsedJar\{entries:resulting_entries\}\)$",
    ],
    "remap_jar_entry_name": [
        r"^letname:&JavaStr=JavaStr::from_str\(name\);letname=remap_jar_entry_name_java\(name,remapper\)\?;letname=name\.into_string\(\)\.unwrap\(\);Ok\(name\)$",
    ],
    "remap_jar_entry_name_java": [
        r'^ifletSome\(name_without_class\)=name\.strip_suffix\("(?P<suffix>[^"\\]*)"\)\{',
        r"letclass_name=unsafe\{ObjClassNameSlice::from_inner_unchecked\(name_without_class\)\};letname=remapper\.map_class\(class_name\)\?;",
        r'Ok\(format!\("\{name\}(?P<suffix2>[^"\\{}]*)"\)\.into\(\)\)\}else\{',
        r"Ok\(name\.to_owned\(\)\)\}$",
    ],
    "remap_class": [r"^class\.read\(\)\?\.remap\(remapper\)$"],
    "remap_other": [r"^letdata=other\.get_data_owned\(\);Ok\(data\)$"],
}


def top_items(src):
    """top-level items of remap.rs: (kind, header, body) with kind in use/fn/trait/impl."""
    items, i, n = [], 0, len(src)
    while i < n:
        m = re.compile(r"\s*").match(src, i)
        i = m.end()
        if i >= n:
            break
        if src.startswith("use ", i):
            j = src.index(";", i)
            items.append(("use", src[i:j], ""))
            i = j + 1
            continue
        m = re.compile(r"(pub\s+)?(fn|trait|impl)\b").match(src, i)
        if not m:
            raise Fail("remap.rs: unexpected top-level item: %r" % src[i:i + 60])
        j = src.index("{", i)
        end = match_close(src, j)
        items.append((m.group(2), src[i:j].strip(), src[j + 1:end]))
        i = end + 1
    return items


def expr_action(expr, field, ctx):
    """classify one field expression; ctx: with_class (bool), decl (None|'field'|'method'), binder (variable standing for the value)"""
    e = squash(expr)
    v = ctx["binder"](field)          # how the original value is written: self.f or the pattern variable
    if field in ctx.get("prebound", {}):
        if e != field:
            raise Fail("%s.%s: rebound by a let, then not used as such: %s" % (ctx["type"], field, expr.strip()))
        return ctx["prebound"][field]
    if e == v:
        return "Copied"
    if e in (v + ".remap(remapper)?", "(&" + v + ").remap(remapper)?", v + ".as_ref().remap(remapper)?"):
        return "Remapped (MRec CNone)"
    if e == v + ".remap_with_class_name(remapper,this_class)?":
        if not ctx["with_class"]:
            raise Fail("this_class used outside a MappableWithClassName impl: %s" % expr)
        return "Remapped (MRec CThisClass)"
    if e == v + ".remap_with_class_name(remapper,&self.name)?":
        if ctx["type"] != "ClassFile":
            raise Fail("&self.name passed as class name outside ClassFile: %s" % expr)
        return "Remapped (MRec CSelfName)"
    m = re.fullmatch(r"remapper\.([a-z_]+)\(&" + re.escape(v) + r"\)\?", e)
    if m:
        if m.group(1) not in REMAPPER_METHODS:
            raise Fail("unknown remapper method in %s" % expr)
        return "Remapped (%s)" % REMAPPER_METHODS[m.group(1)]
    if e in ("Vec::new()", "None"):
        return "Dropped"
    if ctx.get("decl") in ("DField", "DMethod") and e == "name_and_desc.name" and field == "name":
        return "Remapped (MDeclName %s)" % ctx["decl"]
    if ctx.get("decl") == "DRecord" and e == "RecordName::try_from(name_and_desc.name.into_inner())?" and field == "name":
        return "Remapped (MDeclName DRecord)"
    if ctx.get("decl") and e == "name_and_desc.desc" and field == "descriptor":
        return "Remapped (MDeclDesc %s)" % ctx["decl"]
    if ctx["type"] == "InnerClass" and field == "inner_name" and ctx.get("inner_helper") and e == INNER_NAME_EXPR:
        return "Copied"
    raise Fail("%s.%s: expression not understood: %s" % (ctx["type"], field, expr.strip()))


def parse_struct_literal(text, tname, fields, ctx, rows):
    """text = `T { f: e, ... }`"""
    m = re.match(r"\s*([A-Za-z0-9_]+)\s*\{", text)
    if not m or m.group(1) != tname:
        raise Fail("%s: struct literal of %s expected, found %r" % (tname, tname, text[:40]))
    end = match_close(text, m.end() - 1)
    if text[end + 1:].strip():
        raise Fail("%s: trailing text after struct literal: %r" % (tname, text[end + 1:]))
    seen = []
    for part in split_top(text[m.end():end]):
        mm = re.match(r"([a-z_][a-z_0-9]*)\s*:\s*(.*)$", part, re.S)
        if mm:
            f, e = mm.group(1), mm.group(2)
        elif re.fullmatch(r"[a-z_][a-z_0-9]*", part):
            f, e = part, part   # shorthand
        else:
            raise Fail("%s: field initialiser not understood: %r" % (tname, part))
        if f in seen:
            raise Fail("%s: field %s initialised twice" % (tname, f))
        seen.append(f)
        ftypes = dict((n, t) for n, t in fields)
        if f not in ftypes:
            raise Fail("%s: remap.rs initialises field %s which duke's definition does not have" % (tname, f))
        rows.append((tname, ctx.get("variant", ""), f, ftypes[f], expr_action(e, f, ctx)))
    missing = [n for n, _ in fields if n not in seen]
    if missing:
        raise Fail("%s: fields of duke's definition not initialised in remap.rs: %s" % (tname, missing))


def parse_enum_match(body, tname, variants, with_class, rows):
    b = body.strip()
    m = re.match(r"use\s+%s::\*\s*;\s*Ok\s*\(\s*match\s+self\s*\{" % re.escape(tname), b)
    if not m:
        raise Fail("%s: `use %s::*; Ok(match self { … })` expected" % (tname, tname))
    end = match_close(b, m.end() - 1)
    if squash(b[end + 1:]) != ")":
        raise Fail("%s: trailing text after match" % tname)
    vmap = dict((v, (kind, fs)) for v, kind, fs in variants)
    seen = []
    for arm in split_top(b[m.end():end]):
        if "=>" not in arm:
            raise Fail("%s: match arm not understood: %r" % (tname, arm))
        pat, expr = arm.split("=>", 1)
        pats = [p.strip() for p in split_top(pat, "|")]
        expr = expr.strip()
        for p in pats:
            mp = re.fullmatch(r"([A-Z][A-Za-z0-9_]*)\s*(.*)", p, re.S)
            if not mp or mp.group(1) not in vmap:
                raise Fail("%s: pattern %r does not name a variant" % (tname, p))
            v, rest = mp.group(1), mp.group(2).strip()
            if v in seen:
                raise Fail("%s: variant %s matched twice" % (tname, v))
            seen.append(v)
            kind, fs = vmap[v]
            if squash(expr) == "self":
                # unchanged as a whole: every payload is copied
                ok = (kind == "unit" and rest == "") or \
                     (kind == "tuple" and re.fullmatch(r"\(\s*_(\s*,\s*_)*\s*\)", rest) and len(split_top(rest[1:-1])) == len(fs)) or \
                     (kind == "named" and squash(rest) == "{..}")
                if not ok:
                    raise Fail("%s: pattern %r does not fit variant %s" % (tname, p, v))
                for f, t in fs:
                    rows.append((tname, v, f, t, "Copied"))
                continue
            if len(pats) != 1:
                raise Fail("%s: or-pattern with a rebuilding arm: %r" % (tname, arm))
            if kind == "unit":
                if rest != "" or squash(expr) != v:
                    raise Fail("%s: unit variant %s must be rebuilt as itself" % (tname, v))
                continue
            if kind == "tuple":
                if not (rest.startswith("(") and rest.endswith(")")):
                    raise Fail("%s: pattern %r does not fit tuple variant %s" % (tname, p, v))
                binders = split_top(rest[1:-1])
                me = re.fullmatch(r"%s\s*\((.*)\)" % re.escape(v), expr, re.S)
                if not me or len(binders) != len(fs) or not all(re.fullmatch(r"[a-z_][a-z_0-9]*", x) and x != "_" for x in binders):
                    raise Fail("%s: arm %r not understood" % (tname, arm))
                exprs = split_top(me.group(1))
                if len(exprs) != len(fs):
                    raise Fail("%s: arm %r rebuilds %s with another arity" % (tname, arm, v))
                for (f, t), bnd, e in zip(fs, binders, exprs):
                    ctx = {"type": tname, "with_class": with_class, "binder": (lambda _f, bnd=bnd: bnd)}
                    rows.append((tname, v, f, t, expr_action(e, f, ctx)))
                continue
            # named
            if not (rest.startswith("{") and rest.endswith("}")):
                raise Fail("%s: pattern %r does not fit struct variant %s" % (tname, p, v))
            binders = split_top(rest[1:-1])
            if sorted(binders) != sorted(f for f, _ in fs):
                raise Fail("%s: pattern %r must bind exactly the fields of %s" % (tname, p, v))
            ctx = {"type": tname, "variant": v, "with_class": with_class, "binder": (lambda f: f)}
            if expr.startswith("{"):
                # a block: recognised `let`s that rebind a payload, then the struct literal
                if match_close(expr, 0) != len(expr) - 1:
                    raise Fail("%s: arm %r not understood" % (tname, arm))
                inner = expr[1:-1].strip()
                k = inner.find(";")
                while k >= 0 and inner[:k].count("{") != inner[:k].count("}"):
                    k = inner.find(";", k + 1)
                if k < 0 or squash(inner[:k + 1]) != ENUM_CONST_LET or (tname, v) != ("ElementValue", "Enum"):
                    raise Fail("%s::%s: block arm differs from the recognised enum-constant shape" % (tname, v))
                ctx["prebound"] = {"const_name": "Remapped (MEnumConst)"}
                expr = inner[k + 1:].strip()
            parse_struct_literal(expr, v, fs, ctx, rows_variant := [])
            for (_, _, f, t, a) in rows_variant:
                rows.append((tname, v, f, t, a))
    missing = [v for v, _, _ in variants if v not in seen]
    if missing:
        raise Fail("%s: variants without a match arm: %s" % (tname, missing))


def parse_impl(header, body, defs, impls, rows):
    h = squash(header)
    m = re.fullmatch(r"impl(<T>)?(Mappable|MappableWithClassName)(?:<([A-Za-z]+)>)?for(&)?([A-Za-z]+)(<T>)?", h)
    if not m:
        raise Fail("remap.rs: impl header not understood: %s" % header)
    trait, out, byref, tname = m.group(2), m.group(3), m.group(4), m.group(5)
    if out and out != tname:
        raise Fail("remap.rs: impl for %s produces another type %s" % (tname, out))
    if tname in impls:
        raise Fail("remap.rs: two impls for %s" % tname)
    with_class = trait == "MappableWithClassName"
    fn = "remap_with_class_name" if with_class else "remap"
    sig = "fn%s(self,remapper:&implBRemapper%s)->Result<%s>" % (fn, ",this_class:&ObjClassName" if with_class else "", out or "Self")
    b = body.strip()
    j = b.index("{")
    if squash(b[:j]) != sig or match_close(b, j) != len(b) - 1:
        raise Fail("remap.rs: impl for %s: method signature not understood: %s" % (tname, b[:j]))
    inner = b[j + 1:-1].strip()
    sq = squash(inner)
    d = defs.get(tname)
    if d is None:
        raise Fail("remap.rs: impl for %s, which is not a type of the class tree" % tname)

    m = re.fullmatch(r"remapper\.([a-z_]+)\(&?self\)", sq)
    if m:
        if m.group(1) not in REMAPPER_METHODS:
            raise Fail("impl for %s: unknown remapper method %s" % (tname, m.group(1)))
        impls[tname] = "ILeaf %s" % REMAPPER_METHODS[m.group(1)]
        return
    if sq == "Ok(self)" or re.fullmatch(r'eprintln!\("[^"]*"\);returnOk\(self\);todo!\("[^"]*"\)', sq):
        impls[tname] = "IIdentity"
        return
    if tname == "EnclosingMethod":
        if sq != ENCLOSING_METHOD_BODY:
            raise Fail("impl for EnclosingMethod: body differs from the recognised shape")
        fs = dict((f, t) for f, t, _ in d[3])
        if sorted(fs) != ["class", "method"]:
            raise Fail("EnclosingMethod: fields %s" % sorted(fs))
        impls[tname] = "IFields false"
        rows.append((tname, "", "class", fs["class"], "Remapped (MEnclClass)"))
        rows.append((tname, "", "method", fs["method"], "Remapped (MEnclMethod)"))
        return
    if d[0] == "enum":
        parse_enum_match(inner, tname, d[2], with_class, rows)
        impls[tname] = "IFields %s" % ("true" if with_class else "false")
        return
    if d[0] != "struct":
        raise Fail("impl for %s: neither leaf, identity, struct nor enum shape" % tname)
    ctx = {"type": tname, "with_class": with_class, "binder": (lambda f: "self." + f)}
    text = inner
    if tname == "InnerClass":
        k = text.index("{")
        e = match_close(text, k)
        if squash(text[:e + 1]) != INNER_HELPER:
            raise Fail("impl for InnerClass: helper map_inner_class_name differs from the recognised identity")
        ctx["inner_helper"] = True
        text = text[e + 1:].strip()
    RECORD_PRELUDE = squash("""
        let field_name = FieldName::try_from(self.name.into_inner())?;
        let name_and_desc = remapper.map_field(this_class, &field_name, &self.descriptor)?;""")
    if tname == "RecordComponent":
        # the component is asked about as the field of its name: the name goes through FieldName (an
        # error when it is no field name) and comes back through RecordName
        k = -1
        for _ in range(2):
            k = text.find(";", k + 1)
        if k < 0 or squash(text[:k + 1]) != RECORD_PRELUDE or not with_class:
            raise Fail("impl for RecordComponent: prelude differs from the recognised map_field(this_class, field name of the component, descriptor)")
        ctx["decl"] = "DRecord"
        text = text[k + 1:].strip()
    m = re.match(r"let\s+name_and_desc\s*=\s*remapper\.(map_field|map_method)\(\s*this_class\s*,\s*&self\.name\s*,\s*&self\.descriptor\s*\)\?\s*;", text)
    if m:
        want = {"Field": "map_field", "Method": "map_method"}.get(tname)
        if want != m.group(1) or not with_class:
            raise Fail("impl for %s: %s(this_class, …) not expected here" % (tname, m.group(1)))
        ctx["decl"] = "DField" if tname == "Field" else "DMethod"
        text = text[m.end():].strip()
    m = re.fullmatch(r"Ok\s*\((.*)\)", text, re.S)
    if not m:
        raise Fail("impl for %s: `Ok(%s { … })` expected, found %r" % (tname, tname, text[:50]))
    parse_struct_literal(m.group(1), tname, [(f, t) for f, t, _ in d[3]], ctx, rows)
    impls[tname] = "IFields %s" % ("true" if with_class else "false")


# dukebox/src/storage/zip_impls.rs, `impl JarEntry for ZipFile`: which entries of an archive are directories, classes
# (handed to remap_class) and other entries (copied).  The whole decision is pinned; the suffix literal is read.
ZIP_ENTRY_ENUM = (
    r'fnto_jar_entry_enum\(mutself\)->Result<JarEntryEnum<Self::Class,Self::Other>>\{'
    r'Ok\(ifself\.is_dir\(\)\{JarEntryEnum::Dir\}else\{'
    r'letdata=\{letcapacity=self\.size\(\)\.try_into\(\)\.unwrap_or_else\(\|x\|\{info!\([^;]*\);0\}\);'
    r'letmutdata=Vec::with_capacity\(capacity\);self\.read_to_end\(&mutdata\)\?;data\};'
    r'ifself\.name\(\)\.ends_with\("(?P<zip_suffix>[^"\\]*)"\)\{JarEntryEnum::Class\(VecClass\(data\)\)\}else\{JarEntryEnum::Other\(data\)\}'
    r'\}\)\}'
)


def parse_zip_impls(consts, errs):
    path = os.path.join(REPO, "dukebox", "src", "storage", "zip_impls.rs")
    try:
        sq = squash(strip_comments(open(path).read()))
    except OSError as ex:
        errs.append("zip_impls.rs: %r" % ex)
        return
    ms = list(re.finditer(ZIP_ENTRY_ENUM, sq))
    if len(ms) != 1 or sq.count("fnto_jar_entry_enum") != 1:
        errs.append("zip_impls.rs: fn to_jar_entry_enum of `impl JarEntry for ZipFile` not recognised (directory / `.class` suffix / other)")
        return
    consts["zip_suffix"] = ms[0].group("zip_suffix")


def parse_remap(defs, errs):
    path = os.path.join(REPO, "dukebox", "src", "remap.rs")
    raw = open(path).read()
    src = strip_comments(raw)
    impls, rows, consts = {}, [], {}
    seen_blanket, seen_traits, seen_fns = set(), set(), set()
    for kind, header, body in top_items(src):
        try:
            if kind == "use":
                continue
            h = squash(header)
            if kind == "trait":
                if TRAITS.get(h) != squash(body):
                    raise Fail("remap.rs: trait not recognised: %s" % header)
                seen_traits.add(h)
            elif kind == "fn":
                m = re.match(r"(?:pub)?fn([a-z_]+)", h)
                name = m.group(1) if m else "?"
                if name not in FREE_FNS:
                    raise Fail("remap.rs: free function %s is not known to the translator" % name)
                sq = squash(body)
                for rx in FREE_FNS[name]:
                    mm = re.search(rx, sq)
                    if not mm:
                        raise Fail("remap.rs: fn %s: expected shape /%s/ not found" % (name, rx))
                    for k, v in mm.groupdict().items():
                        consts[k] = v
                seen_fns.add(name)
            elif h in BLANKET:
                if squash(body) != BLANKET[h]:
                    raise Fail("remap.rs: container impl `%s` is no longer element-wise" % header)
                seen_blanket.add(h)
            else:
                parse_impl(header, body, defs, impls, rows)
        except Fail as ex:
            errs.append(str(ex))
    for h in BLANKET:
        if h not in seen_blanket:
            errs.append("remap.rs: container impl `%s` not found" % h)
    for h in TRAITS:
        if h not in seen_traits:
            errs.append("remap.rs: `%s` not found" % h)
    for f in FREE_FNS:
        if f not in seen_fns:
            errs.append("remap.rs: fn %s not found" % f)
    parse_zip_impls(consts, errs)
    if consts.get("suffix") is None or consts.get("suffix") != consts.get("suffix2"):
        errs.append("remap.rs: entry-name suffix stripped (%r) and appended (%r) differ" % (consts.get("suffix"), consts.get("suffix2")))
    return impls, rows, consts, hashlib.sha256(raw.encode()).hexdigest()


# ---------------------------------------------------------------------------------------------
# Coq output

def coq_ty(t):
    if t[0] == "prim":
        return '(TPrim "%s")' % t[1]
    if t[0] == "name":
        return '(TName "%s")' % t[1]
    if t[0] == "param":
        return "TParam"
    if t[0] == "opt":
        return "(TOpt %s)" % coq_ty(t[1])
    if t[0] == "vec":
        return "(TVec %s)" % coq_ty(t[1])
    if t[0] == "pair":
        return "(TPair %s %s)" % (coq_ty(t[1]), coq_ty(t[2]))
    if t[0] == "app":
        return '(TApp "%s" %s)' % (t[1], coq_ty(t[2]))
    raise Fail("type %r" % (t,))


def coq_str(s):
    return "[" + ";".join(str(ord(c)) for c in s) + "]"


def emit(defs, impls, rows, consts, digest):
    L = []
    L.append("(* GENERATED by translate/c07_remap_table.py from %s/dukebox/src/remap.rs and %s/duke/src/{tree,visitor} — do not edit." % (REPO, REPO))
    L.append("   sha256(remap.rs) = %s *)" % digest)
    L.append("From Coq Require Import String.")
    L.append("From FB Require Import C07.Schema.")
    L.append("Local Open Scope string_scope.")
    L.append("")
    L.append("(* (b) the class tree: every type reachable from ClassFile, in name order *)")
    L.append("Definition type_defs : list tdef := [")
    items = []
    for n in sorted(defs):
        d = defs[n]
        if d[0] == "str":
            items.append('  DStr "%s"' % n)
        elif d[0] == "struct":
            fs = "; ".join('("%s", %s, %s)' % (f, coq_ty(t), "true" if v == "pub" else "false") for f, t, v in d[3])
            items.append('  DStruct "%s" [%s]' % (n, fs))
        else:
            vs = ";\n      ".join('("%s", [%s])' % (v, "; ".join('("%s", %s)' % (f, coq_ty(t)) for f, t in fs)) for v, _, fs in d[2])
            items.append('  DEnum "%s" [\n      %s]' % (n, vs))
    L.append(";\n".join(items))
    L.append("].")
    L.append("")
    L.append("(* (a) remap.rs: the impl each type has *)")
    L.append("Definition impls : list (string * impl_kind) := [")
    L.append(";\n".join('  ("%s", %s)' % (n, impls[n]) for n in sorted(impls)))
    L.append("].")
    L.append("")
    L.append("(* (a) remap.rs: per rebuilt struct field / enum variant payload, what happens to it *)")
    L.append("Definition rows : list row := [")
    L.append(";\n".join('  mkRow "%s" "%s" "%s" %s (%s)' % (s, v, f, coq_ty(t), a) for s, v, f, t, a in rows))
    L.append("].")
    L.append("")
    L.append("(* remap_jar_entry_name_java: the suffix that is stripped and appended again *)")
    L.append("Definition class_suffix : list N := %s%%N." % coq_str(consts.get("suffix") or ""))
    L.append("")
    L.append("(* zip_impls.rs to_jar_entry_enum: the suffix of the entries that are read as classes (others are copied) *)")
    L.append("Definition zip_class_suffix : list N := %s%%N." % coq_str(consts.get("zip_suffix") or ""))
    L.append("")
    return "\n".join(L)


def run():
    """-> list of error strings (empty = table regenerated)."""
    errs = []
    try:
        defs = load_defs(errs)
        impls, rows, consts, digest = parse_remap(defs, errs)
        # every impl'd type is part of the tree; every row's struct has an impl
        for s in set(r[0] for r in rows):
            if s not in impls:
                errs.append("rows for %s without impl" % s)
        if errs:
            return errs
        text = emit(defs, impls, rows, consts, digest)
    except Fail as ex:
        return errs + [str(ex)]
    except (OSError, ValueError, IndexError, KeyError) as ex:
        return errs + ["translator failed: %r" % ex]
    os.makedirs(os.path.dirname(OUT), exist_ok=True)
    old = open(OUT).read() if os.path.exists(OUT) else None
    if old != text:
        with open(OUT, "w") as f:
            f.write(text)
    return []


c07_remap_table = run

if __name__ == "__main__":
    import sys
    es = run()
    for e in es:
        print("ERROR:", e)
    print("wrote", OUT) if not es else None
    sys.exit(1 if es else 0)
