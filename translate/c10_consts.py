#!/usr/bin/env python3
"""C10 translator: placeholder constants of the dummy filters, read from the Rust source.

reads   <vcheck.REPO>/quill/src/action/remove_dummy.rs   (the name tests of each of the four `retain` levels)
        <vcheck.REPO>/quill/src/action/insert_dummy.rs   (the `format!("p_{}", k.index)` placeholder of parameters)
        <vcheck.REPO>/duke/src/tree/method.rs            (MethodName::INIT / MethodName::CLINIT)
writes  <vcheck.COQ>/C10/Consts.v

What it does — and what it deliberately does NOT do.  It extracts LITERALS only:

  * per retain level of `remove_dummy` (the level is the last path segment of the receiver of
    `.retain(`: classes / fields / methods / parameters; text of nested retains excluded):
    every argument of a `starts_with(…)` call -> `<level>_prefixes`; every `MethodName::<CONST>`
    mentioned and every `== "<literal>"` comparison -> `<level>_exact`;
  * the prefix of the one `format!` in `insert_dummy_and_contract_inner_names` whose format
    string is `<prefix>{…}` -> `insert_param_prefix`;
  * the string literal of each `MethodName` constant that is referred to.

An argument that is an identifier is resolved through a `const NAME: &str = "…"` / `static` /
`let NAME = "…"` of the same file, so hoisting a literal into a constant is fine.  Closure
parameter names, local variable names, the order of the `||` operands, block braces, line
breaks are all irrelevant.  Literals are emitted in a canonical order (by length, then text).

It fails closed (returns an error = broken obligation) ONLY when a literal it needs cannot be
found or is ambiguous: a level without any name test, an argument that cannot be resolved to
a string literal, two retains of the same level with different literals, no / several
candidate `format!` prefixes, a MethodName constant without exactly one string literal.

A changed literal changes Consts.v and thereby breaks theorem C10_placeholder_constants.

Round 4 — the SHAPE of the retain conditions is extracted as well, into <vcheck.COQ>/C10/Shapes.v:

  * the value of every retain closure (its tail expression) of both files is parsed as a boolean
    expression (`||`, `&&`, `!`, parentheses / braces) over ATOMS, and emitted as a Gallina boolean
    function of those atoms: `<v>.javadoc.is_some()` (doc), `<v>.<children>.is_empty()`
    (params_empty / fields_empty / methods_empty), the whole name test
    `<v>.info.names[<ns>].as_ref().is_some_and(|x| …)` (name) for remove_dummy;
    the `let <check> = match &<v>.info { … }` variable (check), `<v>.info.is_diff()` (info),
    `<v>.javadoc[.as_ref()].is_diff()` (doc) and the is_empty() atoms for insert_dummy;
  * the name test's closure must be a plain disjunction of `<x>.as_inner().starts_with(…)`,
    `<x> == MethodName::…` / `== "…"` tests; a starts_with on anything but `<x>.as_inner()` (e.g.
    on get_simple_name()) is recorded as `rd_name_receivers_plain := false`;
  * of every `match &<v>.info` of insert_dummy: the boolean each Action variant yields and which
    variants assign `<v>.info = Action::Edit(…)`.

Theorem C10_retain_shapes (coq/C10/Theory3.v retain_shapes) states what these functions must be,
EXTENSIONALLY (for all values of the atoms): reordering operands, adding parentheses, De Morgan
rewrites, renaming closure parameters or the check variable leave it provable; regrouping
`(check && (info || doc)) || !children.is_empty()` into `check && (info || doc || !children…)`
does not.  C10_model_uses_shapes states that the model's keep_* functions are these functions
applied to the model's atoms.  An atom the translator does not know is an ERROR (fail closed):
the check then reports a broken tie and searches for a failing input as usual.
"""
import os
import re
import sys

sys.path.insert(0, os.path.join(os.path.dirname(os.path.dirname(os.path.abspath(__file__))), "lib"))
import vcheck  # noqa: E402  (vcheck.REPO: the repository under test; vcheck.COQ: where generated .v files go)

NOTES = []   # shape observations of the last run (evidence only)

LEVEL_OF = {"classes": "class", "fields": "field", "methods": "method", "parameters": "param"}
LEVELS = ("class", "field", "method", "param")
STR = r'"((?:[^"\\]|\\.)*)"'
IDENT = r"[A-Za-z_][A-Za-z_0-9]*"


def repo_file(rel):
    return os.path.join(vcheck.REPO, rel)


def out_path():
    return os.path.join(vcheck.COQ, "C10", "Consts.v")


def strip_comments(src):
    """remove // and /* */ comments, leaving string literals alone"""
    out = []
    i, n = 0, len(src)
    while i < n:
        c = src[i]
        if c == '"':
            j = i + 1
            while j < n and src[j] != '"':
                j += 2 if src[j] == "\\" else 1
            out.append(src[i:j + 1])
            i = j + 1
        elif src.startswith("//", i):
            j = src.find("\n", i)
            i = n if j < 0 else j
        elif src.startswith("/*", i):
            j = src.find("*/", i + 2)
            i = n if j < 0 else j + 2
        else:
            out.append(c)
            i += 1
    return "".join(out)


def balanced(src, i, open_c="(", close_c=")"):
    """src[i] == open_c -> index just after the matching close_c (string literals respected)."""
    assert src[i] == open_c
    depth = 0
    j = i
    while j < len(src):
        c = src[j]
        if c == '"':
            j += 1
            while j < len(src) and src[j] != '"':
                j += 2 if src[j] == "\\" else 1
        elif c == open_c:
            depth += 1
        elif c == close_c:
            depth -= 1
            if depth == 0:
                return j + 1
        j += 1
    raise ValueError("unbalanced %s" % open_c)


def unescape(lit):
    """the value of a Rust string literal body; None when it uses an escape this reader does not know"""
    out = []
    i = 0
    while i < len(lit):
        c = lit[i]
        if c != "\\":
            out.append(c)
            i += 1
            continue
        e = lit[i + 1] if i + 1 < len(lit) else ""
        simple = {"n": "\n", "t": "\t", "r": "\r", "0": "\0", "\\": "\\", '"': '"', "'": "'"}
        if e in simple:
            out.append(simple[e])
            i += 2
        else:
            return None
    return "".join(out)


def string_consts(src):
    """NAME -> value for `const|static NAME: &str = "…";` and `let NAME = "…";` (ambiguous names dropped)"""
    found = {}
    for m in re.finditer(r"\b(?:const|static|let)\s+(" + IDENT + r")\s*(?::[^=;]*)?=\s*" + STR + r"\s*;", src):
        found.setdefault(m.group(1), set()).add(m.group(2))
    return {k: next(iter(v)) for k, v in found.items() if len(v) == 1}


def resolve(arg, consts):
    """a call argument -> string value, or None"""
    arg = arg.strip()
    m = re.fullmatch(STR, arg)
    if m:
        return unescape(m.group(1))
    m = re.fullmatch(r"&?\s*(?:" + IDENT + r"\s*::\s*)*(" + IDENT + r")", arg)
    if m and m.group(1) in consts:
        return unescape(consts[m.group(1)])
    return None


def fn_body(src, name):
    m = re.search(r"\bfn\s+" + re.escape(name) + r"\b", src)
    if not m:
        return None
    i = src.find("{", m.end())
    if i < 0:
        return None
    return src[i:balanced(src, i, "{", "}")]


def retains(src):
    """all `<path>.retain( … )` calls directly in src (not those nested in another retain):
    list of (last path segment, full receiver, body, start, end)"""
    out = []
    pos = 0
    rx = re.compile(r"((?:" + IDENT + r"\s*\.\s*)*)(" + IDENT + r")\s*\.\s*retain\s*\(")
    while True:
        m = rx.search(src, pos)
        if not m:
            return out
        end = balanced(src, m.end() - 1)
        out.append((m.group(2), re.sub(r"\s+", "", m.group(1) + m.group(2)), src[m.end():end - 1], m.start(), end))
        pos = end


def scan_level(seg, recv, body, consts, found, errs):
    nested = retains(body)
    own = body
    for _, _, _, s, e in reversed(nested):
        own = own[:s] + " " + own[e:]
    for seg2, recv2, body2, _, _ in nested:
        scan_level(seg2, recv2, body2, consts, found, errs)
    if seg not in LEVEL_OF:
        NOTES.append("remove_dummy.rs: retain on %r is none of classes/fields/methods/parameters — ignored by the translator (shape is tied by the correspondence run)" % recv)
        return
    lv = LEVEL_OF[seg]
    prefixes, exact = set(), set()
    for m in re.finditer(r"\bstarts_with\s*\(", own):
        arg = own[m.end():balanced(own, m.end() - 1) - 1]
        v = resolve(arg, consts)
        if v is None:
            errs.append("remove_dummy.rs: level %s: the argument %r of starts_with cannot be resolved to a string literal" % (lv, arg.strip()))
        else:
            prefixes.add(v)
    for m in re.finditer(r"\bMethodName\s*::\s*(" + IDENT + r")\b", own):
        exact.add(("const", m.group(1)))
    for m in re.finditer(r"[=!]=\s*" + STR, own):
        v = unescape(m.group(1))
        if v is None:
            errs.append("remove_dummy.rs: level %s: string literal %r uses an escape the translator does not read" % (lv, m.group(1)))
        else:
            exact.add(("lit", v))
    for other in ("ends_with", "contains", "strip_prefix", "strip_suffix", "matches", "find", "eq_ignore_ascii_case"):
        if re.search(r"\b" + other + r"\s*\(", own):
            NOTES.append("remove_dummy.rs: level %s also calls %s(…): not represented in Consts.v — shape is tied by the correspondence run only" % (lv, other))
    if lv in found:
        if found[lv] != (prefixes, exact):
            errs.append("remove_dummy.rs: two retains of level %s with different name tests (%s / %s): ambiguous" % (lv, sorted(found[lv][0]), sorted(prefixes)))
        else:
            NOTES.append("remove_dummy.rs: level %s is filtered by more than one retain (same literals)" % lv)
        return
    if not prefixes and not exact:
        errs.append("remove_dummy.rs: level %s: no starts_with(\"…\") / MethodName::… / == \"…\" test found in its retain" % lv)
        return
    found[lv] = (prefixes, exact)


def method_consts(names, errs):
    """value of MethodName::<name> for the names referred to"""
    src = strip_comments(open(repo_file("duke/src/tree/method.rs"), encoding="utf-8").read())
    out = {}
    for name in sorted(names):
        hits = []
        for m in re.finditer(r"\bconst\s+" + re.escape(name) + r"\s*:", src):
            # up to the `;` that ends the item (brace depth 0)
            j, depth = m.end(), 0
            while j < len(src):
                c = src[j]
                if c == '"':
                    j += 1
                    while j < len(src) and src[j] != '"':
                        j += 2 if src[j] == "\\" else 1
                elif c in "{([":
                    depth += 1
                elif c in "})]":
                    depth -= 1
                elif c == ";" and depth == 0:
                    break
                j += 1
            hits.append(re.findall(STR, src[m.end():j]))
        lits = [unescape(x) for h in hits for x in h]
        if len(hits) != 1 or len(lits) != 1 or lits[0] is None:
            errs.append("duke/src/tree/method.rs: MethodName::%s: expected one constant with exactly one string literal, found %s" % (name, hits))
        else:
            out[name] = lits[0]
    return out


def format_prefix(fmt, args, consts):
    """format string + argument texts -> (prefix, None) or (None, reason).  Placeholders whose
    argument is a string constant count as literal text; exactly one other placeholder, at the end."""
    pieces = []   # ("lit", text) | ("hole", None)
    i, pos_arg = 0, 0
    while i < len(fmt):
        c = fmt[i]
        if c == "{" and fmt.startswith("{{", i):
            pieces.append(("lit", "{"))
            i += 2
        elif c == "}" and fmt.startswith("}}", i):
            pieces.append(("lit", "}"))
            i += 2
        elif c == "{":
            j = fmt.find("}", i)
            if j < 0:
                return None, "unterminated placeholder"
            inner = fmt[i + 1:j].split(":")[0].strip()
            if inner == "":
                arg = args[pos_arg].strip() if pos_arg < len(args) else ""
                pos_arg += 1
            elif inner.isdigit():
                arg = args[int(inner)].strip() if int(inner) < len(args) else ""
            else:
                arg = inner
            v = resolve(arg, consts) if arg else None
            pieces.append(("lit", v) if v is not None else ("hole", None))
            i = j + 1
        else:
            pieces.append(("lit", c))
            i += 1
    holes = [k for k, p in enumerate(pieces) if p[0] == "hole"]
    if len(holes) != 1 or holes[0] != len(pieces) - 1:
        return None, "not of the form <prefix>{index}"
    return "".join(p[1] for p in pieces[:-1]), None


def split_args(s):
    out, depth, cur = [], 0, []
    i = 0
    while i < len(s):
        c = s[i]
        if c == '"':
            j = i + 1
            while j < len(s) and s[j] != '"':
                j += 2 if s[j] == "\\" else 1
            cur.append(s[i:j + 1])
            i = j + 1
            continue
        if c in "([{":
            depth += 1
        elif c in ")]}":
            depth -= 1
        if c == "," and depth == 0:
            out.append("".join(cur))
            cur = []
        else:
            cur.append(c)
        i += 1
    if "".join(cur).strip():
        out.append("".join(cur))
    return out


def insert_prefix(errs):
    src = strip_comments(open(repo_file("quill/src/action/insert_dummy.rs"), encoding="utf-8").read())
    consts = string_consts(src)
    body = fn_body(src, "insert_dummy_and_contract_inner_names")
    if body is None:
        errs.append("insert_dummy.rs: fn insert_dummy_and_contract_inner_names not found")
        return None
    cands, rejected = set(), []
    for m in re.finditer(r"\bformat\s*!\s*\(", body):
        inner = body[m.end():balanced(body, m.end() - 1) - 1]
        parts = split_args(inner)
        fm = re.fullmatch(STR, parts[0].strip()) if parts else None
        if not fm:
            rejected.append(inner.strip()[:60])
            continue
        fmt = unescape(fm.group(1))
        if fmt is None:
            rejected.append(inner.strip()[:60])
            continue
        p, why = format_prefix(fmt, parts[1:], consts)
        if p is None or p == "":
            rejected.append("%s (%s)" % (inner.strip()[:60], why or "empty prefix"))
        else:
            cands.add(p)
    if len(cands) != 1:
        errs.append("insert_dummy.rs: expected exactly one format!(\"<prefix>{}\", <index>) for the parameter placeholder, found prefixes %s (other format! calls: %s)" % (sorted(cands), rejected))
        return None
    if rejected:
        NOTES.append("insert_dummy.rs: format! calls that are not of the form <prefix>{index} were ignored: %s" % rejected)
    # shape observations only
    flat = re.sub(r"\s+", "", body)
    if flat.count(".name.clone()") < 2:
        NOTES.append("insert_dummy.rs: fewer than two `.name.clone()` — the field / method placeholder may no longer be the key's name (tied by the correspondence run, not by the translator)")
    if "get_inner_class_name" not in flat:
        NOTES.append("insert_dummy.rs: get_inner_class_name is not mentioned — the class placeholder may no longer be the simple inner name (tied by the correspondence run, not by the translator)")
    return next(iter(cands))


# ---------------------------------------------------------------------------------------------
# shapes (round 4)

class ShapeError(Exception):
    pass


def skip_string(s, i):
    """s[i] == '"' -> index just after the closing quote"""
    j = i + 1
    while j < len(s) and s[j] != '"':
        j += 2 if s[j] == "\\" else 1
    return j + 1


def split_top(s, sep):
    """split at `sep` (one character) where all brackets are closed (string literals respected)"""
    out, depth, cur, i = [], 0, [], 0
    while i < len(s):
        c = s[i]
        if c == '"':
            j = skip_string(s, i)
            cur.append(s[i:j])
            i = j
            continue
        if c in "([{":
            depth += 1
        elif c in ")]}":
            depth -= 1
        if c == sep and depth == 0:
            out.append("".join(cur))
            cur = []
        else:
            cur.append(c)
        i += 1
    out.append("".join(cur))
    return out


class BoolParser:
    """boolean expression over opaque atoms: or := and ('||' and)* ; and := un ('&&' un)* ;
    un := '!' un | '(' or ')' | '{' or '}' | atom.  An atom runs to the next `||`, `&&` or closing
    bracket at bracket depth 0; a `(`/`[`/`{` inside an atom (call arguments, closures) is skipped balanced."""

    def __init__(self, text):
        self.s = text
        self.i = 0

    def ws(self):
        while self.i < len(self.s) and self.s[self.i].isspace():
            self.i += 1

    def peek(self, t):
        self.ws()
        return self.s.startswith(t, self.i)

    def parse(self):
        e = self.p_or()
        self.ws()
        if self.i != len(self.s):
            raise ShapeError("cannot read the condition beyond %r" % self.s[self.i:self.i + 40])
        return e

    def p_or(self):
        e = self.p_and()
        while self.peek("||"):
            self.i += 2
            e = ("or", e, self.p_and())
        return e

    def p_and(self):
        e = self.p_un()
        while self.peek("&&"):
            self.i += 2
            e = ("and", e, self.p_un())
        return e

    def p_un(self):
        self.ws()
        if self.i >= len(self.s):
            raise ShapeError("condition ends unexpectedly")
        c = self.s[self.i]
        if c == "!" and not self.s.startswith("!=", self.i):
            self.i += 1
            return ("not", self.p_un())
        if c in "({":
            close = ")" if c == "(" else "}"
            self.i += 1
            e = self.p_or()
            self.ws()
            if not self.s.startswith(close, self.i):
                raise ShapeError("expected %r at %r" % (close, self.s[self.i:self.i + 30]))
            self.i += 1
            self.ws()
            if self.i < len(self.s) and self.s[self.i] in ".?":
                raise ShapeError("a method call on a parenthesised condition is not understood: %r" % self.s[self.i:self.i + 30])
            return e
        return self.p_atom()

    def p_atom(self):
        start, depth = self.i, 0
        while self.i < len(self.s):
            c = self.s[self.i]
            if c == '"':
                self.i = skip_string(self.s, self.i)
                continue
            if c in "([{":
                depth += 1
            elif c in ")]}":
                if depth == 0:
                    break
                depth -= 1
            elif depth == 0 and (self.s.startswith("||", self.i) or self.s.startswith("&&", self.i)):
                break
            self.i += 1
        a = self.s[start:self.i].strip()
        if not a:
            raise ShapeError("empty operand in a condition near %r" % self.s[max(0, start - 20):start + 20])
        return ("atom", a)


def map_atoms(e, f):
    if e[0] == "atom":
        return ("var", f(e[1]))
    if e[0] == "not":
        return ("not", map_atoms(e[1], f))
    return (e[0], map_atoms(e[1], f), map_atoms(e[2], f))


def ev(e, env):
    if e[0] == "var":
        return env[e[1]]
    if e[0] == "not":
        return not ev(e[1], env)
    if e[0] == "or":
        return ev(e[1], env) or ev(e[2], env)
    return ev(e[1], env) and ev(e[2], env)


def variables(e, acc=None):
    acc = [] if acc is None else acc
    if e[0] == "var":
        if e[1] not in acc:
            acc.append(e[1])
    else:
        for x in e[1:]:
            variables(x, acc)
    return acc


def gallina(e):
    if e[0] == "var":
        return e[1]
    if e[0] == "not":
        return "negb %s" % gallina_atomic(e[1])
    op = " || " if e[0] == "or" else " && "
    return "(" + gallina(e[1]) + op + gallina(e[2]) + ")"


def gallina_atomic(e):
    g = gallina(e)
    return g if e[0] == "var" or g.startswith("(") else "(" + g + ")"


def closure_parts(body):
    """`|a, b| rest` -> ([a, b], rest)"""
    m = re.match(r"\s*(?:move\s+)?\|([^|]*)\|", body)
    if not m:
        raise ShapeError("the argument of retain is not a closure: %r" % body.strip()[:50])
    params = [re.sub(r"^(?:&|mut\s+)*", "", x.strip()).split(":")[0].strip() for x in m.group(1).split(",")]
    return params, body[m.end():]


def statements_and_tail(rest):
    """closure body (block or expression) -> (statements, tail expression); nested retains already blanked"""
    t = rest.strip()
    if t.startswith("{") and balanced(t, 0, "{", "}") == len(t):
        t = t[1:-1]
    parts = split_top(t, ";")
    return [x.strip() for x in parts[:-1] if x.strip()], parts[-1].strip()


CHILD_VAR = {"parameters": "params_empty", "fields": "fields_empty", "methods": "methods_empty"}
ALLOWED = {
    "param": [], "field": [], "method": ["params_empty"], "class": ["fields_empty", "methods_empty"],
}
PLAIN = {"v": True}


def name_test_ok(arg, lv):
    """the argument of is_some_and: `|x| disjunction of known name tests`"""
    params, rest = closure_parts(arg)
    if len(params) != 1:
        raise ShapeError("level %s: is_some_and takes a closure of one parameter, found %r" % (lv, params))
    x = re.escape(params[0])
    _, tail = statements_and_tail(rest)
    e = BoolParser(tail).parse()

    def atom(a):
        n = re.sub(r"\s+", "", a)
        if re.fullmatch(x + r"\.as_inner\(\)\.starts_with\(.+\)", n):
            return n
        if re.fullmatch(r"(?:\*|&)*" + x + r"(?:\.as_inner\(\))?==.+", n) or re.fullmatch(r".+==(?:\*|&)*" + x + r"(?:\.as_inner\(\))?", n):
            return n
        if "starts_with(" in n:
            PLAIN["v"] = False
            NOTES.append("remove_dummy.rs: level %s: prefix test on something other than the whole name: %s" % (lv, a.strip()))
            return n
        raise ShapeError("level %s: name test %r is none of <x>.as_inner().starts_with(…), <x> == …" % (lv, a.strip()))

    f = map_atoms(e, atom)
    vs = variables(f)
    for bits in range(1 << len(vs)):
        env = {v: bool(bits >> k & 1) for k, v in enumerate(vs)}
        if ev(f, env) != any(env.values()):
            raise ShapeError("level %s: the name test is not a plain disjunction of its prefix / whole-name tests: %s" % (lv, tail.strip()[:120]))


def rd_shape(seg, body, out):
    """one retain closure of remove_dummy (and, recursively, the nested ones)"""
    nested = retains(body)
    own = body
    for _, _, _, s0, e0 in reversed(nested):
        own = own[:s0] + " " + own[e0:]
    for seg2, _, body2, _, _ in nested:
        rd_shape(seg2, body2, out)
    if seg not in LEVEL_OF:
        return
    lv = LEVEL_OF[seg]
    params, rest = closure_parts(own)
    if len(params) != 2:
        raise ShapeError("remove_dummy.rs: level %s: retain closure with %d parameters" % (lv, len(params)))
    v = re.escape(params[1])
    stmts, tail = statements_and_tail(rest)
    if stmts:
        raise ShapeError("remove_dummy.rs: level %s: statements other than nested retains before the condition: %r" % (lv, stmts[0][:60]))
    e = BoolParser(tail).parse()

    def atom(a):
        n = re.sub(r"\s+", "", a)
        if re.fullmatch(v + r"\.javadoc\.is_some\(\)", n):
            return "doc"
        m = re.fullmatch(v + r"\.(" + IDENT + r")\.is_empty\(\)", n)
        if m and CHILD_VAR.get(m.group(1)) in ALLOWED[lv]:
            return CHILD_VAR[m.group(1)]
        m = re.fullmatch(v + r"\.info\.names\[" + IDENT + r"\]\.as_ref\(\)\.is_some_and\((.*)\)", n)
        if m:
            i0 = a.index("is_some_and")
            j0 = a.index("(", i0)
            name_test_ok(a[j0 + 1:balanced(a, j0) - 1], lv)
            return "name"
        raise ShapeError("remove_dummy.rs: level %s: the condition uses a term the translator does not know: %r" % (lv, a.strip()[:100]))

    f = map_atoms(e, atom)
    if lv in out and out[lv] != f:
        raise ShapeError("remove_dummy.rs: two retains of level %s with different conditions" % lv)
    out[lv] = f


ACTIONS = ("None", "Add", "Remove", "Edit")


def validator_of(stmt, v, lv):
    """`let <var> = match &<v>.info { arms }` -> (var, values, rewrites) or None"""
    m = re.match(r"let\s+(?:mut\s+)?(" + IDENT + r")\s*(?::\s*bool\s*)?=\s*match\s+&?\s*" + v + r"\s*\.\s*info\s*\{", stmt)
    if not m:
        return None
    i = m.end() - 1
    j = balanced(stmt, i, "{", "}")
    if stmt[j:].strip():
        raise ShapeError("insert_dummy.rs: level %s: text after the match of the check variable: %r" % (lv, stmt[j:].strip()[:40]))
    arms_text = stmt[i + 1:j - 1]
    values, rewrites = {}, {}
    pos = 0
    while True:
        am = re.compile(r"\s*(?:Action\s*::\s*)?(" + IDENT + r")\s*(\([^)]*\))?\s*=>\s*").match(arms_text, pos)
        if not am:
            if arms_text[pos:].strip():
                raise ShapeError("insert_dummy.rs: level %s: match arm not understood: %r" % (lv, arms_text[pos:].strip()[:50]))
            break
        k = am.end()
        if k < len(arms_text) and arms_text[k] == "{":
            e = balanced(arms_text, k, "{", "}")
            block = arms_text[k + 1:e - 1]
            nxt = e
        else:
            nxt = k
            depth = 0
            while nxt < len(arms_text):
                c = arms_text[nxt]
                if c == '"':
                    nxt = skip_string(arms_text, nxt)
                    continue
                if c in "([{":
                    depth += 1
                elif c in ")]}":
                    depth -= 1
                elif c == "," and depth == 0:
                    break
                nxt += 1
            block = arms_text[k:nxt]
        rest = arms_text[nxt:].lstrip()
        pos = len(arms_text) - len(rest) + (1 if rest.startswith(",") else 0)
        var = am.group(1)
        if var not in ACTIONS or var in values:
            raise ShapeError("insert_dummy.rs: level %s: unexpected match arm %r" % (lv, var))
        val = split_top(block, ";")[-1].strip()
        if val not in ("true", "false"):
            raise ShapeError("insert_dummy.rs: level %s: arm %s does not end in true / false: %r" % (lv, var, val[:40]))
        values[var] = val == "true"
        rewrites[var] = re.search(v + r"\s*\.\s*info\s*=\s*Action\s*::\s*Edit\s*\(", block) is not None
        if re.search(v + r"\s*\.\s*info\s*=", block) and not rewrites[var]:
            raise ShapeError("insert_dummy.rs: level %s: arm %s assigns the action to something other than Action::Edit(…)" % (lv, var))
    if set(values) != set(ACTIONS):
        raise ShapeError("insert_dummy.rs: level %s: the match of the check variable does not list the four Action variants one by one: %s" % (lv, sorted(values)))
    return m.group(1), tuple(values[a] for a in ACTIONS), tuple(rewrites[a] for a in ACTIONS)


def ins_shape(seg, body, out):
    nested = retains(body)
    own = body
    for _, _, _, s0, e0 in reversed(nested):
        own = own[:s0] + " " + own[e0:]
    for seg2, _, body2, _, _ in nested:
        ins_shape(seg2, body2, out)
    if seg not in LEVEL_OF:
        return
    lv = LEVEL_OF[seg]
    params, rest = closure_parts(own)
    if len(params) != 2:
        raise ShapeError("insert_dummy.rs: level %s: retain closure with %d parameters" % (lv, len(params)))
    v = re.escape(params[1])
    stmts, tail = statements_and_tail(rest)
    check = None
    for st in stmts:
        got = validator_of(st, v, lv)
        if got is None:
            if re.match(r"fn\s", st):
                continue    # a local helper function (get_simplified)
            raise ShapeError("insert_dummy.rs: level %s: statement not understood: %r" % (lv, st[:60]))
        if check is not None:
            raise ShapeError("insert_dummy.rs: level %s: two check variables" % lv)
        check = got
    if check is None:
        raise ShapeError("insert_dummy.rs: level %s: no `let <check> = match &%s.info {…}` found" % (lv, params[1]))
    e = BoolParser(tail).parse()
    cv = re.escape(check[0])

    def atom(a):
        n = re.sub(r"\s+", "", a)
        if re.fullmatch(cv, n):
            return "check"
        if re.fullmatch(v + r"\.info\.is_diff\(\)", n):
            return "info"
        if re.fullmatch(v + r"\.javadoc(?:\.as_ref\(\))?\.is_diff\(\)", n):
            return "doc"
        m = re.fullmatch(v + r"\.(" + IDENT + r")\.is_empty\(\)", n)
        if m and CHILD_VAR.get(m.group(1)) in ALLOWED[lv]:
            return CHILD_VAR[m.group(1)]
        raise ShapeError("insert_dummy.rs: level %s: the condition uses a term the translator does not know: %r" % (lv, a.strip()[:100]))

    f = map_atoms(e, atom)
    if lv in out:
        raise ShapeError("insert_dummy.rs: two retains of level %s" % lv)
    out[lv] = (f, check[1], check[2])


GNAME = {"param": "param", "field": "field", "method": "method", "class": "class"}


def gbool(b):
    return "true" if b else "false"


def shapes_text(errs):
    PLAIN["v"] = True
    rd, ins = {}, {}
    try:
        src = strip_comments(open(repo_file("quill/src/action/remove_dummy.rs"), encoding="utf-8").read())
        body = fn_body(src, "remove_dummy")
        for seg, _, rb, _, _ in retains(body or ""):
            rd_shape(seg, rb, rd)
        src = strip_comments(open(repo_file("quill/src/action/insert_dummy.rs"), encoding="utf-8").read())
        body = fn_body(src, "insert_dummy_and_contract_inner_names")
        for seg, _, rb, _, _ in retains(body or ""):
            ins_shape(seg, rb, ins)
        for lv in LEVELS:
            if lv not in rd:
                raise ShapeError("remove_dummy.rs: no retain condition for level %s" % lv)
            if lv not in ins:
                raise ShapeError("insert_dummy.rs: no retain condition for level %s" % lv)
    except (ShapeError, ValueError, IndexError) as ex:
        errs.append("C10 shape extraction: %s" % (ex,))
        return None
    t = "(* GENERATED by translate/c10_consts.py from quill/src/action/{remove_dummy,insert_dummy}.rs — do not edit.\n"
    t += "   The value of every retain closure as a boolean function of its atoms (see the translator's\n"
    t += "   docstring); what they must be is theorem retain_shapes of C10/Theory3.v. *)\n"
    t += "From Coq Require Import Bool.\nLocal Open Scope bool_scope.\n\n"
    for lv in LEVELS:
        args = ["doc"] + ALLOWED[lv] + ["name"]
        t += "Definition rd_shape_%s (%s : bool) : bool := %s.\n" % (GNAME[lv], " ".join(args), gallina(rd[lv]))
    t += "\n"
    for lv in LEVELS:
        args = ["check", "info", "doc"] + ALLOWED[lv]
        t += "Definition ins_shape_%s (%s : bool) : bool := %s.\n" % (GNAME[lv], " ".join(args), gallina(ins[lv][0]))
    t += "\n(* per Action variant (None, Add, Remove, Edit): value of the check variable; does the arm assign Action::Edit(…) *)\n"
    for lv in LEVELS:
        t += "Definition ins_validator_%s : bool * bool * bool * bool := (%s).\n" % (GNAME[lv], ", ".join(gbool(b) for b in ins[lv][1]))
        t += "Definition ins_rewrites_%s : bool * bool * bool * bool := (%s).\n" % (GNAME[lv], ", ".join(gbool(b) for b in ins[lv][2]))
    t += "\n(* every prefix test of remove_dummy is <name>.as_inner().starts_with(…), i.e. on the whole name *)\n"
    t += "Definition rd_name_receivers_plain : bool := %s.\n" % gbool(PLAIN["v"])
    return t


def write_if_changed(path, text):
    os.makedirs(os.path.dirname(path), exist_ok=True)
    old = open(path, encoding="utf-8").read() if os.path.exists(path) else None
    if old != text:
        with open(path, "w", encoding="utf-8") as f:
            f.write(text)


def canon(xs):
    return sorted(xs, key=lambda x: (len(x), x))


def gstr(s):
    return "[" + ";".join(str(ord(c)) for c in s) + "]"


def glist(xs):
    return "[" + "; ".join(gstr(x) for x in xs) + "]"


def translate():
    del NOTES[:]
    errs = []
    found = {}
    try:
        src = strip_comments(open(repo_file("quill/src/action/remove_dummy.rs"), encoding="utf-8").read())
        consts = string_consts(src)
        body = fn_body(src, "remove_dummy")
        if body is None:
            return ["remove_dummy.rs: fn remove_dummy not found"]
        top = retains(body)
        if not top:
            return ["remove_dummy.rs: no `.retain(` call in fn remove_dummy"]
        for seg, recv, rb, _, _ in top:
            scan_level(seg, recv, rb, consts, found, errs)
        for lv in LEVELS:
            if lv not in found and not any((" level %s" % lv) in e for e in errs):
                errs.append("remove_dummy.rs: no retain for level %s found" % lv)
        refs = {n for lv in found for (k, n) in found[lv][1] if k == "const"}
        mc = method_consts(refs, errs)
        ins_prefix = insert_prefix(errs)
        shapes = shapes_text(errs)
    except (ValueError, OSError, IndexError) as ex:
        return ["C10 translator cannot read the sources: %r" % (ex,)]
    if errs:
        return errs
    write_if_changed(os.path.join(vcheck.COQ, "C10", "Shapes.v"), shapes)
    exact = {}
    for lv in LEVELS:
        vals = set()
        for k, n in found[lv][1]:
            vals.add(mc[n] if k == "const" else n)
        exact[lv] = canon(vals)
        if exact[lv] and lv != "method":
            NOTES.append("remove_dummy.rs: level %s compares with whole names %s" % (lv, exact[lv]))

    text = "(* GENERATED by translate/c10_consts.py from quill/src/action/{remove_dummy,insert_dummy}.rs and\n"
    text += "   duke/src/tree/method.rs — do not edit.  Placeholder constants of the dummy filters\n"
    text += "   (canonical order: by length, then text). *)\n"
    text += "From FB Require Export Base.Str.\n\n"
    for lv in LEVELS:
        pre = canon(found[lv][0])
        text += "(* %s *)\n" % ", ".join(repr(p) for p in pre + exact[lv])
        text += "Definition %s_prefixes : list str := %s.\n" % (lv, glist(pre))
        text += "Definition %s_exact : list str := %s.\n" % (lv, glist(exact[lv]))
    text += "(* %r *)\n" % ins_prefix
    text += "Definition insert_param_prefix : str := %s.\n" % gstr(ins_prefix)
    out = out_path()
    os.makedirs(os.path.dirname(out), exist_ok=True)
    old = open(out, encoding="utf-8").read() if os.path.exists(out) else None
    if old != text:
        with open(out, "w", encoding="utf-8") as f:
            f.write(text)
    return []


c10_consts = translate
c10_consts.__name__ = "c10_consts"

if __name__ == "__main__":
    e = translate()
    for x in e:
        print("ERROR:", x)
    for x in NOTES:
        print("NOTE:", x)
    sys.exit(1 if e else 0)
