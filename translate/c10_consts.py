#!/usr/bin/env python3
"""C10 translator: placeholder constants of the dummy filters, read from the Rust source.

reads   <vcheck.REPO>/quill/src/action/remove_dummy.rs   (the name tests of each of the four `retain` levels)
        <vcheck.REPO>/quill/src/action/insert_dummy.rs   (the `format!("p_{}", k.index)` placeholder of parameters)
        <vcheck.REPO>/duke/src/tree/method.rs            (MethodName::INIT / MethodName::CLINIT)
writes  <vcheck.COQ>/C10/Consts.v

What it does — and what it deliberately does NOT do.  It extracts LITERALS only:

  * per retain level of `remove_dummy` (the level is the last path segment of the receiver of
    `.retain(`: classes / fields / methods / parameters; text of nested retains excluded):
    every argument of a `starts_with(…)` call -> `<level>_prefixes`; every `MethodName::<CONST>`
    mentioned and every `== "<literal>"` comparison -> `<level>_exact`;
  * the prefix of the one `format!` in `insert_dummy_and_contract_inner_names` whose format
    string is `<prefix>{…}` -> `insert_param_prefix`;
  * the string literal of each `MethodName` constant that is referred to.

An argument that is an identifier is resolved through a `const NAME: &str = "…"` / `static` /
`let NAME = "…"` of the same file, so hoisting a literal into a constant is fine.  Closure
parameter names, local variable names, the order of the `||` operands, block braces, line
breaks are all irrelevant.  Literals are emitted in a canonical order (by length, then text).

It fails closed (returns an error = broken obligation) ONLY when a literal it needs cannot be
found or is ambiguous: a level without any name test, an argument that cannot be resolved to
a string literal, two retains of the same level with different literals, no / several
candidate `format!` prefixes, a MethodName constant without exactly one string literal.

It does not check the SHAPE of the conditions (how the tests are combined, which child lists are
tested, that the placeholders of fields/methods/classes are clones of the key): the model
hard-codes the shape, and the correspondence run (~9000 cases, truth table of every level
enumerated) together with the property oracle is what ties it to the code.  Anything that
looks like a change of shape (another string predicate such as ends_with/contains, an
unexpected receiver of a retain) is recorded in NOTES and shown in the evidence — never an error.
A changed literal changes Consts.v and thereby breaks theorem C10_placeholder_constants.
"""
import os
import re
import sys

sys.path.insert(0, os.path.join(os.path.dirname(os.path.dirname(os.path.abspath(__file__))), "lib"))
import vcheck  # noqa: E402  (vcheck.REPO: the repository under test; vcheck.COQ: where generated .v files go)

NOTES = []   # shape observations of the last run (evidence only)

LEVEL_OF = {"classes": "class", "fields": "field", "methods": "method", "parameters": "param"}
LEVELS = ("class", "field", "method", "param")
STR = r'"((?:[^"\\]|\\.)*)"'
IDENT = r"[A-Za-z_][A-Za-z_0-9]*"


def repo_file(rel):
    return os.path.join(vcheck.REPO, rel)


def out_path():
    return os.path.join(vcheck.COQ, "C10", "Consts.v")


def strip_comments(src):
    """remove // and /* */ comments, leaving string literals alone"""
    out = []
    i, n = 0, len(src)
    while i < n:
        c = src[i]
        if c == '"':
            j = i + 1
            while j < n and src[j] != '"':
                j += 2 if src[j] == "\\" else 1
            out.append(src[i:j + 1])
            i = j + 1
        elif src.startswith("//", i):
            j = src.find("\n", i)
            i = n if j < 0 else j
        elif src.startswith("/*", i):
            j = src.find("*/", i + 2)
            i = n if j < 0 else j + 2
        else:
            out.append(c)
            i += 1
    return "".join(out)


def balanced(src, i, open_c="(", close_c=")"):
    """src[i] == open_c -> index just after the matching close_c (string literals respected)."""
    assert src[i] == open_c
    depth = 0
    j = i
    while j < len(src):
        c = src[j]
        if c == '"':
            j += 1
            while j < len(src) and src[j] != '"':
                j += 2 if src[j] == "\\" else 1
        elif c == open_c:
            depth += 1
        elif c == close_c:
            depth -= 1
            if depth == 0:
                return j + 1
        j += 1
    raise ValueError("unbalanced %s" % open_c)


def unescape(lit):
    """the value of a Rust string literal body; None when it uses an escape this reader does not know"""
    out = []
    i = 0
    while i < len(lit):
        c = lit[i]
        if c != "\\":
            out.append(c)
            i += 1
            continue
        e = lit[i + 1] if i + 1 < len(lit) else ""
        simple = {"n": "\n", "t": "\t", "r": "\r", "0": "\0", "\\": "\\", '"': '"', "'": "'"}
        if e in simple:
            out.append(simple[e])
            i += 2
        else:
            return None
    return "".join(out)


def string_consts(src):
    """NAME -> value for `const|static NAME: &str = "…";` and `let NAME = "…";` (ambiguous names dropped)"""
    found = {}
    for m in re.finditer(r"\b(?:const|static|let)\s+(" + IDENT + r")\s*(?::[^=;]*)?=\s*" + STR + r"\s*;", src):
        found.setdefault(m.group(1), set()).add(m.group(2))
    return {k: next(iter(v)) for k, v in found.items() if len(v) == 1}


def resolve(arg, consts):
    """a call argument -> string value, or None"""
    arg = arg.strip()
    m = re.fullmatch(STR, arg)
    if m:
        return unescape(m.group(1))
    m = re.fullmatch(r"&?\s*(?:" + IDENT + r"\s*::\s*)*(" + IDENT + r")", arg)
    if m and m.group(1) in consts:
        return unescape(consts[m.group(1)])
    return None


def fn_body(src, name):
    m = re.search(r"\bfn\s+" + re.escape(name) + r"\b", src)
    if not m:
        return None
    i = src.find("{", m.end())
    if i < 0:
        return None
    return src[i:balanced(src, i, "{", "}")]


def retains(src):
    """all `<path>.retain( … )` calls directly in src (not those nested in another retain):
    list of (last path segment, full receiver, body, start, end)"""
    out = []
    pos = 0
    rx = re.compile(r"((?:" + IDENT + r"\s*\.\s*)*)(" + IDENT + r")\s*\.\s*retain\s*\(")
    while True:
        m = rx.search(src, pos)
        if not m:
            return out
        end = balanced(src, m.end() - 1)
        out.append((m.group(2), re.sub(r"\s+", "", m.group(1) + m.group(2)), src[m.end():end - 1], m.start(), end))
        pos = end


def scan_level(seg, recv, body, consts, found, errs):
    nested = retains(body)
    own = body
    for _, _, _, s, e in reversed(nested):
        own = own[:s] + " " + own[e:]
    for seg2, recv2, body2, _, _ in nested:
        scan_level(seg2, recv2, body2, consts, found, errs)
    if seg not in LEVEL_OF:
        NOTES.append("remove_dummy.rs: retain on %r is none of classes/fields/methods/parameters — ignored by the translator (shape is tied by the correspondence run)" % recv)
        return
    lv = LEVEL_OF[seg]
    prefixes, exact = set(), set()
    for m in re.finditer(r"\bstarts_with\s*\(", own):
        arg = own[m.end():balanced(own, m.end() - 1) - 1]
        v = resolve(arg, consts)
        if v is None:
            errs.append("remove_dummy.rs: level %s: the argument %r of starts_with cannot be resolved to a string literal" % (lv, arg.strip()))
        else:
            prefixes.add(v)
    for m in re.finditer(r"\bMethodName\s*::\s*(" + IDENT + r")\b", own):
        exact.add(("const", m.group(1)))
    for m in re.finditer(r"[=!]=\s*" + STR, own):
        v = unescape(m.group(1))
        if v is None:
            errs.append("remove_dummy.rs: level %s: string literal %r uses an escape the translator does not read" % (lv, m.group(1)))
        else:
            exact.add(("lit", v))
    for other in ("ends_with", "contains", "strip_prefix", "strip_suffix", "matches", "find", "eq_ignore_ascii_case"):
        if re.search(r"\b" + other + r"\s*\(", own):
            NOTES.append("remove_dummy.rs: level %s also calls %s(…): not represented in Consts.v — shape is tied by the correspondence run only" % (lv, other))
    if lv in found:
        if found[lv] != (prefixes, exact):
            errs.append("remove_dummy.rs: two retains of level %s with different name tests (%s / %s): ambiguous" % (lv, sorted(found[lv][0]), sorted(prefixes)))
        else:
            NOTES.append("remove_dummy.rs: level %s is filtered by more than one retain (same literals)" % lv)
        return
    if not prefixes and not exact:
        errs.append("remove_dummy.rs: level %s: no starts_with(\"…\") / MethodName::… / == \"…\" test found in its retain" % lv)
        return
    found[lv] = (prefixes, exact)


def method_consts(names, errs):
    """value of MethodName::<name> for the names referred to"""
    src = strip_comments(open(repo_file("duke/src/tree/method.rs"), encoding="utf-8").read())
    out = {}
    for name in sorted(names):
        hits = []
        for m in re.finditer(r"\bconst\s+" + re.escape(name) + r"\s*:", src):
            # up to the `;` that ends the item (brace depth 0)
            j, depth = m.end(), 0
            while j < len(src):
                c = src[j]
                if c == '"':
                    j += 1
                    while j < len(src) and src[j] != '"':
                        j += 2 if src[j] == "\\" else 1
                elif c in "{([":
                    depth += 1
                elif c in "})]":
                    depth -= 1
                elif c == ";" and depth == 0:
                    break
                j += 1
            hits.append(re.findall(STR, src[m.end():j]))
        lits = [unescape(x) for h in hits for x in h]
        if len(hits) != 1 or len(lits) != 1 or lits[0] is None:
            errs.append("duke/src/tree/method.rs: MethodName::%s: expected one constant with exactly one string literal, found %s" % (name, hits))
        else:
            out[name] = lits[0]
    return out


def format_prefix(fmt, args, consts):
    """format string + argument texts -> (prefix, None) or (None, reason).  Placeholders whose
    argument is a string constant count as literal text; exactly one other placeholder, at the end."""
    pieces = []   # ("lit", text) | ("hole", None)
    i, pos_arg = 0, 0
    while i < len(fmt):
        c = fmt[i]
        if c == "{" and fmt.startswith("{{", i):
            pieces.append(("lit", "{"))
            i += 2
        elif c == "}" and fmt.startswith("}}", i):
            pieces.append(("lit", "}"))
            i += 2
        elif c == "{":
            j = fmt.find("}", i)
            if j < 0:
                return None, "unterminated placeholder"
            inner = fmt[i + 1:j].split(":")[0].strip()
            if inner == "":
                arg = args[pos_arg].strip() if pos_arg < len(args) else ""
                pos_arg += 1
            elif inner.isdigit():
                arg = args[int(inner)].strip() if int(inner) < len(args) else ""
            else:
                arg = inner
            v = resolve(arg, consts) if arg else None
            pieces.append(("lit", v) if v is not None else ("hole", None))
            i = j + 1
        else:
            pieces.append(("lit", c))
            i += 1
    holes = [k for k, p in enumerate(pieces) if p[0] == "hole"]
    if len(holes) != 1 or holes[0] != len(pieces) - 1:
        return None, "not of the form <prefix>{index}"
    return "".join(p[1] for p in pieces[:-1]), None


def split_args(s):
    out, depth, cur = [], 0, []
    i = 0
    while i < len(s):
        c = s[i]
        if c == '"':
            j = i + 1
            while j < len(s) and s[j] != '"':
                j += 2 if s[j] == "\\" else 1
            cur.append(s[i:j + 1])
            i = j + 1
            continue
        if c in "([{":
            depth += 1
        elif c in ")]}":
            depth -= 1
        if c == "," and depth == 0:
            out.append("".join(cur))
            cur = []
        else:
            cur.append(c)
        i += 1
    if "".join(cur).strip():
        out.append("".join(cur))
    return out


def insert_prefix(errs):
    src = strip_comments(open(repo_file("quill/src/action/insert_dummy.rs"), encoding="utf-8").read())
    consts = string_consts(src)
    body = fn_body(src, "insert_dummy_and_contract_inner_names")
    if body is None:
        errs.append("insert_dummy.rs: fn insert_dummy_and_contract_inner_names not found")
        return None
    cands, rejected = set(), []
    for m in re.finditer(r"\bformat\s*!\s*\(", body):
        inner = body[m.end():balanced(body, m.end() - 1) - 1]
        parts = split_args(inner)
        fm = re.fullmatch(STR, parts[0].strip()) if parts else None
        if not fm:
            rejected.append(inner.strip()[:60])
            continue
        fmt = unescape(fm.group(1))
        if fmt is None:
            rejected.append(inner.strip()[:60])
            continue
        p, why = format_prefix(fmt, parts[1:], consts)
        if p is None or p == "":
            rejected.append("%s (%s)" % (inner.strip()[:60], why or "empty prefix"))
        else:
            cands.add(p)
    if len(cands) != 1:
        errs.append("insert_dummy.rs: expected exactly one format!(\"<prefix>{}\", <index>) for the parameter placeholder, found prefixes %s (other format! calls: %s)" % (sorted(cands), rejected))
        return None
    if rejected:
        NOTES.append("insert_dummy.rs: format! calls that are not of the form <prefix>{index} were ignored: %s" % rejected)
    # shape observations only
    flat = re.sub(r"\s+", "", body)
    if flat.count(".name.clone()") < 2:
        NOTES.append("insert_dummy.rs: fewer than two `.name.clone()` — the field / method placeholder may no longer be the key's name (tied by the correspondence run, not by the translator)")
    if "get_inner_class_name" not in flat:
        NOTES.append("insert_dummy.rs: get_inner_class_name is not mentioned — the class placeholder may no longer be the simple inner name (tied by the correspondence run, not by the translator)")
    return next(iter(cands))


def canon(xs):
    return sorted(xs, key=lambda x: (len(x), x))


def gstr(s):
    return "[" + ";".join(str(ord(c)) for c in s) + "]"


def glist(xs):
    return "[" + "; ".join(gstr(x) for x in xs) + "]"


def translate():
    del NOTES[:]
    errs = []
    found = {}
    try:
        src = strip_comments(open(repo_file("quill/src/action/remove_dummy.rs"), encoding="utf-8").read())
        consts = string_consts(src)
        body = fn_body(src, "remove_dummy")
        if body is None:
            return ["remove_dummy.rs: fn remove_dummy not found"]
        top = retains(body)
        if not top:
            return ["remove_dummy.rs: no `.retain(` call in fn remove_dummy"]
        for seg, recv, rb, _, _ in top:
            scan_level(seg, recv, rb, consts, found, errs)
        for lv in LEVELS:
            if lv not in found and not any((" level %s" % lv) in e for e in errs):
                errs.append("remove_dummy.rs: no retain for level %s found" % lv)
        refs = {n for lv in found for (k, n) in found[lv][1] if k == "const"}
        mc = method_consts(refs, errs)
        ins_prefix = insert_prefix(errs)
    except (ValueError, OSError, IndexError) as ex:
        return ["C10 translator cannot read the sources: %r" % (ex,)]
    if errs:
        return errs
    exact = {}
    for lv in LEVELS:
        vals = set()
        for k, n in found[lv][1]:
            vals.add(mc[n] if k == "const" else n)
        exact[lv] = canon(vals)
        if exact[lv] and lv != "method":
            NOTES.append("remove_dummy.rs: level %s compares with whole names %s" % (lv, exact[lv]))

    text = "(* GENERATED by translate/c10_consts.py from quill/src/action/{remove_dummy,insert_dummy}.rs and\n"
    text += "   duke/src/tree/method.rs — do not edit.  Placeholder constants of the dummy filters\n"
    text += "   (canonical order: by length, then text). *)\n"
    text += "From FB Require Export Base.Str.\n\n"
    for lv in LEVELS:
        pre = canon(found[lv][0])
        text += "(* %s *)\n" % ", ".join(repr(p) for p in pre + exact[lv])
        text += "Definition %s_prefixes : list str := %s.\n" % (lv, glist(pre))
        text += "Definition %s_exact : list str := %s.\n" % (lv, glist(exact[lv]))
    text += "(* %r *)\n" % ins_prefix
    text += "Definition insert_param_prefix : str := %s.\n" % gstr(ins_prefix)
    out = out_path()
    os.makedirs(os.path.dirname(out), exist_ok=True)
    old = open(out, encoding="utf-8").read() if os.path.exists(out) else None
    if old != text:
        with open(out, "w", encoding="utf-8") as f:
            f.write(text)
    return []


c10_consts = translate
c10_consts.__name__ = "c10_consts"

if __name__ == "__main__":
    e = translate()
    for x in e:
        print("ERROR:", x)
    for x in NOTES:
        print("NOTE:", x)
    sys.exit(1 if e else 0)
