#!/usr/bin/env python3
"""C10 translator: placeholder constants of the dummy filters, read from the Rust source.

reads   <vcheck.REPO>/quill/src/action/remove_dummy.rs   (the keep-condition of each of the four `retain` levels)
        <vcheck.REPO>/quill/src/action/insert_dummy.rs   (the `format!("p_{}", k.index)` placeholder of parameters)
        <vcheck.REPO>/duke/src/tree/method.rs            (MethodName::INIT / MethodName::CLINIT)
writes  <vcheck.COQ>/C10/Consts.v

Fails closed: the keep-condition of every level must have exactly the shape

    v.javadoc.is_some() || (!v.<children>.is_empty() ||)* !v.info.names[namespace].as_ref().is_some_and(|x| P || P ...)

with every P either  x.as_inner().starts_with("<literal>")  or  x == MethodName::<CONST>;
the children lists named there must be exactly the nested `retain`s of that level.  Anything
else (another predicate such as ends_with/contains, another operator, an additional level, a
different child list) is returned as an error of the check, never guessed at.
The *shape* of the conditions (what the model hard-codes) and the *constants* (what this file
generates) are thereby both tied to the source.
"""
import os
import re
import sys

sys.path.insert(0, os.path.join(os.path.dirname(os.path.dirname(os.path.abspath(__file__))), "lib"))
import vcheck  # noqa: E402  (vcheck.REPO: the repository under test; vcheck.COQ: where generated .v files go)


def repo_file(rel):
    return os.path.join(vcheck.REPO, rel)


def out_path():
    return os.path.join(vcheck.COQ, "C10", "Consts.v")

LEVELS = {
    # receiver of the retain call -> (level name, child lists that must be tested for emptiness, nested retains)
    "self.classes": ("class", ["fields", "methods"], ["v.fields", "v.methods"]),
    "v.fields": ("field", [], []),
    "v.methods": ("method", ["parameters"], ["v.parameters"]),
    "v.parameters": ("param", [], []),
}


def strip_comments(src):
    src = re.sub(r"/\*.*?\*/", "", src, flags=re.S)
    return "\n".join(re.sub(r"//.*$", "", l) for l in src.split("\n"))


def balanced(src, i):
    """src[i] == '(' -> index just after the matching ')' (string literals respected)."""
    assert src[i] == "("
    depth = 0
    j = i
    while j < len(src):
        c = src[j]
        if c == '"':
            j += 1
            while src[j] != '"':
                j += 2 if src[j] == "\\" else 1
        elif c == "(":
            depth += 1
        elif c == ")":
            depth -= 1
            if depth == 0:
                return j + 1
        j += 1
    raise ValueError("unbalanced parenthesis")


def retains(src):
    """top-level `<recv>.retain( ... )` calls of src: list of (recv, body, start, end)."""
    out = []
    pos = 0
    while True:
        m = re.compile(r"([A-Za-z_][A-Za-z_0-9]*\.[A-Za-z_][A-Za-z_0-9]*)\s*\.retain\s*\(").search(src, pos)
        if not m:
            return out
        end = balanced(src, m.end() - 1)
        out.append((m.group(1), src[m.end():end - 1], m.start(), end))
        pos = end


PRED_SW = r'x\.as_inner\(\)\.starts_with\("((?:[^"\\])*)"\)'
PRED_EQ = r"x==MethodName::([A-Z_]+)"


def level(recv, body, errs, found):
    if recv not in LEVELS:
        errs.append("remove_dummy.rs: unexpected retain on %r" % recv)
        return
    name, children, nested_expected = LEVELS[recv]
    if name in found:
        errs.append("remove_dummy.rs: second retain for level %s" % name)
        return
    nested = retains(body)
    if [n[0] for n in nested] != nested_expected:
        errs.append("remove_dummy.rs: level %s nests retains %s, expected %s" % (name, [n[0] for n in nested], nested_expected))
        return
    rest = body
    for recv2, body2, s, e in reversed(nested):
        rest = rest[:s] + "@" + rest[e:]
    for recv2, body2, s, e in nested:
        level(recv2, body2, errs, found)
    flat = re.sub(r"\s+", "", rest)
    pred = "(?:%s|%s)" % (PRED_SW, PRED_EQ)
    shape = (r"^\|_,v\|\{" + "".join("@;" for _ in nested)
             + r"v\.javadoc\.is_some\(\)\|\|"
             + "".join(r"!v\.%s\.is_empty\(\)\|\|" % c for c in children)
             + r"!v\.info\.names\[namespace\]\.as_ref\(\)\.is_some_and\(\|x\|\{?(" + pred + r"(?:\|\|" + pred + r")*)\}?\)\}$")
    m = re.match(shape, flat)
    if not m:
        errs.append("remove_dummy.rs: keep-condition of level %s has an unrecognised shape: %s" % (name, flat[:300]))
        return
    preds = m.group(1).split("||")
    prefixes, consts = [], []
    for p in preds:
        a = re.fullmatch(PRED_SW, p)
        b = re.fullmatch(PRED_EQ, p)
        if a:
            prefixes.append(a.group(1))
        elif b:
            consts.append(b.group(1))
        else:
            errs.append("remove_dummy.rs: level %s: unrecognised predicate %s" % (name, p))
            return
    found[name] = (prefixes, consts)


def method_consts(errs):
    src = strip_comments(open(repo_file("duke/src/tree/method.rs"), encoding="utf-8").read())
    out = {}
    for m in re.finditer(r'pub\s+const\s+([A-Z_]+)\s*:\s*&\'static\s+MethodNameSlice\s*=\s*\{\s*unsafe\s*\{\s*MethodNameSlice::from_inner_unchecked\(\s*JavaStr::from_str\(\s*"([^"\\]*)"\s*\)\s*\)\s*\}\s*\}\s*;', src):
        out[m.group(1)] = m.group(2)
    if not out:
        errs.append("duke/src/tree/method.rs: no MethodName constants of the expected form found")
    return out


def gstr(s):
    return "[" + ";".join(str(ord(c)) for c in s) + "]"


def glist(xs):
    return "[" + "; ".join(gstr(x) for x in xs) + "]"


def translate():
    errs = []
    found = {}
    src = strip_comments(open(repo_file("quill/src/action/remove_dummy.rs"), encoding="utf-8").read())
    m = re.search(r"pub\s+fn\s+remove_dummy\s*\(\s*mut\s+self\s*,\s*namespace\s*:\s*&str\s*\)\s*->\s*Result<Self>\s*\{", src)
    if not m:
        return ["remove_dummy.rs: fn remove_dummy(mut self, namespace: &str) -> Result<Self> not found"]
    body = src[m.end():]
    flat_head = re.sub(r"\s+", "", body)
    if not flat_head.startswith("letnamespace=self.get_namespace(namespace)?;self.classes.retain("):
        errs.append("remove_dummy.rs: function does not start with the namespace lookup followed by self.classes.retain")
    top = retains(body)
    if [t[0] for t in top] != ["self.classes"]:
        errs.append("remove_dummy.rs: expected exactly one top-level retain on self.classes, found %s" % [t[0] for t in top])
    else:
        level(top[0][0], top[0][1], errs, found)
        tail = re.sub(r"\s+", "", body[top[0][3]:])
        if not tail.startswith(";Ok(self)}"):
            errs.append("remove_dummy.rs: something follows the retain other than Ok(self)")
    for lv in ("class", "field", "method", "param"):
        if lv not in found and not errs:
            errs.append("remove_dummy.rs: level %s not found" % lv)
    mc = method_consts(errs)
    exact = {}
    for lv, (prefixes, consts) in found.items():
        vals = []
        for c in consts:
            if c not in mc:
                errs.append("MethodName::%s is not defined in duke/src/tree/method.rs in the expected form" % c)
            else:
                vals.append(mc[c])
        exact[lv] = vals
        if consts and lv != "method":
            errs.append("level %s compares with MethodName constants" % lv)

    # insert_dummy.rs: the parameter placeholder
    isrc = strip_comments(open(repo_file("quill/src/action/insert_dummy.rs"), encoding="utf-8").read())
    fm = re.findall(r'format!\(\s*"((?:[^"\\])*)"\s*,\s*([^)]*)\)', isrc)
    ins_prefix = None
    if len(fm) != 1 or fm[0][1].strip() != "k.index" or not fm[0][0].endswith("{}") or "{" in fm[0][0][:-2]:
        errs.append('insert_dummy.rs: expected exactly one format!("<prefix>{}", k.index), found %s' % fm)
    else:
        ins_prefix = fm[0][0][:-2]
    # the three other placeholders are clones of (parts of) the key
    flat = re.sub(r"\s+", "", isrc)
    if flat.count("letb=k.name.clone();v.info=Action::Edit(a.clone(),b);") != 2:
        errs.append("insert_dummy.rs: expected the field and the method placeholder to be k.name.clone()")
    if "fnget_simplified(name:&ObjClassName)->&ObjClassNameSlice{name.get_inner_class_name().unwrap_or(name)}letb=get_simplified(k);v.info=Action::Edit(a.clone(),b.to_owned());" not in flat:
        errs.append("insert_dummy.rs: expected the class placeholder to be get_inner_class_name(k).unwrap_or(k)")
    if errs:
        return errs

    text = "(* GENERATED by translate/c10_consts.py from quill/src/action/{remove_dummy,insert_dummy}.rs and\n"
    text += "   duke/src/tree/method.rs — do not edit.  Placeholder constants of the dummy filters. *)\n"
    text += "From FB Require Export Base.Str.\n\n"
    for lv in ("class", "field", "method", "param"):
        text += "(* %s *)\n" % ", ".join(repr(p) for p in found[lv][0] + exact[lv])
        text += "Definition %s_prefixes : list str := %s.\n" % (lv, glist(found[lv][0]))
        text += "Definition %s_exact : list str := %s.\n" % (lv, glist(exact[lv]))
    text += "(* %r *)\n" % ins_prefix
    text += "Definition insert_param_prefix : str := %s.\n" % gstr(ins_prefix)
    out = out_path()
    os.makedirs(os.path.dirname(out), exist_ok=True)
    old = open(out, encoding="utf-8").read() if os.path.exists(out) else None
    if old != text:
        with open(out, "w", encoding="utf-8") as f:
            f.write(text)
    return []


c10_consts = translate
c10_consts.__name__ = "c10_consts"

if __name__ == "__main__":
    import sys
    e = translate()
    for x in e:
        print("ERROR:", x)
    sys.exit(1 if e else 0)
