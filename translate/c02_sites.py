#!/usr/bin/env python3
"""C02 translator: call sites of the class writer that the Coq model abstracts from, read from the Rust source.

reads   <vcheck.REPO>/duke/src/simple_class_writer.rs   (write_attribute_fix_length call sites and the writes that
                                                         follow them; if_helper / goto_helper call sites; the
                                                         literals of the trampoline; the switch opcodes; every use
                                                         of an attribute name with its framing; the pool put each
                                                         writer function calls, in source order)
        <vcheck.REPO>/duke/src/class_constants.rs        (opcode constants, attribute names)
writes  <vcheck.COQ>/C02/Gen.v

Fails closed: every `write_attribute_fix_length(` / `if_helper(` / `goto_helper(` occurrence other than the
function definitions must have exactly the recognised shape, and every statement between a fix-length call and
the closing brace of its block must be a `buffer.write_uN(...)?;` — anything else is an error of the check.
"""
import os
import re
import sys

sys.path.insert(0, os.path.join(os.path.dirname(os.path.dirname(os.path.abspath(__file__))), "lib"))
import vcheck  # noqa: E402


def gstr(s):
    return "[" + ";".join(str(ord(c)) for c in s) + "]%N"


def run():
    errs = []
    src_path = os.path.join(vcheck.REPO, "duke/src/simple_class_writer.rs")
    const_path = os.path.join(vcheck.REPO, "duke/src/class_constants.rs")
    src = open(src_path, encoding="utf-8").read()
    consts = open(const_path, encoding="utf-8").read()

    # opcode constants
    m = re.search(r"pub\(crate\) mod opcode \{(.*?)\n\}", consts, re.S)
    if not m:
        return ["class_constants.rs: mod opcode not found"]
    opc = {}
    for name, val in re.findall(r"pub\(crate\) const (\w+): u8 = (0x[0-9a-fA-F]+|\d+);", m.group(1)):
        opc[name] = int(val, 0)
    m = re.search(r"pub\(crate\) mod attribute \{(.*?)\n\}", consts, re.S)
    if not m:
        return ["class_constants.rs: mod attribute not found"]
    attr = dict(re.findall(r'pub\(crate\) const (\w+): &JavaStr = JavaStr::from_str\("([^"]*)"\);', m.group(1)))

    lines = src.split("\n")
    # (a) fix-length sites
    sites = []
    call = re.compile(r"^\s*write_attribute_fix_length\(&mut buffer, pool, attribute::(\w+), (\d+)\)\?;\s*$")
    width = {"write_u8": 1, "write_u16": 2, "write_u32": 4, "write_u64": 8, "write_i8": 1, "write_i16": 2, "write_i32": 4, "write_i64": 8}
    n_calls = 0
    for i, l in enumerate(lines):
        if "write_attribute_fix_length(" not in l:
            continue
        if l.startswith("fn write_attribute_fix_length"):
            continue
        n_calls += 1
        mm = call.match(l)
        if not mm:
            errs.append("simple_class_writer.rs:%d: unrecognised write_attribute_fix_length call: %s" % (i + 1, l.strip()))
            continue
        name, lit = mm.group(1), int(mm.group(2))
        if name not in attr:
            errs.append("simple_class_writer.rs:%d: attribute::%s is not a constant of class_constants.rs" % (i + 1, name))
            continue
        ws = []
        j = i + 1
        while j < len(lines) and lines[j].strip() != "}":
            st = lines[j].strip()
            if st == "" or st.startswith("//"):
                j += 1
                continue
            wm = re.match(r"^buffer\.(write_[ui]\d+)\(.*\)\?;$", st)
            if not wm or wm.group(1) not in width:
                errs.append("simple_class_writer.rs:%d: statement after write_attribute_fix_length(%s, %d) is not a fixed-width write: %s" % (j + 1, name, lit, st))
                break
            ws.append(width[wm.group(1)])
            j += 1
        sites.append((attr[name], lit, ws, i + 1))
    if n_calls == 0:
        errs.append("no write_attribute_fix_length call site found")

    # (b) if_helper / goto_helper call sites
    def helper_sites(fn, extra):
        pat = re.compile(r"^\s*" + fn + r"\(&mut w, &labels, &wide, &mut unwritten, opcode_pos, instruction_index, label, opcode::(\w+), opcode::(\w+)\)\?;\s*$")
        found = []
        for i, l in enumerate(lines):
            if fn + "(" not in l or l.startswith("fn " + fn):
                continue
            mm = pat.match(l)
            if not mm:
                errs.append("simple_class_writer.rs:%d: unrecognised %s call: %s" % (i + 1, fn, l.strip()))
                continue
            a, b = mm.group(1), mm.group(2)
            if a not in opc or b not in opc:
                errs.append("simple_class_writer.rs:%d: unknown opcode constant in %s call" % (i + 1, fn))
                continue
            found.append((opc[a], opc[b]))
        if not found:
            errs.append("no %s call site found" % fn)
        return found

    ifs = helper_sites("if_helper", None)
    gotos = helper_sites("goto_helper", None)

    # (c) literals of the trampoline and opcodes used inside the helpers / switches
    n_skip = len(re.findall(r"w\.write_i16\(1 \+ 2 \+ 1 \+ 4\)\?;", src))
    if n_skip != 2:
        errs.append("expected exactly two `w.write_i16(1 + 2 + 1 + 4)?;` (trampoline skip), found %d" % n_skip)
    n_gw = len(re.findall(r"w\.write_u8\(opcode::GOTO_W\)\?;", src))
    if n_gw != 2:
        errs.append("expected exactly two `w.write_u8(opcode::GOTO_W)?;` in if_helper, found %d" % n_gw)
    for need in ("GOTO_W", "TABLESWITCH", "LOOKUPSWITCH", "LDC", "LDC_W", "LDC2_W"):
        if need not in opc:
            errs.append("opcode::%s missing" % need)
    # (d) pool tags and method-handle kinds (class_constants::pool)
    m = re.search(r"pub\(crate\) mod pool \{(.*?)\n\}", consts, re.S)
    if not m:
        return ["class_constants.rs: mod pool not found"]
    pool_tags = [(n, int(v, 0)) for n, v in re.findall(r"pub\(crate\) const (\w+): u8 = (0x[0-9a-fA-F]+|\d+);", m.group(1))]
    tagd = dict(pool_tags)
    need_tags = ["UTF8", "INTEGER", "FLOAT", "LONG", "DOUBLE", "CLASS", "STRING", "FIELD_REF", "METHOD_REF", "INTERFACE_METHOD_REF",
                 "NAME_AND_TYPE", "METHOD_HANDLE", "METHOD_TYPE", "DYNAMIC", "INVOKE_DYNAMIC", "MODULE", "PACKAGE"]
    for n in need_tags:
        if n not in tagd:
            errs.append("class_constants.rs: pool::%s missing" % n)
    mm = re.search(r"MAGIC: u32 = (0x[0-9a-fA-F_]+);", consts)
    if not mm:
        errs.append("class_constants.rs: MAGIC not found")
    # (e) every use of an attribute name in the writer: enclosing fn, name, how it is framed
    #     0 = write_attribute_fix_length, 1 = write_attribute (buffered), 2 = name written by hand (put_utf8(attribute::X))
    uses = []
    cur_fn = None
    fn_re = re.compile(r"^(?:pub\(crate\) )?fn (\w+)")
    for i, l in enumerate(lines):
        fm = fn_re.match(l)
        if fm:
            cur_fn = fm.group(1)
        for am in re.finditer(r"attribute::(\w+)", l):
            name = am.group(1)
            if l.startswith("use "):
                continue
            if name not in attr:
                errs.append("simple_class_writer.rs:%d: attribute::%s is not a constant of class_constants.rs" % (i + 1, name))
                continue
            if "write_attribute_fix_length(" in l:
                kind = 0
            elif "write_attribute(" in l:
                kind = 1
            elif "pool.put_utf8(attribute::" in l:
                kind = 2
            elif "with_context" in l or "anyhow!" in l:
                continue  # error message only
            else:
                errs.append("simple_class_writer.rs:%d: unrecognised use of attribute::%s: %s" % (i + 1, name, l.strip()))
                continue
            uses.append((cur_fn, attr[name], kind, i + 1))
    # (f) which pool put each writer function calls, in source order
    puts = []
    cur_fn = None
    for i, l in enumerate(lines):
        fm = fn_re.match(l)
        if fm:
            cur_fn = fm.group(1)
        if l.strip().startswith("//"):
            continue
        for pm in re.finditer(r"(?:pool\.|PoolWrite::)(put_\w+)", l):
            puts.append((cur_fn, pm.group(1), i + 1))
    if not puts:
        errs.append("no pool put call found")
    if errs:
        return errs

    out = []
    out.append("(* GENERATED by translate/c02_sites.py from duke/src/simple_class_writer.rs and class_constants.rs — do not edit *)")
    out.append("From Coq Require Import List NArith ZArith.")
    out.append("Import ListNotations.")
    out.append("")
    out.append("(* write_attribute_fix_length call sites: attribute name, literal length, widths of the writes that follow *)")
    out.append("Definition fix_length_sites : list (list N * Z * list Z) := [")
    out.append(";\n".join("  (%s, %d%%Z, [%s]%%Z)  (* line %d: %s *)" % (gstr(n), lit, ";".join(str(w) for w in ws), ln, n) for n, lit, ws, ln in sites))
    out.append("].")
    out.append("")
    out.append("(* if_helper(.., opcode, opposite_opcode) call sites *)")
    out.append("Definition if_sites : list (N * N) := [%s]%%N." % "; ".join("(%d, %d)" % p for p in ifs))
    out.append("(* goto_helper(.., opcode, wide_opcode) call sites *)")
    out.append("Definition jump_sites : list (N * N) := [%s]%%N." % "; ".join("(%d, %d)" % p for p in gotos))
    out.append("")
    out.append("Definition src_GOTO_W : N := %d%%N." % opc["GOTO_W"])
    out.append("Definition src_TABLESWITCH : N := %d%%N." % opc["TABLESWITCH"])
    out.append("Definition src_LOOKUPSWITCH : N := %d%%N." % opc["LOOKUPSWITCH"])
    out.append("Definition src_LDC : N := %d%%N." % opc["LDC"])
    out.append("Definition src_LDC_W : N := %d%%N." % opc["LDC_W"])
    out.append("Definition src_LDC2_W : N := %d%%N." % opc["LDC2_W"])
    out.append("Definition src_tramp_skip : Z := (1 + 2 + 1 + 4)%Z.")
    out.append("")
    out.append("(* class_constants::MAGIC and the constant-pool tags *)")
    out.append("Definition src_MAGIC : Z := %d%%Z." % int(mm.group(1).replace("_", ""), 0))
    out.append("Definition src_pool_tags : list N := [%s]%%N.  (* %s *)" % ("; ".join(str(tagd[n]) for n in need_tags), " ".join(need_tags)))
    out.append("")
    out.append("(* every use of an attribute name in simple_class_writer.rs: function, name, framing")
    out.append("   (0 = write_attribute_fix_length, 1 = write_attribute, 2 = name put by hand) *)")
    out.append("Definition attr_use_sites : list (list N * list N * N) := [")
    out.append(";\n".join("  (%s, %s, %d%%N)  (* line %d: %s in %s *)" % (gstr(f), gstr(n), k, ln, n, f) for f, n, k, ln in uses))
    out.append("].")
    out.append("")
    out.append("(* the pool puts of every function of simple_class_writer.rs, in source order: function, put *)")
    out.append("Definition put_sites : list (list N * list N) := [")
    out.append(";\n".join("  (%s, %s)  (* line %d: %s in %s *)" % (gstr(f), gstr(n), ln, n, f) for f, n, ln in puts))
    out.append("].")
    text = "\n".join(out) + "\n"
    path = os.path.join(vcheck.COQ, "C02", "Gen.v")
    old = open(path).read() if os.path.exists(path) else None
    if old != text:
        with open(path, "w") as f:
            f.write(text)
    return []


if __name__ == "__main__":
    e = run()
    for x in e:
        print("ERROR", x)
    sys.exit(1 if e else 0)
