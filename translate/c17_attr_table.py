#!/usr/bin/env python3
"""C17 translator: the attribute dispatch tables of duke's class reader, read from the Rust source.

reads   <REPO>/duke/src/class_reader.rs          every `match attribute_name.as_java_str() { … }`
                                                  (fn read = class, read_field, read_method, read_code,
                                                  read_record_component), `fn skip_attributes`, every
                                                  `ControlFlow::Break(visitor) => …` arm, the first-pass
                                                  `reader.skip(2 + 2 + 2)` over the members
        <REPO>/duke/src/class_constants.rs       `attribute::X` -> the attribute's name
        <REPO>/duke/src/visitor/{class,field,method,method/code,record}.rs   fields of the *Interests structs
writes  <COQ>/C17/AttrTable.v                    data over the types of C17/Syntax.v

Fails closed.  Every arm must have one of the shapes

    name if name == attribute::X && !interests.y => <body>
    name if name == attribute::X => <body>
    _ if !interests.y => <body>
    _ => <body>

and every body must be classified by exactly one of the rules in `classify` (skip / flag / read
exactly `length` bytes / visit_code / record components / grammar parse that never mentions
`length`).  A body that mentions `length` in any other way, an arm pattern of another form, a
missing or additional attribute loop, an `attribute::X` without a constant — each is returned as
an error string and the check reports a broken tie.  (REPO / COQ come from lib/vcheck.py.)
"""
import os
import re
import sys

_HERE = os.path.dirname(os.path.abspath(__file__))
sys.path.insert(0, os.path.join(os.path.dirname(_HERE), "lib"))
try:
    import vcheck
    REPO, COQ = vcheck.REPO, vcheck.COQ
except Exception:  # standalone use without the driver
    REPO = os.path.abspath(os.environ.get("VERIF_REPO", "/repo"))
    COQ = os.path.join(os.path.dirname(_HERE), "coq")

CONTEXTS = [  # (rust fn, coq name, visitor variable, interests file, interests struct)
    ("read", "class", "class_visitor", "visitor/class.rs", "ClassInterests"),
    ("read_field", "field", "field_visitor", "visitor/field.rs", "FieldInterests"),
    ("read_method", "method", "method_visitor", "visitor/method.rs", "MethodInterests"),
    ("read_code", "code", "code_visitor", "visitor/method/code.rs", "CodeInterests"),
    ("read_record_component", "rc", "record_component_visitor", "visitor/record.rs", "RecordComponentInterests"),
]

SKIP_ATTRIBUTES_BODY = (
    "{ let attributes_count = reader.read_u16()?; for _ in 0..attributes_count { "
    "let _attribute_name_index = reader.read_u16()?; let attribute_length = reader.read_u32()?; "
    "reader.skip(attribute_length as i64)?; } Ok(()) }"
)
BREAK_ARM = "ControlFlow::Break(visitor) => { skip_attributes(reader)?; Ok(visitor) }"


class Fail(Exception):
    pass


def strip_comments(src):
    """Remove // and /* */ comments; string, char and byte literals are respected."""
    out = []
    i, n = 0, len(src)
    while i < n:
        c = src[i]
        if src.startswith("//", i):
            while i < n and src[i] != "\n":
                i += 1
        elif src.startswith("/*", i):
            j = src.find("*/", i + 2)
            if j < 0:
                raise Fail("unterminated block comment")
            out.append(" ")
            i = j + 2
        elif c == '"':
            j = i + 1
            while j < n and src[j] != '"':
                j += 2 if src[j] == "\\" else 1
            out.append(src[i:j + 1])
            i = j + 1
        elif c == "'":
            # char / byte literal ('x', '\n', '\'') or a lifetime ('a)
            if i + 1 < n and src[i + 1] == "\\":
                j = src.find("'", i + 3)
                out.append(src[i:j + 1])
                i = j + 1
            elif i + 2 < n and src[i + 2] == "'":
                out.append(src[i:i + 3])
                i += 3
            else:
                out.append(c)
                i += 1
        else:
            out.append(c)
            i += 1
    return "".join(out)


def norm(s):
    return re.sub(r"\s+", " ", s).strip()


def match_close(src, i, open_c="{", close_c="}"):
    """src[i] == open_c -> index of the matching close_c (literals respected; comments already stripped)."""
    if src[i] != open_c:
        raise Fail("expected %r at offset %d" % (open_c, i))
    depth = 0
    j, n = i, len(src)
    while j < n:
        c = src[j]
        if c == '"':
            j += 1
            while src[j] != '"':
                j += 2 if src[j] == "\\" else 1
        elif c == "'" and j + 2 < n and (src[j + 2] == "'" or src[j + 1] == "\\"):
            j = src.find("'", j + 2)
        elif c == open_c:
            depth += 1
        elif c == close_c:
            depth -= 1
            if depth == 0:
                return j
        j += 1
    raise Fail("unbalanced %r" % open_c)


def functions(src):
    """name -> body text (with braces) of every top-level `fn` (column 0, optionally `pub(crate) `)."""
    res = {}
    for m in re.finditer(r"^(?:pub(?:\([a-z]+\))? )?fn (\w+)", src, re.M):
        # the body starts at the first `{` after the signature at parenthesis depth 0; signatures here
        # contain no braces except in where-clauses of generics, which this file does not use
        k = src.index("(", m.end())
        k = match_close(src, k, "(", ")") + 1
        b = src.index("{", k)
        e = match_close(src, b)
        if m.group(1) in res:
            raise Fail("two top-level functions named %s" % m.group(1))
        res[m.group(1)] = src[b:e + 1]
    return res


def split_arms(body):
    """body: text between the braces of the match.  -> list of (pattern text, body text)."""
    arms = []
    i, n = 0, len(body)
    while True:
        while i < n and body[i] in " \t\r\n,":
            i += 1
        if i >= n:
            break
        j = body.find("=>", i)
        if j < 0:
            raise Fail("arm without `=>` near: %s" % norm(body[i:i + 80]))
        pattern = norm(body[i:j])
        k = j + 2
        while body[k] in " \t\r\n":
            k += 1
        if body[k] == "{":
            e = match_close(body, k)
            arm_body = body[k:e + 1]
            i = e + 1
        else:
            depth = 0
            e = k
            while e < n:
                c = body[e]
                if c in "([{":
                    depth += 1
                elif c in ")]}":
                    depth -= 1
                elif c == "," and depth == 0:
                    break
                e += 1
            arm_body = body[k:e]
            i = e + 1
        arms.append((pattern, norm(arm_body)))
    return arms


PAT_NAME = re.compile(r"^name if name == attribute::([A-Z0-9_]+)( && !interests\.([a-z0-9_]+))?$")
PAT_ANY = re.compile(r"^_( if !interests\.([a-z0-9_]+))?$")
VISIT_CALL = re.compile(r"\b(\w*visitor|\w+Visitor)(\.|::)(visit_|finish_)\w+\(")


def nostr(text):
    """String literals emptied (an error message may well say `length`)."""
    return re.sub(r'"(?:[^"\\]|\\.)*"', '""', text)


def unshadow(text):
    """Blank out the scope of every inner `let length = …` (a local that shadows the attribute's
    `length`): from the `let` to the end of the innermost enclosing block."""
    while True:
        m = re.search(r"\blet length\b", text)
        if not m:
            return text
        # innermost enclosing `{`: scan backwards counting braces
        depth = 0
        k = m.start()
        while k >= 0:
            if text[k] == "}":
                depth += 1
            elif text[k] == "{":
                if depth == 0:
                    break
                depth -= 1
            k -= 1
        if k < 0:
            raise Fail("`let length` shadows the attribute length at the top level of an arm: %s" % text[:200])
        e = match_close(text, k)
        text = text[:m.start()] + " " * (e - m.start()) + text[e:]


def classify(body, vis):
    """body: normalised arm body -> Coq action term."""
    inner = body
    if inner.startswith("{") and inner.endswith("}"):
        inner = inner[1:-1].strip()
    inner_nosemi = inner[:-1].strip() if inner.endswith(";") else inner
    if inner_nosemi == "reader.skip(length as i64)?":
        return "ASkip"
    if inner == "is_deprecated = true;":
        return "AFlag 0"
    if inner == "is_synthetic = true;":
        return "AFlag 1"
    uses_len = re.findall(r"\blength\b", unshadow(nostr(inner)))
    if "visit_code()" in inner:
        m = re.match(r"^if let Some\(code_visitor\) = method_visitor\.visit_code\(\)\? \{", inner)
        if not m:
            raise Fail("Code arm: unexpected shape: %s" % inner[:200])
        b = inner.index("{", m.start())
        e = match_close(inner, b)
        then = inner[b:e + 1]
        rest = inner[e + 1:].strip()
        if "read_code(reader, code_visitor, pool, bootstrap_methods)" not in then or "method_visitor.finish_code(code_visitor)?" not in then:
            raise Fail("Code arm: the Some branch does not call read_code / finish_code as expected: %s" % then[:200])
        if re.search(r"\blength\b", nostr(then)):
            raise Fail("Code arm: the Some branch mentions `length`: %s" % then[:200])
        if rest == "":
            return "ACode false"
        if rest == "else { reader.skip(length as i64)?; }":
            return "ACode true"
        raise Fail("Code arm: unexpected text after the `if let Some` block: %s" % rest[:200])
    if "read_record_component(" in inner:
        if uses_len:
            raise Fail("Record arm mentions `length`: %s" % inner[:200])
        if not re.search(r"let components_length = reader\.read_u16\(\)\?; for _ in 0\.\.components_length \{ class_visitor = read_record_component\(reader, class_visitor, pool\)\?; \}", inner):
            raise Fail("Record arm: unexpected component loop: %s" % inner[:300])
        once = bool(re.search(r"if had_record_attribute \{ bail!\([^)]*\); \} had_record_attribute = true;", inner))
        return "ARecord %s" % ("true" if once else "false")
    if "read_u8_vec(length as usize)" in inner:
        if len(uses_len) != 1:
            raise Fail("arm reads `length` bytes and mentions `length` elsewhere: %s" % inner[:200])
        if "UnknownAttributeVisitor::read(" in inner and (vis + ".visit_unknown_attribute(") in inner:
            return "AReadLen true"
        if VISIT_CALL.search(inner):
            return "AReadLen false"
        raise Fail("arm reads `length` bytes but delivers nothing: %s" % inner[:200])
    if uses_len:
        raise Fail("arm body uses `length` in a way the translator does not know: %s" % inner[:300])
    if "reader." not in inner and "(reader" not in inner:
        raise Fail("arm body neither reads nor skips: %s" % inner[:200])
    if VISIT_CALL.search(inner):
        return "AParse DNow"
    m = re.search(r"\b(\w+)\.insert_if_empty\(", inner)
    if m:
        return "AParse (DStore %s true)" % gstr(m.group(1))
    m = re.search(r"let table = (\w+)\.get_or_insert_with\(Vec::new\);", inner)
    if m and "table.push(" in inner:
        return "AParse (DStore %s false)" % gstr(m.group(1))
    raise Fail("arm body parses but neither visits nor stores: %s" % inner[:300])


U16_READS = {"read_u16": 1, "read_u16_as_local_variable": 1}   # reader methods that consume exactly one u16
U16_HELPER = "fn read_u16_as_local_variable(&mut self) -> Result<LvIndex> { Ok(LvIndex { index: self.read_u16()? }) }"


def row_width(body):
    """A table-like arm  `let table = X.get_or_insert_with(Vec::new); let N = reader.read_u16()?;
    for _ in 0..N { <reads>; table.push(…); }`  ->  the number of u16 its loop body reads per row.
    None for arms of another kind.  Fails closed: anything but whole-u16 reads in the loop body, more than
    one push, or reads outside the loop is an error."""
    inner = body
    if inner.startswith("{") and inner.endswith("}"):
        inner = inner[1:-1].strip()
    if "table.push(" not in inner:
        return None
    m = re.match(r"^let table = \w+\.get_or_insert_with\(Vec::new\); let (\w+) = reader\.read_u16\(\)\?; for _ in 0\.\.\1 \{", inner)
    if not m:
        raise Fail("table arm: expected `let table = …; let n = reader.read_u16()?; for _ in 0..n {`: %s" % inner[:200])
    b = m.end() - 1
    e = match_close(inner, b)
    if inner[e + 1:].strip() != "":
        raise Fail("table arm: statements after the row loop: %s" % inner[e + 1:][:200])
    loop = nostr(inner[b + 1:e])
    if loop.count("table.push(") != 1:
        raise Fail("table arm: the row loop pushes %d times" % loop.count("table.push("))
    if re.search(r"\b(for|while|loop|if|match)\b", loop):
        raise Fail("table arm: control flow inside the row loop: %s" % loop[:200])
    width = 0
    for call in re.finditer(r"\breader\.(\w+)\(", loop):
        if call.group(1) not in U16_READS:
            raise Fail("table arm: the row loop calls reader.%s (only whole-u16 reads are known)" % call.group(1))
        width += U16_READS[call.group(1)]
    if re.search(r"\breader\s*[,)]|&mut\s+reader\b", loop):
        raise Fail("table arm: the row loop hands the reader to another function: %s" % loop[:200])
    if width == 0:
        raise Fail("table arm: the row loop reads nothing")
    return width


def deferred_deliveries(nbody, vis, ifields, fn):
    """The tables a reader function hands over after its attribute loop, in source order:
         if let Some(table) = SLOT { VIS.visit_x(table)?; }                                             -> (SLOT, visit_x, None)
         if let Some(table) = SLOT { if !table.is_empty() || (interests.f1 && interests.f2) { VIS.visit_x(table)?; } }
                                                                                                        -> (SLOT, visit_x, [f1, f2])
    nbody: the normalised function body.  Fails closed on any other `if let Some(table) = …` block."""
    out = []
    plain = re.compile(r"^\{ %s\.(visit_\w+)\(table\)\?; \}$" % re.escape(vis))
    guarded = re.compile(r"^\{ if !table\.is_empty\(\) \|\| \(interests\.([a-z0-9_]+)((?: && interests\.[a-z0-9_]+)+)\) \{ %s\.(visit_\w+)\(table\)\?; \} \}$" % re.escape(vis))
    for m in re.finditer(r"if let Some\(table\) = (\w+) \{", nbody):
        b = m.end() - 1
        e = match_close(nbody, b)
        block = nbody[b:e + 1]
        pm = plain.match(block)
        if pm:
            out.append((m.group(1), pm.group(1), None))
            continue
        gm = guarded.match(block)
        if gm:
            flags = [gm.group(1)] + re.findall(r"interests\.([a-z0-9_]+)", gm.group(2))
            for f in flags:
                if ifields is not None and f not in ifields:
                    raise Fail("fn %s: the delivery of %s consults interests.%s, which is not a field of the interests struct" % (fn, m.group(1), f))
            if len(set(flags)) != len(flags):
                raise Fail("fn %s: the delivery of %s names an interest twice" % (fn, m.group(1)))
            out.append((m.group(1), gm.group(3), flags))
            continue
        raise Fail("fn %s: a table is handed over after the loop in a way the translator does not know: if let Some(table) = %s %s" % (fn, m.group(1), block[:240]))
    if nbody.count("Some(table)") != len(out):
        raise Fail("fn %s: `Some(table)` occurs outside the known delivery blocks" % fn)
    return out


def gstr(s):
    return "[" + ";".join(str(ord(c)) for c in s) + "] (* %s *)" % s.replace("*)", "* )")


def gstr_plain(s):
    return "[" + ";".join(str(ord(c)) for c in s) + "]"


def attribute_constants(src):
    m = re.search(r"pub\(crate\) mod attribute \{", src)
    if not m:
        raise Fail("class_constants.rs: no `mod attribute`")
    b = src.index("{", m.start())
    e = match_close(src, b)
    consts = {}
    for c in re.finditer(r'pub\(crate\) const ([A-Z0-9_]+): &JavaStr = JavaStr::from_str\("([^"\\]*)"\);', src[b:e]):
        consts[c.group(1)] = c.group(2)
    if not consts:
        raise Fail("class_constants.rs: no attribute constants found")
    return consts


def interests_fields(src, struct):
    m = re.search(r"pub struct %s \{" % struct, src)
    if not m:
        raise Fail("no `pub struct %s`" % struct)
    b = src.index("{", m.start())
    e = match_close(src, b)
    fields = []
    for part in src[b + 1:e].split(","):
        part = norm(part)
        if not part:
            continue
        fm = re.match(r"^pub ([a-z0-9_]+): bool$", part)
        if not fm:
            raise Fail("%s: field of unexpected form: %s" % (struct, part))
        fields.append(fm.group(1))
    return fields


def generate():
    duke = os.path.join(REPO, "duke", "src")
    src = strip_comments(open(os.path.join(duke, "class_reader.rs"), encoding="utf-8").read())
    consts = attribute_constants(strip_comments(open(os.path.join(duke, "class_constants.rs"), encoding="utf-8").read()))
    fns = functions(src)

    out = []
    out.append("(* GENERATED by translate/c17_attr_table.py from duke/src/class_reader.rs, class_constants.rs and")
    out.append("   visitor/*.rs — do not edit; regenerated at the start of every ./check C17. *)")
    out.append("From FB Require Import C17.Syntax.")
    out.append("")

    # every attribute loop of the file must be one of the five we know
    for name, body in fns.items():
        cnt = body.count("match attribute_name.as_java_str()")
        expected = 1 if name in [c[0] for c in CONTEXTS] else 0
        if cnt != expected:
            raise Fail("fn %s contains %d attribute loops (`match attribute_name.as_java_str()`), expected %d" % (name, cnt, expected))
    # the one helper the row loops use besides read_u16 reads exactly one u16
    if U16_HELPER not in norm(src):
        raise Fail("trait CodeReadHelper: fn read_u16_as_local_variable is no longer `Ok(LvIndex { index: self.read_u16()? })`")
    # the exception table of read_code: a u16 count, then per entry four u16 (the model parses rows of width 4: C17/Model.v exc_rows)
    if not re.search(r"let exception_table = reader\.read_vec\( \|r\| r\.read_u16_as_usize\(\), \|r\| Ok\(Exception \{ start: labels\.get_or_create\(r\.read_u16\(\)\?\)\?, "
                     r"end: labels\.get_or_create_check_exclusive\(r\.read_u16\(\)\?\)\?, handler: labels\.get_or_create\(r\.read_u16\(\)\?\)\?, "
                     r"catch: pool\.get_optional\(r\.read_u16\(\)\?, PoolRead::get_class\)\?, \}\) \)\?;", norm(fns.get("read_code", ""))):
        raise Fail("fn read_code: the exception table is no longer `read_vec(u16 count, Exception { start, end, handler, catch: 4 × read_u16 })`")
    summary = {}
    for fn, cname, vis, ifile, istruct in CONTEXTS:
        if fn not in fns:
            raise Fail("class_reader.rs has no fn %s" % fn)
        body = fns[fn]
        nbody = norm(body)
        # the loop header: count, then per attribute name index + length
        if not re.search(r"let (attributes_count|attribute_count) = reader\.read_u16\(\)\?; for _ in 0\.\.\1 \{ let attribute_name = pool\.get_utf8_ref\(reader\.read_u16\(\)\?\)\?; let length = reader\.read_u32\(\)\?; match attribute_name\.as_java_str\(\) \{", nbody):
            raise Fail("fn %s: the attribute loop header (count u16; name index u16 resolved through the pool; length u32) has changed" % fn)
        k = body.index("match attribute_name.as_java_str()")
        b = body.index("{", k)
        e = match_close(body, b)
        arms = split_arms(body[b + 1:e])
        if not arms:
            raise Fail("fn %s: no arms" % fn)
        ifields = interests_fields(strip_comments(open(os.path.join(duke, ifile), encoding="utf-8").read()), istruct)
        lines = []
        widths = []
        for pattern, abody in arms:
            m = PAT_NAME.match(pattern)
            if m:
                cid = m.group(1)
                if cid not in consts:
                    raise Fail("fn %s: attribute::%s has no constant in class_constants.rs" % (fn, cid))
                pat = "PName %s" % gstr(consts[cid])
                flag = m.group(3)
            else:
                m = PAT_ANY.match(pattern)
                if not m:
                    raise Fail("fn %s: arm pattern of unknown form: %s" % (fn, pattern))
                pat = "PAny"
                flag = m.group(2)
            if flag is not None and flag not in ifields:
                raise Fail("fn %s: interests.%s is not a field of %s" % (fn, flag, istruct))
            guard = "GAlways" if flag is None else "(GNotInterested %s)" % gstr(flag)
            try:
                act = classify(abody, vis)
            except Fail as ex:
                raise Fail("fn %s, arm `%s`: %s" % (fn, pattern, ex))
            lines.append("  mkArm (%s) %s (%s)" % (pat, guard, act))
            try:
                w = row_width(abody)
            except Fail as ex:
                raise Fail("fn %s, arm `%s`: %s" % (fn, pattern, ex))
            if w is not None:
                if not act.startswith("AParse (DStore") or not act.endswith("false)") or not PAT_NAME.match(pattern):
                    raise Fail("fn %s, arm `%s`: a row loop in an arm that is not a named `get_or_insert_with` table arm" % (fn, pattern))
                widths.append("(%s, %d)" % (gstr(consts[PAT_NAME.match(pattern).group(1)]), w))
            elif act.startswith("AParse (DStore") and act.endswith("false)"):
                raise Fail("fn %s, arm `%s`: a `get_or_insert_with` table arm without a recognisable row loop" % (fn, pattern))
        flags_event = (vis + ".visit_deprecated_and_synthetic_attribute(is_deprecated, is_synthetic)?;") in nbody
        # deferred deliveries after the loop
        deferred_all = deferred_deliveries(nbody, vis, ifields, fn)
        deferred = [d[0] for d in deferred_all]
        whole = [(d[0], d[2]) for d in deferred_all if d[2] is not None]
        out.append("Definition %s_arms : list arm := [" % cname)
        out.append(";\n".join(lines))
        out.append("].")
        out.append("Definition %s_table : ctx_table := mkCtx %s_arms %s [%s] [%s] [%s] [%s]." % (
            cname, cname, "true" if flags_event else "false",
            "; ".join(gstr_plain(d) for d in deferred),
            "; ".join("(%s, [%s])" % (gstr(sl), "; ".join(gstr(f) for f in fl)) for sl, fl in whole),
            "; ".join(gstr_plain(f) for f in ifields), "; ".join(widths)))
        out.append("")
        summary[cname] = len(arms)

    def has_break(fn):
        nb = norm(fns[fn])
        n = nb.count("ControlFlow::Break(")
        if n != 1:
            raise Fail("fn %s: %d `ControlFlow::Break(` arms, expected 1" % (fn, n))
        return BREAK_ARM in nb

    skip_ok = norm(fns.get("skip_attributes", "")) == SKIP_ATTRIBUTES_BODY
    nread = norm(fns["read"])
    hdr = re.findall(r"for _ in 0\.\.reader\.read_u16\(\)\? \{ reader\.skip\(([0-9 +]+)\)\?; skip_attributes\(reader\)\?; \}", nread)
    if len(hdr) != 2 or hdr[0] != hdr[1]:
        raise Fail("fn read: the first pass over fields and methods (count; skip(header); skip_attributes) has changed")
    member_header = sum(int(x) for x in hdr[0].split("+"))
    # second pass: with_pos(fields_start, …) reading fields then methods
    if not re.search(r"let fields_start = reader\.marker\(\)\?;", nread) or "reader.with_pos(fields_start, |reader| {" not in nread:
        raise Fail("fn read: the marker / with_pos(fields_start) second pass has changed")

    # second pass over the members: either every member is read, or only when interests.fields / .methods
    def second_pass(kind, reader_call):
        count = "%ss_count" % kind
        call = r"class_visitor = %s \.with_context\(\|\| anyhow!\([^;]*\)\)\?;" % reader_call
        if re.search(r"let %s = reader\.read_u16\(\)\?; for _ in 0\.\.%s \{ %s \}" % (count, count, call), nread):
            return False
        m = re.search(r"let %s = reader\.read_u16\(\)\?; for _ in 0\.\.%s \{ if interests\.%ss \{ %s \} else \{ reader\.skip\(([0-9 +]+)\)\?; skip_attributes\(reader\)\?; \} \}" % (count, count, kind, call), nread)
        if m and sum(int(x) for x in m.group(1).split("+")) == member_header:
            return True
        raise Fail("fn read: the second pass over the %ss has a shape the translator does not know" % kind)
    honours_fields = second_pass("field", r"read_field\(reader, class_visitor, pool\)")
    honours_methods = second_pass("method", r"read_method\(reader, class_visitor, pool, &bootstrap_methods\)")

    out.append("Definition tables : reader_tables := mkTables class_table field_table method_table code_table rc_table")
    out.append("  %s %s %s %s %s %d %s %s." % tuple(
        ["true" if has_break(f) else "false" for f in ("read", "read_field", "read_method", "read_record_component")]
        + ["true" if skip_ok else "false", member_header, "true" if honours_fields else "false", "true" if honours_methods else "false"]))
    text = "\n".join(out) + "\n"
    path = os.path.join(COQ, "C17", "AttrTable.v")
    os.makedirs(os.path.dirname(path), exist_ok=True)
    old = open(path).read() if os.path.exists(path) else None
    if old != text:  # keep the timestamp when nothing changed, so make does not rebuild
        with open(path, "w") as f:
            f.write(text)
    return summary


def attr_table():
    """Entry point for props/c17.py: returns a list of error strings (empty = ok)."""
    try:
        generate()
        return []
    except Fail as ex:
        return ["c17_attr_table: %s" % ex]
    except (OSError, ValueError, IndexError) as ex:
        return ["c17_attr_table: cannot read the reader's source: %r" % ex]


if __name__ == "__main__":
    errs = attr_table()
    for e in errs:
        print("ERROR", e)
    if not errs:
        print(open(os.path.join(COQ, "C17", "AttrTable.v")).read())
    sys.exit(1 if errs else 0)
