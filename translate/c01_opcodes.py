#!/usr/bin/env python3
"""C01 translator: the opcode tables of duke's code-array reader, read from the Rust source.

reads   <REPO>/duke/src/class_constants.rs   (mod opcode, mod atype)
        <REPO>/duke/src/class_reader.rs     (fn read_code: the first-pass `match r.read_u8()?` that finds
                                             instruction boundaries and creates labels, and the second-pass
                                             `match r.read_u8()?` that decodes the instructions)
writes  <COQ>/C01/Opcodes.v      (REPO, COQ: lib/vcheck.py)

Generated:
  op_<NAME> : N                         every opcode constant
  atypes : list N                       the newarray type codes ArrayType::from_atype accepts
  pass1_table : list opclass  (256)     per opcode what pass 1 does: skip k operand bytes / wide / create a label
                                        from an i16 or i32 offset / tableswitch / lookupswitch / reject
  pass1_wide_table : list (option N)    per opcode after the wide prefix: operand bytes skipped, None = reject
  pass2_table : list p2       (256)     per opcode what pass 2 does: the Instruction constructor (named by the
                                        smallest opcode producing that constructor) and the operand reads in order
  pass2_wide_table : list p2  (256)     the same for the opcode after a wide prefix

Fails closed: every arm must have one of the shapes spelled out below (compared after removing
comments and white space); an unknown pattern, statement, reader call or constructor shape is an
error of the check, never guessed at.
"""
import os
import re
import sys

sys.path.insert(0, os.path.join(os.path.dirname(os.path.dirname(os.path.abspath(__file__))), "lib"))
import vcheck  # REPO (the tree under test) and COQ (the Coq project to write into) are parameters of the run


def _repo():
    return vcheck.REPO


def _out():
    return os.path.join(vcheck.COQ, "C01", "Opcodes.v")


class Bad(Exception):
    pass


def strip_comments(src):
    src = re.sub(r"/\*.*?\*/", "", src, flags=re.S)
    return "\n".join(re.sub(r"//.*$", "", l) for l in src.split("\n"))


def squash(s):
    return re.sub(r"\s+", "", s)


def mod_consts(src, modname):
    m = re.search(r"pub\(crate\)\s+mod\s+%s\s*\{" % modname, src)
    if not m:
        raise Bad("class_constants.rs: mod %s not found" % modname)
    end = matching(src, m.end() - 1)
    body = src[m.end():end]
    out = {}
    for name, val in re.findall(r"pub\(crate\)\s+const\s+([A-Z0-9_]+)\s*:\s*u8\s*=\s*(0x[0-9a-fA-F]+|\d+)\s*;", body):
        if name in out:
            raise Bad("duplicate constant %s" % name)
        out[name] = int(val, 0)
    n_decl = len(re.findall(r"\bconst\b", body))
    if n_decl != len(out):
        raise Bad("class_constants.rs: mod %s has %d const items, %d understood" % (modname, n_decl, len(out)))
    return out


def matching(src, i):
    """src[i] is an opening bracket; index of the matching closing one (string/char literals respected)."""
    pairs = {"{": "}", "(": ")", "[": "]"}
    stack = []
    j = i
    while j < len(src):
        c = src[j]
        if c == '"':
            j += 1
            while src[j] != '"':
                j += 2 if src[j] == "\\" else 1
        elif c == "'" and j + 2 < len(src) and src[j + 2] == "'":
            j += 2
        elif c in pairs:
            stack.append(pairs[c])
        elif stack and c == stack[-1]:
            stack.pop()
            if not stack:
                return j
        j += 1
    raise Bad("unbalanced bracket")


def split_arms(body):
    """match body -> list of (pattern text, arm text).  Arms are `pat => expr,` or `pat => { … }[,]`."""
    arms = []
    i = 0
    n = len(body)
    while True:
        while i < n and body[i] in " \t\r\n,":
            i += 1
        if i >= n:
            return arms
        j = body.find("=>", i)
        if j < 0:
            raise Bad("arm without =>: %r" % body[i:i + 60])
        pat = body[i:j].strip()
        k = j + 2
        while body[k] in " \t\r\n":
            k += 1
        if body[k] == "{":
            e = matching(body, k)
            arms.append((pat, body[k:e + 1]))
            i = e + 1
        else:
            # expression up to the next top-level comma
            depth = 0
            e = k
            while e < n:
                c = body[e]
                if c == '"':
                    e += 1
                    while body[e] != '"':
                        e += 2 if body[e] == "\\" else 1
                elif c in "({[":
                    depth += 1
                elif c in ")}]":
                    depth -= 1
                elif c == "," and depth == 0:
                    break
                e += 1
            arms.append((pat, body[k:e].strip()))
            i = e + 1


def pattern_opcodes(pat, ops):
    """`opcode::A..=opcode::B | opcode::C` (optionally `name @ …`) -> list of opcode numbers; None for a catch-all binder."""
    p = squash(pat)
    m = re.match(r"^[a-z_]+@(.*)$", p)
    if m:
        p = m.group(1)
    if re.match(r"^[a-z_]+$", p):
        return None
    out = []
    for alt in p.split("|"):
        m = re.match(r"^opcode::([A-Z0-9_]+)(?:\.\.=opcode::([A-Z0-9_]+))?$", alt)
        if not m:
            raise Bad("unrecognised opcode pattern %r" % alt)
        a = m.group(1)
        if a not in ops or (m.group(2) and m.group(2) not in ops):
            raise Bad("unknown opcode constant in %r" % alt)
        lo = ops[a]
        hi = ops[m.group(2)] if m.group(2) else lo
        if hi < lo:
            raise Bad("empty range %r" % alt)
        out += list(range(lo, hi + 1))
    return out


def find_match(src, start, what):
    m = re.compile(r"match\s+r\.read_u8\(\)\?\s*\{").search(src, start)
    if not m:
        raise Bad("class_reader.rs: %s `match r.read_u8()?` not found" % what)
    end = matching(src, m.end() - 1)
    return src[m.end():end], end


# ---- pass 1 -------------------------------------------------------------------------------------
P1_TSWITCH = squash("""{
    align_to_4_byte_boundary(&mut r)?;
    labels.create(r.read_i32_as_branch_target_label(opcode_pos)?)?;
    let low = r.read_i32()?;
    let high = r.read_i32()?;
    if low > high { bail!("in tableswitch `low` must be lower or equal to `high`, it's low={low:?} and high={high:?}"); }
    let n = high as i64 - low as i64 + 1;
    for _ in 0..n {
        labels.create(r.read_i32_as_branch_target_label(opcode_pos)?)?;
    }
}""")
P1_LSWITCH = squash("""{
    align_to_4_byte_boundary(&mut r)?;
    labels.create(r.read_i32_as_branch_target_label(opcode_pos)?)?;
    let n = r.read_i32()?;
    if n < 0 { bail!("in lookupswitch the `npairs` must be positive, it's npairs={n:?}"); }
    let n = n as u32;
    for _ in 0..n {
        let _key = r.read_i32()?;
        labels.create(r.read_i32_as_branch_target_label(opcode_pos)?)?;
    }
}""")


def is_bail(arm):
    a = squash(arm)
    return re.match(r"^\{?bail!\(.*\);?\}?$", a) is not None


def pass1(body, ops):
    table = [None] * 256
    wide = [None] * 256
    wide_seen = False
    for pat, arm in split_arms(body):
        codes = pattern_opcodes(pat, ops)
        a = squash(arm)
        if a == "{}":
            cls = "OFixed 0"
        elif re.match(r"^\{r\.skip\((\d+)\)\?;\}$", a):
            cls = "OFixed %d" % int(re.match(r"^\{r\.skip\((\d+)\)\?;\}$", a).group(1))
        elif a == "{labels.create(r.read_i16_as_branch_target_label(opcode_pos)?)?;}":
            cls = "OBr16"
        elif a == "{labels.create(r.read_i32_as_branch_target_label(opcode_pos)?)?;}":
            cls = "OBr32"
        elif a == P1_TSWITCH:
            cls = "OTSwitch"
        elif a == P1_LSWITCH:
            cls = "OLSwitch"
        elif is_bail(arm):
            cls = "OBad"
        elif a.startswith("{matchr.read_u8()?{"):
            if wide_seen:
                raise Bad("pass 1: two nested matches")
            wide_seen = True
            inner, _ = find_match(arm, 0, "wide (pass 1)")
            for wpat, warm in split_arms(inner):
                wcodes = pattern_opcodes(wpat, ops)
                wa = squash(warm)
                m = re.match(r"^\{r\.skip\((\d+)\)\?;\}$", wa)
                if m:
                    val = int(m.group(1))
                elif is_bail(warm):
                    val = None
                else:
                    raise Bad("pass 1, wide: unrecognised arm body %r" % warm[:80])
                if wcodes is None:
                    if val is not None:
                        raise Bad("pass 1, wide: catch-all arm that does not reject")
                    continue
                for c in wcodes:
                    if wide[c] is not None:
                        raise Bad("pass 1, wide: opcode %#x matched twice" % c)
                    wide[c] = ("Some %d" % val) if val is not None else "None"
            cls = "OWide"
        else:
            raise Bad("pass 1: unrecognised arm body for %r: %r" % (pat, arm[:100]))
        if codes is None:
            if cls != "OBad":
                raise Bad("pass 1: catch-all arm that does not reject")
            continue
        for c in codes:
            if table[c] is None:      # first matching arm wins, as in Rust
                table[c] = cls
    if not wide_seen:
        raise Bad("pass 1: no wide arm")
    return [t or "OBad" for t in table], [w or "None" for w in wide]


# ---- pass 2 -------------------------------------------------------------------------------------
POOL_KINDS = ["get_loadable", "get_field_ref", "get_method_ref", "get_method_ref_or_interface_method_ref",
              "get_interface_method_ref", "get_invoke_dynamic", "get_class"]

READS = [
    (r"pool\.(get_[a-z_]+)\(r\.read_u8\(\)\?asu16(?:,bootstrap_methods)?\)\?", lambda m: "RCp8 %d" % kind(m.group(1))),
    (r"pool\.(get_[a-z_]+)\(r\.read_u16\(\)\?(?:,bootstrap_methods)?\)\?", lambda m: "RCp16 %d" % kind(m.group(1))),
    (r"ArrayType::from_atype\(r\.read_u8\(\)\?\)\?", lambda m: "RAtype"),
    (r"labels\.try_get\(r\.read_i16_as_branch_target_label\(opcode_pos\)\?\)\?", lambda m: "RBr16"),
    (r"labels\.try_get\(r\.read_i32_as_branch_target_label\(opcode_pos\)\?\)\?", lambda m: "RBr32"),
    (r"let_[a-z]+=r\.read_u8\(\)\?;", lambda m: "RSkip8"),
    (r"r\.read_u8_as_local_variable\(\)\?", lambda m: "RLv8"),
    (r"r\.read_u16_as_local_variable\(\)\?", lambda m: "RLv16"),
    (r"r\.read_i8\(\)\?", lambda m: "RI8"),
    (r"r\.read_i16\(\)\?", lambda m: "RI16"),
    (r"r\.read_u8\(\)\?", lambda m: "RU8"),
]


def kind(name):
    if name not in POOL_KINDS:
        raise Bad("pass 2: unknown pool accessor %s" % name)
    return POOL_KINDS.index(name)


def reads_of(a):
    """squashed arm text -> (list of reads in textual order, text with the reads removed)"""
    out = []
    pos = 0
    rest = ""
    while pos < len(a):
        best = None
        for rx, f in READS:
            m = re.compile(rx).match(a, pos)
            if m:
                best = (m, f)
                break
        if best:
            out.append(best[1](best[0]))
            rest += "#"
            pos = best[0].end()
        else:
            rest += a[pos]
            pos += 1
    if re.search(r"\br\.|pool\.|labels\.", rest):
        raise Bad("pass 2: reader/pool/labels call not understood in %r" % a[:120])
    return out, rest


P2_SHORT = squash("""{
    let shifted = opcode - opcode::@0;
    let index = shifted & 0b11;
    let opcode = opcode::@B + (shifted >> 2);
    let index = LvIndex { index: index as u16 };
    match opcode {
        opcode::@1 => Instruction::@c1(index),
        opcode::@2 => Instruction::@c2(index),
        opcode::@3 => Instruction::@c3(index),
        opcode::@4 => Instruction::@c4(index),
        opcode::@5 => Instruction::@c5(index),
        _ => unreachable!(),
    }
}""")
P2_TSWITCH = squash("""{
    align_to_4_byte_boundary(&mut r)?;
    let default = labels.try_get(r.read_i32_as_branch_target_label(opcode_pos)?)?;
    let low = r.read_i32()?;
    let high = r.read_i32()?;
    if low > high { bail!("in tableswitch `low` must be lower or equal to `high`, it's low={low:?} and high={high:?}"); }
    let n = high as i64 - low as i64 + 1;
    let mut table = Vec::with_capacity(n.min(bytecode.len() as i64 / 4) as usize);
    for _ in 0..n {
        let entry = labels.try_get(r.read_i32_as_branch_target_label(opcode_pos)?)?;
        table.push(entry);
    }
    Instruction::TableSwitch { default, low, high, table }
}""")
P2_LSWITCH = squash("""{
    align_to_4_byte_boundary(&mut r)?;
    let default = labels.try_get(r.read_i32_as_branch_target_label(opcode_pos)?)?;
    let n = r.read_i32()?;
    if n < 0 { bail!("in lookupswitch the `npairs` must be positive, it's npairs={n:?}"); }
    let n = n as u32;
    let mut pairs = Vec::with_capacity(n as usize);
    for _ in 0..n {
        let key = r.read_i32()?;
        let value = labels.try_get(r.read_i32_as_branch_target_label(opcode_pos)?)?;
        pairs.push((key, value));
    }
    Instruction::LookupSwitch { default, pairs }
}""")


def short_arm(a, ops):
    """the xload_n / xstore_n arm: returns (first opcode name, base opcode name, [5 (opcode, ctor)]) or None"""
    rx = re.escape(P2_SHORT)
    rx = rx.replace("@0", "([A-Z0-9_]+)").replace("@B", "([A-Z0-9_]+)")
    for i in range(1, 6):
        rx = rx.replace("@%d" % i, "([A-Z0-9_]+)").replace("@c%d" % i, "([A-Za-z0-9]+)")
    m = re.match("^" + rx + "$", a)
    if not m:
        return None
    g = m.groups()
    return g[0], g[1], [(g[2 + 2 * i], g[3 + 2 * i]) for i in range(5)]


def ordinary_arm(pat, arm):
    """-> (constructor name, reads) for `Instruction::X`, `Instruction::X(args)`, or `{ let a = read; … Instruction::X(a, …) }`"""
    a = squash(arm)
    reads, rest = reads_of(a)
    ctors = set(re.findall(r"Instruction::([A-Za-z0-9]+)", rest))
    if len(ctors) != 1:
        raise Bad("pass 2: arm %r does not build exactly one Instruction: %r" % (pat, arm[:100]))
    ctor = ctors.pop()
    k = len(reads)
    delivered = [r for r in reads if r != "RSkip8"]
    # shapes (reads replaced by #)
    if rest == "Instruction::" + ctor and k == 0:
        return ctor, reads
    if rest == "Instruction::%s(%s)" % (ctor, ",".join(["#"] * k)) and k >= 1 and "RSkip8" not in reads:
        return ctor, reads
    # let-style: {letx=#;lety=#;…Instruction::C(x,y[asT])}   (skipped reads appear as bare # statements)
    m = re.match(r"^\{((?:let[a-z_]+=#;|let\([a-z_]+,[a-z_]+\)=#;|#)*)Instruction::%s\(([a-z_0-9,]*)\)\}$" % ctor, rest.replace("asi16", ""))
    if m:
        names = []
        for stmt in re.findall(r"let[a-z_]+=#;|let\([a-z_]+,[a-z_]+\)=#;|#", m.group(1)):
            if stmt == "#":
                continue
            mm = re.match(r"^let([a-z_]+)=#;$", stmt)
            if mm:
                names.append(mm.group(1))
            else:
                mm = re.match(r"^let\(([a-z_]+),([a-z_]+)\)=#;$", stmt)
                names += [mm.group(1), mm.group(2)]
        args = [x for x in m.group(2).split(",") if x]
        # a pair-returning pool read delivers two arguments from one read
        flat = []
        for stmt in re.findall(r"let[a-z_]+=#;|let\([a-z_]+,[a-z_]+\)=#;", m.group(1)):
            flat.append(stmt)
        if args != names:
            raise Bad("pass 2: arm %r passes %r to the constructor but binds %r" % (pat, args, names))
        if len(flat) != len(delivered):
            raise Bad("pass 2: arm %r: %d bindings for %d delivered reads" % (pat, len(flat), len(delivered)))
        return ctor, reads
    raise Bad("pass 2: unrecognised arm shape for %r: %r" % (pat, rest[:140]))


def pass2(body, ops, where):
    """-> list of 256 entries: ('P2', ctor, reads) | ('Short', base, idx) | ('Wide',) | ('TSwitch',) | ('LSwitch',) | ('Bad',)"""
    table = [None] * 256
    wide = None
    for pat, arm in split_arms(body):
        codes = pattern_opcodes(pat, ops)
        a = squash(arm)
        if is_bail(arm):
            ent = [("Bad",)] * 256
            per_code = None
        elif a == P2_TSWITCH:
            per_code = ("TSwitch",)
        elif a == P2_LSWITCH:
            per_code = ("LSwitch",)
        elif a.startswith("{matchr.read_u8()?{"):
            if where != "top":
                raise Bad("pass 2: nested wide")
            inner, _ = find_match(arm, 0, "wide (pass 2)")
            if squash(arm) != "{matchr.read_u8()?{" + squash(inner) + "}}":
                raise Bad("pass 2: wide arm has statements besides the inner match")
            wide = pass2(inner, ops, "wide")[0]
            per_code = ("Wide",)
        else:
            sh = short_arm(a, ops)
            if sh:
                first, base, five = sh
                if codes is None or codes[0] != ops[first] or len(codes) != 20:
                    raise Bad("pass 2: short-form arm %r does not cover 20 opcodes from %s" % (pat, first))
                for i, (oname, _) in enumerate(five):
                    if ops.get(oname) != ops[base] + i:
                        raise Bad("pass 2: short-form arm %r: inner opcodes not consecutive from %s" % (pat, base))
                for c in codes:
                    if table[c] is None:
                        sft = c - ops[first]
                        table[c] = ("Short", five[sft >> 2][1], sft & 3)
                continue
            ctor, reads = ordinary_arm(pat, arm)
            per_code = ("P2", ctor, reads)
        if is_bail(arm):
            per_code = ("Bad",)
        if codes is None:
            if per_code != ("Bad",):
                raise Bad("pass 2: catch-all arm that does not reject")
            continue
        for c in codes:
            if table[c] is None:
                table[c] = per_code
    return [t or ("Bad",) for t in table], wide


def emit(ops, atypes, p1, p1w, p2, p2w):
    # constructor -> canonical opcode: the smallest opcode (top level table first) building it
    canon = {}
    for tbl in (p2, p2w):
        for c, e in enumerate(tbl):
            name = e[1] if e[0] in ("P2", "Short") else None
            if name and name not in canon:
                canon[name] = c
    # short-form constructors must also exist as ordinary arms (so the canonical opcode is the general form)
    for e in p2:
        if e[0] == "Short":
            gen = [c for c, x in enumerate(p2) if x[0] == "P2" and x[1] == e[1]]
            if not gen:
                raise Bad("short form builds %s, which no general opcode builds" % e[1])
            canon[e[1]] = min(gen)

    def p2term(e):
        if e[0] == "P2":
            return "P2 %d [%s]" % (canon[e[1]], "; ".join(e[2]))
        if e[0] == "Short":
            return "P2Short %d %d" % (canon[e[1]], e[2])
        return {"Wide": "P2Wide", "TSwitch": "P2TSwitch", "LSwitch": "P2LSwitch", "Bad": "P2Bad"}[e[0]]

    L = []
    L.append("(* GENERATED by translate/c01_opcodes.py from duke/src/class_constants.rs and the two `match r.read_u8()?`")
    L.append("   of read_code in duke/src/class_reader.rs — do not edit. *)")
    L.append("From Coq Require Import List NArith.")
    L.append("Import ListNotations.")
    L.append("Open Scope N_scope.")
    L.append("")
    L.append("Inductive opclass := OFixed (k : N) | OWide | OBr16 | OBr32 | OTSwitch | OLSwitch | OBad.")
    L.append("(* operand reads of pass 2, in order; RCp* carry the pool accessor:")
    L.append("   %s *)" % ", ".join("%d %s" % (i, k) for i, k in enumerate(POOL_KINDS)))
    L.append("Inductive rdk := RU8 | RI8 | RI16 | RLv8 | RLv16 | RBr16 | RBr32 | RSkip8 | RAtype | RCp8 (kind : N) | RCp16 (kind : N).")
    L.append("Inductive p2 := P2 (ctor : N) (reads : list rdk) | P2Short (ctor : N) (idx : N) | P2Wide | P2TSwitch | P2LSwitch | P2Bad.")
    L.append("")
    for name, v in sorted(ops.items(), key=lambda kv: kv[1]):
        L.append("Definition op_%s : N := %d." % (name, v))
    L.append("")
    L.append("Definition atypes : list N := [%s]." % "; ".join(str(v) for v in sorted(atypes.values())))
    L.append("")
    L.append("(* constructor names of duke's Instruction, by canonical opcode *)")
    L.append("(* %s *)" % ", ".join("%d %s" % (v, k) for k, v in sorted(canon.items(), key=lambda kv: kv[1])))
    L.append("")

    def table(name, ty, items):
        L.append("Definition %s : list %s := [" % (name, ty))
        for i in range(0, 256, 8):
            L.append("  " + "; ".join(items[i:i + 8]) + (";" if i + 8 < 256 else ""))
        L.append("].")
        L.append("")

    table("pass1_table", "opclass", p1)
    table("pass1_wide_table", "(option N)", p1w)
    table("pass2_table", "p2", ["(%s)" % p2term(e) if " " in p2term(e) else p2term(e) for e in p2])
    table("pass2_wide_table", "p2", ["(%s)" % p2term(e) if " " in p2term(e) else p2term(e) for e in p2w])
    L.append("Definition pass1_class (op : N) : opclass := nth (N.to_nat op) pass1_table OBad.")
    L.append("Definition pass1_wide (op : N) : option N := nth (N.to_nat op) pass1_wide_table None.")
    L.append("Definition pass2_entry (op : N) : p2 := nth (N.to_nat op) pass2_table P2Bad.")
    L.append("Definition pass2_wide_entry (op : N) : p2 := nth (N.to_nat op) pass2_wide_table P2Bad.")
    return "\n".join(L) + "\n"


def generate():
    cc = strip_comments(open(os.path.join(_repo(), "duke/src/class_constants.rs")).read())
    ops = mod_consts(cc, "opcode")
    atypes = mod_consts(cc, "atype")
    if len(set(ops.values())) != len(ops):
        raise Bad("two opcode constants share a value")
    cr = strip_comments(open(os.path.join(_repo(), "duke/src/class_reader.rs")).read())
    m = re.search(r"\bfn\s+read_code\s*<", cr)
    if not m:
        raise Bad("class_reader.rs: fn read_code not found")
    b1, e1 = find_match(cr, m.end(), "first-pass")
    # the wide arm of pass 1 contains a nested match; the second-pass match is the next one after pass 1 ends
    b2, e2 = find_match(cr, e1, "second-pass")
    # nothing else may be matched on opcodes in read_code
    fn_end = matching(cr, cr.index("{", cr.index(")", m.end())))
    if e2 > fn_end:
        raise Bad("class_reader.rs: second-pass match lies outside read_code")
    extra = re.compile(r"match\s+r\.read_u8\(\)\?\s*\{").search(cr, e2, fn_end)
    if extra:
        raise Bad("class_reader.rs: read_code has a third opcode match")
    p1, p1w = pass1(b1, ops)
    p2, p2w = pass2(b2, ops, "top")
    if p2w is None:
        raise Bad("pass 2: no wide arm")
    return emit(ops, atypes, p1, p1w, p2, p2w)


def run():
    """entry point for props/c01.py: returns a list of error strings (empty = ok)"""
    try:
        text = generate()
    except Bad as ex:
        return ["c01_opcodes: " + str(ex)]
    OUT = _out()
    old = open(OUT).read() if os.path.exists(OUT) else None
    if old != text:
        os.makedirs(os.path.dirname(OUT), exist_ok=True)
        with open(OUT + ".tmp", "w") as f:
            f.write(text)
        os.replace(OUT + ".tmp", OUT)
    return []


run.__name__ = "c01_opcodes"

if __name__ == "__main__":
    import sys
    errs = run()
    for e in errs:
        print("ERROR", e)
    sys.exit(1 if errs else 0)
