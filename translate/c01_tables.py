#!/usr/bin/env python3
"""C01 translator: attribute dispatch tables and access-flag bit tables of duke's class reader.

reads   <REPO>/duke/src/class_constants.rs   (mod attribute: the attribute name strings)
        <REPO>/duke/src/class_reader.rs      (the `match attribute_name.as_java_str()` of read, read_field,
                                              read_method, read_code, read_record_component)
        <REPO>/duke/src/tree/{class,field,method,module}.rs  (impl From<u16> for XFlags / impl From<XFlags> for u16)
writes  <COQ>/C01/Tables.v                   (REPO, COQ: lib/vcheck.py)

Generated, per context (class, field, method, code, record component):
  known_<ctx>   : list str      names with an arm of their own (everything else is an "unknown attribute")
  parsed_<ctx>  : list str      … whose arm parses the payload and hands something to the visitor
  flagged_<ctx> : list str      … whose arm only sets a flag (Deprecated, Synthetic)
  dropped_<ctx> : list str      … whose arm skips the payload although the visitor is interested (facts lost)
  code_visits   : list str      the code_visitor.visit_* / finish_* methods read_code calls
and per flag struct
  flags_<Struct>_read / _write : list N    the bits tested when reading / set when writing, in field order

Fails closed on any arm, field line or impl shape it does not recognise.
"""
import os
import re
import sys

sys.path.insert(0, os.path.join(os.path.dirname(os.path.dirname(os.path.abspath(__file__))), "lib"))
sys.path.insert(0, os.path.dirname(os.path.abspath(__file__)))
import vcheck
from c01_opcodes import Bad, strip_comments, squash, matching, split_arms

CONTEXTS = [
    ("class", r"pub\(crate\)\s+fn\s+read\s*<"),
    ("field", r"\bfn\s+read_field\s*<"),
    ("method", r"\bfn\s+read_method\s*<"),
    ("code", r"\bfn\s+read_code\s*<"),
    ("record", r"\bfn\s+read_record_component\s*<"),
]
FLAG_STRUCTS = [
    ("class.rs", "ClassAccess"), ("class.rs", "InnerClassFlags"), ("field.rs", "FieldAccess"),
    ("method.rs", "MethodAccess"), ("method.rs", "ParameterFlags"),
    ("module.rs", "ModuleFlags"), ("module.rs", "ModuleRequiresFlags"), ("module.rs", "ModuleExportsFlags"), ("module.rs", "ModuleOpensFlags"),
]


def attr_names(cc):
    m = re.search(r"pub\(crate\)\s+mod\s+attribute\s*\{", cc)
    if not m:
        raise Bad("class_constants.rs: mod attribute not found")
    body = cc[m.end():matching(cc, m.end() - 1)]
    out = dict(re.findall(r'pub\(crate\)\s+const\s+([A-Z_]+)\s*:\s*&JavaStr\s*=\s*JavaStr::from_str\("([A-Za-z]+)"\)\s*;', body))
    if len(out) != len(re.findall(r"\bconst\b", body)):
        raise Bad("class_constants.rs: mod attribute has const items that were not understood")
    return out


def fn_body(src, rx, what):
    m = re.search(rx, src)
    if not m:
        raise Bad("class_reader.rs: %s not found" % what)
    i = src.index("{", src.index("->", m.end()))
    return src[i:matching(src, i) + 1]


def context_table(body, names, ctx):
    ms = list(re.finditer(r"match\s+attribute_name\.as_java_str\(\)\s*\{", body))
    if len(ms) != 1:
        raise Bad("%s: expected exactly one attribute match, found %d" % (ctx, len(ms)))
    m = ms[0]
    arms = split_arms(body[m.end():matching(body, m.end() - 1)])
    known, parsed, flagged, dropped = [], [], [], []
    skip_seen = {}
    default_skip = default_read = False
    for pat, arm in arms:
        p = squash(pat)
        a = squash(arm)
        mm = re.match(r"^nameifname==attribute::([A-Z_]+)&&!interests\.([a-z_]+)$", p)
        if mm:
            if a != "reader.skip(lengthasi64)?":
                raise Bad("%s: not-interested arm of %s does something else than skipping" % (ctx, mm.group(1)))
            skip_seen[mm.group(1)] = True
            continue
        mm = re.match(r"^nameifname==attribute::([A-Z_]+)$", p)
        if mm:
            x = mm.group(1)
            if x not in names:
                raise Bad("%s: unknown attribute constant %s" % (ctx, x))
            if x in known:
                raise Bad("%s: attribute %s has two arms" % (ctx, x))
            known.append(x)
            if re.match(r"^\{is_(deprecated|synthetic)=true;\}$", a):
                flagged.append(x)
            elif a == "{reader.skip(lengthasi64)?;}":
                dropped.append(x)
            else:
                # a declined visit_code() skips the body; that is the only skip allowed inside a parsing arm
                if "reader.skip(" in a.replace("}else{reader.skip(lengthasi64)?;}}", "}}"):
                    raise Bad("%s: arm of %s both parses and skips" % (ctx, x))
                parsed.append(x)
            continue
        if p == "_if!interests.unknown_attributes":
            if a != "reader.skip(lengthasi64)?":
                raise Bad("%s: unknown-attribute skip arm does something else" % ctx)
            default_skip = True
            continue
        if p == "_":
            want = "{letvec=reader.read_u8_vec(lengthasusize)?;letattribute=UnknownAttributeVisitor::read(attribute_name.clone(),vec,pool)?;%s.visit_unknown_attribute(attribute)?;}"
            if not any(a == want % v for v in ("class_visitor", "field_visitor", "method_visitor", "code_visitor", "record_component_visitor")):
                raise Bad("%s: default arm does not read the payload verbatim into an unknown attribute" % ctx)
            default_read = True
            continue
        raise Bad("%s: unrecognised attribute arm pattern %r" % (ctx, pat.strip()[:80]))
    if not (default_skip and default_read):
        raise Bad("%s: default arms missing" % ctx)
    return known, parsed, flagged, dropped


def flag_tables(src, struct, fname):
    m = re.search(r"impl\s+From<u16>\s+for\s+%s\s*\{" % struct, src)
    if not m:
        raise Bad("%s: impl From<u16> for %s not found" % (fname, struct))
    body = squash(src[m.end():matching(src, m.end() - 1)])
    mm = re.match(r"^fnfrom\(value:u16\)->Self\{%s\{((?:is_[a-z_]+:value&0x[0-9a-fA-F]+!=0,)+)\}\}$" % struct, body)
    if not mm:
        raise Bad("%s: impl From<u16> for %s has an unexpected shape" % (fname, struct))
    rd = re.findall(r"(is_[a-z_]+):value&(0x[0-9a-fA-F]+)!=0,", mm.group(1))
    m = re.search(r"impl\s+From<%s>\s+for\s+u16\s*\{" % struct, src)
    if not m:
        raise Bad("%s: impl From<%s> for u16 not found" % (fname, struct))
    body = squash(src[m.end():matching(src, m.end() - 1)])
    mm = re.match(r"^fnfrom\(value:%s\)->Self\{((?:\(ifvalue\.is_[a-z_]+\{0x[0-9a-fA-F]+\}else\{0\}\)\|?)+)\}$" % struct, body)
    if not mm:
        raise Bad("%s: impl From<%s> for u16 has an unexpected shape" % (fname, struct))
    wr = re.findall(r"\(ifvalue\.(is_[a-z_]+)\{(0x[0-9a-fA-F]+)\}else\{0\}\)", mm.group(1))
    if [f for f, _ in rd] != [f for f, _ in wr]:
        raise Bad("%s: %s reads fields %r but writes %r" % (fname, struct, [f for f, _ in rd], [f for f, _ in wr]))
    return [int(v, 16) for _, v in rd], [int(v, 16) for _, v in wr], [f for f, _ in rd]


def gstr(s):
    return "[" + "; ".join(str(ord(c)) for c in s) + "]"


def generate():
    repo = vcheck.REPO
    cc = strip_comments(open(os.path.join(repo, "duke/src/class_constants.rs")).read())
    names = attr_names(cc)
    cr = strip_comments(open(os.path.join(repo, "duke/src/class_reader.rs")).read())
    L = ["(* GENERATED by translate/c01_tables.py from duke/src/class_reader.rs, class_constants.rs and tree/*.rs — do not edit. *)",
         "From FB Require Import Base.Str.", "Open Scope N_scope.", ""]
    for ctx, rx in CONTEXTS:
        body = fn_body(cr, rx, "reader function of context " + ctx)
        known, parsed, flagged, dropped = context_table(body, names, ctx)
        for label, lst in (("known", known), ("parsed", parsed), ("flagged", flagged), ("dropped", dropped)):
            L.append("(* %s *)" % ", ".join(names[x] for x in lst))
            L.append("Definition %s_%s : list str := [%s]." % (label, ctx, "; ".join(gstr(names[x]) for x in lst)))
        L.append("")
        if ctx == "code":
            visits = sorted(set(re.findall(r"(?:code_visitor\.|CodeVisitor::)((?:visit|finish)_[a-z_]+)\(", body)))
            L.append("(* %s *)" % ", ".join(visits))
            L.append("Definition code_visits : list str := [%s]." % "; ".join(gstr(v) for v in visits))
            L.append("")
    # the version gate of `read`: `if version > Version::Vnn { bail!(…) }` with Vnn = Version::new(major, minor)
    m = re.search(r"if\s+version\s*>\s*Version::(V[0-9_]+)\s*\{\s*bail!", cr)
    if not m:
        raise Bad("class_reader.rs: version gate `if version > Version::Vnn { bail!` not found")
    vsrc = strip_comments(open(os.path.join(repo, "duke/src/tree/version.rs")).read())
    mv = re.search(r"pub\s+const\s+%s\s*:\s*Version\s*=\s*Version::new\((\d+)\s*,\s*(\d+)\)\s*;" % m.group(1), vsrc)
    if not mv:
        raise Bad("version.rs: constant %s not found" % m.group(1))
    if not re.search(r"self\.major\.cmp\(&other\.major\)\s*\.then_with\(\|\|\s*self\.minor\.cmp\(&other\.minor\)\)", vsrc):
        raise Bad("version.rs: Ord for Version is not the lexicographic (major, minor) order")
    L.append("(* read: `if version > Version::%s { bail! }`, Version ordered by (major, minor) *)" % m.group(1))
    L.append("Definition max_version_major : N := %s." % mv.group(1))
    L.append("Definition max_version_minor : N := %s." % mv.group(2))
    if "if magic != class_constants::MAGIC" not in cr or not re.search(r"const\s+MAGIC\s*:\s*u32\s*=\s*0xCAFE_BABE\s*;", cc):
        raise Bad("magic check / MAGIC constant not found")
    L.append("Definition magic : N := 3405691582.")
    L.append("")
    for fname, struct in FLAG_STRUCTS:
        src = strip_comments(open(os.path.join(repo, "duke/src/tree", fname)).read())
        rd, wr, fields = flag_tables(src, struct, fname)
        L.append("(* %s *)" % ", ".join(fields))
        L.append("Definition flags_%s_read : list N := [%s]." % (struct, "; ".join(str(v) for v in rd)))
        L.append("Definition flags_%s_write : list N := [%s]." % (struct, "; ".join(str(v) for v in wr)))
    return "\n".join(L) + "\n"


def run():
    try:
        text = generate()
    except Bad as ex:
        return ["c01_tables: " + str(ex)]
    out = os.path.join(vcheck.COQ, "C01", "Tables.v")
    old = open(out).read() if os.path.exists(out) else None
    if old != text:
        os.makedirs(os.path.dirname(out), exist_ok=True)
        with open(out + ".tmp", "w") as f:
            f.write(text)
        os.replace(out + ".tmp", out)
    return []


run.__name__ = "c01_tables"

if __name__ == "__main__":
    errs = run()
    for e in errs:
        print("ERROR", e)
    sys.exit(1 if errs else 0)
