#!/usr/bin/env python3
"""C01 translator: the byte layouts of duke's class reader outside the code array.

reads   <REPO>/duke/src/class_constants.rs   (mod attribute, mod type_annotation)
        <REPO>/duke/src/class_reader.rs      (attribute arms of read / read_field / read_method / read_record_component,
                                              read_module, the exception table of read_code, read_element_value_unnamed /
                                              read_element_values_named, read_verification_type_info, the TargetInfoRead impls,
                                              read_type_reference_code)
        <REPO>/duke/src/tree/{class,method,module}.rs   (the flag struct a `flags` field has)
        <REPO>/duke/src/class_reader/pool.rs (the arms of PoolEntry::as_method_handle; PoolRead::read and the narrowing accessors are pinned)
writes  <COQ>/C01/Formats.v                  (REPO, COQ: lib/vcheck.py)

Generated:
  a_<Name> : str                       every attribute name constant
  max_ev_nesting, ev_consts, ev_*_tag  the element_value arms (both readers must have the same arms)
  vti_plain, vti_object_tag, vti_uninit_tag, vti_ctor_tbl (tag -> VerificationTypeInfo variant built)
  handle_tbl                           reference_kind -> Handle variant, accessor of reference_index (as_method_handle)
  target_{class,field,method,code}_tbl target_type -> fields read, per context
  f_<Attribute> : fmt                  the layout of every attribute read with read_vec / struct literals / a `let` sequence,
                                       f_Module from read_module, f_exception_table from read_code
Every reader expression is translated by a small recursive-descent translator over the expression
forms listed in `expr`; anything else is an error (fail closed).  The functions whose layout is
written by hand in coq/C01/ClassFile.v (stack map frames of StackMapTable and of the CLDC StackMap attribute, type_path, the annotation and type
annotation attribute loops, the record component header, the Code header, the class / member
skeleton, PoolRead::read) are PINNED: their text (comments and white space removed) is hashed and
compared with the hash recorded here, so an edit of any of them fails the check until the model
has been re-read against it.
"""
import hashlib
import os
import re
import sys

sys.path.insert(0, os.path.join(os.path.dirname(os.path.dirname(os.path.abspath(__file__))), "lib"))
sys.path.insert(0, os.path.dirname(os.path.abspath(__file__)))
import vcheck
from c01_opcodes import Bad, strip_comments, squash, matching, split_arms, mod_consts
from c01_tables import attr_names, fn_body, CONTEXTS, FLAG_STRUCTS

ACCESSORS = {"get_class": 6, "get_obj_class": 6, "get_utf8": 8, "get_method_handle": 9, "get_method_name_and_type": 10,
             "get_module": 11, "get_package": 12, "get_constant_value": 7}
EV_ACC = {"get_integer": 13, "get_integer_as_byte": 14, "get_integer_as_char": 15, "get_integer_as_short": 16,
          "get_integer_as_boolean": 17, "get_long": 18, "get_float": 19, "get_double": 20, "get_utf8": 8}
# numbering of coq/C01/Attr.v flag_tables
FLAG_KIND = {"ClassAccess": 0, "FieldAccess": 1, "MethodAccess": 2, "InnerClassFlags": 3, "ParameterFlags": 4, "ModuleFlags": 5,
             "ModuleRequiresFlags": 6, "ModuleExportsFlags": 7, "ModuleOpensFlags": 8}
if sorted(FLAG_KIND) != sorted(s for _, s in FLAG_STRUCTS):
    raise RuntimeError("c01_formats: flag structs differ from c01_tables")

# sha256 (first 16 hex digits) of the squashed text of the hand-modelled parts; see the module docstring
PINS = {
    "read_type_path": "e224fbe4c936045d",
    "read_annotations_attribute": "e62fb7b18211dd6f",
    "read_type_annotations_attribute": "fb43708f22c13e0a",
    "read_type_annotations_attribute_code": "4ae83d24f1f4a4a4",
    "read_element_values_unnamed": "f5dbb438e866bc46",
    "skip_attributes": "eb343103274c762d",
    "read_record_component.header": "1270ca18037cfddf",
    "read_field.header": "9266cc8887d4b250",
    "read_method.header": "ae53163589b50109",
    "read.skeleton": "600731ae46803a6a",
    "read_code.header": "c93927729a1c4a56",
    "read_code.StackMapTable": "20e2a174008c4ebe",
    "read_code.StackMap": "8cfc5fa7650fd4ef",
    "read_code.LineNumberTable": "1b3547d20c982eb1",
    "read_code.LocalVariableTable": "4f417a4568e85e48",
    "read_code.LocalVariableTypeTable": "de759398105f18f9",
    "PoolRead::read": "67311458bb285aed",
    "class.RECORD": "f38fb777a2441dd9",
    "method.CODE": "24f17db8acd96d0c",
    "method.ANNOTATION_DEFAULT": "cc337697399e65eb",
    "pool.element_value_accessors": "d919c6d6d644b54c",
    "pool.resolution": "43346b29738acad0",
    "tree.rs": "0dbc836955dbd480",
    "lib.rs ClassRead": "1de6f31dedd3013a",
}


def sha(s):
    return hashlib.sha256(squash(s).encode()).hexdigest()[:16]


class Tr:
    """translator of reader expressions (squashed text) into fmt terms"""

    def __init__(self, cr, flag_of):
        self.cr = cr
        self.flag_of = flag_of      # (struct, field) -> flag kind

    def expr(self, s, struct=None, field=None):
        s = s.strip()
        if s.startswith("{") and matching(s, 0) == len(s) - 1:
            return self.expr(s[1:-1], struct, field)
        m = re.match(r"^Ok\((.*)\)$", s)
        if m and matching(s, 2) == len(s) - 1:
            return self.expr(m.group(1), struct, field)
        m = re.match(r"^(?:reader|r)\.read_vec\(\|r\|r\.read_(u8|u16)_as_usize\(\),\|r\|(.*)\)\?$", s)
        if m:
            return "%s (%s)" % ("FVec8" if m.group(1) == "u8" else "FVec16", self.expr(m.group(2)))
        m = re.match(r"^pool\.(get_[a-z_0-9]+)\((?:reader|r)\.read_u16\(\)\?\)\??$", s)
        if m:
            return "FIdx %d" % self.acc(m.group(1))
        m = re.match(r"^[A-Za-z]+::try_from\(pool\.get_utf8\((?:reader|r)\.read_u16\(\)\?\)\?\)\?$", s)
        if m:
            return "FIdx 8"
        m = re.match(r"^pool\.get_optional\((?:reader|r)\.read_u16\(\)\?,PoolRead::(get_[a-z_0-9]+)\)\?(\.map\(\|x\|x\.try_into\(\)\)\.transpose\(\)\?)?$", s)
        if m:
            return "FOptIdx %d" % self.acc(m.group(1))
        m = re.match(r"^([A-Za-z]+)::from\((?:reader|r)\.read_u16\(\)\?\)$", s)
        if m:
            if m.group(1) not in FLAG_KIND:
                raise Bad("unknown flag struct %s" % m.group(1))
            return "FFlags %d" % FLAG_KIND[m.group(1)]
        if re.match(r"^(?:reader|r)\.read_u16\(\)\?\.into\(\)$", s):
            if (struct, field) not in self.flag_of:
                raise Bad("`.into()` of a u16 outside a known flags field: %s.%s" % (struct, field))
            return "FFlags %d" % self.flag_of[(struct, field)]
        if re.match(r"^(?:reader|r)\.read_u16\(\)\??$", s):
            return "FU16"
        if re.match(r"^(?:reader|r)\.read_u8\(\)\??$", s):
            return "FU8"
        m = re.match(r"^labels\.(get_or_create|get_or_create_check_exclusive)\((?:reader|r)\.read_u16\(\)\?\)\?$", s)
        if m:
            return "FPc %d" % (0 if m.group(1) == "get_or_create" else 1)
        if s == "jstring::from_vec_to_string(reader.read_u8_vec(lengthasusize)?)?":
            return "FMutf8 len"
        if s == "read_module(reader,pool)?":
            return self.function_result("read_module")
        m = re.match(r"^([A-Z][A-Za-z]*)\{(.*)\}$", s)
        if m and matching(s, len(m.group(1))) == len(s) - 1:
            return self.struct(m.group(1), m.group(2))
        raise Bad("reader expression not understood: %s" % s[:120])

    def acc(self, name):
        if name not in ACCESSORS:
            raise Bad("pool accessor %s not in the accessor table" % name)
        return ACCESSORS[name]

    def struct(self, name, body):
        fields = split_top(body)
        out = []
        for f in fields:
            if ":" not in f:
                raise Bad("struct literal %s: shorthand field %s outside a let sequence" % (name, f))
            k, e = f.split(":", 1)
            out.append(self.expr(e, name, k))
        return "FSeq [%s]" % "; ".join(out)

    def function_result(self, fname):
        body = squash(fn_body(self.cr, r"\bfn\s+%s\s*\(" % fname, fname))
        m = re.match(r"^\{(Ok\(.*\))\}$", body)
        if not m:
            raise Bad("%s: body is not a single Ok(..) expression" % fname)
        return self.expr(m.group(1))

    def arm(self, a, visitor):
        """an attribute arm `{ let x = E; … visitor.visit_y(x)?; }` -> fmt, or None if it has another shape"""
        m = re.match(r"^\{let([a-z_]+)=(.*);%s\.visit_[a-z_]+\(\1\)\?;\}$" % visitor, a)
        if m and ";let" not in m.group(2):
            return self.expr(m.group(2))
        # a let sequence collected into a struct literal with shorthand fields
        m = re.match(r"^\{((?:let[a-z_]+=[^;]*;)+)let([a-z_]+)=([A-Z][A-Za-z]*)\{([a-z_,]+)\};%s\.visit_[a-z_]+\(\2\)\?;\}$" % visitor, a)
        if m:
            lets = re.findall(r"let([a-z_]+)=([^;]*);", m.group(1))
            if [n for n, _ in lets] != m.group(4).split(","):
                raise Bad("let sequence and struct literal %s disagree on the field order" % m.group(3))
            return "FSeq [%s]" % "; ".join(self.expr(e, m.group(3), n) for n, e in lets)
        return None


def split_top(s):
    out, depth, cur = [], 0, ""
    for c in s:
        if c in "({[":
            depth += 1
        elif c in ")}]":
            depth -= 1
        if c == "," and depth == 0:
            if cur:
                out.append(cur)
            cur = ""
        else:
            cur += c
    if cur:
        out.append(cur)
    return out


def flag_fields(repo):
    """(struct, field) -> flag kind, from the struct definitions of the tree"""
    out = {}
    for fname in ("class.rs", "method.rs", "module.rs"):
        src = strip_comments(open(os.path.join(repo, "duke/src/tree", fname)).read())
        for m in re.finditer(r"pub\s+struct\s+([A-Z][A-Za-z]*)\s*\{", src):
            body = src[m.end():matching(src, m.end() - 1)]
            for f, t in re.findall(r"(?:pub(?:\(crate\))?\s+)?([a-z_]+)\s*:\s*([A-Z][A-Za-z]*)\s*,", body):
                if t in FLAG_KIND:
                    out[(m.group(1), f)] = FLAG_KIND[t]
    return out


def attribute_arms(cr, names, ctx, rx):
    body = fn_body(cr, rx, ctx)
    m = re.search(r"match\s+attribute_name\.as_java_str\(\)\s*\{", body)
    arms = split_arms(body[m.end():matching(body, m.end() - 1)])
    out = {}
    for pat, arm in arms:
        mm = re.match(r"^nameifname==attribute::([A-Z_]+)$", squash(pat))
        if mm:
            out[mm.group(1)] = squash(arm)
    return out, body


def ev_table(cr, named):
    fname = "read_element_values_named" if named else "read_element_value_unnamed"
    body = fn_body(cr, r"\bfn\s+%s\s*<" % fname, fname)
    m = re.search(r"match\s+reader\.read_u8\(\)\?\s*\{", body)
    if not m:
        raise Bad("%s: tag match not found" % fname)
    n = "name," if named else ""
    consts, special = [], {}
    for pat, arm in split_arms(body[m.end():matching(body, m.end() - 1)]):
        p, a = squash(pat), squash(arm)
        mm = re.match(r"^b'(.)'$", p)
        if not mm:
            if p == "tag" and a.startswith("bail!("):
                continue
            raise Bad("%s: tag pattern %s not understood" % (fname, p))
        tag = ord(mm.group(1))
        mc = re.match(r"^\{letconst_value_index=reader\.read_u16\(\)\?;let([a-z]+)=pool\.(get_[a-z_0-9]+)\(const_value_index\)\?;outer\.visit\(%sObject::[A-Za-z]+\(\1\)\)\?;\}$" % n, a)
        if mc:
            if mc.group(2) not in EV_ACC:
                raise Bad("%s: accessor %s unknown" % (fname, mc.group(2)))
            consts.append((tag, EV_ACC[mc.group(2)], mc.group(2)))
        elif a == "{lettype_name=FieldDescriptor::try_from(pool.get_utf8(reader.read_u16()?)?)?;letconst_name=pool.get_utf8(reader.read_u16()?)?;outer.visit_enum(%stype_name,const_name)?;}" % n:
            special["enum"] = tag
        elif a == "{letclass=ReturnDescriptor::try_from(pool.get_utf8(reader.read_u16()?)?)?;outer.visit_class(%sclass)?;}" % n:
            special["class"] = tag
        elif a == "{letannotation_descriptor=FieldDescriptor::try_from(pool.get_utf8(reader.read_u16()?)?)?;let(visitor,inner)=outer.visit_annotation(%sannotation_descriptor)?;letinner=read_element_values_named(reader,pool,inner,nesting+1)?;outer=A::finish_annotation(visitor,inner)?;}" % n:
            special["annot"] = tag
        elif a == "{let(visitor,inner)=outer.visit_array(%s)?;letinner=read_element_values_unnamed(reader,pool,inner,nesting+1)?;outer=A::finish_array(visitor,inner)?;}" % n.rstrip(","):
            special["array"] = tag
        else:
            raise Bad("%s: arm of tag %r not understood" % (fname, mm.group(1)))
    if sorted(special) != ["annot", "array", "class", "enum"]:
        raise Bad("%s: enum/class/annotation/array arms incomplete" % fname)
    sq = squash(body)
    if named:
        if not sq.startswith("{ifnesting>MAX_ELEMENT_VALUE_NESTING{bail!(") or "for_in0..reader.read_u16()?{letname=pool.get_utf8(reader.read_u16()?)?;matchreader.read_u8()?{" not in sq:
            raise Bad("read_element_values_named: nesting guard / pair loop changed")
    else:
        if not sq.startswith("{matchreader.read_u8()?{"):
            raise Bad("read_element_value_unnamed: does not start with the tag match")
    return consts, special


def target_table(arms_src, consts, ctx):
    rows = []
    for pat, arm in split_arms(arms_src):
        p, a = squash(pat), squash(arm)
        if p == "tag":
            if not a.startswith("bail!("):
                raise Bad("target_info %s: default arm does not bail" % ctx)
            continue
        mm = re.match(r"^type_annotation::([A-Z_]+)$", p)
        if not mm or mm.group(1) not in consts:
            raise Bad("target_info %s: pattern %s" % (ctx, p))
        tag = consts[mm.group(1)]
        T = r"TargetInfo[A-Za-z]+::[A-Za-z]+"
        if re.match(r"^%s$" % T, a):
            fields = []
        elif re.match(r"^\{?%s\{[a-z_]+:reader\.read_u8\(\)\?\}\}?$" % T, a):
            fields = [0]
        elif re.match(r"^\{?%s\{[a-z_]+:reader\.read_u16\(\)\?\}\}?$" % T, a):
            fields = [1]
        elif re.match(r"^\{let([a-z_]+)=reader\.read_u8\(\)\?;let([a-z_]+)=reader\.read_u8\(\)\?;%s\{\1,\2\}\}$" % T, a):
            fields = [0, 0]
        elif a == "{letindex=reader.read_u16()?;ifindex==u16::MAX{TargetInfoClass::Extends}else{TargetInfoClass::Implements{index}}}":
            fields = [1]
        elif re.match(r"^%s\(labels\.get_or_create\(reader\.read_u16\(\)\?\)\?\)$" % T, a):
            fields = [2]
        elif re.match(r"^\{letlabel=labels\.get_or_create\(reader\.read_u16\(\)\?\)\?;letindex=reader\.read_u8\(\)\?;%s\{label,index\}\}$" % T, a):
            fields = [2, 0]
        elif re.match(r"^\{letmuttable=Vec::new\(\);(?:letlength=reader\.read_u16\(\)\?;for_in0\.\.length|for_in0\.\.reader\.read_u16\(\)\?)\{letstart_pc=reader\.read_u16\(\)\?;letlength=reader\.read_u16\(\)\?;letrange=labels\.get_or_create_range\(start_pc,length\)\?;letindex=reader\.read_u16_as_local_variable\(\)\?;table\.push\(\(range,index\)\);\}%s\{table\}\}$" % T, a):
            fields = [3]
        else:
            raise Bad("target_info %s: arm of %s not understood: %s" % (ctx, mm.group(1), a[:100]))
        rows.append((tag, fields))
    return rows


def pinned_texts(cr, cls_body, arms):
    """the text of every hand-modelled part"""
    t = {}
    for f in ("read_type_path", "read_annotations_attribute", "read_type_annotations_attribute", "read_type_annotations_attribute_code",
              "read_element_values_unnamed", "skip_attributes"):
        t[f] = fn_body(cr, r"\bfn\s+%s\s*[<(]" % f, f)
    def header(body):
        i = body.index("match attribute_name.as_java_str()") if "match attribute_name.as_java_str()" in body else None
        if i is None:
            m = re.search(r"match\s+attribute_name\.as_java_str\(\)", body)
            i = m.start()
        return body[:i]
    def around(fname, rx):
        body = fn_body(cr, rx, fname)
        m = re.search(r"match\s+attribute_name\.as_java_str\(\)\s*\{", body)
        return body[:m.start()] + "…" + body[matching(body, m.end() - 1) + 1:]
    t["read_record_component.header"] = around("read_record_component", r"\bfn\s+read_record_component\s*<")
    t["read_field.header"] = around("read_field", r"\bfn\s+read_field\s*<")
    t["read_method.header"] = around("read_method", r"\bfn\s+read_method\s*<")
    t["read.skeleton"] = around("read", r"pub\(crate\)\s+fn\s+read\s*<")
    code = fn_body(cr, r"\bfn\s+read_code\s*<", "read_code")
    # everything of read_code outside the two opcode matches and the attribute match: header, exception table, epilogue
    m = re.search(r"match\s+attribute_name\.as_java_str\(\)\s*\{", code)
    outside = code[:m.start()] + "…" + code[matching(code, m.end() - 1) + 1:]
    outside = re.sub(r"match\s+r\.read_u8\(\)\?\s*\{", "MATCHOP{", outside)
    while "MATCHOP{" in outside:
        i = outside.index("MATCHOP{")
        j = matching(outside, i + len("MATCHOP"))
        outside = outside[:i] + "OPCODES" + outside[j + 1:]
    t["read_code.header"] = outside
    for key, const in (("read_code.StackMapTable", "STACK_MAP_TABLE"), ("read_code.StackMap", "STACK_MAP"), ("read_code.LineNumberTable", "LINE_NUMBER_TABLE"),
                       ("read_code.LocalVariableTable", "LOCAL_VARIABLE_TABLE"), ("read_code.LocalVariableTypeTable", "LOCAL_VARIABLE_TYPE_TABLE")):
        t[key] = arms["code"][const]
    pool = strip_comments(open(os.path.join(vcheck.REPO, "duke/src/class_reader/pool.rs")).read())
    m = re.search(r"pub\(crate\)\s+fn\s+read\s*\(reader", pool)
    if not m:
        raise Bad("pool.rs: PoolRead::read not found")
    i = pool.index("{", pool.index("->", m.end()))
    t["PoolRead::read"] = pool[i:matching(pool, i) + 1]
    # the narrowing accessors of element values (ClassFile.acc 13..20)
    i = pool.index("pub(crate) fn get_integer(")
    j = pool.index("pub(crate) fn get_loadable(")
    t["pool.element_value_accessors"] = re.sub(r"///.*", "", pool[i:j])
    # the lazy resolution functions (coq/C01/Pool.v is written by hand from them): impl PoolEntry (as_*), the PoolRead
    # struct (no state beside the entries: resolution is a function of pool, bootstrap table and index), get / get_* and
    # the loadable / invokedynamic entry points
    i = pool.index("impl PoolEntry {")
    entry_impl = pool[i:matching(pool, i + len("impl PoolEntry ")) + 1]
    m = re.search(r"pub\(crate\)\s+struct\s+PoolRead\s*\{", pool)
    if not m:
        raise Bad("pool.rs: struct PoolRead not found")
    struct = pool[m.start():matching(pool, m.end() - 1) + 1]
    a0 = pool.index("fn get(&self")
    a1 = pool.index("pub(crate) fn get_integer(")
    b0 = pool.index("pub(crate) fn get_loadable(")
    b1 = pool.index("trait PoolContext")
    t["pool.resolution"] = re.sub(r"///.*", "", entry_impl + struct + pool[a0:a1] + pool[b0:b1])
    # what the tree visitor does with what it is handed (ClassFile.policy_of / apply_attr)
    t["tree.rs"] = strip_comments(open(os.path.join(vcheck.REPO, "duke/src/visitor/implementations/tree.rs")).read())
    # ClassRead: read_vec, skip (a seek), read_u8_vec, with_pos
    lib = strip_comments(open(os.path.join(vcheck.REPO, "duke/src/lib.rs")).read())
    i = lib.index("trait ClassRead")
    j = lib.index("trait ClassWrite")
    t["lib.rs ClassRead"] = lib[i:j]
    return t


def gstr(s):
    return "[" + "; ".join(str(ord(c)) for c in s) + "]"


def glist(rows):
    return "[" + "; ".join("(%d, [%s])" % (t, "; ".join(str(f) for f in fs)) for t, fs in rows) + "]"


SPECIAL_ARMS = {
    # arms whose layout is assembled by hand in ClassFile.v; their text must be exactly this
    "annotations": "{let(visitor,annotations_visitor)=%(v)s.visit_annotations(%(b)s)?;letannotations_visitor=read_annotations_attribute(reader,annotations_visitor,pool)?;%(v)s=%(V)s::finish_annotations(visitor,annotations_visitor)?;}",
    "type_annotations": "{let(visitor,type_annotations_visitor)=%(v)s.visit_type_annotations(%(b)s)?;lettype_annotations_visitor=read_type_annotations_attribute(reader,type_annotations_visitor,pool)?;%(v)s=%(V)s::finish_type_annotations(visitor,type_annotations_visitor)?;}",
    "type_annotations_code": "{let(visitor,type_annotations_visitor)=code_visitor.visit_type_annotations(%(b)s)?;lettype_annotations_visitor=read_type_annotations_attribute_code(reader,type_annotations_visitor,pool,&mutlabels)?;code_visitor=CodeVisitor::finish_type_annotations(visitor,type_annotations_visitor)?;}",
}
VISITORS = {"class": ("class_visitor", "ClassVisitor"), "field": ("field_visitor", "FieldVisitor"), "method": ("method_visitor", "MethodVisitor"),
            "record": ("record_component_visitor", "RecordComponentVisitor"), "code": ("code_visitor", "CodeVisitor")}


def generate():
    repo = vcheck.REPO
    cc = strip_comments(open(os.path.join(repo, "duke/src/class_constants.rs")).read())
    cr = strip_comments(open(os.path.join(repo, "duke/src/class_reader.rs")).read())
    names = attr_names(cc)
    tr = Tr(cr, flag_fields(repo))
    L = ["(* GENERATED by translate/c01_formats.py from duke/src/class_reader.rs and class_constants.rs — do not edit. *)",
         "From FB Require Import C01.Fmt.", "Open Scope N_scope.", "",
         "(* ---- attribute names (class_constants.rs, mod attribute) ---- *)"]
    for c, n in names.items():
        L.append("Definition a_%s : str := %s." % (n, gstr(n)))
    L.append("")
    # element values
    cu, su = ev_table(cr, False)
    cn, sn = ev_table(cr, True)
    if cu != cn or su != sn:
        raise Bad("read_element_values_named and read_element_value_unnamed have different arms")
    m = re.search(r"const\s+MAX_ELEMENT_VALUE_NESTING\s*:\s*usize\s*=\s*(\d+)\s*;", cr)
    if not m:
        raise Bad("MAX_ELEMENT_VALUE_NESTING not found")
    L.append("(* ---- element_value (read_element_values_named and read_element_value_unnamed have the same arms) ---- *)")
    L.append("(* MAX_ELEMENT_VALUE_NESTING *)")
    L.append("Definition max_ev_nesting : nat := %s." % m.group(1))
    L.append("(* tag, accessor: %s *)" % ", ".join("%s %s" % (chr(t), a) for t, _, a in cu))
    L.append("Definition ev_consts : list (N * N) := [%s]." % "; ".join("(%d, %d)" % (t, k) for t, k, _ in cu))
    for k in ("enum", "class", "annot", "array"):
        L.append("Definition ev_%s_tag : N := %d." % (k, su[k]))
    L.append("")
    # verification types
    body = fn_body(cr, r"\bfn\s+read_verification_type_info\s*\(", "read_verification_type_info")
    m = re.search(r"match\s+reader\.read_u8\(\)\?\s*\{", body)
    plain, obj, uninit = [], None, None
    vti_ctor = []       # (tag, name of the VerificationTypeInfo variant the arm builds)
    for pat, arm in split_arms(body[m.end():matching(body, m.end() - 1)]):
        p, a = squash(pat), squash(arm)
        if re.match(r"^\d+$", p) and re.match(r"^VerificationTypeInfo::[A-Za-z]+$", a):
            plain.append(int(p))
            vti_ctor.append((int(p), a.split("::")[1]))
        elif re.match(r"^\d+$", p) and a == "{letclass=pool.get_class(reader.read_u16()?)?;VerificationTypeInfo::Object(class)}":
            obj = int(p)
            vti_ctor.append((int(p), "Object"))
        elif re.match(r"^\d+$", p) and a == "{letlabel=labels.get_or_create(reader.read_u16()?)?;VerificationTypeInfo::Uninitialized(label)}":
            uninit = int(p)
            vti_ctor.append((int(p), "Uninitialized"))
        elif p == "tag" and a.startswith("bail!("):
            pass
        else:
            raise Bad("read_verification_type_info: arm %s not understood" % p)
    if obj is None or uninit is None:
        raise Bad("read_verification_type_info: Object / Uninitialized arm missing")
    L += ["(* ---- verification_type_info ---- *)", "Definition vti_plain : list N := [%s]." % "; ".join(map(str, plain)),
          "Definition vti_object_tag : N := %d." % obj, "Definition vti_uninit_tag : N := %d." % uninit,
          "(* tag -> the VerificationTypeInfo variant the arm of read_verification_type_info builds: %s *)" % ", ".join("%d %s" % tn for tn in vti_ctor),
          "Definition vti_ctor_tbl : list (N * str) := [%s]." % "; ".join("(%d, %s)" % (t, gstr(n)) for t, n in vti_ctor), ""]
    # method handles: reference_kind -> Handle variant, pool accessor of the reference
    # (1 get_field_ref, 2 get_method_ref, 3 get_method_ref_or_interface_method_ref, 4 get_interface_method_ref: numbering of Pool.resolve_kind)
    pool_src = strip_comments(open(os.path.join(vcheck.REPO, "duke/src/class_reader/pool.rs")).read())
    hconst = mod_consts(cc, "method_handle_reference")
    hb = fn_body(pool_src, r"\bfn\s+as_method_handle\s*\(", "as_method_handle")
    m = re.search(r"let\s+handle\s*=\s*match\s+reference_kind\s*\{", hb)
    if not m:
        raise Bad("as_method_handle: match on reference_kind not found")
    HACC = {"get_field_ref": 1, "get_method_ref": 2, "get_interface_method_ref": 4}
    handle_tbl = []
    for pat, arm in split_arms(hb[m.end():matching(hb, m.end() - 1)]):
        p, a = squash(pat), squash(arm)
        mm = re.match(r"^method_handle_reference::([A-Z_]+)$", p)
        if mm:
            if mm.group(1) not in hconst:
                raise Bad("as_method_handle: unknown constant %s" % mm.group(1))
            k = hconst[mm.group(1)]
            m1 = re.match(r"^Handle::([A-Za-z]+)\(pool\.(get_[a-z_]+)\(reference_index\)\?\)$", a)
            m2 = re.match(r"^\{let\(method_ref,is_interface\)=pool\.get_method_ref_or_interface_method_ref\(reference_index\)\?;Handle::([A-Za-z]+)\(method_ref,is_interface\)\}$", a)
            if m1 and m1.group(2) in HACC:
                handle_tbl.append((k, m1.group(1), HACC[m1.group(2)]))
            elif m2:
                handle_tbl.append((k, m2.group(1), 3))
            else:
                raise Bad("as_method_handle: arm of %s not understood" % mm.group(1))
        elif p == "tag" and a.startswith("bail!("):
            pass
        else:
            raise Bad("as_method_handle: arm %s not understood" % p)
    L += ["(* ---- MethodHandle: reference_kind, the Handle variant built, the accessor of reference_index ---- *)",
          "(* %s *)" % ", ".join("%d %s" % (k, n) for k, n, _ in handle_tbl),
          "Definition handle_tbl : list (N * str * N) := [%s]." % "; ".join("(%d, %s, %d)" % (k, gstr(n), a) for k, n, a in handle_tbl), ""]
    # targets
    tconst = mod_consts(cc, "type_annotation")
    L.append("(* ---- target_info per context: target_type, fields read (0 u8, 1 u16, 2 u16 offset -> label, 3 localvar table) ---- *)")
    for ctx, struct in (("class", "TargetInfoClass"), ("field", "TargetInfoField"), ("method", "TargetInfoMethod")):
        m = re.search(r"impl\s+TargetInfoRead\s+for\s+%s\s*\{" % struct, cr)
        if not m:
            raise Bad("impl TargetInfoRead for %s not found" % struct)
        ib = cr[m.end():matching(cr, m.end() - 1)]
        mm = re.search(r"Ok\(match\s+reader\.read_u8\(\)\?\s*\{", ib)
        if not mm:
            raise Bad("%s::read_type_reference: tag match not found" % struct)
        L.append("Definition target_%s_tbl : list (N * list N) := %s." % (ctx, glist(target_table(ib[mm.end():matching(ib, mm.end() - 1)], tconst, ctx))))
    body = fn_body(cr, r"\bfn\s+read_type_reference_code\s*\(", "read_type_reference_code")
    mm = re.search(r"Ok\(match\s+reader\.read_u8\(\)\?\s*\{", body)
    L.append("Definition target_code_tbl : list (N * list N) := %s." % glist(target_table(body[mm.end():matching(body, mm.end() - 1)], tconst, "code")))
    L.append("")
    # attribute arms
    arms = {}
    for ctx, rx in CONTEXTS:
        arms[ctx], _ = attribute_arms(cr, names, ctx, rx)
    L.append("(* ---- layouts read with read_vec / struct literals / let sequences ---- *)")
    L.append("(* accessors: 6 get_class / get_obj_class, 7 get_constant_value, 8 get_utf8, 9 get_method_handle, 10 get_method_name_and_type, 11 get_module, 12 get_package *)")
    generated = {}
    for ctx in ("class", "field", "method", "record"):
        v, V = VISITORS[ctx]
        for const, a in arms[ctx].items():
            name = names[const]
            if re.match(r"^\{is_(deprecated|synthetic)=true;\}$", a) or a == "{reader.skip(lengthasi64)?;}":
                continue
            f = tr.arm(a, v)
            if f is None and const == "BOOTSTRAP_METHODS":
                mm = re.match(r"^\{letmethods=(.*);bootstrap_methods\.insert_if_empty\(methods\)\.context\(\"[^\"]*\"\)\?;\}$", a)
                if not mm:
                    raise Bad("BootstrapMethods arm changed")
                # the handle is resolved when the attribute is read and its index kept for the constants: FIdxRaw
                inner = mm.group(1)
                want = "reader.read_vec(|r|r.read_u16_as_usize(),|r|Ok(BootstrapMethodRead{handle:pool.get_method_handle(r.read_u16()?)?,arguments:r.read_vec(|r|r.read_u16_as_usize(),|r|r.read_u16())?,}))?"
                if inner != want:
                    raise Bad("BootstrapMethods arm: layout expression changed")
                f = "FVec16 (FSeq [FIdxRaw 9; FVec16 FU16])"
            if f is None:
                # the arms assembled by hand
                vis = {"RUNTIME_VISIBLE_ANNOTATIONS": ("annotations", "true"), "RUNTIME_INVISIBLE_ANNOTATIONS": ("annotations", "false"),
                       "RUNTIME_VISIBLE_TYPE_ANNOTATIONS": ("type_annotations", "true"), "RUNTIME_INVISIBLE_TYPE_ANNOTATIONS": ("type_annotations", "false")}
                if const in vis:
                    k, b = vis[const]
                    if a != SPECIAL_ARMS[k] % {"v": v, "V": V, "b": b}:
                        raise Bad("%s: arm of %s changed" % (ctx, name))
                    continue
                if (ctx, const) in (("class", "RECORD"), ("method", "CODE"), ("method", "ANNOTATION_DEFAULT")):
                    generated.setdefault("__pin__", {})["%s.%s" % (ctx, const)] = a
                    continue
                raise Bad("%s: arm of %s not understood" % (ctx, name))
            if name in generated and generated[name] != f:
                raise Bad("attribute %s has different layouts in different contexts" % name)
            generated.setdefault(name, f)
    for const, a in arms["code"].items():
        vis = {"RUNTIME_VISIBLE_TYPE_ANNOTATIONS": "true", "RUNTIME_INVISIBLE_TYPE_ANNOTATIONS": "false"}
        if const in vis and a != SPECIAL_ARMS["type_annotations_code"] % {"b": vis[const]}:
            raise Bad("code: arm of %s changed" % names[const])
    order = ["InnerClasses", "EnclosingMethod", "Signature", "SourceFile", "SourceDebugExtension", "ModulePackages", "ModuleMainClass", "NestHost", "NestMembers",
             "PermittedSubclasses", "BootstrapMethods", "ConstantValue", "Exceptions", "MethodParameters", "Module"]
    for n in order:
        if n not in generated:
            raise Bad("attribute %s: no generated layout" % n)
        L.append("Definition f_%s%s : fmt := %s." % (n, " (len : N)" if " len" in generated[n] else "", generated[n]))
    extra = sorted(k for k in generated if k not in order and k != "__pin__")
    if extra:
        raise Bad("attributes with a generated layout that the model does not use: %s" % extra)
    # the exception table of read_code
    code = squash(fn_body(cr, r"\bfn\s+read_code\s*<", "read_code"))
    m = re.search(r"letexception_table=(reader\.read_vec\(.*?\)\?);letmutstack_map_frame=None;", code)
    if not m:
        raise Bad("read_code: exception table not found")
    L.append("Definition f_exception_table : fmt := %s." % tr.expr(m.group(1)))
    # pins
    texts = pinned_texts(cr, None, arms)
    for k, a in generated.get("__pin__", {}).items():
        texts[k] = a
    problems = []
    for k, t in texts.items():
        want = PINS.get(k)
        got = sha(t)
        if want != got:
            problems.append("%s: %s (recorded %s)" % (k, got, want))
    if problems:
        raise Bad("hand-modelled reader code changed (re-read coq/C01/ClassFile.v against it, then update PINS): " + "; ".join(problems))
    return "\n".join(L) + "\n"


def run():
    try:
        text = generate()
    except Bad as ex:
        return ["c01_formats: " + str(ex)]
    out = os.path.join(vcheck.COQ, "C01", "Formats.v")
    old = open(out).read() if os.path.exists(out) else None
    if old != text:
        os.makedirs(os.path.dirname(out), exist_ok=True)
        with open(out + ".tmp", "w") as f:
            f.write(text)
        os.replace(out + ".tmp", out)
    return []


run.__name__ = "c01_formats"

if __name__ == "__main__":
    errs = run()
    for e in errs:
        print("ERROR", e)
    sys.exit(1 if errs else 0)
