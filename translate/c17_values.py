#!/usr/bin/env python3
"""C17 translator: the grammar of the parsed VALUES that the reader hands to a visitor for annotations and
for the attributes whose body is one constant pool index, read from the Rust source.

reads   <REPO>/duke/src/class_reader.rs   `read_annotations_attribute` (u16 count; per annotation a u16 type index and
                                          `read_element_values_named(…, 0)`), `MAX_ELEMENT_VALUE_NESTING`, the arms of
                                          `read_element_values_named` and `read_element_value_unnamed` (which must agree),
                                          the nesting tests of `read_element_values_named` / `read_element_values_unnamed`,
                                          the AnnotationDefault arm of read_method (one unnamed element value at nesting 0),
                                          the Signature arms (class, field, method, record component) and the SourceFile arm
                                          (body = one u16 index of a Utf8 entry), and the arms of InnerClasses, EnclosingMethod,
                                          NestHost, NestMembers, PermittedSubclasses, ModuleMainClass, ModulePackages, Exceptions,
                                          MethodParameters (the reads of the arm in source order: count, pool accessors, flags)
                                          `read_type_annotations_attribute(_code)`, every `impl TargetInfoRead for X` and
                                          `read_type_reference_code` (target_type -> the fields the arm reads), `read_type_path`,
                                          the ten type annotations arms
        <REPO>/duke/src/class_constants.rs   `mod type_annotation` (target_type constants)
        <REPO>/duke/src/visitor/{class,field,method,method/code,record}.rs   the target info type of each TypeAnnotationsVisitor
        <REPO>/duke/src/tree/{class,method}.rs   the bits `impl From<u16> for InnerClassFlags / ParameterFlags` keep
        <REPO>/duke/src/class_reader/pool.rs   the narrowing accessors `get_integer_as_*` (`integer as i8` …, `!= 0`)
writes  <COQ>/C17/ValuesGen.v             data over the types of C17/Values.v

Fails closed: an arm of another shape, arms that differ between the named and the unnamed reader, a changed
nesting test, an accessor with another body — each is returned as an error string (a broken tie).
"""
import os
import re
import sys

_HERE = os.path.dirname(os.path.abspath(__file__))
sys.path.insert(0, _HERE)
from c17_attr_table import Fail, strip_comments, norm, match_close, functions, split_arms, REPO, COQ  # noqa: E402

# accessor of the pool -> (tag of the constant pool entry it demands, how the entry's value is narrowed)
#   narrowing 0: the value itself; 1: low 8 bits; 2: low 16 bits; 3: (value != 0); 4: Utf8 (a string)
NARROW = {"i8": 1, "u16": 2, "i16": 2}


def accessor_table(pool_src):
    fns = {}
    for m in re.finditer(r"pub\(crate\) fn (get_\w+)\(&self, index: u16\) -> Result<([\w<>&]+)>\s*\{", pool_src):
        b = pool_src.index("{", m.end() - 1)
        e = match_close(pool_src, b)
        fns[m.group(1)] = norm(pool_src[b + 1:e])
    base = {"get_integer": ("as_integer", 3), "get_float": ("as_float", 4), "get_long": ("as_long", 5), "get_double": ("as_double", 6)}
    out = {}
    for name, (conv, tag) in base.items():
        if fns.get(name) != "self.get(index)?.%s().pool_context(index)" % conv:
            raise Fail("pool.rs: fn %s has another body than `self.get(index)?.%s().pool_context(index)`" % (name, conv))
        out[name] = (tag, 0)
    if not re.fullmatch(r"self\.get\(index\)\?\.as_utf8\(\)\.pool_context\(index\)\.cloned\(\)", fns.get("get_utf8", "")):
        raise Fail("pool.rs: fn get_utf8 has another body than `self.get(index)?.as_utf8().pool_context(index).cloned()`")
    out["get_utf8"] = (1, 4)
    for name, body in fns.items():
        m = re.fullmatch(r"let integer = self\.get_integer\(index\)\?; Ok\(integer as (\w+)\)", body)
        if m and name.startswith("get_integer_as_"):
            if m.group(1) not in NARROW:
                raise Fail("pool.rs: fn %s narrows to %s, which the translator does not know" % (name, m.group(1)))
            out[name] = (3, NARROW[m.group(1)])
        elif re.fullmatch(r"Ok\(self\.get_integer\(index\)\? != 0\)", body) and name.startswith("get_integer_as_"):
            out[name] = (3, 3)
        elif name.startswith("get_integer_as_"):
            raise Fail("pool.rs: fn %s has a body the translator does not know: %s" % (name, body[:120]))
    return out


def ev_arms(fn_body, named, accessors):
    """the `match reader.read_u8()? { … }` of one element-value reader -> (consts, special)"""
    nb = fn_body
    k = nb.find("match reader.read_u8()? {")
    if k < 0:
        raise Fail("element_value reader without `match reader.read_u8()? {`")
    b = nb.index("{", k)
    e = match_close(nb, b)
    arms = split_arms(nb[b + 1:e])
    nm = "name, " if named else ""
    consts, special = [], {}
    for pat, body in arms:
        m = re.fullmatch(r"b'(\\?.)'", pat)
        if not m:
            if re.fullmatch(r"tag", pat) and re.fullmatch(r"bail!\(\"[^\"]*\"\)", body):
                continue
            raise Fail("element_value arm with a pattern the translator does not know: %s => %s" % (pat, body[:80]))
        ch = m.group(1)
        if len(ch) != 1:
            raise Fail("element_value tag %r" % ch)
        tag = ord(ch)
        c = re.fullmatch(r"\{ let const_value_index = reader\.read_u16\(\)\?; let (\w+) = pool\.(\w+)\(const_value_index\)\?; outer\.visit\(%sObject::(\w+)\(\1\)\)\?; \}" % nm, body)
        if c:
            if c.group(2) not in accessors:
                raise Fail("element_value arm %r uses the pool accessor %s, which the translator does not know" % (ch, c.group(2)))
            consts.append((tag, c.group(2), c.group(3)))
            continue
        if re.fullmatch(r"\{ let type_name = FieldDescriptor::try_from\(pool\.get_utf8\(reader\.read_u16\(\)\?\)\?\)\?; let const_name = pool\.get_utf8\(reader\.read_u16\(\)\?\)\?; outer\.visit_enum\(%stype_name, const_name\)\?; \}" % nm, body):
            special["enum"] = tag
            continue
        if re.fullmatch(r"\{ let class = ReturnDescriptor::try_from\(pool\.get_utf8\(reader\.read_u16\(\)\?\)\?\)\?; outer\.visit_class\(%sclass\)\?; \}" % nm, body):
            special["class"] = tag
            continue
        if re.fullmatch(r"\{ let annotation_descriptor = FieldDescriptor::try_from\(pool\.get_utf8\(reader\.read_u16\(\)\?\)\?\)\?; let \(visitor, inner\) = outer\.visit_annotation\(%sannotation_descriptor\)\?; let inner = read_element_values_named\(reader, pool, inner, nesting \+ 1\)\?; outer = A::finish_annotation\(visitor, inner\)\?; \}" % nm, body):
            special["annot"] = tag
            continue
        if re.fullmatch(r"\{ let \(visitor, inner\) = outer\.visit_array\(%s\)\?; let inner = read_element_values_unnamed\(reader, pool, inner, nesting \+ 1\)\?; outer = A::finish_array\(visitor, inner\)\?; \}" % ("name" if named else ""), body):
            special["array"] = tag
            continue
        raise Fail("element_value arm %r has a body the translator does not know: %s" % (ch, body[:160]))
    if sorted(special) != ["annot", "array", "class", "enum"]:
        raise Fail("element_value reader: arms found for %s, expected enum, class, annotation and array" % sorted(special))
    return consts, special


NEST_TEST = "if nesting > MAX_ELEMENT_VALUE_NESTING { bail!("

# ------------------------------------------------------------------ type annotations
TA_GENERIC = ("{ let num_annotations = reader.read_u16()?; for _ in 0..num_annotations { "
              "let type_reference = TargetInfoRead::read_type_reference(reader)?; "
              "let type_path = read_type_path(reader)?; "
              "let annotation_descriptor = FieldDescriptor::try_from(pool.get_utf8(reader.read_u16()?)?)?; "
              "let (visitor, named_element_values_visitor) = type_annotations_visitor.visit_type_annotation(type_reference, type_path, annotation_descriptor)?; "
              "let named_element_values_visitor = read_element_values_named(reader, pool, named_element_values_visitor, 0)?; "
              "type_annotations_visitor = TypeAnnotationsVisitor::finish_type_annotation(visitor, named_element_values_visitor)?; } "
              "Ok(type_annotations_visitor) }")
TA_CODE = TA_GENERIC.replace("TargetInfoRead::read_type_reference(reader)?", "read_type_reference_code(reader, labels)?")
TYPE_PATH = re.compile(
    r"\{ let mut vec = Vec::new\(\); for _ in 0\.\.reader\.read_u8\(\)\? \{ let type_path_kind = reader\.read_u8\(\)\?; let type_argument_index = reader\.read_u8\(\)\?; "
    r"let x = match type_path_kind \{ kind @ 0\.\.=(\d+) => \{ let x = match kind \{ ((?:\d+ => TypePathKind::\w+, )+)_ => unreachable!\(\), \}; "
    r"if type_argument_index != 0 \{ bail!\([^;]*\); \} x \}, (\d+) => TypePathKind::TypeArgument \{ index: type_argument_index \}, "
    r"kind => bail!\([^;]*\), \}; vec\.push\(x\); \} Ok\(TypePath \{ path: vec \}\) \}")
TABLE_ARM = (r"\{ let mut table = Vec::new\(\); (?:let length = reader\.read_u16\(\)\?; for _ in 0\.\.length|for _ in 0\.\.reader\.read_u16\(\)\?) \{ "
             r"let start_pc = reader\.read_u16\(\)\?; let length = reader\.read_u16\(\)\?; let range = labels\.get_or_create_range\(start_pc, length\)\?; "
             r"let index = reader\.read_u16_as_local_variable\(\)\?; table\.push\(\(range, index\)\); \} %s \{ table \} \}")
# location -> (file with the visitor trait, trait, what the model calls the location)
TA_LOCATIONS = [(0, "visitor/class.rs", "ClassVisitor", "class"), (1, "visitor/field.rs", "FieldVisitor", "field"), (2, "visitor/method.rs", "MethodVisitor", "method"),
                (3, "visitor/method/code.rs", "CodeVisitor", "Code"), (4, "visitor/record.rs", "RecordComponentVisitor", "record component")]


def target_arms(match_body, struct, consts, where):
    """the arms of `match reader.read_u8()? { type_annotation::X => …, tag => bail!(…) }` -> [(target_type, [tfield…], variant text)]"""
    T = re.escape(struct) + r"::(\w+)"
    rows = []
    for pat, body in split_arms(match_body):
        if pat == "tag":
            if not re.fullmatch(r"bail!\(\"[^\"]*\"\)", body):
                raise Fail("%s: the default arm does not bail: %s" % (where, body[:80]))
            continue
        m = re.fullmatch(r"type_annotation::([A-Z_]+)", pat)
        if not m or m.group(1) not in consts:
            raise Fail("%s: arm pattern the translator does not know: %s" % (where, pat))
        tag = consts[m.group(1)]
        b = body
        inner = b[1:-1].strip() if b.startswith("{") and b.endswith("}") and re.fullmatch(r"\{ %s(?: \{ [^{}]* \})? \}" % T, b) else b
        v = None
        for rx, fs in ((r"%s" % T, []),
                       (r"%s \{ \w+: reader\.read_u8\(\)\? \}" % T, ["TU8"]),
                       (r"%s \{ \w+: reader\.read_u16\(\)\? \}" % T, ["TU16"]),
                       (r"%s\(labels\.get_or_create\(reader\.read_u16\(\)\?\)\?\)" % T, ["TOff"])):
            mm = re.fullmatch(rx, inner)
            if mm:
                v, fields = mm.group(1), fs
                break
        if v is None:
            mm = re.fullmatch(r"\{ let (\w+) = reader\.read_u8\(\)\?; let (\w+) = reader\.read_u8\(\)\?; %s \{ \1, \2 \} \}" % T, b)
            if mm:
                v, fields = mm.group(3), ["TU8", "TU8"]
        if v is None:
            mm = re.fullmatch(r"\{ let label = labels\.get_or_create\(reader\.read_u16\(\)\?\)\?; let index = reader\.read_u8\(\)\?; %s \{ label, index \} \}" % T, b)
            if mm:
                v, fields = mm.group(1), ["TOff", "TU8"]
        if v is None:
            mm = re.fullmatch(TABLE_ARM % T, b)
            if mm:
                v, fields = mm.group(1), ["TTable"]
        if v is None:
            # super_class / interface: one u16, 65535 standing for the super class
            mm = re.fullmatch(r"\{ let index = reader\.read_u16\(\)\?; if index == u16::MAX \{ %s \} else \{ %s \{ index \} \} \}" % (T, T), b)
            if mm:
                v, fields = "%s(65535)|%s" % (mm.group(1), mm.group(2)), ["TU16"]
        if v is None:
            raise Fail("%s: the arm of %s has a body the translator does not know: %s" % (where, m.group(1), b[:160]))
        rows.append((tag, fields, v))
    if len(set(t for t, _, _ in rows)) != len(rows):
        raise Fail("%s: a target_type occurs in two arms" % where)
    return rows


def type_annotation_tables(cr, fns):
    cc = strip_comments(open(os.path.join(REPO, "duke/src/class_constants.rs")).read())
    m = re.search(r"pub\(crate\) mod type_annotation \{", cc)
    if not m:
        raise Fail("class_constants.rs: no `mod type_annotation`")
    b = cc.index("{", m.start())
    consts = {c.group(1): int(c.group(2), 16) for c in re.finditer(r"pub\(crate\) const ([A-Z_]+): u8 = 0x([0-9a-fA-F]+);", cc[b:match_close(cc, b)])}
    if not consts:
        raise Fail("class_constants.rs: no type_annotation constants")
    if fns.get("read_type_annotations_attribute") != TA_GENERIC:
        raise Fail("read_type_annotations_attribute has another body than the one the model follows")
    if fns.get("read_type_annotations_attribute_code") != TA_CODE:
        raise Fail("read_type_annotations_attribute_code has another body than the one the model follows")
    # the arms of the attribute loops: 8 through the visitor trait's target info type, 2 inside Code
    arms = list(re.finditer(r"name if name == attribute::RUNTIME_(?:IN)?VISIBLE_TYPE_ANNOTATIONS => \{", cr))
    n_gen = n_code = 0
    for arm in arms:
        b = cr.index("{", arm.end() - 1)
        body = norm(cr[b:match_close(cr, b) + 1])
        mm = re.fullmatch(r"\{ let \(visitor, type_annotations_visitor\) = \w+\.visit_type_annotations\((true|false)\)\?; "
                          r"let type_annotations_visitor = (read_type_annotations_attribute\(reader, type_annotations_visitor, pool\)|read_type_annotations_attribute_code\(reader, type_annotations_visitor, pool, &mut labels\))\?; "
                          r"\w+ = \w+::finish_type_annotations\(visitor, type_annotations_visitor\)\?; \}", body)
        if not mm:
            raise Fail("a type annotations arm has a body the translator does not know: %s" % body[:200])
        if mm.group(2).startswith("read_type_annotations_attribute_code"):
            n_code += 1
        else:
            n_gen += 1
    if (n_gen, n_code) != (8, 2) or len(re.findall(r"read_type_annotations_attribute(?:_code)?\(", cr)) != 10:
        raise Fail("expected 8 type annotations arms calling read_type_annotations_attribute and 2 (Code) calling read_type_annotations_attribute_code; found %d and %d" % (n_gen, n_code))
    # the impls of TargetInfoRead and read_type_reference_code
    impls = {}
    for im in re.finditer(r"impl TargetInfoRead for (\w+) \{", cr):
        b = cr.index("{", im.end() - 1)
        body = norm(cr[b:match_close(cr, b) + 1])
        mm = re.fullmatch(r"\{ fn read_type_reference\(reader: &mut impl ClassRead\) -> Result<Self> \{ Ok\(match reader\.read_u8\(\)\? \{ (.*) \}\) \} \}", body)
        if not mm:
            raise Fail("impl TargetInfoRead for %s has a shape the translator does not know" % im.group(1))
        impls[im.group(1)] = target_arms(mm.group(1), im.group(1), consts, "impl TargetInfoRead for %s" % im.group(1))
    code = fns.get("read_type_reference_code", "")
    mm = re.fullmatch(r"\{ Ok\(match reader\.read_u8\(\)\? \{ (.*) \}\) \}", code)
    if not mm:
        raise Fail("read_type_reference_code has a shape the translator does not know")
    impls["TargetInfoCode"] = target_arms(mm.group(1), "TargetInfoCode", consts, "read_type_reference_code")
    if sorted(impls) != ["TargetInfoClass", "TargetInfoCode", "TargetInfoField", "TargetInfoMethod"]:
        raise Fail("expected impls of TargetInfoRead for TargetInfoClass, TargetInfoField, TargetInfoMethod; found %s" % sorted(impls))
    # which target info type the visitor of each location is handed
    targets = []
    for loc, vfile, trait, what in TA_LOCATIONS:
        vs = strip_comments(open(os.path.join(REPO, "duke/src", vfile)).read())
        tm = re.findall(r"Self::TypeAnnotationsVisitor: TypeAnnotationsVisitor<(\w+)>", vs)
        if len(tm) != 1 or tm[0] not in impls:
            raise Fail("%s: the trait %s does not name one known target info type for its TypeAnnotationsVisitor: %r" % (vfile, trait, tm))
        if (tm[0] == "TargetInfoCode") != (loc == 3):
            raise Fail("%s: %s is handed %s (the model reads the Code location through read_type_reference_code and no other)" % (vfile, trait, tm[0]))
        targets.append((loc, "%s (%s)" % (what, tm[0]), impls[tm[0]]))
    # read_type_path
    pm = TYPE_PATH.fullmatch(fns.get("read_type_path", ""))
    if not pm:
        raise Fail("read_type_path has another body than the one the model follows")
    plain = [int(x) for x in re.findall(r"(\d+) => TypePathKind::", pm.group(2))]
    if plain != list(range(0, int(pm.group(1)) + 1)) or int(pm.group(3)) in plain:
        raise Fail("read_type_path: the kinds of the inner match are not exactly those of the range pattern, or the indexed kind is one of them")
    path_kinds = [(k, False) for k in plain] + [(int(pm.group(3)), True)]
    return targets, path_kinds



def split_top(text):
    """split at the commas that stand outside every bracket; empty pieces dropped"""
    out, depth, cur = [], 0, ""
    for ch in text:
        if ch in "([{":
            depth += 1
        elif ch in ")]}":
            depth -= 1
        if ch == "," and depth == 0:
            out.append(cur.strip())
            cur = ""
        else:
            cur += ch
    out.append(cur.strip())
    return [x for x in out if x]


def constant_value_table(cr, pool_src, consts_src):
    """ConstantValue: the arm of read_field, get_constant_value, the arms of as_constant_value -> [(pool tag, is string, variant)]"""
    ncr = norm(cr)
    arm = "name if name == attribute::CONSTANT_VALUE => { let constant_value = pool.get_constant_value(reader.read_u16()?)?; field_visitor.visit_constant_value(constant_value)?; }"
    if ncr.count(arm) != 1 or ncr.count("name if name == attribute::CONSTANT_VALUE =>") != 1:
        raise Fail("the ConstantValue arm has a shape the translator does not know (expected once: %s)" % arm)
    np = norm(pool_src)
    if "pub(crate) fn get_constant_value(&self, index: u16) -> Result<ConstantValue> { self.get(index)?.as_constant_value(self).pool_context(index) }" not in np:
        raise Fail("pool.rs: fn get_constant_value has another body than `self.get(index)?.as_constant_value(self).pool_context(index)`")
    m = re.search(r"fn as_constant_value\(&self, pool: &PoolRead\) -> Result<ConstantValue> \{", pool_src)
    if not m:
        raise Fail("pool.rs: no fn as_constant_value(&self, pool: &PoolRead) -> Result<ConstantValue>")
    b = pool_src.index("{", m.end() - 1)
    body = norm(pool_src[b + 1:match_close(pool_src, b)])
    if not body.startswith("match self {") or not body.endswith("}"):
        raise Fail("pool.rs: as_constant_value is not one `match self { … }`")
    km = re.search(r"pub\(crate\) mod pool \{", consts_src)
    if not km:
        raise Fail("class_constants.rs: no `mod pool`")
    kb = consts_src.index("{", km.end() - 1)
    pool_consts = consts_src[kb:match_close(consts_src, kb)]
    nested = pool_consts.find("mod ", 1)
    if nested > 0:
        pool_consts = pool_consts[:nested]
    if np.count("fn as_string(&self, pool: &PoolRead) -> Result<JavaString> { let PoolEntry::String { string_index } = *self else { bail!(\"pool entry not `String`: {self:?}\"); }; pool.get_utf8(string_index) }") != 1:
        raise Fail("pool.rs: fn as_string has another body than the one the model follows (the Utf8 entry at string_index)")
    rows, rest = [], body[len("match self {"):-1].strip()
    for am in re.finditer(r"PoolEntry::(\w+) \{ \.\. \} => Ok\(ConstantValue::(\w+)\(self\.as_(\w+)\((pool)?\)\?\)\),", rest):
        entry, variant, conv, with_pool = am.groups()
        if entry != variant or conv != entry.lower():
            raise Fail("pool.rs: as_constant_value maps PoolEntry::%s to ConstantValue::%s through as_%s" % (entry, variant, conv))
        is_string = entry == "String"
        if is_string != bool(with_pool):
            raise Fail("pool.rs: as_constant_value: as_%s is called %s the pool" % (conv, "with" if with_pool else "without"))
        # the tag: the arm of PoolRead::read that builds this variant
        tm = re.findall(r"pool::(\w+) => \{[^{}]*PoolEntry::%s \{" % entry, pool_src)
        if len(tm) != 1:
            raise Fail("pool.rs: expected one arm of PoolRead::read that builds PoolEntry::%s, found %d" % (entry, len(tm)))
        cm = re.findall(r"pub\(crate\) const %s: u8 = (\d+);" % tm[0], pool_consts)
        if len(cm) != 1:
            raise Fail("class_constants.rs: pool::%s not found" % tm[0])
        rows.append((int(cm[0]), is_string, variant))
    left = re.sub(r"PoolEntry::(\w+) \{ \.\. \} => Ok\(ConstantValue::(\w+)\(self\.as_(\w+)\((pool)?\)\?\)\),", "", rest).strip()
    if not rows or not re.fullmatch(r"_ => bail!\([^;]*\),?", left):
        raise Fail("pool.rs: as_constant_value has an arm the translator does not know: %s" % left[:160])
    if len(set(t for t, _, _ in rows)) != len(rows):
        raise Fail("pool.rs: as_constant_value: a pool tag occurs twice")
    return rows


def module_sections(cr, fns, kind, flag_mask, struct_fields):
    """the Module arm and read_module -> [(text of the msec, comment)]"""
    ncr = norm(cr)
    arm = "name if name == attribute::MODULE => { let module = read_module(reader, pool)?; class_visitor.visit_module(module)?; }"
    if ncr.count(arm) != 1 or ncr.count("name if name == attribute::MODULE =>") != 1 or ncr.count("read_module(") != 2:
        raise Fail("the Module arm has a shape the translator does not know (expected once: %s)" % arm)
    body = fns.get("read_module", "")
    if not body.startswith("{ Ok(Module { ") or not body.endswith(" }) }"):
        raise Fail("read_module is not `Ok(Module { … })`")

    def scalar(struct, field, expr):
        m = re.fullmatch(r"pool\.get_(\w+)\((?:r|reader)\.read_u16\(\)\?\)\??", expr)
        if m:
            if m.group(1) not in kind:
                raise Fail("read_module uses the accessor get_%s, which the translator does not know" % m.group(1))
            return "CIdx %d" % kind[m.group(1)]
        m = re.fullmatch(r"pool\.get_optional\((?:r|reader)\.read_u16\(\)\?, PoolRead::get_(\w+)\)\?", expr)
        if m:
            if m.group(1) not in kind:
                raise Fail("read_module uses the accessor get_%s, which the translator does not know" % m.group(1))
            return "COpt %d" % kind[m.group(1)]
        if re.fullmatch(r"(?:r|reader)\.read_u16\(\)\?\.into\(\)", expr):
            ty = struct_fields.get(struct, {}).get(field)
            if not ty:
                raise Fail("tree/module.rs: no type for the field %s.%s" % (struct, field))
            return "CFlags %d" % flag_mask(ty)
        return None

    def vec(expr):
        m = re.fullmatch(r"(?:r|reader)\.read_vec\( \|r\| r\.read_u16_as_usize\(\), \|r\| (.*) \)\?", expr)
        return m.group(1) if m else None

    def fields(text):
        out = []
        for piece in split_top(text):
            m = re.fullmatch(r"(\w+): (.*)", piece)
            if not m:
                raise Fail("read_module: `%s` is not `field: expression`" % piece[:80])
            out.append((m.group(1), m.group(2)))
        return out

    secs, head, seen_vec = [], [], False
    for f, e in fields(body[len("{ Ok(Module { "):-len(" }) }")]):
        c = scalar("Module", f, e)
        if c is not None:
            if seen_vec:
                raise Fail("read_module: the field %s is read after a vector; the model knows leading fields only" % f)
            head.append(c)
            continue
        elem = vec(e)
        if elem is None:
            raise Fail("read_module: the field %s is read by an expression the translator does not know: %s" % (f, e[:120]))
        if not seen_vec:
            if not head:
                raise Fail("read_module: no leading fields")
            secs.append(("MRow [%s]" % "; ".join(head), "name, flags, version"))
            seen_vec = True
        c = scalar(None, None, elem)
        if c is not None:
            secs.append(("MVec [%s] None" % c, f))
            continue
        m = re.fullmatch(r"Ok\((\w+) \{ (.*) \}\)", elem)
        if not m:
            raise Fail("read_module: the rows of %s are read by an expression the translator does not know: %s" % (f, elem[:120]))
        cols, inner = [], None
        for g, x in fields(m.group(2)):
            if inner is not None:
                raise Fail("read_module: %s.%s is read after the nested vector" % (m.group(1), g))
            c = scalar(m.group(1), g, x)
            if c is not None:
                cols.append(c)
                continue
            ie = vec(x)
            c = scalar(None, None, ie) if ie is not None else None
            if c is None or not c.startswith("CIdx"):
                raise Fail("read_module: %s.%s is read by an expression the translator does not know: %s" % (m.group(1), g, x[:120]))
            inner = c
        if not cols:
            raise Fail("read_module: the rows of %s have no columns" % f)
        secs.append(("MVec [%s] %s" % ("; ".join(cols), "(Some (%s))" % inner if inner else "None"), f))
    if not seen_vec:
        raise Fail("read_module reads no vector")
    n_reads = sum(body.count(x) for x in ("read_u8", "read_u32", "read_u64", "read_i", "read_n"))
    if n_reads:
        raise Fail("read_module reads something other than u16")
    return secs


def gstr(s):
    return "[" + ";".join(str(ord(c)) for c in s) + "]"


def generate():
    cr = strip_comments(open(os.path.join(REPO, "duke/src/class_reader.rs")).read())
    pool_src = strip_comments(open(os.path.join(REPO, "duke/src/class_reader/pool.rs")).read())
    accessors = accessor_table(pool_src)
    fns = {k: norm(v) for k, v in functions(cr).items()}
    m = re.search(r"const MAX_ELEMENT_VALUE_NESTING: usize = (\d+);", cr)
    if not m:
        raise Fail("const MAX_ELEMENT_VALUE_NESTING not found")
    depth = int(m.group(1))

    named = fns.get("read_element_values_named", "")
    unnamed_list = fns.get("read_element_values_unnamed", "")
    unnamed = fns.get("read_element_value_unnamed", "")
    # the named list: nesting test, then `for _ in 0..reader.read_u16()? { let name = pool.get_utf8(reader.read_u16()?)?; match … }`
    if not named.startswith("{ " + NEST_TEST) or "for _ in 0..reader.read_u16()? { let name = pool.get_utf8(reader.read_u16()?)?; match reader.read_u8()? {" not in named or not named.endswith("} } Ok(outer) }"):
        raise Fail("read_element_values_named: nesting test / count loop / name index has a shape the translator does not know")
    if not re.fullmatch(r"\{ " + re.escape(NEST_TEST) + r"[^;]*\); \} for _ in 0\.\.reader\.read_u16\(\)\? \{ outer = read_element_value_unnamed\(reader, pool, outer, nesting\)\?; \} Ok\(outer\) \}", unnamed_list):
        raise Fail("read_element_values_unnamed: nesting test / count loop has a shape the translator does not know")
    if not unnamed.startswith("{ match reader.read_u8()? {") or not unnamed.endswith("} Ok(outer) }"):
        raise Fail("read_element_value_unnamed: has a shape the translator does not know")
    c1, s1 = ev_arms(named, True, accessors)
    c2, s2 = ev_arms(unnamed, False, accessors)
    if c1 != c2 or s1 != s2:
        raise Fail("read_element_values_named and read_element_value_unnamed have different arms")
    tags = [t for t, _, _ in c1] + list(s1.values())
    if len(set(tags)) != len(tags):
        raise Fail("an element_value tag occurs in two arms")

    # annotations attribute: u16 count, per annotation u16 type index then the named list at nesting 0
    ann = fns.get("read_annotations_attribute", "")
    want = ("{ let num_annotations = reader.read_u16()?; for _ in 0..num_annotations { "
            "let annotation_descriptor = FieldDescriptor::try_from(pool.get_utf8(reader.read_u16()?)?)?; "
            "let (visitor, named_element_values_visitor) = annotations_visitor.visit_annotation(annotation_descriptor)?; "
            "let named_element_values_visitor = read_element_values_named(reader, pool, named_element_values_visitor, 0)?; "
            "annotations_visitor = AnnotationsVisitor::finish_annotation(visitor, named_element_values_visitor)?; } Ok(annotations_visitor) }")
    if ann != want:
        raise Fail("read_annotations_attribute has another body than the one the model follows")
    # every (non-type) annotations arm calls read_annotations_attribute and nothing else on the reader
    n_calls = len(re.findall(r"read_annotations_attribute\(reader, annotations_visitor, pool\)\?", cr))
    n_arms = len(re.findall(r"name if name == attribute::RUNTIME_(?:IN)?VISIBLE_ANNOTATIONS =>", cr))
    if n_calls != n_arms or n_arms != 8:
        raise Fail("expected 8 annotations arms (class, field, method, record component: visible and invisible), each calling read_annotations_attribute; found %d arms, %d calls" % (n_arms, n_calls))
    for arm in re.finditer(r"name if name == attribute::RUNTIME_(?:IN)?VISIBLE_ANNOTATIONS => \{", cr):
        b = cr.index("{", arm.end() - 1)
        body = norm(cr[b:match_close(cr, b) + 1])
        if not re.fullmatch(r"\{ let \(visitor, annotations_visitor\) = \w+\.visit_annotations\((true|false)\)\?; let annotations_visitor = read_annotations_attribute\(reader, annotations_visitor, pool\)\?; \w+ = \w+::finish_annotations\(visitor, annotations_visitor\)\?; \}", body):
            raise Fail("an annotations arm has a body the translator does not know: %s" % body[:200])

    # AnnotationDefault: one unnamed element value at nesting 0
    m = re.search(r"name if name == attribute::ANNOTATION_DEFAULT => \{", cr)
    if not m:
        raise Fail("no AnnotationDefault arm")
    b = cr.index("{", m.end() - 1)
    body = norm(cr[b:match_close(cr, b) + 1])
    if not re.fullmatch(r"\{ let \(visitor, (\w+)\) = method_visitor\.visit_annotation_default\(\)\?; let \1 = read_element_value_unnamed\(reader, pool, \1, 0\)\?; method_visitor = MethodVisitor::finish_annotation_default\(visitor, \1\)\?; \}", body):
        raise Fail("the AnnotationDefault arm has a body the translator does not know: %s" % body[:200])

    # attributes whose body is one u16 index of a Utf8 entry, handed over as (a newtype of) that string
    idx_attrs = []
    sig = re.findall(r"name if name == attribute::SIGNATURE => \{ let signature = \w+Signature::try_from\(pool\.get_utf8\(reader\.read_u16\(\)\?\)\?\)\?; \w+\.visit_signature\(signature\)\?; \}", norm(cr))
    if len(sig) != 4 or len(re.findall(r"name if name == attribute::SIGNATURE =>", cr)) != 4:
        raise Fail("expected 4 Signature arms of the shape `let signature = XSignature::try_from(pool.get_utf8(reader.read_u16()?)?)?; v.visit_signature(signature)?;`, found %d" % len(sig))
    idx_attrs.append("Signature")
    if len(re.findall(r"name if name == attribute::SOURCE_FILE => \{ let source_file = pool\.get_utf8\(reader\.read_u16\(\)\?\)\?; class_visitor\.visit_source_file\(source_file\)\?; \}", norm(cr))) != 1:
        raise Fail("the SourceFile arm has a shape the translator does not know")
    idx_attrs.append("SourceFile")

    # attributes that are rows of pool indices and flags: the reads of the arm in source order
    KIND = {"class": 7, "utf8": 1, "package": 20, "method_name_and_type": 12, "module": 19}
    tree_src = {"InnerClassFlags": strip_comments(open(os.path.join(REPO, "duke/src/tree/class.rs")).read()),
                "ParameterFlags": strip_comments(open(os.path.join(REPO, "duke/src/tree/method.rs")).read())}
    module_src = strip_comments(open(os.path.join(REPO, "duke/src/tree/module.rs")).read())
    for ty in ("ModuleFlags", "ModuleRequiresFlags", "ModuleExportsFlags", "ModuleOpensFlags"):
        tree_src[ty] = module_src

    def flag_mask(ty):
        m = re.search(r"impl From<u16> for %s \{" % ty, tree_src[ty])
        if not m:
            raise Fail("no `impl From<u16> for %s`" % ty)
        b = tree_src[ty].index("{", m.end() - 1)
        body = tree_src[ty][b:match_close(tree_src[ty], b) + 1]
        bits = re.findall(r"value & (0x[0-9a-fA-F]+) != 0", body)
        if not bits or len(bits) != body.count("value &"):
            raise Fail("`impl From<u16> for %s` has a shape the translator does not know" % ty)
        mask = 0
        for x in bits:
            mask |= int(x, 16)
        return mask

    TOKEN = re.compile(r"read_u16_as_usize\(\)|read_u8_as_usize\(\)"
                       r"|pool\.get_optional\((?:r|reader)\.read_u16\(\)\?, PoolRead::get_(\w+)\)"
                       r"|pool\.get_(\w+)\((?:r|reader)\.read_u16\(\)\?\)"
                       r"|flags: (?:r|reader)\.read_u16\(\)\?\.into\(\)"
                       r"|flags: ParameterFlags::from\((?:r|reader)\.read_u16\(\)\?\)")
    LAYOUT_ATTRS = [("INNER_CLASSES", "InnerClasses", "InnerClassFlags"), ("ENCLOSING_METHOD", "EnclosingMethod", None), ("NEST_HOST", "NestHost", None),
                    ("NEST_MEMBERS", "NestMembers", None), ("PERMITTED_SUBCLASSES", "PermittedSubclasses", None), ("MODULE_MAIN_CLASS", "ModuleMainClass", None),
                    ("MODULE_PACKAGES", "ModulePackages", None), ("EXCEPTIONS", "Exceptions", None), ("METHOD_PARAMETERS", "MethodParameters", "ParameterFlags")]
    layouts = []
    for const, name, flags_ty in LAYOUT_ATTRS:
        arms = list(re.finditer(r"name if name == attribute::%s => \{" % const, cr))
        if len(arms) != 1:
            raise Fail("expected one parsing arm for %s, found %d" % (name, len(arms)))
        b = cr.index("{", arms[0].end() - 1)
        body = norm(cr[b:match_close(cr, b) + 1])
        if len(re.findall(r"_visitor\.visit_\w+\(", body)) != 1 or "length" in body:
            raise Fail("the %s arm makes another number of visit calls than one, or mentions `length`: %s" % (name, body[:200]))
        toks = list(TOKEN.finditer(body))
        if sum(body.count(x) for x in ("read_u8", "read_u16", "read_u32", "read_u64", "read_i", "read_n", "read_vec")) != len(toks) + body.count("read_vec"):
            raise Fail("the %s arm reads something the translator does not know: %s" % (name, body[:240]))
        wide, cols = None, []
        for k, t in enumerate(toks):
            text = t.group(0)
            if text.startswith("read_u16_as_usize") or text.startswith("read_u8_as_usize"):
                if k != 0 or body.count("read_vec") != 1:
                    raise Fail("the %s arm has a count that is not the first read of one read_vec" % name)
                wide = text.startswith("read_u16")
            elif t.group(1):
                if t.group(1) not in KIND:
                    raise Fail("the %s arm uses the accessor get_%s, which the translator does not know" % (name, t.group(1)))
                cols.append("COpt %d" % KIND[t.group(1)])
            elif t.group(2):
                if t.group(2) not in KIND:
                    raise Fail("the %s arm uses the accessor get_%s, which the translator does not know" % (name, t.group(2)))
                cols.append("CIdx %d" % KIND[t.group(2)])
            else:
                if not flags_ty:
                    raise Fail("the %s arm reads flags, which the translator does not expect there" % name)
                cols.append("CFlags %d" % flag_mask(flags_ty))
        if wide is None and body.count("read_vec"):
            raise Fail("the %s arm has a read_vec without a count the translator knows" % name)
        if not cols:
            raise Fail("the %s arm reads nothing" % name)
        layouts.append((name, "LRow [%s]" % "; ".join(cols) if wide is None else "LVec %s [%s]" % ("true" if wide else "false", "; ".join(cols))))

    targets, path_kinds = type_annotation_tables(cr, fns)

    # ConstantValue and Module
    consts_src = strip_comments(open(os.path.join(REPO, "duke/src/class_constants.rs")).read())
    cv_rows = constant_value_table(cr, pool_src, consts_src)
    struct_fields = {}
    for sm in re.finditer(r"pub struct (\w+) \{", module_src):
        sb = module_src.index("{", sm.end() - 1)
        struct_fields[sm.group(1)] = dict(re.findall(r"(?:pub(?:\(crate\))? )?(\w+): ([\w<>]+),", module_src[sb:match_close(module_src, sb)]))
    msecs = module_sections(cr, fns, KIND, flag_mask, struct_fields)

    L = ["(* GENERATED by translate/c17_values.py from duke/src/class_reader.rs and class_reader/pool.rs — do not edit. *)",
         "From FB Require Import C17.Values C17.Values2.", "",
         "(* element_value: tag -> (tag of the pool entry the accessor demands, narrowing: 0 none, 1 low 8 bits, 2 low 16 bits, 3 != 0, 4 Utf8) *)",
         "Definition xtable_gen : xtable := mkXT",
         "  [%s]" % "; ".join("(%d, (%d, %d))" % (t, accessors[a][0], accessors[a][1]) for t, a, v in c1),
         "  %d %d %d %d %d." % (s1["enum"], s1["class"], s1["annot"], s1["array"], depth),
         "(* " + "; ".join("%s=%s/%s" % (chr(t), a, v) for t, a, v in c1) + " *)", "",
         "(* attributes that are read by read_annotations_attribute *)",
         "Definition annotation_attrs_gen : list str := [%s; %s]." % (gstr("RuntimeVisibleAnnotations"), gstr("RuntimeInvisibleAnnotations")),
         "(* the attribute read as one unnamed element_value at nesting 0 *)",
         "Definition element_attr_gen : str := %s." % gstr("AnnotationDefault"),
         "(* attributes whose body is one u16 index of a Utf8 entry that is handed over as a string *)",
         "Definition index_attrs_gen : list str := [%s]." % "; ".join(gstr(a) for a in idx_attrs),
         "(* attributes that are rows of pool indices (CIdx / COpt: kind of the pool entry, 7 Class, 1 Utf8, 20 Package, 12 NameAndType) and",
         "   flags (CFlags: the bits the tree type's From<u16> keeps); LVec true / false: preceded by a u16 / u8 count *)",
         "Definition layouts_gen : list (str * layout) := [",
         ";\n".join("  (%s, %s)  (* %s *)" % (gstr(n), lay, n) for n, lay in layouts).replace("(* %s *);" % "", ""),
         "].",
         "(* attributes that are read by read_type_annotations_attribute / read_type_annotations_attribute_code *)",
         "Definition type_annotation_attrs_gen : list str := [%s; %s]." % (gstr("RuntimeVisibleTypeAnnotations"), gstr("RuntimeInvisibleTypeAnnotations")),
         "(* target_info per location (0 class: impl TargetInfoRead for TargetInfoClass, 1 field: …Field, 2 method: …Method, 3 Code:",
         "   read_type_reference_code, 4 record component: …Field — the target info type each visitor trait demands): target_type -> the",
         "   fields its arm reads, in order *)",
         "Definition targets_gen : list (N * ttable) := [",
         ";\n".join("  (%d, [%s])  (* %s *)" % (loc, "; ".join("(%d, [%s])" % (t, "; ".join(fs)) for t, fs, _ in arms),
                                               what + ": " + ", ".join("0x%02x %s" % (t, v) for t, _, v in arms))
                    for loc, what, arms in targets).replace(" *);", " *)\n  ;").replace("\n  ;\n", ";\n"),
         "].",
         "(* read_type_path: type_path_kind -> does the entry carry an index (otherwise type_argument_index must be 0) *)",
         "Definition path_kinds_gen : list (N * bool) := [%s]." % "; ".join("(%d, %s)" % (k, "true" if b else "false") for k, b in path_kinds),
         "Definition vnames_gen : vnames := mkVN annotation_attrs_gen element_attr_gen index_attrs_gen layouts_gen",
         "  type_annotation_attrs_gen (mkTY targets_gen path_kinds_gen).", "",
         "(* ConstantValue (`pool.get_constant_value`, the arms of `as_constant_value`): tag of the pool entry -> handed over as a string",
         "   (through string_index) / as the bits of the number; any other entry is refused *)",
         "Definition constant_value_gen : cvtable := [%s]." % "; ".join("(%d, %s)" % (t, "true" if st else "false") for t, st, _ in cv_rows),
         "(* " + "; ".join("%d=%s" % (t, v) for t, _, v in cv_rows) + " *)",
         "(* Module (`read_module`): the leading fields, then the vectors in source order; columns as in layouts_gen (19 = Module entry);",
         "   Some c: every row ends in a nested vector (u16 count) of indices read by the accessor of c *)",
         "Definition module_secs_gen : list msec := [",
         ";\n".join("  %s  (* %s *)" % (t, c) for t, c in msecs).replace(" *);", " *)\n  ;").replace("\n  ;\n", ";\n"),
         "].",
         "Definition vnames2_gen : vnames2 := mkVN2 %s constant_value_gen %s module_secs_gen." % (gstr("ConstantValue"), gstr("Module")), ""]
    text = "\n".join(L)
    path = os.path.join(COQ, "C17", "ValuesGen.v")
    old = open(path).read() if os.path.exists(path) else None
    if old != text:
        with open(path, "w") as f:
            f.write(text)
    return text


def values_table():
    """Entry point for props/c17.py: returns a list of error strings (empty = ok)."""
    try:
        generate()
        return []
    except Fail as ex:
        return ["c17_values: %s" % ex]
    except (OSError, ValueError, IndexError) as ex:
        return ["c17_values: cannot read the reader's source: %r" % ex]


if __name__ == "__main__":
    errs = values_table()
    for e in errs:
        print("ERROR", e)
    if not errs:
        print(open(os.path.join(COQ, "C17", "ValuesGen.v")).read())
    sys.exit(1 if errs else 0)
