#!/usr/bin/env python3
"""C17 translator, replay half: what the tree builder stores and what `accept()` replays, read from the Rust source.

reads   <REPO>/duke/src/class_reader.rs                   per attribute arm of the five loops: the visit_* call it makes
                                                          (visit_annotations(true), visit_code, ...), the visit call of the
                                                          default arm, the tables delivered after the loop, and which field of
                                                          `Lv` the LocalVariableTable / LocalVariableTypeTable arms set to Some
        <REPO>/duke/src/visitor/implementations/tree.rs   `impl XVisitor for X`: every fn -> the tree field it stores into and
                                                          how (insert_if_empty / assignment / extend / push)
        <REPO>/duke/src/tree/class.rs field.rs method.rs method/code.rs record.rs
                                                          `fn accept`: its statements in order, each with interest flag,
                                                          emptiness guard, tree field and visit call; what a Break / a
                                                          declined visit_code() does
writes  <COQ>/C17/AcceptTable.v                           data over the types at the end of C17/Syntax.v

Fails closed: the body of every accept() must be consumed completely by the statement shapes listed in
`STEP_SHAPES` (whitespace-normalised, comments stripped), every fn of the five tree-builder impls must have one of
the bodies listed in `classify_builder_fn`, every parsing arm of the reader must make exactly one visit call.
Anything else is an error string and the check reports a broken tie.
"""
import os
import re
import sys

_HERE = os.path.dirname(os.path.abspath(__file__))
sys.path.insert(0, _HERE)
import c17_attr_table as A
from c17_attr_table import Fail, strip_comments, norm, match_close, functions, split_arms, gstr, gstr_plain

REPO, COQ = A.REPO, A.COQ

# (reader fn, coq name, reader visitor variable, tree file, accept visitor variable, impl header in tree.rs)
LEVELS = [
    ("read", "class", "class_visitor", "tree/class.rs", "class_visitor", "impl ClassVisitor for ClassFile"),
    ("read_field", "field", "field_visitor", "tree/field.rs", "field_visitor", "impl FieldVisitor for Field"),
    ("read_method", "method", "method_visitor", "tree/method.rs", "method_visitor", "impl MethodVisitor for Method"),
    ("read_code", "code", "code_visitor", "tree/method/code.rs", "code_visitor", "impl CodeVisitor for Code"),
    ("read_record_component", "rc", "record_component_visitor", "tree/record.rs", "record_component_visitor", "impl RecordComponentVisitor for RecordComponent"),
]

ID = r"[a-z_][a-z0-9_]*"


# ------------------------------------------------------------------ reader: visit call per arm
def visit_calls(body, vis):
    """the distinct visit_* calls on `vis` in an arm body, as the source writes them (literal bool argument kept)"""
    calls = []
    for m in re.finditer(r"\b%s\.(visit_\w+)\(([^()]*)\)" % re.escape(vis), body):
        arg = m.group(2).strip()
        cid = m.group(1) + ("(%s)" % arg if arg in ("true", "false") else "")
        if cid not in calls:
            calls.append(cid)
    return calls


def reader_tables(fns, consts):
    out = {}
    lv_kinds = []
    for fn, cname, vis, _tf, _av, _impl in LEVELS:
        body = fns[fn]
        k = body.index("match attribute_name.as_java_str()")
        b = body.index("{", k)
        e = match_close(body, b)
        visits, unknown = [], None
        for pattern, abody in split_arms(body[b + 1:e]):
            m = A.PAT_NAME.match(pattern)
            if m:
                if m.group(3) is not None:
                    continue  # the `&& !interests.x => skip` arm
                name = consts[m.group(1)]
                act = A.classify(abody, vis)
                if act.startswith("ARecord"):
                    rb = norm(fns["read_record_component"])
                    if not re.search(r"match class_visitor\.visit_record_component\(name, descriptor\)\? \{", rb) or \
                            "ClassVisitor::finish_record_component(visitor, record_component_visitor)" not in rb:
                        raise Fail("read_record_component: visit_record_component / finish_record_component shape changed")
                    visits.append((name, "visit_record_component"))
                    continue
                calls = visit_calls(abody, vis)
                if act in ("ASkip", "AFlag 0", "AFlag 1") or act.startswith("AParse (DStore"):
                    if calls:
                        raise Fail("fn %s, attribute %s: classified %s but makes a visit call %r" % (fn, name, act, calls))
                    if act.startswith("AParse (DStore") and cname == "code" and "table.push(Lv {" in abody:
                        somes = re.findall(r"\b(descriptor|signature): Some\(", abody)
                        nones = re.findall(r"\b(descriptor|signature): None\b", abody)
                        if len(somes) != 1 or len(nones) != 1 or somes[0] == nones[0]:
                            raise Fail("fn read_code, attribute %s: rows must set exactly one of Lv.descriptor / Lv.signature to Some" % name)
                        lv_kinds.append((name, somes[0]))
                    continue
                if len(calls) != 1:
                    raise Fail("fn %s, attribute %s: expected exactly one visit call in the arm, found %r" % (fn, name, calls))
                visits.append((name, calls[0]))
            else:
                m = A.PAT_ANY.match(pattern)
                if not m:
                    raise Fail("fn %s: arm pattern of unknown form: %s" % (fn, pattern))
                if m.group(2) is not None:
                    continue
                calls = visit_calls(abody, vis)
                if calls != ["visit_unknown_attribute"]:
                    raise Fail("fn %s: the default arm must call visit_unknown_attribute only, found %r" % (fn, calls))
                unknown = calls[0]
        if unknown is None:
            raise Fail("fn %s: no default arm" % fn)
        deferred = [(d[0], d[1]) for d in A.deferred_deliveries(norm(body), vis, None, fn)]
        out[cname] = (visits, unknown, deferred)
    return out, lv_kinds


# ------------------------------------------------------------------ tree builder
def impl_fns(src, header):
    m = re.search(re.escape(header) + r" \{", src)
    if not m:
        raise Fail("tree.rs: no `%s`" % header)
    b = src.index("{", m.start())
    e = match_close(src, b)
    body = src[b + 1:e]
    fns = {}
    for fm in re.finditer(r"\bfn (\w+)", body):
        k = body.index("(", fm.end())
        k = match_close(body, k, "(", ")") + 1
        bb = body.index("{", k)
        ee = match_close(body, bb)
        if fm.start() < 0:
            continue
        # skip fns nested in another fn body (none expected)
        fns[fm.group(1)] = norm(body[bb + 1:ee])
    return fns


TODO_FNS = {"visit_annotable_parameter_count", "visit_parameter_annotation"}


def classify_builder(fns, header, kid_types):
    """-> (rows [(visit, field, mode)], flags_row, full:bool, max_both:bool|None)"""
    rows = []
    full = True
    max_both = None
    done = set()

    def take(name):
        done.add(name)
        return fns[name]

    for name in list(fns):
        if name in done:
            continue
        body = fns[name]
        if name == "interests":
            if not re.fullmatch(r"\w+Interests::all\(\)", body):
                full = False
            done.add(name)
            continue
        if name in TODO_FNS:
            if body != "todo!()":
                raise Fail("%s: fn %s is no longer todo!()" % (header, name))
            done.add(name)
            continue
        if name == "visit_deprecated_and_synthetic_attribute":
            if body != "self.has_deprecated_attribute = deprecated; self.has_synthetic_attribute = synthetic; Ok(())":
                raise Fail("%s: fn %s: unexpected body: %s" % (header, name, body))
            rows.append((name, "has_deprecated_attribute,has_synthetic_attribute", "MSet"))
            done.add(name)
            continue
        if name == "visit_max_stack_and_max_locals":
            if body == "self.max_stack = Some(max_stack); self.max_locals = Some(max_locals); Ok(())":
                max_both = True
            else:
                raise Fail("%s: fn %s: unexpected body: %s" % (header, name, body))
            rows.append((name, "max_stack,max_locals", "MSet"))
            done.add(name)
            continue
        m = re.fullmatch(r"self\.(%s)\.insert_if_empty\(\w+\)\.context\(\"[^\"]*\"\)(\?; Ok\(\(\)\))?" % ID, body)
        if m and name.startswith("visit_"):
            rows.append((name, m.group(1), "MOnce"))
            done.add(name)
            continue
        m = re.fullmatch(r"self\.(%s)\.push\((\w+|InstructionListEntry \{ label, frame, instruction, \})\); Ok\(\(\)\)" % ID, body)
        if m and name.startswith("visit_"):
            rows.append((name, m.group(1), "MPush"))
            done.add(name)
            continue
        m = re.fullmatch(r"self\.(%s) = (\w+); Ok\(\(\)\)" % ID, body)
        if m and name.startswith("visit_"):
            rows.append((name, m.group(1), "MSet"))
            done.add(name)
            continue
        if name in ("visit_annotations", "visit_type_annotations"):
            if body != "Ok(((self, visible), Vec::new()))":
                raise Fail("%s: fn %s: unexpected body: %s" % (header, name, body))
            fin = "finish_" + name[len("visit_"):]
            if fin not in fns:
                raise Fail("%s: fn %s without %s" % (header, name, fin))
            fb = take(fin)
            m = re.fullmatch(r"if visible \{ this\.(%s)\.extend\((\w+)\); \} else \{ this\.(%s)\.extend\(\2\); \} Ok\(this\)" % (ID, ID), fb)
            if not m:
                raise Fail("%s: fn %s: unexpected body: %s" % (header, fin, fb))
            rows.append((name + "(true)", m.group(1), "MExtend"))
            rows.append((name + "(false)", m.group(3), "MExtend"))
            done.add(name)
            continue
        if name == "visit_annotation_default":
            if body != "Ok((self, Vec::new()))":
                raise Fail("%s: fn %s: unexpected body: %s" % (header, name, body))
            fb = take("finish_annotation_default")
            m = re.fullmatch(r"let \[element_value\]: \[_; 1\] = element_value_visitor\.try_into\(\) \.map_err\(.*\)\?; this\.(%s) = Some\(element_value\); Ok\(this\)" % ID, fb)
            if not m:
                raise Fail("%s: fn finish_annotation_default: unexpected body: %s" % (header, fb))
            rows.append((name, m.group(1), "MSet"))
            done.add(name)
            continue
        if name == "visit_code":
            if body != "Ok(Some(Code::default()))":
                full = False
            fb = take("finish_code")
            m = re.fullmatch(r"self\.(%s)\.insert_if_empty\(code_visitor\)\.context\(\"[^\"]*\"\)" % ID, fb)
            if not m:
                raise Fail("%s: fn finish_code: unexpected body: %s" % (header, fb))
            rows.append((name, m.group(1), "MOnce"))
            done.add(name)
            continue
        if name in kid_types:
            ty, args = kid_types[name]
            if body != "Ok(ControlFlow::Continue((self, %s::new(%s))))" % (ty, args):
                full = False
                raise Fail("%s: fn %s: the tree builder does not simply continue with a new %s: %s" % (header, name, ty, body))
            fin = "finish_" + name[len("visit_"):]
            fb = take(fin)
            m = re.fullmatch(r"this\.(%s)\.push\(\w+\); Ok\(this\)" % ID, fb)
            if not m:
                raise Fail("%s: fn %s: unexpected body: %s" % (header, fin, fb))
            rows.append((name, m.group(1), "MPush"))
            done.add(name)
            continue
        if name.startswith("finish_"):
            continue  # consumed together with its visit_ (checked below)
        raise Fail("%s: fn %s has a body the translator does not know: %s" % (header, name, body[:200]))
    left = [n for n in fns if n not in done]
    if left:
        raise Fail("%s: fns not accounted for: %r" % (header, left))
    return rows, full, max_both


# ------------------------------------------------------------------ accept()
def step_shapes(v, finish_owner):
    """regex -> builder of the Coq step; tried in order at the current position of the normalised body"""
    V = re.escape(v)
    return [
        (r"%s\.visit_deprecated_and_synthetic_attribute\(self\.has_deprecated_attribute, self\.has_synthetic_attribute\)\?; " % V,
         lambda m: ("SFlags",)),
        (r"if interests\.(%s) \{ if let Some\((%s)\) = self\.(%s) \{ %s\.(visit_\w+)\(\2\)\?; \} \} " % (ID, ID, ID, V),
         lambda m: ("SOpt", m.group(1), m.group(3), m.group(4))),
        (r"if interests\.(%s) \{ if let Some\((%s)\) = self\.(%s) \{ let \(visitor, x\) = %s\.(visit_annotation_default)\(\)\?; let x = \2\.accept\(x\)\?; %s = %s::finish_annotation_default\(visitor, x\)\?; \} \} " % (ID, ID, ID, V, V, finish_owner),
         lambda m: ("SOpt", m.group(1), m.group(3), m.group(4))),
        (r"if interests\.(%s) && !self\.(%s)\.is_empty\(\) \{ let \(visitor, mut (\w+)\) = %s\.(visit_\w+)\((true|false)\)\?; for annotation in self\.\2 \{ \3 = annotation\.accept\(\3\)\?; \} %s = %s::finish_(\w+)\(visitor, \3\)\?; \} " % (ID, ID, V, V, finish_owner),
         lambda m: ("SVec", m.group(1), m.group(2), "%s(%s)" % (m.group(4), m.group(5))) if m.group(4) == "visit_" + m.group(6) else None),
        (r"if interests\.(%s) \{ for attribute in self\.(%s) \{ if let Some\(attribute\) = UnknownAttributeVisitor::from_attribute\(attribute\)\? \{ %s\.(visit_unknown_attribute)\(attribute\)\?; \} \} \} " % (ID, ID, V),
         lambda m: ("SUnknown", m.group(1), m.group(2), m.group(3))),
        (r"if interests\.(%s) \{ if let Some\(code\) = self\.(%s) \{ %s = code\.accept\(%s\)\?; \} \} " % (ID, ID, V, V),
         lambda m: ("SCode", m.group(1), m.group(2), "visit_code")),
        (r"if interests\.(%s) \{ for record_component in self\.(%s) \{ %s = record_component\.accept\(%s\)\?; \} \} " % (ID, ID, V, V),
         lambda m: ("SRecord", m.group(1), m.group(2), "visit_record_component")),
        (r"if interests\.(%s) \{ for (field|method) in self\.(%s) \{ %s = \2\.accept\(%s\)\?; \} \} " % (ID, ID, V, V),
         lambda m: ("SMembers", m.group(1), m.group(3), "visit_" + m.group(2), m.group(2) == "method")),
        (r"if let \(Some\(max_stack\), Some\(max_locals\)\) = \(self\.max_stack, self\.max_locals\) \{ %s\.visit_max_stack_and_max_locals\(max_stack, max_locals\)\?; \} " % V,
         lambda m: ("SMax",)),
        (r"for instruction in self\.instructions \{ let frame = if interests\.(%s) \{ instruction\.frame \} else \{ None \}; %s\.visit_instruction\(instruction\.label, frame, instruction\.instruction\)\?; \} " % (ID, V),
         lambda m: ("SInsns", m.group(1))),
        (r"%s\.visit_exception_table\(self\.exception_table\)\?; " % V,
         lambda m: ("SExc",)),
        (r"if let Some\(last_label\) = self\.last_label \{ %s\.visit_last_label\(last_label\)\?; \} " % V,
         lambda m: ("SLast",)),
        (r"if interests\.(%s) \|\| interests\.(%s) \{ if let Some\((%s)\) = self\.(%s) \{ let \3: Vec<_> = \3\.into_iter\(\) \.filter\(\|lv\| \(lv\.(%s)\.is_some\(\) && interests\.(%s)\) \|\| \(lv\.(%s)\.is_some\(\) && interests\.(%s)\)\) \.collect\(\); if !\3\.is_empty\(\) \|\| \(interests\.(%s) && interests\.(%s)\) \{ %s\.(visit_\w+)\(\3\)\?; \} \} \} " % (ID, ID, ID, ID, ID, ID, ID, ID, ID, ID, V),
         lambda m: ("SLocals", [m.group(1), m.group(2)], m.group(4), m.group(11), [(m.group(5), m.group(6)), (m.group(7), m.group(8))], [m.group(9), m.group(10)])),
    ]


MEMBER_WRAP = {  # level -> (visit call with its arguments, finish call)
    "class": (r"match visitor\.visit_class\(self\.version, self\.access, self\.name, self\.super_class, self\.interfaces\)\? \{ ControlFlow::Continue\(\(visitor, mut class_visitor\)\) => \{ let interests = class_visitor\.interests\(\); ",
              r"MultiClassVisitor::finish_class\(visitor, class_visitor\) \} ControlFlow::Break\(visitor\) => Ok\(visitor\),? \}"),
    "field": (r"match visitor\.visit_field\(self\.access, self\.name, self\.descriptor\)\? \{ ControlFlow::Continue\(\(visitor, mut field_visitor\)\) => \{ let interests = field_visitor\.interests\(\); ",
              r"ClassVisitor::finish_field\(visitor, field_visitor\) \} ControlFlow::Break\(visitor\) => Ok\(visitor\),? \}"),
    "method": (r"match visitor\.visit_method\(self\.access, self\.name, self\.descriptor\)\? \{ ControlFlow::Continue\(\(visitor, mut method_visitor\)\) => \{ let interests = method_visitor\.interests\(\); ",
               r"ClassVisitor::finish_method\(visitor, method_visitor\) \} ControlFlow::Break\(visitor\) => Ok\(visitor\),? \}"),
    "rc": (r"match visitor\.visit_record_component\(self\.name, self\.descriptor\)\? \{ ControlFlow::Continue\(\(visitor, mut record_component_visitor\)\) => \{ let interests = record_component_visitor\.interests\(\); ",
           r"ClassVisitor::finish_record_component\(visitor, record_component_visitor\) \} ControlFlow::Break\(visitor\) => Ok\(visitor\),? \}"),
    "code": (r"if let Some\(mut code_visitor\) = visitor\.visit_code\(\)\? \{ let interests = code_visitor\.interests\(\); ",
             r"visitor\.finish_code\(code_visitor\)\?; \} Ok\(visitor\)"),
}
FINISH_OWNER = {"class": "ClassVisitor", "field": "FieldVisitor", "method": "MethodVisitor", "code": "CodeVisitor", "rc": "RecordComponentVisitor"}


def accept_body(path):
    src = strip_comments(open(path, encoding="utf-8").read())
    ms = list(re.finditer(r"\bfn accept\b", src))
    if len(ms) != 1:
        raise Fail("%s: %d `fn accept`, expected 1" % (path, len(ms)))
    k = src.index("(", ms[0].end())
    k = match_close(src, k, "(", ")") + 1
    b = src.index("{", k)
    e = match_close(src, b)
    return norm(src[b + 1:e])


def accept_steps(level, vis, path):
    body = accept_body(path) + " "
    head, tail = MEMBER_WRAP[level]
    m = re.match(head, body)
    if not m:
        raise Fail("%s: accept() does not start as expected: %s" % (path, body[:160]))
    pos = m.end()
    shapes = [(re.compile(rx), mk) for rx, mk in step_shapes(vis, FINISH_OWNER[level])]
    steps = []
    while True:
        tm = re.match(tail + r"\s*$", body[pos:])
        if tm:
            break
        for rx, mk in shapes:
            sm = rx.match(body, pos)
            if sm:
                st = mk(sm)
                if st is None:
                    continue
                steps.append(st)
                pos = sm.end()
                break
        else:
            raise Fail("%s: accept(): statement of unknown shape at: %s" % (path, body[pos:pos + 220]))
    return steps


# ------------------------------------------------------------------ printing
def g_step(st):
    k = st[0]
    if k in ("SFlags", "SMax", "SExc", "SLast"):
        return k
    if k == "SInsns":
        return "SInsns %s" % gstr(st[1])
    if k in ("SOpt", "SVec", "SUnknown", "SCode", "SRecord"):
        return "%s %s %s %s" % (k, gstr(st[1]), gstr(st[2]), gstr(st[3]))
    if k == "SMembers":
        return "SMembers %s %s %s %s" % (gstr(st[1]), gstr(st[2]), gstr(st[3]), "true" if st[4] else "false")
    if k == "SLocals":
        return "SLocals [%s] %s %s [%s] [%s]" % ("; ".join(gstr(f) for f in st[1]), gstr(st[2]), gstr(st[3]),
                                                 "; ".join("(%s, %s)" % (gstr(a), gstr(b)) for a, b in st[4]),
                                                 "; ".join(gstr(f) for f in st[5]))
    raise Fail("internal: step %r" % (st,))


def generate():
    duke = os.path.join(REPO, "duke", "src")
    rsrc = strip_comments(open(os.path.join(duke, "class_reader.rs"), encoding="utf-8").read())
    consts = A.attribute_constants(strip_comments(open(os.path.join(duke, "class_constants.rs"), encoding="utf-8").read()))
    rfns = functions(rsrc)
    for fn, *_ in LEVELS:
        if fn not in rfns or rfns[fn].count("match attribute_name.as_java_str()") != 1:
            raise Fail("class_reader.rs: fn %s with one attribute loop expected" % fn)
    rtab, lv_kinds = reader_tables(rfns, consts)

    tsrc = strip_comments(open(os.path.join(duke, "visitor", "implementations", "tree.rs"), encoding="utf-8").read())
    kid_types = {
        "class": {"visit_record_component": ("RecordComponent", "name, descriptor"), "visit_field": ("Field", "access, name, descriptor"),
                  "visit_method": ("Method", "access, name, descriptor")},
    }
    out = []
    out.append("(* GENERATED by translate/c17_accept_table.py from duke/src/class_reader.rs, visitor/implementations/tree.rs and")
    out.append("   tree/{class,field,method,method/code,record}.rs — do not edit; regenerated at the start of every ./check C17. *)")
    out.append("From FB Require Import C17.Syntax.")
    out.append("")
    full_all, max_both_all = True, None
    summary = {}
    for fn, cname, rvis, tfile, avis, header in LEVELS:
        visits, unknown, deferred = rtab[cname]
        bfns = impl_fns(tsrc, header)
        rows, full, max_both = classify_builder(bfns, header, kid_types.get(cname, {}))
        full_all = full_all and full
        if cname == "code":
            max_both_all = max_both
        steps = accept_steps(cname, avis, os.path.join(duke, tfile))
        out.append("Definition %s_accept : accept_ctx := mkACtx" % cname)
        out.append("  [%s]" % ";\n   ".join("(%s, %s)" % (gstr(n), gstr(v)) for n, v in visits))
        out.append("  %s" % gstr(unknown))
        out.append("  [%s]" % "; ".join("(%s, %s)" % (gstr(s), gstr(v)) for s, v in deferred))
        out.append("  [%s]" % ";\n   ".join("mkB %s %s %s" % (gstr(v), gstr(f), mode) for v, f, mode in rows))
        out.append("  [%s]." % ";\n   ".join(g_step(s) for s in steps))
        out.append("")
        summary[cname] = (len(visits), len(rows), len(steps))
    # the MultiClassVisitor impls of the tree builder continue for every class
    for hdr in ("impl MultiClassVisitor for Option<ClassFile>", "impl MultiClassVisitor for Vec<ClassFile>"):
        f = impl_fns(tsrc, hdr)
        if "Ok(ControlFlow::Continue((" not in f.get("visit_class", "") or "ControlFlow::Break" in f.get("visit_class", ""):
            full_all = False
    out.append("Definition accept_tables_gen : accept_tables := mkATables class_accept field_accept method_accept code_accept rc_accept")
    out.append("  [%s]" % "; ".join("(%s, %s)" % (gstr(n), gstr(k)) for n, k in lv_kinds))
    out.append("  %s %s true." % ("true" if full_all else "false", "true" if max_both_all else "false"))
    text = "\n".join(out) + "\n"
    path = os.path.join(COQ, "C17", "AcceptTable.v")
    os.makedirs(os.path.dirname(path), exist_ok=True)
    old = open(path).read() if os.path.exists(path) else None
    if old != text:
        with open(path, "w") as f:
            f.write(text)
    return summary


def accept_table():
    """Entry point for props/c17.py: returns a list of error strings (empty = ok)."""
    try:
        generate()
        return []
    except Fail as ex:
        return ["c17_accept_table: %s" % ex]
    except (OSError, ValueError, IndexError, KeyError) as ex:
        return ["c17_accept_table: cannot read the source: %r" % ex]


if __name__ == "__main__":
    errs = accept_table()
    for e in errs:
        print("ERROR", e)
    if not errs:
        print(open(os.path.join(COQ, "C17", "AcceptTable.v")).read())
    sys.exit(1 if errs else 0)
