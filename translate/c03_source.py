#!/usr/bin/env python3
"""C03 translator: the tables of the Tiny v2 writer/reader that are data in the source.

reads   <repo>/quill/src/tree/mappings.rs   (the *Mapping structs the writer sorts by)
        <repo>/quill/src/tree/mod.rs        (Names)
        <repo>/quill/src/tiny_v2.rs         (sort keys of `write`, ESCAPES, header literals)
writes  <coq>/C03/SrcGen.v

What is extracted
  * for ClassMapping, FieldMapping, MethodMapping, ParameterMapping: that `PartialOrd` and `Ord`
    are DERIVED (no hand-written impl anywhere in the two tree files) and the declaration order of
    the fields — the derived order is lexicographic in that order;
  * for Names: derived Ord over the single field `names: [Option<T>; N]`;
  * that the `info` field of Class/Field/Method/ParameterNowodeMapping has that struct type;
  * in `pub fn write`: every `for x in <v>` loop over children iterates a Vec that was collected
    from `<owner>.<map>.values()` and sorted by `<v>.sort_by_key(|x| &x.info)` directly before;
    any other loop over a map of children, any other sort call or key is an error;
  * the ESCAPES table (pairs of char literals) and that `escape`/`unescape` look characters up in it;
  * the header literals compared by `read` and written by `write`;
  * (round 5) that `write` calls `check_fields(mappings)` before anything is written, the characters
    `check_field` refuses (contains / ends_with), and the exact shape of check_desc / check_names / check_fields.
Fails closed: anything not of the expected shape is an error of the check, never guessed at.
"""
import os
import re
import sys

sys.path.insert(0, os.path.join(os.path.dirname(os.path.dirname(os.path.abspath(__file__))), "lib"))
import vcheck


def strip_comments(src):
    src = re.sub(r"/\*.*?\*/", "", src, flags=re.S)
    return "\n".join(re.sub(r"//.*$", "", l) for l in src.split("\n"))


CHAR_ESC = {"\\\\": "\\", "\\n": "\n", "\\r": "\r", "\\t": "\t", "\\'": "'", "\\0": "\0"}


def char_lit(tok):
    """'x' or '\\n' -> code point, None if not a plain char literal"""
    m = re.fullmatch(r"'((?:\\.)|[^'\\])'", tok.strip())
    if not m:
        return None
    body = m.group(1)
    if body.startswith("\\"):
        return ord(CHAR_ESC[body]) if body in CHAR_ESC else None
    return ord(body)


def fn_body(src, name):
    """text of the body of `fn name` (brace matching; the sources have no braces in strings other than `{}` pairs)"""
    m = re.search(r"\bfn\s+" + re.escape(name) + r"\b[^{;]*\{", src)
    if not m:
        return None
    i = m.end()
    depth = 1
    while i < len(src) and depth:
        if src[i] == "{":
            depth += 1
        elif src[i] == "}":
            depth -= 1
        i += 1
    return src[m.end():i - 1] if depth == 0 else None


FIELD_CONS = {"names": "OF_names", "desc": "OF_desc", "index": "OF_index"}
STRUCTS = [("ClassMapping", "ord_class", {"names"}), ("FieldMapping", "ord_field", {"desc", "names"}),
           ("MethodMapping", "ord_meth", {"desc", "names"}), ("ParameterMapping", "ord_param", {"index", "names"})]
NODES = [("ClassNowodeMapping", "ClassMapping"), ("FieldNowodeMapping", "FieldMapping"),
         ("MethodNowodeMapping", "MethodMapping"), ("ParameterNowodeMapping", "ParameterMapping")]
# loop variable -> (owner expression, map field, Coq name)
LOOPS = [("classes", r"mappings\s*\.\s*classes", "sort_key_classes"), ("fields", r"class\s*\.\s*fields", "sort_key_fields"),
         ("methods", r"class\s*\.\s*methods", "sort_key_methods"), ("parameters", r"method\s*\.\s*parameters", "sort_key_parameters")]


def translate():
    errs = []
    q = os.path.join(vcheck.REPO, "quill", "src")
    try:
        maps = strip_comments(open(os.path.join(q, "tree", "mappings.rs"), encoding="utf-8").read())
        tmod = strip_comments(open(os.path.join(q, "tree", "mod.rs"), encoding="utf-8").read())
        tiny = strip_comments(open(os.path.join(q, "tiny_v2.rs"), encoding="utf-8").read())
    except OSError as ex:
        return ["cannot read the quill sources: %s" % ex]

    # ---- derived Ord of the info structs ----
    orders = {}
    for name, coq, allowed in STRUCTS:
        ms = re.findall(r"#\[derive\(([^)]*)\)\]\s*pub\s+struct\s+" + name + r"\s*<[^>]*>\s*\{([^}]*)\}", maps)
        if len(ms) != 1:
            errs.append("mappings.rs: expected exactly one `#[derive(..)] pub struct %s<..> {..}`, found %d" % (name, len(ms)))
            continue
        derives = [d.strip() for d in ms[0][0].split(",")]
        for need in ("PartialOrd", "Ord", "PartialEq", "Eq"):
            if need not in derives:
                errs.append("mappings.rs: %s does not derive %s (derives: %s)" % (name, need, ", ".join(derives)))
        fields = re.findall(r"pub\s+(\w+)\s*:", ms[0][1])
        flat = ms[0][1]
        while re.search(r"<[^<>]*>", flat):
            flat = re.sub(r"<[^<>]*>", "", flat)
        n_decl = len([x for x in flat.split(",") if x.strip()])
        if len(fields) != n_decl:
            errs.append("mappings.rs: %s has a field declaration the translator cannot read: %r" % (name, ms[0][1].strip()))
        if set(fields) != allowed or len(fields) != len(set(fields)):
            errs.append("mappings.rs: %s is expected to have the fields %s, found %s" % (name, sorted(allowed), fields))
        orders[coq] = fields
    for src, fname in ((maps, "mappings.rs"), (tmod, "mod.rs")):
        for m in re.finditer(r"impl\b[^{;]*\b(PartialOrd|Ord)\b[^{;]*\bfor\s+(\w+)", src):
            errs.append("%s: hand-written `impl %s for %s` — the order of the info structs is expected to be derived" % (fname, m.group(1), m.group(2)))
    ms = re.findall(r"#\[derive\(([^)]*)\)\]\s*pub\s+struct\s+Names\s*<[^>]*>\s*\{([^}]*)\}", tmod)
    if len(ms) != 1:
        errs.append("tree/mod.rs: expected exactly one derived `pub struct Names<..> {..}`, found %d" % len(ms))
    else:
        derives = [d.strip() for d in ms[0][0].split(",")]
        if "PartialOrd" not in derives or "Ord" not in derives:
            errs.append("tree/mod.rs: Names does not derive PartialOrd and Ord")
        if not re.fullmatch(r"\s*names\s*:\s*\[\s*Option\s*<\s*T\s*>\s*;\s*N\s*\]\s*,?\s*", ms[0][1]):
            errs.append("tree/mod.rs: Names is expected to be `{ names: [Option<T>; N] }`, found %r" % ms[0][1].strip())
    for node, info in NODES:
        ms = re.findall(r"pub\s+struct\s+" + node + r"\s*<[^>]*>\s*\{([^}]*)\}", maps)
        if len(ms) != 1 or not re.search(r"pub\s+info\s*:\s*" + info + r"\s*<\s*N\s*>", ms[0] if ms else ""):
            errs.append("mappings.rs: %s is expected to have `pub info: %s<N>`" % (node, info))

    # ---- the sort keys of write ----
    body = fn_body(tiny, "write")
    keys = {}
    if body is None:
        errs.append("tiny_v2.rs: cannot find the body of `pub fn write`")
    else:
        loops = re.findall(r"\bfor\s+(\w+)\s+in\s+([^{]+?)\s*\{", body)
        want = {"classes": "class", "fields": "field", "methods": "method", "parameters": "parameter"}
        seen = []
        for var, expr in loops:
            expr = expr.strip()
            if expr not in want or want[expr] != var:
                errs.append("tiny_v2.rs write: unexpected loop `for %s in %s` (children are expected to be written from the sorted Vecs classes/fields/methods/parameters)" % (var, expr))
            else:
                seen.append(expr)
        if sorted(seen) != sorted(want):
            errs.append("tiny_v2.rs write: expected one loop over each of classes, fields, methods, parameters; found %s" % seen)
        for vec, owner, coq in LOOPS:
            pat = (r"let\s+mut\s+" + vec + r"\s*:\s*Vec\s*<\s*_\s*>\s*=\s*" + owner + r"\s*\.\s*values\s*\(\s*\)\s*\.\s*collect\s*\(\s*\)\s*;\s*"
                   + vec + r"\s*\.\s*(\w+)\s*\(\s*\|\s*x\s*\|\s*([^)]*?)\s*\)\s*;\s*for\s+\w+\s+in\s+" + vec + r"\b")
            ms = re.findall(pat, body)
            if len(ms) != 1:
                errs.append("tiny_v2.rs write: expected `let mut %s: Vec<_> = ….values().collect(); %s.sort_by_key(|x| &x.info); for … in %s` exactly once, found %d" % (vec, vec, vec, len(ms)))
                continue
            meth, key = ms[0]
            if meth not in ("sort_by_key", "sort_by_cached_key"):
                errs.append("tiny_v2.rs write: %s is sorted with `%s`, expected sort_by_key" % (vec, meth))
            if re.sub(r"\s+", "", key) != "&x.info":
                errs.append("tiny_v2.rs write: %s is sorted by the key `%s`, expected `&x.info`" % (vec, key))
            keys[coq] = "SK_info"
        n_sorts = len(re.findall(r"\.\s*sort\w*\s*\(", body))
        if n_sorts != 4:
            errs.append("tiny_v2.rs write: expected exactly four sort calls, found %d" % n_sorts)
        if re.search(r"\.\s*(keys|iter|values_mut|into_iter|iter_mut)\s*\(", body):
            errs.append("tiny_v2.rs write: a map of children is traversed in a way other than `.values().collect()` followed by a sort")
        hdr = re.findall(r'write!\s*\(\s*w\s*,\s*"((?:[^"\\]|\\.)*)"\s*\)\s*\?\s*;\s*write_namespaces', body)
        if len(hdr) != 1 or hdr[0] != "tiny\\t2\\t0":
            errs.append('tiny_v2.rs write: the header is expected to be written as write!(w, "tiny\\t2\\t0") followed by write_namespaces, found %r' % hdr)

    # ---- ESCAPES ----
    esc = []
    ms = re.findall(r"const\s+ESCAPES\s*:\s*\[\s*\(\s*char\s*,\s*char\s*\)\s*;\s*(\d+)\s*\]\s*=\s*\[(.*?)\]\s*;", tiny, flags=re.S)
    if len(ms) != 1:
        errs.append("tiny_v2.rs: expected exactly one `const ESCAPES: [(char, char); n] = [..];`, found %d" % len(ms))
    else:
        pairs = re.findall(r"\(\s*('(?:\\.|[^'\\])')\s*,\s*('(?:\\.|[^'\\])')\s*\)", ms[0][1])
        rest = re.sub(r"\(\s*'(?:\\.|[^'\\])'\s*,\s*'(?:\\.|[^'\\])'\s*\)", "", ms[0][1])
        if rest.replace(",", "").strip() or len(pairs) != int(ms[0][0]):
            errs.append("tiny_v2.rs: cannot read the ESCAPES table: %r" % ms[0][1])
        for a, b in pairs:
            ca, cb = char_lit(a), char_lit(b)
            if ca is None or cb is None:
                errs.append("tiny_v2.rs: unreadable character literal in ESCAPES: (%s, %s)" % (a, b))
            else:
                esc.append((ca, cb))
    eb, ub = fn_body(tiny, "escape"), fn_body(tiny, "unescape")
    if eb is None or not re.search(r"for\s+c\s+in\s+s\s*\.\s*chars\s*\(\s*\)\s*\{\s*if\s+let\s+Some\s*\(\s*&\s*\(\s*_\s*,\s*e\s*\)\s*\)\s*=\s*ESCAPES\s*\.\s*iter\s*\(\s*\)\s*\.\s*find\s*\(\s*\|\s*x\s*\|\s*x\s*\.\s*0\s*==\s*c\s*\)\s*\{\s*out\s*\.\s*push\s*\(\s*'\\\\'\s*\)\s*;\s*out\s*\.\s*push\s*\(\s*e\s*\)\s*;\s*\}\s*else\s*\{\s*out\s*\.\s*push\s*\(\s*c\s*\)\s*;\s*\}\s*\}\s*out\s*$", (eb or "").strip()) \
            or not re.match(r"\s*let\s+mut\s+out\s*=\s*String\s*::\s*with_capacity\s*\(\s*s\s*\.\s*len\s*\(\s*\)\s*\)\s*;\s*for\s+c\b", eb or ""):
        errs.append("tiny_v2.rs: `escape` is no longer the plain loop `for c in s.chars() { if let Some(&(_, e)) = ESCAPES.iter().find(|x| x.0 == c) { push('\\\\'); push(e) } else { push(c) } }`")
    if ub is None or not re.search(r"if\s+c\s*==\s*'\\\\'\s*\{\s*if\s+let\s+Some\s*\(\s*&\s*\(\s*raw\s*,\s*_\s*\)\s*\)\s*=\s*chars\s*\.\s*peek\s*\(\s*\)\s*\.\s*and_then\s*\(\s*\|\s*&\s*e\s*\|\s*ESCAPES\s*\.\s*iter\s*\(\s*\)\s*\.\s*find\s*\(\s*\|\s*x\s*\|\s*x\s*\.\s*1\s*==\s*e\s*\)\s*\)\s*\{\s*chars\s*\.\s*next\s*\(\s*\)\s*;\s*out\s*\.\s*push\s*\(\s*raw\s*\)\s*;\s*continue\s*;\s*\}\s*\}\s*out\s*\.\s*push\s*\(\s*c\s*\)\s*;", ub or ""):
        errs.append("tiny_v2.rs: `unescape` is no longer the loop that replaces a backslash followed by an ESCAPES letter and keeps everything else")

    # ---- the writer's check of every field before anything is written (check_fields) ----
    cf_contains, cf_ends = [], []
    nows = lambda t: re.sub(r"\s+", "", t or "")
    if body is not None:
        first = re.match(r"\s*check_fields\s*\(\s*mappings\s*\)\s*(?:\.\s*context\s*\(\s*\"(?:[^\"\\]|\\.)*\"\s*\)\s*)?\?\s*;", body)
        if not first:
            errs.append("tiny_v2.rs write: expected `check_fields(mappings)…?;` as the first statement (nothing may be written before the fields are checked)")
    cfb = fn_body(tiny, "check_field")
    m = re.fullmatch(r"\s*if\s+(.*?)\s*\{\s*bail!\s*\((?:[^\"]|\"(?:[^\"\\]|\\.)*\")*?\)\s*;\s*\}\s*Ok\s*\(\s*\(\s*\)\s*\)\s*", cfb or "", flags=re.S)
    if not m:
        errs.append("tiny_v2.rs: `check_field` is expected to be `if <field.contains('c') || … || field.ends_with('c')> { bail!(..); } Ok(())`")
    else:
        for term in m.group(1).split("||"):
            t = re.fullmatch(r"\s*field\s*\.\s*(contains|ends_with)\s*\(\s*('(?:\\.|[^'\\])')\s*\)\s*", term)
            c = char_lit(t.group(2)) if t else None
            if c is None:
                errs.append("tiny_v2.rs check_field: unreadable condition %r" % term.strip())
            else:
                (cf_contains if t.group(1) == "contains" else cf_ends).append(c)
    if nows(fn_body(tiny, "check_desc")) != nows('if desc.as_str().is_err() { bail!("cannot write the descriptor {desc:?} as a field of a tiny v2 line: it contains an unpaired surrogate"); } check_field(desc)'):
        errs.append("tiny_v2.rs: `check_desc` is no longer `if desc.as_str().is_err() { bail!(..) } check_field(desc)`")
    if nows(fn_body(tiny, "check_names")) != nows("names.names().iter().flatten().try_for_each(|name| check_field(name.as_ref()))"):
        errs.append("tiny_v2.rs: `check_names` is no longer `names.names().iter().flatten().try_for_each(|name| check_field(name.as_ref()))`")
    want_cf = """for namespace in mappings.info.namespaces.names() { check_field(JavaStr::from_str(namespace))?; }
        for class in mappings.classes.values() { check_names(&class.info.names)?;
            for field in class.fields.values() { check_desc(field.info.desc.as_inner())?; check_names(&field.info.names)?; }
            for method in class.methods.values() { check_desc(method.info.desc.as_inner())?; check_names(&method.info.names)?;
                for parameter in method.parameters.values() { check_names(&parameter.info.names)?; } } }
        Ok(())"""
    if nows(fn_body(tiny, "check_fields")) != nows(want_cf):
        errs.append("tiny_v2.rs: `check_fields` no longer checks every namespace with check_field, every descriptor with check_desc and every names row of classes, fields, methods and parameters with check_names")

    # ---- header literals of read ----
    hm = re.findall(r'header\s*\.\s*first_field\s*!=\s*"([^"\\]*)"\s*\|\|\s*header\s*\.\s*next\s*\(\s*\)\s*\?\s*!=\s*"([^"\\]*)"\s*\|\|\s*header\s*\.\s*next\s*\(\s*\)\s*\?\s*!=\s*"([^"\\]*)"', tiny)
    if len(hm) != 1:
        errs.append("tiny_v2.rs read: expected exactly one header test `first_field != \"..\" || next()? != \"..\" || next()? != \"..\"`, found %d" % len(hm))
    if errs:
        return errs

    def coq_str(s):
        return "[" + "; ".join(str(ord(c)) for c in s) + "]"

    lines = ["(* GENERATED by translate/c03_source.py from quill/src/tree/mappings.rs, quill/src/tree/mod.rs and",
             "   quill/src/tiny_v2.rs — do not edit.  Tables of the Tiny v2 writer/reader that are data in the source. *)",
             "From FB Require Export Base.Str.", "",
             "(* fields of the info structs, in declaration order = order of the derived lexicographic Ord *)",
             "Inductive ofield := OF_names | OF_desc | OF_index.", ""]
    for name, coq, _ in STRUCTS:
        lines.append("Definition %s : list ofield := [%s].   (* %s { %s } *)" % (coq, "; ".join(FIELD_CONS[f] for f in orders[coq]), name, ", ".join(orders[coq])))
    lines += ["", "(* what `write` sorts each level by: sort_by_key(|x| &x.info) *)", "Inductive sortkey := SK_info.", ""]
    for _, _, coq in LOOPS:
        lines.append("Definition %s : sortkey := %s." % (coq, keys[coq]))
    lines += ["", "(* const ESCAPES: (raw character, letter written after the backslash) *)",
              "Definition escapes_src : list (N * N) := [%s]." % "; ".join("(%d, %d)" % p for p in esc), "",
              "(* check_field: a namespace, name or descriptor is refused if it contains one of / ends with one of *)",
              "Definition check_field_contains : list N := [%s]." % "; ".join(str(c) for c in cf_contains),
              "Definition check_field_ends_with : list N := [%s]." % "; ".join(str(c) for c in cf_ends),
              "(* check_desc additionally needs `as_str()` to succeed; `write` calls check_fields before it writes anything *)",
              "Definition check_desc_needs_str : bool := true.",
              "Definition write_checks_first : bool := true.", "",
              "(* header literals compared by `read` *)",
              "Definition hdr_tag : str := %s.   (* \"%s\" *)" % (coq_str(hm[0][0]), hm[0][0]),
              "Definition hdr_major : str := %s.   (* \"%s\" *)" % (coq_str(hm[0][1]), hm[0][1]),
              "Definition hdr_minor : str := %s.   (* \"%s\" *)" % (coq_str(hm[0][2]), hm[0][2]), ""]
    text = "\n".join(lines)
    out = os.path.join(vcheck.COQ, "C03", "SrcGen.v")
    old = open(out, encoding="utf-8").read() if os.path.exists(out) else None
    if old != text:
        os.makedirs(os.path.dirname(out), exist_ok=True)
        with open(out, "w", encoding="utf-8") as f:
            f.write(text)
    return []


translate.__name__ = "c03_source"

if __name__ == "__main__":
    es = translate()
    for e in es:
        print("ERROR:", e)
    sys.exit(1 if es else 0)
