#!/usr/bin/env python3
"""Development aid for translate/c10_consts.py (not part of any check; run by hand:
`python3 translate/c10_mutation_test.py [-v]`, ~1 min, scratch directory /tmp/c10mut).

Applies textual mutations to COPIES of the three source files the translator reads, runs the translator
on each copy, compiles the generated Shapes.v together with the statement and proof script of theorem
retain_shapes (taken from coq/C10/Theory3.v), and prints per mutation whether the translator failed
closed, the theorem still holds, or the theorem broke — next to what is expected:
harmless rewrites (closure parameters / check variable renamed, operands reordered, De Morgan, literal
hoisted into a const) must leave the theorem provable and Consts.v unchanged; the seeded regrouping
(C10-b3), the simple-name prefix test (C10-a3), && for ||, a dropped negation, a changed match arm must
break it; a term the translator does not know, a name test that is no disjunction, another string
predicate must be translator errors."""
import os, re, shutil, subprocess, sys
HERE = os.path.dirname(os.path.abspath(__file__))
sys.path.insert(0, os.path.join(os.path.dirname(HERE), "lib")); sys.path.insert(0, HERE)
import vcheck, c10_consts
BASE = "/tmp/c10mut"
FILES = ["quill/src/action/remove_dummy.rs", "quill/src/action/insert_dummy.rs", "duke/src/tree/method.rs"]
VERIF = os.path.dirname(HERE)
th = open(os.path.join(VERIF, "coq/C10/Theory3.v")).read()
i = th.index("Theorem retain_shapes"); j = th.index("Qed.", i) + 4
stmt = th[i:j]
CONSTS_EXPECT = open(os.path.join(VERIF, "coq/C10/Consts.v")).read()
SRC = vcheck.REPO

def trial(name, muts, expect):
    repo = os.path.join(BASE, "repo"); coq = os.path.join(BASE, "coq")
    shutil.rmtree(repo, ignore_errors=True); shutil.rmtree(coq, ignore_errors=True)
    for f in FILES:
        os.makedirs(os.path.dirname(os.path.join(repo, f)), exist_ok=True)
        shutil.copy(os.path.join(SRC, f), os.path.join(repo, f))
    for f, old, new in muts:
        p = os.path.join(repo, f); s = open(p).read()
        assert old in s, (name, old)
        open(p, "w").write(s.replace(old, new))
    os.makedirs(os.path.join(coq, "C10"))
    vcheck.REPO = repo; vcheck.COQ = coq
    errs = c10_consts.translate()
    res = "translator-error" if errs else None
    if not errs:
        consts_same = open(os.path.join(coq, "C10", "Consts.v")).read() == CONSTS_EXPECT
        open(os.path.join(coq, "C10", "T.v"), "w").write("Require Import Bool List. Import ListNotations. Require Import Shapes.\nLocal Open Scope bool_scope.\n" + stmt + "\n")
        d = os.path.join(coq, "C10")
        r1 = subprocess.run(["coqc", "-Q", ".", "", "Shapes.v"], cwd=d, capture_output=True, text=True)
        r2 = subprocess.run(["coqc", "-Q", ".", "", "T.v"], cwd=d, capture_output=True, text=True)
        ok = r1.returncode == 0 and r2.returncode == 0
        res = ("shapes-theorem-ok" if ok else "shapes-theorem-BROKEN") + ("" if consts_same else " consts-CHANGED")
        if not ok and "-v" in sys.argv: print((r1.stderr + r2.stderr)[-600:])
    flag = "OK " if res.startswith(expect) else "?? "
    print("%s%-42s -> %s%s" % (flag, name, res, ("  " + "; ".join(errs)[:200]) if errs else ""))
    for n in c10_consts.NOTES: print("       note:", n[:160])

RD = FILES[0]; INS = FILES[1]
trial("unchanged", [], "shapes-theorem-ok")
# harmless
trial("rd: rename closure params", [(RD, "self.classes.retain(|_, v| {\n\t\t\tv.fields.retain(|_, v| {", "self.classes.retain(|_k, node| {\n\t\t\tnode.fields.retain(|_, v| {"),
      (RD, "v.methods.retain(|_, v| {", "node.methods.retain(|_, v| {"),
      (RD, "\t\t\tv.javadoc.is_some() ||\n\t\t\t\t!v.fields.is_empty() ||\n\t\t\t\t!v.methods.is_empty() ||\n\t\t\t\t!v.info.names", "\t\t\tnode.javadoc.is_some() ||\n\t\t\t\t!node.fields.is_empty() ||\n\t\t\t\t!node.methods.is_empty() ||\n\t\t\t\t!node.info.names")], "shapes-theorem-ok")
trial("rd: reorder class operands", [(RD, "\t\t\tv.javadoc.is_some() ||\n\t\t\t\t!v.fields.is_empty() ||\n\t\t\t\t!v.methods.is_empty() ||", "\t\t\t!v.methods.is_empty() ||\n\t\t\t\tv.javadoc.is_some() ||\n\t\t\t\t!v.fields.is_empty() ||")], "shapes-theorem-ok")
trial("rd: de morgan on method level", [(RD, "\t\t\t\tv.javadoc.is_some() ||\n\t\t\t\t\t!v.parameters.is_empty() ||\n\t\t\t\t\t!v.info", "\t\t\t\tv.javadoc.is_some() ||\n\t\t\t\t\t!(v.parameters.is_empty() &&\n\t\t\t\t\tv.info"),
      (RD, "\t\t\t\t\t\t\tx == MethodName::CLINIT\n\t\t\t\t\t)", "\t\t\t\t\t\t\tx == MethodName::CLINIT\n\t\t\t\t\t))")], "shapes-theorem-ok")
trial("ins: reorder method tail", [(INS, "\t\t\t\t(\n\t\t\t\t\tvalidator_check && (\n\t\t\t\t\t\tv.info.is_diff() ||\n\t\t\t\t\t\t\tv.javadoc.is_diff()\n\t\t\t\t\t)\n\t\t\t\t)\n\t\t\t\t\t|| !v.parameters.is_empty()", "\t\t\t\t!v.parameters.is_empty() || (validator_check && (v.javadoc.is_diff() || v.info.is_diff()))")], "shapes-theorem-ok")
trial("ins: rename check variable (all)", [(INS, "validator_check", "legal")], "shapes-theorem-ok")
trial("rd: hoist literal", [(RD, 'x.as_inner().starts_with("f_")', 'x.as_inner().starts_with(FIELD_PREFIX)'), (RD, "use anyhow::Result;", 'use anyhow::Result;\nconst FIELD_PREFIX: &str = "f_";')], "shapes-theorem-ok")
# breaking
trial("seed b3: regroup method+class", [(INS, "\t\t\t\t(\n\t\t\t\t\tvalidator_check && (\n\t\t\t\t\t\tv.info.is_diff() ||\n\t\t\t\t\t\t\tv.javadoc.is_diff()\n\t\t\t\t\t)\n\t\t\t\t)\n\t\t\t\t\t|| !v.parameters.is_empty()", "\t\t\t\tvalidator_check && (\n\t\t\t\t\tv.info.is_diff() ||\n\t\t\t\t\t\tv.javadoc.is_diff() ||\n\t\t\t\t\t\t!v.parameters.is_empty()\n\t\t\t\t)")], "shapes-theorem-BROKEN")
trial("seed a3: get_simple_name", [(RD, 'x.as_inner().starts_with("C_") ||\n\t\t\t\t\t\tx.as_inner().starts_with("net/minecraft/unmapped/C_")', 'x.get_simple_name().as_inner().starts_with("C_")')], "shapes-theorem-BROKEN")
trial("rd: && instead of || (class)", [(RD, "\t\t\t\t!v.fields.is_empty() ||\n\t\t\t\t!v.methods.is_empty() ||", "\t\t\t\t!v.fields.is_empty() &&\n\t\t\t\t!v.methods.is_empty() ||")], "shapes-theorem-BROKEN")
trial("rd: dropped negation (field)", [(RD, '\t\t\t\tv.javadoc.is_some() ||\n\t\t\t\t\t!v.info.names[namespace].as_ref().is_some_and(|x| x.as_inner().starts_with("f_"))', '\t\t\t\tv.javadoc.is_some() ||\n\t\t\t\t\tv.info.names[namespace].as_ref().is_some_and(|x| x.as_inner().starts_with("f_"))')], "shapes-theorem-BROKEN")
trial("rd: class tests parameters of nothing (unknown atom)", [(RD, "\t\t\t\t!v.methods.is_empty() ||\n\t\t\t\t!v.info", "\t\t\t\t!v.methods.is_empty() || v.info.names[0].is_none() ||\n\t\t\t\t!v.info")], "translator-error")
trial("ins: Add arm yields true (field)", [(INS, 'eprintln!("ignoring illegal field change {v:?}");\n\t\t\t\t\t\tfalse', 'eprintln!("ignoring illegal field change {v:?}");\n\t\t\t\t\t\ttrue')], "shapes-theorem-BROKEN")
trial("ins: Edit arm also rewritten", [(INS, "\t\t\t\t\tAction::Edit(_, _) => true,\n\t\t\t\t};\n\n\t\t\t\tvalidator_check && (\n\t\t\t\t\tv.info.is_diff() ||\n\t\t\t\t\t\tv.javadoc.as_ref().is_diff()\n\t\t\t\t)\n\t\t\t});\n\t\t\tv.methods", "\t\t\t\t\tAction::Edit(a, _) => { v.info = Action::Edit(a.clone(), k.name.clone()); true },\n\t\t\t\t};\n\n\t\t\t\tvalidator_check && (\n\t\t\t\t\tv.info.is_diff() ||\n\t\t\t\t\t\tv.javadoc.as_ref().is_diff()\n\t\t\t\t)\n\t\t\t});\n\t\t\tv.methods")], "shapes-theorem-BROKEN")
trial("ins: name test conjunction", [(RD, 'x.as_inner().starts_with("m_") ||\n\t\t\t\t\t\t\tx == MethodName::INIT ||', 'x.as_inner().starts_with("m_") &&\n\t\t\t\t\t\t\tx == MethodName::INIT ||')], "translator-error")
trial("rd: ends_with instead of starts_with", [(RD, 'x.as_inner().starts_with("p_")', 'x.as_inner().ends_with("p_")')], "translator-error")
