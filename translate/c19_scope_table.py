#!/usr/bin/env python3
"""C19 translator: regenerates coq/C19/ScopeGen.v from maven_dependency_resolver/src/lib.rs.

Reads, from /repo's working tree:
  * `pub enum DependencyScope { ... }`            -> Inductive scope (variants, the #[default] one)
  * `impl Display for DependencyScope`  match arms -> scope_to_str
  * `impl FromStr for DependencyScope`  match arms -> scope_of_str
  * `fn the_scope_table(a, b) -> Option<DependencyScope> { match (x, y) { arms } }`
                                                   -> the_scope_table (same arms, in the same order,
                                                      as a Coq match: first-match semantics on both sides)
  * the call `the_scope_table(<e1>, <e2>)` and the two `unwrap_or` defaults of get_dependencies_tree
                                                   -> table_call_args, default_scope_is_default, optional_default

Fails closed: anything it does not recognise is returned as an error string (the check then
reports a broken tie).  No third-party modules.
"""
import os
import re
import sys

sys.path.insert(0, os.path.join(os.path.dirname(os.path.dirname(os.path.abspath(__file__))), "lib"))
import vcheck  # vcheck.REPO: the repository under test; vcheck.COQ: the Coq project to write into


def src_path():
    return os.path.join(vcheck.REPO, "maven_dependency_resolver", "src", "lib.rs")


def out_path():
    return os.path.join(vcheck.COQ, "C19", "ScopeGen.v")


def strip_comments(src):
    out = []
    i = 0
    n = len(src)
    while i < n:
        if src.startswith("//", i):
            while i < n and src[i] != "\n":
                i += 1
        elif src.startswith("/*", i):
            j = src.find("*/", i + 2)
            i = n if j < 0 else j + 2
        elif src[i] == '"':
            j = i + 1
            while j < n and src[j] != '"':
                j += 2 if src[j] == "\\" else 1
            out.append(src[i:j + 1])
            i = j + 1
        else:
            out.append(src[i])
            i += 1
    return "".join(out)


def balanced(src, start, open_ch="{", close_ch="}"):
    """src[start] == open_ch; returns index just after the matching close."""
    assert src[start] == open_ch
    depth = 0
    i = start
    in_str = False
    while i < len(src):
        c = src[i]
        if in_str:
            if c == "\\":
                i += 1
            elif c == '"':
                in_str = False
        elif c == '"':
            in_str = True
        elif c == open_ch:
            depth += 1
        elif c == close_ch:
            depth -= 1
            if depth == 0:
                return i + 1
        i += 1
    raise ValueError("unbalanced %s" % open_ch)


def split_top(s, sep=","):
    """split at top-level separators (outside (), {}, [], strings)"""
    parts = []
    depth = 0
    cur = []
    in_str = False
    i = 0
    while i < len(s):
        c = s[i]
        if in_str:
            cur.append(c)
            if c == "\\":
                cur.append(s[i + 1])
                i += 1
            elif c == '"':
                in_str = False
        elif c == '"':
            in_str = True
            cur.append(c)
        elif c in "([{":
            depth += 1
            cur.append(c)
        elif c in ")]}":
            depth -= 1
            cur.append(c)
        elif c == sep and depth == 0:
            parts.append("".join(cur))
            cur = []
        else:
            cur.append(c)
        i += 1
    if "".join(cur).strip():
        parts.append("".join(cur))
    return [p.strip() for p in parts]


def gstr(s):
    return "[" + ";".join(str(ord(c)) for c in s) + "]"


def unquote(lit, errs):
    m = re.fullmatch(r'"([^"\\]*)"', lit.strip())
    if not m:
        errs.append("unrecognised string literal %r" % lit)
        return ""
    return m.group(1)


def translate():
    errs = []
    try:
        src = strip_comments(open(src_path(), encoding="utf-8").read())
    except OSError as ex:
        return ["cannot read %s: %s" % (src_path(), ex)]

    # ---- enum ----
    m = re.search(r"pub\s+enum\s+DependencyScope\s*\{", src)
    if not m:
        return ["enum DependencyScope not found"]
    body = src[m.end():balanced(src, m.end() - 1) - 1]
    variants = []
    default = None
    pending_default = False
    for tok in re.finditer(r"#\[([^\]]*)\]|([A-Za-z_][A-Za-z0-9_]*)\s*(,|$)|(\S)", body):
        if tok.group(1) is not None:
            attr = tok.group(1).strip()
            if attr == "default":
                pending_default = True
            elif re.fullmatch(r'serde\s*\(\s*rename\s*=\s*"[^"]*"\s*\)', attr):
                pass
            else:
                errs.append("enum DependencyScope: unrecognised attribute #[%s]" % attr)
        elif tok.group(2) is not None:
            variants.append(tok.group(2))
            if pending_default:
                default = tok.group(2)
                pending_default = False
        elif tok.group(4) is not None:
            errs.append("enum DependencyScope: unrecognised token %r (variants with payloads are not supported)" % tok.group(4))
            break
    if not variants:
        errs.append("enum DependencyScope has no variants")
    if default is None:
        errs.append("enum DependencyScope has no #[default] variant")
    if errs:
        return errs

    def variant_of(path):
        mm = re.fullmatch(r"DependencyScope\s*::\s*([A-Za-z_][A-Za-z0-9_]*)", path.strip())
        if not mm or mm.group(1) not in variants:
            return None
        return mm.group(1)

    # ---- Display ----
    m = re.search(r"impl\s+Display\s+for\s+DependencyScope\s*\{", src)
    to_str = {}
    if not m:
        errs.append("impl Display for DependencyScope not found")
    else:
        ib = src[m.end() - 1:balanced(src, m.end() - 1)]
        mm = re.search(r"Display::fmt\s*\(\s*match\s+self\s*\{", ib)
        if not mm:
            errs.append("Display for DependencyScope: expected `Display::fmt(match self { .. }, f)`")
        else:
            st = mm.end() - 1
            arms = ib[st + 1:balanced(ib, st) - 1]
            tail = ib[balanced(ib, st):]
            if not re.match(r"\s*,\s*f\s*\)\s*\}\s*\}\s*$", tail):
                errs.append("Display for DependencyScope: unexpected code after the match: %r" % tail.strip()[:60])
            for arm in split_top(arms):
                a = arm.split("=>")
                v = variant_of(a[0]) if len(a) == 2 else None
                if v is None:
                    errs.append("Display for DependencyScope: unrecognised arm %r" % arm)
                    continue
                to_str[v] = unquote(a[1], errs)
        for v in variants:
            if v not in to_str:
                errs.append("Display for DependencyScope: no arm for %s" % v)

    # ---- FromStr ----
    m = re.search(r"impl\s+FromStr\s+for\s+DependencyScope\s*\{", src)
    of_str = []
    if not m:
        errs.append("impl FromStr for DependencyScope not found")
    else:
        ib = src[m.end() - 1:balanced(src, m.end() - 1)]
        mm = re.search(r"Ok\s*\(\s*match\s+s\s*\{", ib)
        if not mm:
            errs.append("FromStr for DependencyScope: expected `Ok(match s { .. })`")
        else:
            st = mm.end() - 1
            arms = split_top(ib[st + 1:balanced(ib, st) - 1])
            fallback = False
            for arm in arms:
                a = arm.split("=>", 1)
                if len(a) != 2:
                    errs.append("FromStr for DependencyScope: unrecognised arm %r" % arm)
                    continue
                pat, rhs = a[0].strip(), a[1].strip()
                if fallback:
                    errs.append("FromStr for DependencyScope: arm after the catch-all: %r" % arm)
                elif pat.startswith('"'):
                    v = variant_of(rhs)
                    if v is None:
                        errs.append("FromStr for DependencyScope: unrecognised result %r" % rhs)
                    else:
                        of_str.append((unquote(pat, errs), v))
                elif re.fullmatch(r"[a-z_][A-Za-z0-9_]*", pat) and rhs.startswith("bail!"):
                    fallback = True
                else:
                    errs.append("FromStr for DependencyScope: unrecognised arm %r" % arm)
            if not fallback:
                errs.append("FromStr for DependencyScope: no catch-all arm that fails")

    # ---- the_scope_table ----
    m = re.search(r"fn\s+the_scope_table\s*\(\s*([a-z_]+)\s*:\s*DependencyScope\s*,\s*([a-z_]+)\s*:\s*DependencyScope\s*\)\s*->\s*Option\s*<\s*DependencyScope\s*>\s*\{", src)
    table_arms = []
    p1 = p2 = s1 = s2 = None
    if not m:
        errs.append("fn the_scope_table(a: DependencyScope, b: DependencyScope) -> Option<DependencyScope> not found")
    else:
        p1, p2 = m.group(1), m.group(2)
        fb = src[m.end():balanced(src, m.end() - 1) - 1]
        mm = re.fullmatch(r"\s*match\s*\(\s*([a-z_]+)\s*,\s*([a-z_]+)\s*\)\s*\{(.*)\}\s*", fb, re.S)
        if not mm or {mm.group(1), mm.group(2)} != {p1, p2}:
            errs.append("the_scope_table: body is not a single `match (x, y) { .. }` over its two parameters")
        else:
            s1, s2 = mm.group(1), mm.group(2)
            for arm in split_top(mm.group(3)):
                a = arm.split("=>", 1)
                if len(a) != 2:
                    errs.append("the_scope_table: unrecognised arm %r" % arm)
                    continue
                pat, rhs = a[0].strip(), a[1].strip()
                pm = re.fullmatch(r"\((.*)\)", pat, re.S)
                comps = split_top(pm.group(1)) if pm else []
                if len(comps) != 2:
                    errs.append("the_scope_table: pattern is not a pair: %r" % pat)
                    continue
                binders = []
                cpats = []
                for comp in comps:
                    alts = [x.strip() for x in comp.split("|")]
                    if len(alts) == 1 and alts[0] == "_":
                        cpats.append("_")
                    elif len(alts) == 1 and re.fullmatch(r"[a-z_][a-z0-9_]*", alts[0]):
                        binders.append(alts[0])
                        cpats.append(alts[0])
                    else:
                        vs = [variant_of(x) for x in alts]
                        if any(v is None for v in vs):
                            errs.append("the_scope_table: unrecognised pattern component %r" % comp)
                            cpats.append("_")
                        else:
                            cpats.append("(" + " | ".join(vs) + ")" if len(vs) > 1 else vs[0])
                if rhs == "None":
                    crhs = "None"
                else:
                    rm = re.fullmatch(r"Some\s*\((.*)\)", rhs, re.S)
                    inner = rm.group(1).strip() if rm else None
                    if inner is None:
                        errs.append("the_scope_table: unrecognised result %r" % rhs)
                        crhs = "None"
                    elif variant_of(inner):
                        crhs = "Some " + variant_of(inner)
                    elif inner in binders or inner in (p1, p2):
                        crhs = "Some " + inner
                    else:
                        errs.append("the_scope_table: unrecognised result %r" % rhs)
                        crhs = "None"
                table_arms.append("  | %s, %s => %s" % (cpats[0], cpats[1], crhs))

    # ---- call site and defaults in get_dependencies_tree ----
    calls = re.findall(r"the_scope_table\s*\(\s*([a-z_]+)\s*,\s*([a-z_]+)\s*\)", src)
    calls = [c for c in calls if c != (p1, p2) or True]
    # the definition itself has typed parameters, so it does not match the pattern above
    if len(calls) != 1:
        errs.append("expected exactly one call of the_scope_table(x, y), found %d" % len(calls))
        call = ("?", "?")
    else:
        call = calls[0]
        if call != ("scope", "dependency_scope"):
            errs.append("the_scope_table is called with (%s, %s); the model expects (scope, dependency_scope) = (scope of the node, scope of its dependency)" % call)
    md = re.search(r"let\s+dependency_scope\s*=\s*dependency\s*\.\s*scope\s*\.\s*unwrap_or\s*\(\s*([A-Za-z:\s]+)\)\s*;", src)
    if not md or variant_of(md.group(1)) is None:
        errs.append("`let dependency_scope = dependency.scope.unwrap_or(DependencyScope::X);` not found")
        dep_default = None
    else:
        dep_default = variant_of(md.group(1))
    mo = re.search(r"let\s+is_optional\s*=\s*dependency\s*\.\s*optional\s*\.\s*unwrap_or\s*\(\s*(true|false)\s*\)\s*;", src)
    if not mo:
        errs.append("`let is_optional = dependency.optional.unwrap_or(false|true);` not found")
    if not re.search(r"if\s*!\s*is_optional\s*\{", src):
        errs.append("`if !is_optional {` not found")

    if errs:
        return errs

    lines = []
    lines.append("(* GENERATED by translate/c19_scope_table.py from maven_dependency_resolver/src/lib.rs on every check -- do not edit *)")
    lines.append("From FB Require Export Base.Str.")
    lines.append("")
    lines.append("Inductive scope : Type := " + " | ".join(variants) + ".")
    lines.append("Definition all_scopes : list scope := [" + "; ".join(variants) + "].")
    lines.append("Definition default_scope : scope := %s.  (* #[default] *)" % default)
    lines.append("Definition scope_eqb (a b : scope) : bool :=")
    lines.append("  match a, b with " + " | ".join("%s, %s" % (v, v) for v in variants) + " => true | _, _ => false end.")
    lines.append("")
    lines.append("(* impl Display for DependencyScope *)")
    lines.append("Definition scope_to_str (s : scope) : str :=")
    lines.append("  match s with")
    for v in variants:
        lines.append("  | %s => %s  (* %s *)" % (v, gstr(to_str[v]), to_str[v]))
    lines.append("  end.")
    lines.append("")
    lines.append("(* impl FromStr for DependencyScope: the literal arms in order; anything else fails *)")
    lines.append("Definition scope_names : list (str * scope) := [")
    lines.append(";\n".join("  (%s, %s)  (* %s *)" % (gstr(s), v, s) for s, v in of_str))
    lines.append("].")
    lines.append("")
    lines.append("(* fn the_scope_table(%s, %s): match (%s, %s) *)" % (p1, p2, s1, s2))
    lines.append("Definition the_scope_table (%s %s : scope) : option scope :=" % (p1, p2))
    lines.append("  match %s, %s with" % (s1, s2))
    lines.extend(table_arms)
    lines.append("  end.")
    lines.append("")
    lines.append("(* get_dependencies_tree: dependency.scope.unwrap_or(..), dependency.optional.unwrap_or(..) *)")
    lines.append("Definition dependency_scope_default : scope := %s." % dep_default)
    lines.append("Definition optional_default : bool := %s." % mo.group(1))
    text = "\n".join(lines) + "\n"

    OUT = out_path()
    os.makedirs(os.path.dirname(OUT), exist_ok=True)
    old = None
    if os.path.exists(OUT):
        old = open(OUT, encoding="utf-8").read()
    if old != text:  # keep the time stamp when nothing changed, so make does not rebuild
        with open(OUT, "w", encoding="utf-8") as f:
            f.write(text)
    return []


def c19_scope_table():
    return translate()


if __name__ == "__main__":
    import sys
    e = translate()
    for x in e:
        print("ERROR:", x)
    sys.exit(1 if e else 0)
