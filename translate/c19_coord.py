#!/usr/bin/env python3
"""C19 translator: regenerates coq/C19/CoordGen.v and coq/C19/CoordFmtGen.v from
maven_dependency_resolver/src/coord.rs (and two call sites in maven_pom_done.rs / lib.rs).

CoordGen.v (before Model.v):
  * `pub struct MavenCoord { .. }`                       -> Record coord (the five fields, in order, with their types)
  * `struct DependencyCollisionId { .. }` (+ its derive)   -> cid (a tuple of the fields, in declaration order), cid_field_names
  * `fn dependency_collision_id(&self)`                    -> dependency_collision_id: every field `f: self.g.clone()` (nothing else is accepted)
  * `fn matches_besides_version(&self, ..) -> bool`        -> matches_besides_version: the conjunction `self.f == param`
  * `Types::type_to_classifier / type_to_extension / packaging_to_type` match arms -> three arm tables (first match wins)
CoordFmtGen.v (after Model.v, which holds the hand-written printers the theorems are about):
  * `impl Display for MavenCoord`    write!(f, "<format>", name = expr, ..)   -> print_coord_src
  * `fn make_pom_url`, `fn make_url`  format!("<format>", name = expr, ..)    -> make_pom_url_src, make_url_src
  * `impl Display for FoundDependency` (lib.rs)                               -> print_found_src
  Theorems in TheorySource.v prove each *_src equal to the model's hand-written definition.

Fails closed: any field, derive, arm, format piece or argument expression it does not recognise is
returned as an error string (the check then reports a broken tie and searches for a failing input).
No third-party modules.
"""
import os
import re
import sys

sys.path.insert(0, os.path.join(os.path.dirname(os.path.dirname(os.path.abspath(__file__))), "lib"))
sys.path.insert(0, os.path.dirname(os.path.abspath(__file__)))
import vcheck  # vcheck.REPO: the repository under test; vcheck.COQ: the Coq project to write into
from c19_scope_table import strip_comments, balanced, split_top, gstr

IDENT = r"[A-Za-z_][A-Za-z0-9_]*"
COORD_FIELDS = [("group", "String"), ("artifact", "String"), ("version", "String"), ("classifier", "Option<String>"), ("type_", "String")]


def src(name):
    return os.path.join(vcheck.REPO, "maven_dependency_resolver", "src", name)


def coq_ty(t):
    return {"String": "str", "Option<String>": "option str", "&str": "str", "&Option<String>": "option str"}.get(t.replace(" ", ""))


def cname(f):
    """MavenCoord field -> accessor of the model's record"""
    return "c_" + f.rstrip("_")


def unq(lit):
    """a plain Rust string literal (no escapes but \\" \\\\ are rejected too) -> python str, or None"""
    m = re.fullmatch(r'"([^"\\]*)"', lit.strip())
    return m.group(1) if m else None


def struct_fields(text, name, errs):
    """(derive list, [(field, type)]) of `struct name { .. }`"""
    m = re.search(r"((?:#\[[^\]]*\]\s*)*)pub(?:\s*\(\s*crate\s*\))?\s+struct\s+%s\s*\{" % name, text)
    if not m:
        errs.append("struct %s not found" % name)
        return [], []
    derives = []
    for a in re.findall(r"#\[([^\]]*)\]", m.group(1)):
        d = re.fullmatch(r"\s*derive\s*\((.*)\)\s*", a, re.S)
        if d:
            derives += [x.strip() for x in d.group(1).split(",") if x.strip()]
        else:
            errs.append("struct %s: unrecognised attribute #[%s]" % (name, a))
    body = text[m.end():balanced(text, m.end() - 1) - 1]
    fields = []
    for part in split_top(body):
        fm = re.fullmatch(r"(?:pub(?:\s*\(\s*crate\s*\))?\s+)?(%s)\s*:\s*(.+)" % IDENT, part, re.S)
        if not fm:
            errs.append("struct %s: unrecognised field %r" % (name, part))
            continue
        fields.append((fm.group(1), fm.group(2).replace(" ", "")))
    return derives, fields


def fn_body(text, name, errs, what="fn"):
    """(parameter text, return type text, body text) of `fn name(..) -> .. { .. }` (first occurrence)"""
    m = re.search(r"fn\s+%s\s*(?:<[^>]*>)?\s*\(" % name, text)
    if not m:
        errs.append("%s %s not found" % (what, name))
        return None
    pe = balanced(text, m.end() - 1, "(", ")")
    params = text[m.end():pe - 1]
    rest = text[pe:]
    bm = re.match(r"\s*(?:->\s*([^{]+?))?\s*\{", rest)
    if not bm:
        errs.append("%s %s: no body" % (what, name))
        return None
    bstart = pe + bm.end() - 1
    body = text[bstart + 1:balanced(text, bstart) - 1]
    return params, (bm.group(1) or "").strip(), body


def parse_arms(body, param, fname, option_result, errs):
    """`match param { arms }` of a Types table -> ([(patterns, result)], default) with result/default in
       option_result: ('none',) | ('some', lit);   otherwise: ('self',) | ('lit', lit)"""
    mm = re.fullmatch(r"\s*match\s+%s\s*\{(.*)\}\s*" % re.escape(param), body, re.S)
    if not mm:
        errs.append("%s: body is not a single `match %s { .. }`" % (fname, param))
        return [], None
    arms = []
    default = None
    for arm in split_top(mm.group(1)):
        arm = re.sub(r"^\s*(#\[[^\]]*\]\s*)+", "", arm)  # #[allow(unreachable_patterns)]
        a = arm.split("=>", 1)
        if len(a) != 2:
            errs.append("%s: unrecognised arm %r" % (fname, arm))
            continue
        pat, rhs = a[0].strip(), a[1].strip()
        if default is not None:
            errs.append("%s: arm after the catch-all: %r" % (fname, arm))
            continue
        binder = None
        bm = re.fullmatch(r"(%s)\s*@\s*\((.*)\)" % IDENT, pat, re.S)
        if bm:
            binder, pat = bm.group(1), bm.group(2)
        if re.fullmatch(IDENT, pat) and not bm:
            # catch-all: `x => { warn!(..); result }`
            cm = re.fullmatch(r"\{\s*warn!\s*\(.*\)\s*;\s*(.*?)\s*\}", rhs, re.S)
            if not cm:
                errs.append("%s: catch-all arm is not `{ warn!(..); result }`: %r" % (fname, rhs[:80]))
                continue
            res = cm.group(1).strip()
            if option_result and res == "None":
                default = ("none",)
            elif not option_result and res == pat:
                default = ("self",)
            else:
                errs.append("%s: unrecognised catch-all result %r" % (fname, res))
            continue
        lits = [unq(x) for x in pat.split("|")]
        if any(x is None for x in lits):
            errs.append("%s: unrecognised pattern %r" % (fname, pat))
            continue
        if option_result:
            sm = re.fullmatch(r"Some\s*\(\s*(\"[^\"\\]*\")\s*\)", rhs)
            if rhs == "None":
                arms.append((lits, ("none",)))
            elif sm:
                arms.append((lits, ("some", unq(sm.group(1)))))
            else:
                errs.append("%s: unrecognised result %r" % (fname, rhs))
        else:
            if binder is not None and rhs == binder:
                arms.append((lits, ("self",)))
            elif unq(rhs) is not None:
                arms.append((lits, ("lit", unq(rhs))))
            else:
                errs.append("%s: unrecognised result %r" % (fname, rhs))
    if default is None:
        errs.append("%s: no catch-all arm" % fname)
    return arms, default


def emit_arms(name, arms, comment):
    lines = ["(* %s *)" % comment, "Definition %s : list (list str * option str) := [" % name]
    rows = []
    for lits, res in arms:
        r = "None" if res[0] in ("none", "self") else "Some %s" % gstr(res[1])
        rows.append("  ([%s], %s)  (* %s => %s *)" % ("; ".join(gstr(x) for x in lits), r, " | ".join(lits),
                                                      {"none": "None", "self": "the string itself", "some": "Some " + (res[1] if len(res) > 1 else ""), "lit": (res[1] if len(res) > 1 else "")}[res[0]]))
    lines.append(";\n".join(rows))
    lines.append("].")
    return lines


# ---------- format strings ----------
def parse_format(fmt, errs, what):
    """"{a}:{b}.pom" -> [('arg','a'), ('lit',':'), ('arg','b'), ('lit','.pom')]"""
    out = []
    i = 0
    cur = ""
    while i < len(fmt):
        c = fmt[i]
        if c == "{":
            if fmt.startswith("{{", i):
                cur += "{"
                i += 2
                continue
            j = fmt.find("}", i)
            name = fmt[i + 1:j] if j > 0 else ""
            if not re.fullmatch(IDENT, name):
                errs.append("%s: unrecognised format piece %r (only plain named arguments are supported)" % (what, fmt[i:j + 1]))
                return []
            if cur:
                out.append(("lit", cur))
                cur = ""
            out.append(("arg", name))
            i = j + 1
        elif c == "}":
            if fmt.startswith("}}", i):
                cur += "}"
                i += 2
                continue
            errs.append("%s: stray '}' in the format string" % what)
            return []
        elif c == "\\":
            errs.append("%s: escapes in the format string are not supported" % what)
            return []
        else:
            cur += c
            i += 1
    if cur:
        out.append(("lit", cur))
    return out


def tr_expr(e, self_var, res_var, errs, what):
    """an argument expression of the format macros -> Gallina of type str"""
    e = re.sub(r"\s+", " ", e.strip())
    res_pat = re.escape(res_var) if res_var else r"\0"
    m = re.fullmatch(r"self\s*\.\s*(%s)" % IDENT, e)
    if m and (m.group(1), "String") in COORD_FIELDS and self_var == "c":
        return "%s c" % cname(m.group(1))
    if res_var and re.fullmatch(r"%s\s*\.\s*maven" % res_pat, e):
        return "r_maven r"
    if res_var and re.fullmatch(r"if %s\s*\.\s*maven\s*\.\s*ends_with\s*\(\s*'/'\s*\) \{ \"\" \} else \{ \"/\" \}" % res_pat, e):
        return "(if ends_with_char 47 (r_maven r) then [] else [47])"
    m = re.fullmatch(r"if self\s*\.\s*classifier\s*\.\s*is_some\s*\(\s*\) \{ (\"[^\"\\]*\") \} else \{ (\"[^\"\\]*\") \}", e)
    if m and self_var == "c":
        return "(match c_classifier c with Some _ => %s | None => %s end)" % (gstr(unq(m.group(1))), gstr(unq(m.group(2))))
    m = re.fullmatch(r"self\s*\.\s*classifier\s*\.\s*as_deref\s*\(\s*\)\s*\.\s*unwrap_or\s*\(\s*(\"[^\"\\]*\")\s*\)", e)
    if m and self_var == "c":
        return "(match c_classifier c with Some k => k | None => %s end)" % gstr(unq(m.group(1)))
    m = re.fullmatch(r"self\s*\.\s*group\s*\.\s*replace\s*\(\s*'(.)'\s*,\s*\"(.)\"\s*\)", e)
    if m and self_var == "c":
        return "(replace_char %d %d (c_group c))" % (ord(m.group(1)), ord(m.group(2)))
    if re.fullmatch(r"self\s*\.\s*base_version\s*\(\s*\)", e) and self_var == "c":
        return "(to_snapshot_version (c_version c))"
    if re.fullmatch(r"Types\s*::\s*type_to_extension\s*\(\s*&\s*self\s*\.\s*type_\s*\)", e) and self_var == "c":
        return "(type_to_extension (c_type c))"
    # FoundDependency
    if self_var == "d":
        if re.fullmatch(r"self\s*\.\s*coord", e):
            return "(print_coord (f_coord d))"
        if re.fullmatch(r"self\s*\.\s*scope", e):
            return "(print_scope (f_scope d))"
        if re.fullmatch(r"self\s*\.\s*resolver\s*\.\s*maven", e):
            return "(r_maven (f_resolver d))"
    errs.append("%s: unrecognised argument expression %r" % (what, e))
    return "[]"


def tr_format_call(body, macro, self_var, res_var, errs, what):
    """body is exactly one `format!("..", a = e, ..)` / `write!(f, "..", a = e, ..)` -> Gallina"""
    m = re.fullmatch(r"\s*%s!\s*\((.*)\)\s*" % macro, body, re.S)
    if not m:
        errs.append("%s: body is not a single %s!(..)" % (what, macro))
        return "[]"
    args = split_top(m.group(1))
    if macro == "write":
        if not args or args[0] != "f":
            errs.append("%s: write! does not write to `f`" % what)
            return "[]"
        args = args[1:]
    if not args or unq(args[0]) is None:
        errs.append("%s: the format string is not a plain literal" % what)
        return "[]"
    pieces = parse_format(unq(args[0]), errs, what)
    named = {}
    for a in args[1:]:
        am = re.fullmatch(r"(%s)\s*=\s*(.*)" % IDENT, a, re.S)
        if not am:
            errs.append("%s: unrecognised macro argument %r" % (what, a))
            continue
        named[am.group(1)] = am.group(2)
    used = set()
    out = []
    for kind, v in pieces:
        if kind == "lit":
            out.append(gstr(v))
        else:
            if v not in named:
                errs.append("%s: format argument {%s} is not given as `%s = ..` (captured variables are not supported)" % (what, v, v))
                continue
            used.add(v)
            out.append(tr_expr(named[v], self_var, res_var, errs, what))
    for k in named:
        if k not in used:
            errs.append("%s: argument %s is not used by the format string" % (what, k))
    return " ++ ".join(out) if out else "[]"


def write_if_changed(path, text):
    os.makedirs(os.path.dirname(path), exist_ok=True)
    old = open(path, encoding="utf-8").read() if os.path.exists(path) else None
    if old != text:  # keep the time stamp when nothing changed, so make does not rebuild
        with open(path, "w", encoding="utf-8") as f:
            f.write(text)


def translate():
    errs = []
    try:
        text = strip_comments(open(src("coord.rs"), encoding="utf-8").read())
        done = strip_comments(open(src("maven_pom_done.rs"), encoding="utf-8").read())
        lib = strip_comments(open(src("lib.rs"), encoding="utf-8").read())
    except OSError as ex:
        return ["cannot read the sources: %s" % ex]
    # the tests module is not part of the crate's behaviour
    tm = re.search(r"#\[cfg\(test\)\]\s*mod\s+%s\s*\{" % IDENT, text)
    if tm:
        text = text[:tm.start()]
    tm = re.search(r"#\[cfg\(test\)\]\s*mod\s+%s\s*\{" % IDENT, lib)
    if tm:
        lib = lib[:tm.start()]

    # ---- struct MavenCoord ----
    derives, fields = struct_fields(text, "MavenCoord", errs)
    if fields and fields != COORD_FIELDS:
        errs.append("struct MavenCoord has fields %r; the model, the harness' printers and the theorems are written for %r" % (fields, COORD_FIELDS))
    if fields and "PartialEq" not in derives:
        errs.append("struct MavenCoord does not derive PartialEq (equality of coordinates is structural in the model)")
    if re.search(r"impl\s+(PartialEq|Eq)\b[^{]*\bfor\s+MavenCoord\b", text):
        errs.append("MavenCoord has a hand-written equality")

    # ---- struct DependencyCollisionId ----
    cderives, cfields = struct_fields(text, "DependencyCollisionId", errs)
    for need in ("PartialEq", "Eq", "Hash"):
        if cfields and need not in cderives:
            errs.append("struct DependencyCollisionId does not derive %s (the HashSet of clean_up_dependencies compares ids field by field in the model)" % need)
    if re.search(r"impl\s+(PartialEq|Eq|Hash|Borrow)\b[^{]*\bfor\s+DependencyCollisionId\b", text):
        errs.append("DependencyCollisionId has a hand-written equality / hash / borrow")
    for f, t in cfields:
        if coq_ty(t) is None:
            errs.append("struct DependencyCollisionId: field %s has unsupported type %s" % (f, t))

    # ---- fn dependency_collision_id ----
    cid_exprs = []
    fb = fn_body(text, "dependency_collision_id", errs)
    if fb:
        params, ret, body = fb
        if re.sub(r"\s+", "", params) != "&self" or ret != "DependencyCollisionId":
            errs.append("dependency_collision_id: expected `fn dependency_collision_id(&self) -> DependencyCollisionId`")
        lm = re.fullmatch(r"\s*DependencyCollisionId\s*\{(.*)\}\s*", body, re.S)
        if not lm:
            errs.append("dependency_collision_id: body is not a single struct literal `DependencyCollisionId { .. }`")
        else:
            given = {}
            for part in split_top(lm.group(1)):
                pm = re.fullmatch(r"(%s)\s*:\s*(.*)" % IDENT, part, re.S)
                if not pm:
                    errs.append("dependency_collision_id: unrecognised field initialiser %r" % part)
                    continue
                em = re.fullmatch(r"self\s*\.\s*(%s)\s*\.\s*clone\s*\(\s*\)" % IDENT, pm.group(2).strip())
                if not em:
                    errs.append("dependency_collision_id: field %s is initialised by %r; only `self.<field>.clone()` is understood (the id must be made of the coordinate's own fields)" % (pm.group(1), pm.group(2).strip()))
                    continue
                given[pm.group(1)] = em.group(1)
            for f, t in cfields:
                if f not in given:
                    errs.append("dependency_collision_id: no initialiser for field %s" % f)
                    continue
                g = given[f]
                gt = dict(COORD_FIELDS).get(g)
                if gt is None:
                    errs.append("dependency_collision_id: self.%s is not a field of MavenCoord" % g)
                elif gt != t:
                    errs.append("dependency_collision_id: field %s : %s is initialised from self.%s : %s" % (f, t, g, gt))
                else:
                    cid_exprs.append((f, g))
            for f in given:
                if f not in dict(cfields):
                    errs.append("dependency_collision_id: initialiser for unknown field %s" % f)
    # the two uses in clean_up_dependencies
    uses = re.findall(r"(\w+)\s*\.\s*coord\s*\.\s*dependency_collision_id\s*\(\s*\)", lib)
    if len(uses) != 2:
        errs.append("lib.rs: expected two uses of `.coord.dependency_collision_id()` in clean_up_dependencies (collecting the set, the retain predicate), found %d" % len(uses))
    if not re.search(r"set\s*\.\s*remove\s*\(\s*&\s*dep\s*\.\s*coord\s*\.\s*dependency_collision_id\s*\(\s*\)\s*\)", lib):
        errs.append("lib.rs: the retain predicate is not `set.remove(&dep.coord.dependency_collision_id())`")

    # ---- fn matches_besides_version ----
    mbv_params = []
    mbv_conj = []
    fb = fn_body(text, "matches_besides_version", errs)
    if fb:
        params, ret, body = fb
        ps = split_top(params)
        if not ps or re.sub(r"\s+", "", ps[0]) != "&self" or ret != "bool":
            errs.append("matches_besides_version: expected `fn matches_besides_version(&self, ..) -> bool`")
        for p in ps[1:]:
            pm = re.fullmatch(r"(%s)\s*:\s*(.+)" % IDENT, p, re.S)
            if not pm or coq_ty(pm.group(2)) is None:
                errs.append("matches_besides_version: unrecognised parameter %r" % p)
                continue
            mbv_params.append((pm.group(1), coq_ty(pm.group(2))))
        for conj in body.split("&&"):
            cm = re.fullmatch(r"\s*&?\s*self\s*\.\s*(%s)\s*==\s*(%s)\s*" % (IDENT, IDENT), conj)
            if not cm:
                errs.append("matches_besides_version: unrecognised conjunct %r (only `self.<field> == <parameter>`)" % conj.strip())
                continue
            f, p = cm.group(1), cm.group(2)
            ft = coq_ty(dict(COORD_FIELDS).get(f, "?"))
            pt = dict(mbv_params).get(p)
            if ft is None or pt is None or ft != pt:
                errs.append("matches_besides_version: conjunct %r compares a %s with a %s" % (conj.strip(), ft, pt))
                continue
            mbv_conj.append((f, p, ft))
        used = [p for _, p, _ in mbv_conj]
        for p, _ in mbv_params:
            if used.count(p) != 1:
                errs.append("matches_besides_version: parameter %s is compared %d times" % (p, used.count(p)))
    # call site in make_dependencies: arguments in the order of the parameters
    cs = re.findall(r"\.\s*coord\s*\.\s*matches_besides_version\s*\(([^)]*)\)", done)
    want_args = ["&" + p for p, _ in mbv_params]
    if len(cs) != 1 or [re.sub(r"\s+", "", x) for x in cs[0].split(",")] != want_args:
        errs.append("maven_pom_done.rs: expected exactly one call `i.coord.matches_besides_version(%s)`, found %r" % (", ".join(want_args), cs))

    # ---- Types tables ----
    tables = {}
    for fname, param_name, opt in (("type_to_classifier", None, True), ("type_to_extension", None, False), ("packaging_to_type", None, False)):
        fb = fn_body(text, fname, errs)
        if not fb:
            continue
        params, ret, body = fb
        pm = re.fullmatch(r"\s*(%s)\s*:\s*&\s*str\s*" % IDENT, params)
        want_ret = "Option<&str>" if opt else "&str"
        if not pm or ret.replace(" ", "") != want_ret:
            errs.append("%s: expected `fn %s(x: &str) -> %s`" % (fname, fname, want_ret))
            continue
        arms, default = parse_arms(body, pm.group(1), fname, opt, errs)
        tables[fname] = (arms, default)
    # call sites of the tables: the default type and what the classifier defaults to
    n_cls = len(re.findall(r"\.\s*classifier\s*\.\s*or_else\s*\(\s*\|\|\s*Types\s*::\s*type_to_classifier\s*\(\s*&\s*type_\s*\)\s*\.\s*map\s*\(\s*\|x\|\s*x\s*\.\s*to_owned\s*\(\s*\)\s*\)\s*\)", done))
    n_ty = len(re.findall(r"\.\s*type_\s*\.\s*unwrap_or_else\s*\(\s*\|\|\s*String\s*::\s*from\s*\(\s*\"jar\"\s*\)\s*\)", done))
    if n_cls != 2 or n_ty != 2:
        errs.append("maven_pom_done.rs: expected `x.type_.unwrap_or_else(|| String::from(\"jar\"))` and `x.classifier.or_else(|| Types::type_to_classifier(&type_).map(..))` in make_dependency_management and make_dependencies (found %d and %d)" % (n_ty, n_cls))
    n_pack = len(re.findall(r"Types\s*::\s*packaging_to_type\s*\(\s*child\s*\.\s*packaging\s*\.\s*as_deref\s*\(\s*\)\s*\.\s*unwrap_or\s*\(\s*\"jar\"\s*\)\s*\)", done))
    if n_pack != 2:
        errs.append("maven_pom_done.rs: expected two `Types::packaging_to_type(child.packaging.as_deref().unwrap_or(\"jar\"))` in merge_parent, found %d" % n_pack)

    # ---- printers ----
    print_coord = make_pom_url = make_url = print_found = "[]"
    im = re.search(r"impl\s+Display\s+for\s+MavenCoord\s*\{", text)
    if not im:
        errs.append("impl Display for MavenCoord not found")
    else:
        ib = text[im.end() - 1:balanced(text, im.end() - 1)]
        fb = fn_body(ib, "fmt", errs, "Display for MavenCoord: fn")
        if fb:
            print_coord = tr_format_call(fb[2], "write", "c", None, errs, "Display for MavenCoord")
    for fname in ("make_pom_url", "make_url"):
        fb = fn_body(text, fname, errs)
        if fb:
            params, ret, body = fb
            if re.sub(r"\s+", "", params) != "&self,resolver:&Resolver" or ret != "String":
                errs.append("%s: expected `fn %s(&self, resolver: &Resolver) -> String`" % (fname, fname))
            g = tr_format_call(body, "format", "c", "resolver", errs, fname)
            if fname == "make_pom_url":
                make_pom_url = g
            else:
                make_url = g
    fb = fn_body(text, "base_version", errs)
    if fb and not re.fullmatch(r"\s*to_snapshot_version\s*\(\s*&\s*self\s*\.\s*version\s*\)\s*", fb[2]):
        errs.append("base_version: body is not `to_snapshot_version(&self.version)`")
    im = re.search(r"impl\s+Display\s+for\s+FoundDependency\s*<[^>]*>\s*\{", lib)
    if not im:
        errs.append("lib.rs: impl Display for FoundDependency not found")
    else:
        ib = lib[im.end() - 1:balanced(lib, im.end() - 1)]
        fb = fn_body(ib, "fmt", errs, "Display for FoundDependency: fn")
        if fb:
            print_found = tr_format_call(fb[2], "write", "d", None, errs, "Display for FoundDependency")
    fb = fn_body(lib, "make_url", errs, "lib.rs: fn")
    if fb and not re.fullmatch(r"\s*self\s*\.\s*coord\s*\.\s*make_url\s*\(\s*&\s*self\s*\.\s*resolver\s*\)\s*", fb[2]):
        errs.append("FoundDependency::make_url: body is not `self.coord.make_url(&self.resolver)`")

    if errs:
        return errs

    # ---------- CoordGen.v ----------
    L = []
    L.append("(* GENERATED by translate/c19_coord.py from maven_dependency_resolver/src/coord.rs on every check -- do not edit *)")
    L.append("From FB Require Export Base.Str Base.Run.")
    L.append("")
    L.append("(* pub struct MavenCoord *)")
    L.append("Record coord := mkCoord { %s }." % "; ".join("%s : %s" % (cname(f), coq_ty(t)) for f, t in fields))
    L.append("")
    L.append("(* struct DependencyCollisionId (derives %s): the fields in declaration order *)" % ", ".join(cderives))
    L.append("Definition cid_field_names : list str := [%s].  (* %s *)" % ("; ".join(gstr(f) for f, _ in cfields), ", ".join(f for f, _ in cfields)))
    L.append("Definition cid : Type := (%s)%%type." % " * ".join(coq_ty(t) for _, t in cfields))
    L.append("(* fn dependency_collision_id(&self): %s *)" % ", ".join("%s: self.%s.clone()" % (f, g) for f, g in cid_exprs))
    L.append("Definition dependency_collision_id (c : coord) : cid := (%s)." % ", ".join("%s c" % cname(g) for _, g in cid_exprs))
    vs1 = ["x%d" % i for i in range(len(cfields))]
    vs2 = ["y%d" % i for i in range(len(cfields))]
    eqs = " && ".join(("str_eqb %s %s" if coq_ty(t) == "str" else "opt_eqb str_eqb %s %s") % (a, b) for (_, t), a, b in zip(cfields, vs1, vs2))
    L.append("(* derived PartialEq / Eq / Hash: field by field *)")
    L.append("Definition cid_eqb (a b : cid) : bool :=")
    L.append("  match a, b with")
    L.append("  | (%s), (%s) => %s" % (", ".join(vs1), ", ".join(vs2), eqs))
    L.append("  end.")
    L.append("")
    L.append("(* fn matches_besides_version(&self, %s) *)" % ", ".join(p for p, _ in mbv_params))
    L.append("Definition matches_besides_version (c : coord) %s : bool :=" % " ".join("(%s : %s)" % (p, t) for p, t in mbv_params))
    L.append("  " + " && ".join(("str_eqb (%s c) %s" if t == "str" else "opt_eqb str_eqb (%s c) %s") % (cname(f), p) for f, p, t in mbv_conj) + ".")
    L.append("")
    L.append("(* ---- impl Types: the artifact handler tables, arm by arm, first match wins ---- *)")
    arms, default = tables["type_to_classifier"]
    L += emit_arms("type_to_classifier_arms", arms, "fn type_to_classifier(type_) -> Option<&str>: the result of each arm; the catch-all arm gives None")
    arms, default = tables["type_to_extension"]
    L += emit_arms("type_to_extension_arms", arms, "fn type_to_extension(type_) -> &str: Some literal, or None = the matched string itself; the catch-all arm gives its argument")
    arms, default = tables["packaging_to_type"]
    L += emit_arms("packaging_to_type_arms", arms, "fn packaging_to_type(packaging) -> &str: Some literal, or None = the matched string itself; the catch-all arm gives its argument")
    write_if_changed(os.path.join(vcheck.COQ, "C19", "CoordGen.v"), "\n".join(L) + "\n")

    # ---------- CoordFmtGen.v ----------
    L = []
    L.append("(* GENERATED by translate/c19_coord.py from maven_dependency_resolver/src/coord.rs and lib.rs on every check -- do not edit *)")
    L.append("(* the format strings of the printers, piece by piece; TheorySource.v proves them equal to the model's definitions *)")
    L.append("From FB Require Export C19.Model.")
    L.append("")
    L.append("(* impl Display for MavenCoord *)")
    L.append("Definition print_coord_src (c : coord) : str :=\n  %s." % print_coord)
    L.append("(* fn make_pom_url(&self, resolver) *)")
    L.append("Definition make_pom_url_src (r : resolver) (c : coord) : str :=\n  %s." % make_pom_url)
    L.append("(* fn make_url(&self, resolver) *)")
    L.append("Definition make_url_src (r : resolver) (c : coord) : str :=\n  %s." % make_url)
    L.append("(* impl Display for FoundDependency *)")
    L.append("Definition print_found_src (d : found) : str :=\n  %s." % print_found)
    write_if_changed(os.path.join(vcheck.COQ, "C19", "CoordFmtGen.v"), "\n".join(L) + "\n")
    return []


def c19_coord():
    return translate()


if __name__ == "__main__":
    e = translate()
    for x in e:
        print("ERROR:", x)
    sys.exit(1 if e else 0)
