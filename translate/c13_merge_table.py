#!/usr/bin/env python3
"""C13 translator: what dukebox/src/merge.rs decides by string predicates and by struct literals.

reads   <repo>/dukebox/src/merge.rs          fn merge (entry loop), fn class_merger_merge, fn visit_sided_annotation
        <repo>/duke/src/tree/class.rs        struct ClassFile   (field names, in order)
        <repo>/duke/src/tree/field.rs        struct Field
        <repo>/duke/src/tree/method.rs       struct Method
writes  <coq>/C13/MergeGen.v

From `merge`:
  * the literal of the first arm of `match key.as_str()` (the manifest's entry name) and the byte string
    it is replaced by (`JarEntryEnum::Other(b"…".to_vec())`),
  * the guard of the second arm (`name if <cond> => { continue; }`): the signature-file rule,
  * the condition of the `if <cond> { continue; }` that opens the `MergeCombination::Server(s)` arm: the
    bundled-library rule.
  Conditions are expression trees over `name.starts_with("…")`, `name.ends_with("…")`, `name.contains('c')`,
  `!`, `&&`, `||` and parentheses.  Anything else is an error of the check (fail closed).

From `class_merger_merge`: the struct literal `Ok(ClassFile { … })`, one row per field:
  client.f                                      AClient
  server.f                                      AServer
  merge_from_client(&client.f, &server.f)?      AAssertEq
  merge_eq(&client.f, &server.f)?               ABailEq
  interfaces.into_iter().cloned().collect()     AMpo      (with the pinned prelude computing `interfaces`, ci, si)
  merge_slice(&client.f, &server.f, key, side, inner)?   AMembers: key closure = (name, descriptor) clones,
                                                side closure = clone + push(sided_annotation(side)) onto one list,
                                                inner closure = Ok(T { rows…, ..client.clone() }) — a sub-table
  the inner_classes block                       AInnerUnion        (recognised literally, token by token)
  the runtime_invisible_annotations block       AInvPlusItfMarks   (recognised literally)
  the permitted_subclasses match                AMpoOpt            (recognised literally)
Every field of duke's ClassFile must occur exactly once; the `inner` literals are completed from the
struct definitions of Field / Method (`..client.clone()` = AClient for every field not named).

From `visit_sided_annotation`: the list the class-level side mark is pushed onto.
"""
import hashlib
import os
import re
import sys

sys.path.insert(0, os.path.join(os.path.dirname(os.path.dirname(os.path.abspath(__file__))), "lib"))
import vcheck  # noqa: E402

REPO = vcheck.REPO
OUT = os.path.join(vcheck.COQ, "C13", "MergeGen.v")


class Fail(Exception):
    pass


def strip_comments(src):
    out = []
    i, n = 0, len(src)
    while i < n:
        c = src[i]
        if c == '"':
            j = i + 1
            while src[j] != '"':
                j += 2 if src[j] == "\\" else 1
            out.append(src[i:j + 1])
            i = j + 1
        elif src.startswith("//", i):
            while i < n and src[i] != "\n":
                i += 1
        elif src.startswith("/*", i):
            j = src.index("*/", i)
            out.append(" ")
            i = j + 2
        elif c == "'" and i + 2 < n and (src[i + 2] == "'" or (src[i + 1] == "\\" and i + 3 < n and src[i + 3] == "'")):
            j = i + (3 if src[i + 2] == "'" else 4)
            out.append(src[i:j])
            i = j
        else:
            out.append(c)
            i += 1
    return "".join(out)


TOKEN = re.compile(r"""b?"(?:\\.|[^"\\])*"|'(?:\\.|[^'\\])'|[A-Za-z_][A-Za-z0-9_]*|\d+|&&|\|\||=>|::|\.\.|->|==|!=|\S""")


def tokens(text):
    return TOKEN.findall(text)


OPEN = {"(": ")", "{": "}", "[": "]"}
CLOSE = {")", "}", "]"}


def match_close(toks, i):
    """toks[i] is an opening bracket; index of its partner"""
    depth = 0
    for j in range(i, len(toks)):
        if toks[j] in OPEN:
            depth += 1
        elif toks[j] in CLOSE:
            depth -= 1
            if depth == 0:
                return j
    raise Fail("unbalanced brackets")


def split_commas(toks):
    """split at depth-0 commas; a `|` at the start of an item opens closure parameters up to the next `|`"""
    items, cur, depth, in_params = [], [], 0, False
    for t in toks:
        if in_params:
            cur.append(t)
            if t == "|":
                in_params = False
            continue
        if t == "|" and depth == 0 and not cur:
            in_params = True
            cur.append(t)
            continue
        if t in OPEN:
            depth += 1
        elif t in CLOSE:
            depth -= 1
        if t == "," and depth == 0:
            items.append(cur)
            cur = []
        else:
            cur.append(t)
    if cur:
        items.append(cur)
    return items


def find_seq(toks, seq, start=0):
    n = len(seq)
    for i in range(start, len(toks) - n + 1):
        if toks[i:i + n] == seq:
            return i
    return -1


def fn_body(toks, name):
    i = find_seq(toks, ["fn", name])
    if i < 0:
        raise Fail("fn %s not found in merge.rs" % name)
    j = i
    # the body is the first `{` after the signature's parameter list and return type at bracket depth 0
    depth = 0
    while True:
        j += 1
        if j >= len(toks):
            raise Fail("fn %s: no body" % name)
        if toks[j] in ("(", "["):
            depth += 1
        elif toks[j] in (")", "]"):
            depth -= 1
        elif toks[j] == "{" and depth == 0:
            break
    k = match_close(toks, j)
    return toks[j + 1:k]


def struct_fields(path, name):
    src = strip_comments(open(path, encoding="utf-8").read())
    toks = tokens(src)
    i = find_seq(toks, ["pub", "struct", name, "{"])
    if i < 0:
        raise Fail("struct %s not found in %s" % (name, path))
    j = i + 3
    k = match_close(toks, j)
    out = []
    for item in split_generic(toks[j + 1:k]):
        it = [t for t in item]
        while it and it[0] == "#":  # attributes
            e = match_close(it, 1)
            it = it[e + 1:]
        if not it:
            continue
        if it[0] == "pub":
            it = it[1:]
            if it and it[0] == "(":
                it = it[match_close(it, 0) + 1:]
        if len(it) < 3 or it[1] != ":" or not re.match(r"^[a-z_][a-z0-9_]*$", it[0]):
            raise Fail("struct %s: unrecognised field declaration %s" % (name, " ".join(item)))
        out.append(it[0])
    if not out:
        raise Fail("struct %s has no fields" % name)
    return out


def split_generic(toks):
    """split at commas outside (), {}, [] and <>"""
    items, cur, depth = [], [], 0
    for t in toks:
        if t in OPEN or t == "<":
            depth += 1
        elif t in CLOSE or t == ">":
            depth -= 1
        if t == "," and depth == 0:
            items.append(cur)
            cur = []
        else:
            cur.append(t)
    if cur:
        items.append(cur)
    return items


def unescape(lit):
    """Rust (byte) string or char literal -> list of code points"""
    if lit.startswith("b"):
        lit = lit[1:]
    body = lit[1:-1]
    out, i = [], 0
    while i < len(body):
        c = body[i]
        if c != "\\":
            out.append(ord(c))
            i += 1
            continue
        e = body[i + 1]
        simple = {"n": 10, "t": 9, "r": 13, "0": 0, "\\": 92, '"': 34, "'": 39}
        if e in simple:
            out.append(simple[e])
            i += 2
        elif e == "x":
            out.append(int(body[i + 2:i + 4], 16))
            i += 4
        elif e == "u":
            j = body.index("}", i)
            out.append(int(body[i + 3:j], 16))
            i = j + 1
        else:
            raise Fail("unsupported escape in literal %s" % lit)
    return out


# ----------------------------------------------------------------------------- string predicates
def parse_pexp(toks, var):
    pos = [0]

    def peek():
        return toks[pos[0]] if pos[0] < len(toks) else None

    def eat(t):
        if peek() != t:
            raise Fail("condition `%s`: expected `%s` at token %d" % (" ".join(toks), t, pos[0]))
        pos[0] += 1

    def p_or():
        e = p_and()
        while peek() == "||":
            pos[0] += 1
            e = ("POr", e, p_and())
        return e

    def p_and():
        e = p_un()
        while peek() == "&&":
            pos[0] += 1
            e = ("PAnd", e, p_un())
        return e

    def p_un():
        t = peek()
        if t == "!":
            pos[0] += 1
            return ("PNot", p_un())
        if t == "(":
            pos[0] += 1
            e = p_or()
            eat(")")
            return e
        if t == var:
            pos[0] += 1
            eat(".")
            m = peek()
            pos[0] += 1
            eat("(")
            lit = peek()
            pos[0] += 1
            eat(")")
            if lit is None or not (lit.startswith('"') or lit.startswith("'")):
                raise Fail("condition `%s`: argument of %s is not a literal" % (" ".join(toks), m))
            cps = unescape(lit)
            if m == "starts_with" and lit.startswith('"'):
                return ("PStarts", cps)
            if m == "ends_with" and lit.startswith('"'):
                return ("PEnds", cps)
            if m == "contains" and len(cps) == 1:
                return ("PContains", cps[0])
            raise Fail("condition `%s`: unsupported test %s(%s)" % (" ".join(toks), m, lit))
        raise Fail("condition `%s`: unsupported form at token %d (`%s`)" % (" ".join(toks), pos[0], t))

    e = p_or()
    if pos[0] != len(toks):
        raise Fail("condition `%s`: trailing tokens" % " ".join(toks))
    return e


def g_nums(l):
    return "[" + "; ".join(str(x) for x in l) + "]"


def g_pexp(e):
    k = e[0]
    if k in ("PStarts", "PEnds"):
        return "(%s %s)" % (k, g_nums(e[1]))
    if k == "PContains":
        return "(PContains %d)" % e[1]
    if k == "PNot":
        return "(PNot %s)" % g_pexp(e[1])
    return "(%s %s %s)" % (k, g_pexp(e[1]), g_pexp(e[2]))


def show(cps):
    return "".join(chr(c) if 32 <= c < 127 and chr(c) not in '*()' else "\\x%02x" % c for c in cps)


def parse_merge_fn(toks):
    body = fn_body(toks, "merge")
    i = find_seq(body, ["match", "key", ".", "as_str", "(", ")", "{"])
    if i < 0:
        raise Fail("merge: `match key.as_str() {` not found")
    j = i + 6
    k = match_close(body, j)
    arms = body[j + 1:k]
    # arm 1: "<literal>" => ParsedJarEntry { … },
    if not (arms and arms[0].startswith('"') and arms[1] == "=>" and arms[2] == "ParsedJarEntry" and arms[3] == "{"):
        raise Fail("merge: first arm of `match key.as_str()` is not `\"…\" => ParsedJarEntry { … }`")
    manifest_name = unescape(arms[0])
    e1 = match_close(arms, 3)
    arm1 = arms[4:e1]
    m = None
    for p in range(len(arm1) - 8):
        if arm1[p:p + 4] == ["JarEntryEnum", "::", "Other", "("] and arm1[p + 4].startswith('b"') and arm1[p + 5:p + 10] == [".", "to_vec", "(", ")", ")"]:
            if m is not None:
                raise Fail("merge: manifest arm has two byte literals")
            m = unescape(arm1[p + 4])
    if m is None:
        raise Fail("merge: manifest arm: `content: JarEntryEnum::Other(b\"…\".to_vec())` not found")
    if arm1.count("content") != 1 or arm1.count("attr") != 1:
        raise Fail("merge: manifest arm: expected exactly the fields attr and content")
    rest = arms[e1 + 1:]
    if rest and rest[0] == ",":
        rest = rest[1:]
    # arm 2: name if <cond> => { continue; },
    if not (len(rest) > 3 and re.match(r"^[a-z_]+$", rest[0]) and rest[1] == "if"):
        raise Fail("merge: second arm is not `<var> if <condition> => { continue; }`")
    var = rest[0]
    a = rest.index("=>")
    sig = parse_pexp(rest[2:a], var)
    if rest[a + 1:a + 5] != ["{", "continue", ";", "}"]:
        raise Fail("merge: second arm does not `continue`")
    rest = rest[a + 5:]
    if rest and rest[0] == ",":
        rest = rest[1:]
    # arm 3: name => match merge_combination { … }
    if not (len(rest) > 4 and rest[1] == "=>" and rest[2:4] == ["match", "merge_combination"] and rest[4] == "{"):
        raise Fail("merge: third arm is not `<var> => match merge_combination { … }`")
    var3 = rest[0]
    e3 = match_close(rest, 4)
    if [t for t in rest[e3 + 1:] if t != ","]:
        raise Fail("merge: `match key.as_str()` has more than three arms")
    inner = rest[5:e3]
    s = find_seq(inner, ["MergeCombination", "::", "Server", "(", "s", ")", "=>", "{"])
    if s < 0:
        raise Fail("merge: arm `MergeCombination::Server(s) => {` not found")
    sb = s + 7
    se = match_close(inner, sb)
    sbody = inner[sb + 1:se]
    if not sbody or sbody[0] != "if":
        raise Fail("merge: the Server arm does not start with `if <condition> { continue; }`")
    b = sbody.index("{")
    lib = parse_pexp(sbody[1:b], var3)
    if sbody[b:b + 4] != ["{", "continue", ";", "}"]:
        raise Fail("merge: the Server arm's `if` does not `continue`")
    if "continue" in sbody[b + 4:]:
        raise Fail("merge: the Server arm has a second `continue`")
    # no other `continue` anywhere in the loop (a further skip rule would be missed otherwise)
    if body.count("continue") != 2:
        raise Fail("merge: expected exactly two `continue` (signature files, bundled libraries), found %d" % body.count("continue"))
    return manifest_name, m, sig, lib


# ----------------------------------------------------------------------------- struct literals
def norm(toks):
    return " ".join(toks)


PRELUDE = norm(tokens("""
    let interfaces: Vec<_> = merge_preserve_order(&client.interfaces, &server.interfaces).collect();
    let mut ci = Vec::new();
    let mut si = Vec::new();
    for i in &interfaces {
        match (client.interfaces.contains(i), server.interfaces.contains(i)) {
            (true, false) => ci.push(*i),
            (false, true) => si.push(*i),
            _ => {},
        }
    }
"""))

INNER_CLASSES = norm(tokens("""
    {
        let inner_classes = merge_slice(
            &client.inner_classes.unwrap_or_default(),
            &server.inner_classes.unwrap_or_default(),
            |inner_class| inner_class.inner_class.clone(),
            |inner_class, _| Ok(inner_class.clone()),
            |client, server| {
                pretty_assertions::assert_eq!(client, server);
                panic!();
            }
        )?;
        if inner_classes.is_empty() {
            None
        } else {
            Some(inner_classes)
        }
    }
"""))

INV_ANNOTATIONS = norm(tokens("""
    {
        let mut x = client.runtime_invisible_annotations;

        fn make_annotation(i: &ObjClassName, side: Side) -> ElementValue {
            ElementValue::AnnotationInterface(Annotation {
                annotation_type: FieldDescriptor::from_class(ENVIRONMENT_INTERFACE),
                element_value_pairs: vec![
                    ElementValuePair {
                        name: "value".to_owned().into(),
                        value: ElementValue::Enum {
                            type_name: FieldDescriptor::from_class(ENV_TYPE),
                            const_name: match side {
                                Side::Client => "CLIENT".to_owned().into(),
                                Side::Server => "SERVER".to_owned().into(),
                            },
                        },
                    },
                    ElementValuePair {
                        name: "itf".to_owned().into(),
                        value: ElementValue::Class(FieldDescriptor::from_obj_class(i).into())
                    },
                ],
            })
        }

        let c = ci.into_iter().map(|i| make_annotation(i, Side::Client));
        let s = si.into_iter().map(|i| make_annotation(i, Side::Server));

        let array: Vec<_> = c.chain(s).collect();

        if !array.is_empty() {
            let annotation = Annotation {
                annotation_type: FieldDescriptor::from_class(ENVIRONMENT_INTERFACES),
                element_value_pairs: vec![
                    ElementValuePair {
                        name: "value".to_owned().into(),
                        value: ElementValue::ArrayType(array),
                    }
                ],
            };

            x.push(annotation);
        }

        x
    }
"""))

PERMITTED = norm(tokens("""
    match (client.permitted_subclasses, server.permitted_subclasses) {
        (None, None) => None,
        (client, server) => Some(
            merge_preserve_order(&client.unwrap_or_default(), &server.unwrap_or_default())
                .cloned()
                .collect()
        ),
    }
"""))

SIDED_ANNOTATION = norm(tokens("""
    Annotation {
        annotation_type: FieldDescriptor::from_class(ENVIRONMENT),
        element_value_pairs: vec![
            ElementValuePair {
                name: "value".to_owned().into(),
                value: ElementValue::Enum {
                    type_name: FieldDescriptor::from_class(ENV_TYPE),
                    const_name: match side {
                        Side::Client => "CLIENT".to_owned().into(),
                        Side::Server => "SERVER".to_owned().into(),
                    },
                }
            }
        ],
    }
"""))


def scalar_row(f, e):
    """e: tokens of the expression for field f (trailing comma removed) -> act name or None"""
    if e == ["client", ".", f]:
        return "AClient"
    if e == ["server", ".", f]:
        return "AServer"
    if e == ["merge_from_client", "(", "&", "client", ".", f, ",", "&", "server", ".", f, ")", "?"]:
        return "AAssertEq"
    if e == ["merge_eq", "(", "&", "client", ".", f, ",", "&", "server", ".", f, ")", "?"]:
        return "ABailEq"
    return None


def literal_rows(toks, what):
    """`f: expr, …` -> [(f, expr tokens)], base (tokens after `..`) or None"""
    rows, base = [], None
    for item in split_commas(toks):
        if not item:
            continue
        if item[0] == "..":
            if base is not None:
                raise Fail("%s: two struct bases" % what)
            base = item[1:]
            continue
        if base is not None:
            raise Fail("%s: field after the struct base" % what)
        if len(item) < 3 or item[1] != ":" or not re.match(r"^[a-z_][a-z0-9_]*$", item[0]):
            raise Fail("%s: unrecognised field initialiser `%s`" % (what, norm(item[:12])))
        rows.append((item[0], item[2:]))
    return rows, base


def members_row(f, e, struct_name, struct):
    """merge_slice(&client.f, &server.f, key, side, inner)? -> (key fields, mark list, completed sub-table)"""
    if not (e[:2] == ["merge_slice", "("] and e[-1] == "?" and match_close(e, 1) == len(e) - 2):
        return None
    args = split_commas(e[2:-2])
    if len(args) != 5:
        raise Fail("%s: merge_slice with %d arguments" % (f, len(args)))
    if args[0] != ["&", "client", ".", f] or args[1] != ["&", "server", ".", f]:
        raise Fail("%s: merge_slice is not applied to &client.%s, &server.%s" % (f, f, f))
    k = args[2]
    if not (len(k) > 4 and k[0] == "|" and k[2] == "|" and k[3] == "("):
        raise Fail("%s: unrecognised key closure `%s`" % (f, norm(k)))
    x = k[1]
    if match_close(k, 3) != len(k) - 1:
        raise Fail("%s: unrecognised key closure `%s`" % (f, norm(k)))
    key = []
    for part in split_commas(k[4:-1]):
        if not (len(part) == 7 and part[0] == x and part[1] == "." and part[3:] == [".", "clone", "(", ")"]):
            raise Fail("%s: unrecognised key component `%s`" % (f, norm(part)))
        key.append(part[2])
    s = args[3]
    if not (len(s) > 6 and s[0] == "|" and s[2] == "," and s[4] == "|" and s[5] == "{"):
        raise Fail("%s: unrecognised side closure `%s`" % (f, norm(s[:10])))
    x, sd = s[1], s[3]
    want = ["let", "mut", x, "=", x, ".", "clone", "(", ")", ";", x, ".", None, ".", "push", "(", "sided_annotation", "(", sd, ")", ")", ";", "Ok", "(", x, ")"]
    got = s[6:-1]
    if len(got) != len(want) or any(w is not None and w != g for w, g in zip(want, got)):
        raise Fail("%s: the side closure is not `clone; <list>.push(sided_annotation(side)); Ok`" % f)
    mark = got[12]
    i = args[4]
    head = ["|", "client", ",", "server", "|", "Ok", "(", struct_name, "{"]
    if i[:len(head)] != head or i[-2:] != ["}", ")"]:
        raise Fail("%s: the inner closure is not `|client, server| Ok(%s { … })`" % (f, struct_name))
    rows, base = literal_rows(i[len(head):-2], "%s inner literal" % f)
    sub, seen = [], set()
    for g, ge in rows:
        if g in seen:
            raise Fail("%s inner literal: field %s twice" % (f, g))
        if g not in struct:
            raise Fail("%s inner literal: %s is not a field of %s" % (f, g, struct_name))
        seen.add(g)
        a = scalar_row(g, ge)
        if a is None:
            raise Fail("%s inner literal: unrecognised expression for %s: `%s`" % (f, g, norm(ge[:14])))
        sub.append((g, a))
    if base == ["client", ".", "clone", "(", ")"]:
        default = "AClient"
    elif base == ["server", ".", "clone", "(", ")"]:
        default = "AServer"
    elif base is None:
        default = None
    else:
        raise Fail("%s inner literal: unrecognised struct base `%s`" % (f, norm(base)))
    for g in struct:
        if g not in seen:
            if default is None:
                raise Fail("%s inner literal: field %s of %s is not initialised" % (f, g, struct_name))
            sub.append((g, default))
    for g in key + [mark]:
        if g not in struct:
            raise Fail("%s: %s is not a field of %s" % (f, g, struct_name))
    return key, mark, sub


def parse_class_merge(toks, cls, fld, mth):
    body = fn_body(toks, "class_merger_merge")
    i = find_seq(body, ["Ok", "(", "ClassFile", "{"])
    if i < 0:
        raise Fail("class_merger_merge: `Ok(ClassFile {` not found")
    if norm(body[:i]) != PRELUDE:
        raise Fail("class_merger_merge: the statements before the struct literal (interfaces, ci, si) changed")
    j = i + 3
    k = match_close(body, j)
    if body[k + 1:] != [")"]:
        raise Fail("class_merger_merge: code after the struct literal")
    rows, base = literal_rows(body[j + 1:k], "ClassFile literal")
    if base is not None:
        raise Fail("ClassFile literal has a struct base")
    table, members, seen = [], {}, set()
    for f, e in rows:
        if f in seen:
            raise Fail("ClassFile literal: field %s twice" % f)
        seen.add(f)
        if f not in cls:
            raise Fail("ClassFile literal: %s is not a field of ClassFile" % f)
        a = scalar_row(f, e)
        if a is None and f == "interfaces" and e == tokens("interfaces.into_iter().cloned().collect()"):
            a = "AMpo"
        if a is None and f == "inner_classes" and norm(e) == INNER_CLASSES:
            a = "AInnerUnion"
        if a is None and f == "runtime_invisible_annotations" and norm(e) == INV_ANNOTATIONS:
            a = "AInvPlusItfMarks"
        if a is None and f == "permitted_subclasses" and norm(e) == PERMITTED:
            a = "AMpoOpt"
        if a is None and f in ("fields", "methods"):
            r = members_row(f, e, "Field" if f == "fields" else "Method", fld if f == "fields" else mth)
            if r is not None:
                a = "AMembers"
                members[f] = r
        if a is None:
            raise Fail("ClassFile literal: unrecognised expression for %s: `%s`" % (f, norm(e[:16])))
        table.append((f, a))
    for f in cls:
        if f not in seen:
            raise Fail("ClassFile literal: field %s of ClassFile is not initialised" % f)
    for f in ("fields", "methods"):
        if f not in members:
            raise Fail("ClassFile literal: %s is not merged by merge_slice" % f)
    return table, members


def parse_side_fns(toks):
    b = fn_body(toks, "visit_sided_annotation")
    want = ["let", "mut", "class_node", "=", "class", ".", "read", "(", ")", "?", ";", "class_node", ".", None, ".", "push", "(", "sided_annotation", "(", "side", ")", ")", ";", "Ok", "(", "class_node", ")"]
    if len(b) != len(want) or any(w is not None and w != g for w, g in zip(want, b)):
        raise Fail("visit_sided_annotation is not `read; <list>.push(sided_annotation(side)); Ok`")
    if norm(fn_body(toks, "sided_annotation")) != SIDED_ANNOTATION:
        raise Fail("sided_annotation changed (the @Environment(value = EnvType.<side>) literal)")
    return b[13]


def g_table(t):
    return "[" + "; ".join('("%s"%%string, %s)' % (f, a) for f, a in t) + "]"


def g_strings(l):
    return "[" + "; ".join('"%s"%%string' % f for f in l) + "]"


def emit(digest, cls, fld, mth, manifest_name, manifest_bytes, sig, lib, table, members, class_mark):
    o = []
    o.append("(* GENERATED by translate/c13_merge_table.py from dukebox/src/merge.rs and duke/src/tree/{class,field,method}.rs — do not edit.")
    o.append("   sha256(merge.rs) = %s *)" % digest)
    o.append("From Coq Require Import String.")
    o.append("From FB Require Import C13.Schema.")
    o.append("")
    o.append("(* fn merge: `match key.as_str()` *)")
    o.append("(* \"%s\" *)" % show(manifest_name))
    o.append("Definition g_manifest_name : str := %s." % g_nums(manifest_name))
    o.append("(* b\"%s\" *)" % show(manifest_bytes))
    o.append("Definition g_manifest_bytes : list N := %s." % g_nums(manifest_bytes))
    o.append("(* the guard of the arm that `continue`s for every side: signature files *)")
    o.append("Definition g_signature_rule : pexp := %s." % g_pexp(sig))
    o.append("(* the `if … { continue; }` of the MergeCombination::Server arm: classes the server bundles *)")
    o.append("Definition g_library_rule : pexp := %s." % g_pexp(lib))
    o.append("")
    o.append("(* duke's tree: field names in declaration order *)")
    o.append("Definition g_class_struct : list fname := %s." % g_strings(cls))
    o.append("Definition g_field_struct : list fname := %s." % g_strings(fld))
    o.append("Definition g_method_struct : list fname := %s." % g_strings(mth))
    o.append("")
    o.append("(* fn class_merger_merge: `Ok(ClassFile { … })`, in the order of the literal *)")
    o.append("Definition g_class_table : table := %s." % g_table(table))
    for f, nm in (("fields", "field"), ("methods", "method")):
        key, mark, sub = members[f]
        o.append("")
        o.append("(* %s: merge_slice key, the list the side mark is pushed onto, the `inner` literal completed by `..client.clone()` *)" % f)
        o.append("Definition g_%s_key : list fname := %s." % (nm, g_strings(key)))
        o.append('Definition g_%s_mark_list : fname := "%s"%%string.' % (nm, mark))
        o.append("Definition g_%s_table : table := %s." % (nm, g_table(sub)))
    o.append("")
    o.append("(* fn visit_sided_annotation: the list the class-level side mark is pushed onto *)")
    o.append('Definition g_class_mark_list : fname := "%s"%%string.' % class_mark)
    o.append("")
    return "\n".join(o)


def run():
    """-> list of error strings (empty = table regenerated)."""
    try:
        path = os.path.join(REPO, "dukebox", "src", "merge.rs")
        raw = open(path, encoding="utf-8").read()
        digest = hashlib.sha256(raw.encode("utf-8")).hexdigest()
        toks = tokens(strip_comments(raw))
        tree = os.path.join(REPO, "duke", "src", "tree")
        cls = struct_fields(os.path.join(tree, "class.rs"), "ClassFile")
        fld = struct_fields(os.path.join(tree, "field.rs"), "Field")
        mth = struct_fields(os.path.join(tree, "method.rs"), "Method")
        manifest_name, manifest_bytes, sig, lib = parse_merge_fn(toks)
        table, members = parse_class_merge(toks, cls, fld, mth)
        class_mark = parse_side_fns(toks)
        if class_mark not in cls:
            raise Fail("visit_sided_annotation pushes onto %s, which is not a field of ClassFile" % class_mark)
        text = emit(digest, cls, fld, mth, manifest_name, manifest_bytes, sig, lib, table, members, class_mark)
    except Fail as ex:
        return ["translate/c13_merge_table.py: " + str(ex)]
    except (OSError, ValueError, IndexError, KeyError) as ex:
        return ["translate/c13_merge_table.py failed: %r" % ex]
    os.makedirs(os.path.dirname(OUT), exist_ok=True)
    old = open(OUT).read() if os.path.exists(OUT) else None
    if old != text:
        with open(OUT, "w") as f:
            f.write(text)
    return []


if __name__ == "__main__":
    es = run()
    for e in es:
        print("ERROR:", e)
    if not es:
        print("wrote", OUT)
    sys.exit(1 if es else 0)
