#!/usr/bin/env python3
"""C18 translator: which predicate guards which checked newtype, and the literals of the predicates.

reads   <vcheck.REPO>/duke/src/macros.rs                 (make_string_str_like!: is_valid and the three TryFrom impls)
        <vcheck.REPO>/duke/src/tree/**/*.rs              (every make_string_str_like!( Owned(..); Slice(..); ) invocation
                                                          and the `fn check_valid` of `impl Owned`)
        <vcheck.REPO>/duke/src/tree/mod.rs  `mod names`  (the character constants, the excluded-character sets of
                                                          is_valid_unqualified_name / is_valid_method_name, the special
                                                          method names, the `[` / `/` literals of the class-name predicates)
writes  <vcheck.COQ>/C18/NamesGen.v

    gen_newtypes      : list (str * guard)   one row per newtype, sorted by type name: the `names::is_valid_*`
                                              function its check_valid consults (GAlways when check_valid is `Ok(())`)
    gen_unq_excluded  : list N               characters is_valid_unqualified_name excludes (sorted)
    gen_meth_excluded : list N               characters is_valid_method_name excludes (sorted)
    gen_meth_special  : list str             names is_valid_method_name accepts by `==` (sorted)
    gen_array_marker / gen_separator : list N   the char literals given to starts_with(..) / split(..) in the class-name predicates
                                              (possibly none after a rewrite: the theorem only says every one present is `[` resp. `/`)

Theorems C18_newtype_guards / C18_predicate_literals (coq/Props/C18.v) pin the expected tables, Run.v looks the
guard of every name kind up in gen_newtypes, so a changed guard breaks an obligation AND moves the model.

Fails closed (error = broken tie) when: the macro's is_valid or one of its TryFrom impls no longer goes through
check_valid (or there are more/fewer than three TryFrom impls); an invocation whose two type names cannot be read;
a newtype without `fn check_valid`; a check_valid that mentions no `is_valid_*` function and is not exactly `Ok(())`,
mentions several, or one that `mod names` does not define / the model has no guard for; a predicate whose
`matches!(c, …)` set, constants or literals cannot be resolved.  The SHAPE of check_valid (if/else, negation) and of
the predicates is NOT judged here: it is tied by the correspondence run and the oracle (every is_valid and TryFrom of
every listed newtype is executed on every generated string); an unexpected shape is a NOTE in the evidence.
"""
import os
import re
import sys

sys.path.insert(0, os.path.join(os.path.dirname(os.path.dirname(os.path.abspath(__file__))), "lib"))
import vcheck  # noqa: E402

NOTES = []
IDENT = r"[A-Za-z_][A-Za-z_0-9]*"
GUARD_OF = {
    "is_valid_class_name": "GClassName",
    "is_valid_arr_class_name": "GArrClassName",
    "is_valid_obj_class_name": "GObjClassName",
    "is_valid_unqualified_name": "GUnqualified",
    "is_valid_method_name": "GMethodName",
}


def out_path():
    return os.path.join(vcheck.COQ, "C18", "NamesGen.v")


def strip_comments(src):
    """remove // and /* */ comments; string and char literals are left alone"""
    out = []
    i, n = 0, len(src)
    while i < n:
        c = src[i]
        if c == '"':
            j = i + 1
            while j < n and src[j] != '"':
                j += 2 if src[j] == "\\" else 1
            out.append(src[i:j + 1])
            i = j + 1
        elif c == "'" and i + 2 < n and (src[i + 2] == "'" or (src[i + 1] == "\\" and i + 3 < n and src[i + 3] == "'")):
            j = i + (3 if src[i + 2] == "'" else 4)
            out.append(src[i:j])
            i = j
        elif src.startswith("//", i):
            j = src.find("\n", i)
            i = n if j < 0 else j
        elif src.startswith("/*", i):
            j = src.find("*/", i + 2)
            i = n if j < 0 else j + 2
        else:
            out.append(c)
            i += 1
    return "".join(out)


def balanced(src, i, open_c="{", close_c="}"):
    """src[i] == open_c -> index just after the matching close_c (string/char literals respected)"""
    assert src[i] == open_c
    depth = 0
    j = i
    n = len(src)
    while j < n:
        c = src[j]
        if c == '"':
            j += 1
            while j < n and src[j] != '"':
                j += 2 if src[j] == "\\" else 1
        elif c == "'" and j + 2 < n and src[j + 2] == "'":
            j += 2
        elif c == "'" and j + 3 < n and src[j + 1] == "\\" and src[j + 3] == "'":
            j += 3
        elif c == open_c:
            depth += 1
        elif c == close_c:
            depth -= 1
            if depth == 0:
                return j + 1
        j += 1
    raise ValueError("unbalanced %s" % open_c)


def flat(s):
    return re.sub(r"\s+", "", s)


def char_lit(tok):
    """'x' / '\\x' -> code point, or None"""
    m = re.fullmatch(r"'(\\?.)'", tok.strip(), re.S)
    if not m:
        return None
    t = m.group(1)
    if len(t) == 1:
        return ord(t)
    return {"\\n": 10, "\\t": 9, "\\r": 13, "\\0": 0, "\\\\": 92, "\\'": 39, '\\"': 34}.get(t)


def fn_body(src, name):
    m = re.search(r"\bfn\s+" + re.escape(name) + r"\b", src)
    if not m:
        return None
    i = src.find("{", m.end())
    if i < 0:
        return None
    return src[i:balanced(src, i)]


# ---------------------------------------------------------------- macros.rs
def check_macro(errs):
    path = os.path.join(vcheck.REPO, "duke", "src", "macros.rs")
    src = strip_comments(open(path, encoding="utf-8").read())
    m = re.search(r"macro_rules!\s*make_string_str_like\s*\{", src)
    if not m:
        errs.append("macros.rs: macro_rules! make_string_str_like not found")
        return
    body = src[m.end() - 1:balanced(src, m.end() - 1)]
    iv = fn_body(body, "is_valid")
    if iv is None:
        errs.append("macros.rs: make_string_str_like! no longer defines fn is_valid")
    else:
        f = flat(iv)
        if "check_valid(inner)" not in f or "is_ok()" not in f:
            errs.append("macros.rs: is_valid is not `check_valid(inner)…is_ok()`: %s" % f[:120])
        if "!" in f.replace("!=", ""):
            NOTES.append("macros.rs: is_valid contains a negation — shape tied by the correspondence run")
    impls = []
    for mm in re.finditer(r"impl\s*(?:<[^>]*>)?\s*TryFrom\s*<([^>]*)>\s*for\s*([^{]*)\{", body):
        blk = body[mm.end() - 1:balanced(body, mm.end() - 1)]
        impls.append((flat(mm.group(1)), flat(mm.group(2)), flat(blk)))
    want = {
        ("&'a$borrowed_inner", "&'a$borrowed"): "check_valid(value)",
        ("$owned_inner", "$owned"): "check_valid(&value)",
        ("&'a$borrowed_inner", "$owned"): None,   # may delegate to the first
    }
    seen = set()
    for src_t, dst_t, blk in impls:
        key = (src_t, dst_t)
        if key not in want:
            errs.append("macros.rs: unexpected `impl TryFrom<%s> for %s` in make_string_str_like!" % key)
            continue
        seen.add(key)
        need = want[key]
        if need is not None and need not in blk:
            errs.append("macros.rs: TryFrom<%s> for %s does not call %s" % (src_t, dst_t, need))
        if need is None and "check_valid(" not in blk and "try_from(value)" not in blk:
            errs.append("macros.rs: TryFrom<%s> for %s neither calls check_valid nor delegates to try_from(value)" % key)
        if "from_inner_unchecked" in blk and "check_valid" not in blk:
            errs.append("macros.rs: TryFrom<%s> for %s constructs the value without check_valid" % key)
    for key in want:
        if key not in seen:
            errs.append("macros.rs: make_string_str_like! has no `impl TryFrom<%s> for %s`" % key)
    # any other safe constructor would bypass the guard
    for mm in re.finditer(r"impl\s*(?:<[^>]*>)?\s*From\s*<([^>]*)>\s*for\s*([^{]*)\{", body):
        a, b = flat(mm.group(1)), flat(mm.group(2))
        if b in ("$owned", "&'a$borrowed", "$borrowed") and a in ("$owned_inner", "&'a$borrowed_inner", "$borrowed_inner"):
            errs.append("macros.rs: make_string_str_like! has an unchecked `impl From<%s> for %s`" % (a, b))


# ---------------------------------------------------------------- names
def read_names(errs):
    path = os.path.join(vcheck.REPO, "duke", "src", "tree", "mod.rs")
    src = strip_comments(open(path, encoding="utf-8").read())
    m = re.search(r"\bmod\s+names\s*\{", src)
    if not m:
        errs.append("tree/mod.rs: mod names not found")
        return None
    body = src[m.end() - 1:balanced(src, m.end() - 1)]
    consts = {}
    for mm in re.finditer(r"\bconst\s+(" + IDENT + r")\s*:\s*JavaCodePoint\s*=\s*JavaCodePoint\s*::\s*from_char\s*\(\s*('(?:\\.|[^'])')\s*\)\s*;", body):
        v = char_lit(mm.group(2))
        if v is None:
            errs.append("tree/mod.rs: cannot read the character of const %s" % mm.group(1))
        consts[mm.group(1)] = v
    fns = {}
    for mm in re.finditer(r"\bfn\s+(is_valid_" + IDENT + r")\s*\(", body):
        fns[mm.group(1)] = fn_body(body[mm.start():], mm.group(1))

    def excluded(fn, seen=()):
        """the characters a predicate singles out: the character constants of mod names it mentions, the char literals of
        its matches!(..) alternatives, and (transitively) those of the names:: predicates it calls — whatever the shape"""
        b = fns.get(fn)
        if b is None:
            errs.append("tree/mod.rs: names::%s not found" % fn)
            return set()
        cs = set()
        for name, v in consts.items():
            if v is not None and re.search(r"\b" + re.escape(name) + r"\b", b):
                cs.add(v)
        n_matches = 0
        for mm in re.finditer(r"\bmatches\s*!\s*\(", b):
            n_matches += 1
            inner = b[mm.end():balanced(b, mm.end() - 1, "(", ")") - 1]
            parts = inner.split(",", 1)
            if len(parts) != 2:
                errs.append("tree/mod.rs: %s: unreadable matches!(%s)" % (fn, inner.strip()))
                continue
            for alt in parts[1].split("|"):
                a = alt.strip()
                if a in consts and consts[a] is not None:
                    cs.add(consts[a])
                elif char_lit(a) is not None:
                    cs.add(char_lit(a))
                else:
                    errs.append("tree/mod.rs: %s: alternative %r of matches! is neither a character constant of mod names nor a char literal" % (fn, a))
        for mm in re.finditer(r"\b(is_valid_[A-Za-z_0-9]+)\b", b[b.find("{"):]):
            callee = mm.group(1)
            if callee != fn and callee in fns and callee not in seen:
                cs |= excluded(callee, seen + (fn,))
        if not seen:
            f = flat(b)
            if n_matches != 1 or "!matches!(" not in f:
                NOTES.append("tree/mod.rs: %s is not of the shape `… all(|c| !matches!(c, A | B | …))` — shape tied by the correspondence run" % fn)
            if "is_empty()" not in f:
                NOTES.append("tree/mod.rs: %s does not mention is_empty() — shape tied by the correspondence run" % fn)
            if not cs:
                errs.append("tree/mod.rs: %s mentions no character constant of mod names and no matches! set" % fn)
        return cs

    unq = sorted(excluded("is_valid_unqualified_name"))
    meth = sorted(excluded("is_valid_method_name"))
    special = []
    mb = fns.get("is_valid_method_name") or ""
    for mm in re.finditer(r'==\s*"((?:[^"\\]|\\.)*)"', mb):
        if "\\" in mm.group(1):
            errs.append("tree/mod.rs: is_valid_method_name: string literal %r uses an escape" % mm.group(1))
        special.append(mm.group(1))
    markers, seps = set(), set()
    for fn in ("is_valid_class_name", "is_valid_arr_class_name", "is_valid_obj_class_name"):
        b = fns.get(fn)
        if b is None:
            errs.append("tree/mod.rs: names::%s not found" % fn)
            continue
        for call, acc in (("starts_with", markers), ("split", seps)):
            for mm in re.finditer(r"\b" + call + r"\s*\(\s*([^)]*?)\s*\)", b):
                v = char_lit(mm.group(1))
                if v is None and mm.group(1) in consts:
                    v = consts[mm.group(1)]
                if v is None:
                    errs.append("tree/mod.rs: %s: argument %r of %s(..) is not a char literal" % (fn, mm.group(1), call))
                else:
                    acc.add(v)
    return {"fns": set(fns), "unq": unq, "meth": meth, "special": sorted(set(special)),
            "markers": sorted(markers), "seps": sorted(seps)}


# ---------------------------------------------------------------- newtypes
def read_newtypes(names_fns, errs):
    root = os.path.join(vcheck.REPO, "duke", "src", "tree")
    rows = {}
    for dirpath, _dirs, files in os.walk(root):
        for fname in sorted(files):
            if not fname.endswith(".rs"):
                continue
            path = os.path.join(dirpath, fname)
            rel = os.path.relpath(path, vcheck.REPO)
            src = strip_comments(open(path, encoding="utf-8").read())
            for mm in re.finditer(r"\bmake_string_str_like\s*!\s*\(", src):
                inner = src[mm.end():balanced(src, mm.end() - 1, "(", ")") - 1]
                inner = re.sub(r"#\s*\[[^\]]*\]", " ", inner)
                items = [x.strip() for x in inner.split(";") if x.strip()]
                ok = len(items) == 2
                tys = []
                for it in items:
                    m2 = re.fullmatch(r"(?:pub(?:\s*\([^)]*\))?\s+)?(" + IDENT + r")\s*\(\s*(" + IDENT + r")\s*\)", it)
                    if not m2:
                        ok = False
                        break
                    tys.append((m2.group(1), m2.group(2)))
                if not ok:
                    errs.append("%s: unreadable make_string_str_like!(%s)" % (rel, flat(inner)[:80]))
                    continue
                owned, owned_inner = tys[0]
                if (owned_inner, tys[1][1]) != ("JavaString", "JavaStr"):
                    errs.append("%s: %s wraps %s/%s, expected JavaString/JavaStr" % (rel, owned, owned_inner, tys[1][1]))
                    continue
                # the check_valid of `impl Owned { .. }` (same file)
                bodies = []
                for im in re.finditer(r"\bimpl\s+" + re.escape(owned) + r"\s*\{", src):
                    blk = src[im.end() - 1:balanced(src, im.end() - 1)]
                    b = fn_body(blk, "check_valid")
                    if b is not None:
                        bodies.append(b)
                if len(bodies) != 1:
                    errs.append("%s: %s: expected exactly one `fn check_valid` in `impl %s`, found %d" % (rel, owned, owned, len(bodies)))
                    continue
                f = flat(bodies[0])
                preds = sorted(set(re.findall(r"\b(is_valid_[A-Za-z_0-9]+)\s*\(", bodies[0])))
                if not preds:
                    if f != "{Ok(())}":
                        errs.append("%s: %s::check_valid consults no names::is_valid_* and is not `Ok(())`: %s" % (rel, owned, f[:100]))
                        continue
                    g = "GAlways"
                    what = "always valid (check_valid is Ok(()))"
                elif len(preds) > 1:
                    errs.append("%s: %s::check_valid consults several predicates %s" % (rel, owned, preds))
                    continue
                else:
                    p = preds[0]
                    if p not in names_fns:
                        errs.append("%s: %s::check_valid calls %s, which mod names does not define" % (rel, owned, p))
                        continue
                    if p not in GUARD_OF:
                        errs.append("%s: %s::check_valid calls names::%s, for which the model has no guard" % (rel, owned, p))
                        continue
                    g = GUARD_OF[p]
                    what = p
                    if not re.fullmatch(r"\{if(?:[a-z_]+::)*" + p + r"\(inner\)\{Ok\(\(\)\)\}else\{bail!\(.*\);?\}\}", f):
                        NOTES.append("%s: %s::check_valid is not `if %s(inner) { Ok(()) } else { bail!(..) }` — shape tied by the correspondence run" % (rel, owned, p))
                if owned in rows:
                    errs.append("%s: newtype %s defined twice" % (rel, owned))
                    continue
                rows[owned] = (g, what, rel)
    return rows


# ---------------------------------------------------------------- descriptor.rs: the letter tables
def read_descriptor_tables(errs):
    """read_field_type: which letter yields which Type / ArrayType variant, the dimension cap; write_field_type: which
    variant prints which letter, the `L` `;` `[` it pushes.  Literals only; the control flow is tied by the correspondence run."""
    path = os.path.join(vcheck.REPO, "duke", "src", "tree", "descriptor.rs")
    src = strip_comments(open(path, encoding="utf-8").read())
    rb = fn_body(src, "read_field_type")
    wb = fn_body(src, "write_field_type")
    if rb is None or wb is None:
        errs.append("descriptor.rs: fn read_field_type / fn write_field_type not found")
        return None
    consts = {}
    for mm in re.finditer(r"\bconst\s+(" + IDENT + r")\s*:\s*JavaCodePoint\s*=\s*JavaCodePoint\s*::\s*from_char\s*\(\s*('(?:\\.|[^'])')\s*\)\s*;", rb):
        consts[mm.group(1)] = char_lit(mm.group(2))

    def pat_char(p):
        p = p.strip()
        if p in consts:
            return consts[p]
        return char_lit(p)

    def variant(v, what):
        if len(v) != 1:
            errs.append("descriptor.rs: %s: variant %r is not a single letter" % (what, v))
            return None
        return ord(v)

    prims, arrs = [], []
    for mm in re.finditer(r"([A-Za-z_'\\]+)\s*=>\s*Type\s*::\s*(" + IDENT + r")\s*,", rb):
        c, v = pat_char(mm.group(1)), variant(mm.group(2), "read_field_type")
        if c is None:
            errs.append("descriptor.rs: read_field_type: pattern %r is neither a character constant nor a char literal" % mm.group(1))
        elif v is not None:
            prims.append((c, v))
    for mm in re.finditer(r"([A-Za-z_'\\]+)\s*=>\s*Type\s*::\s*Array\s*\(\s*" + IDENT + r"\s*,\s*ArrayType\s*::\s*(" + IDENT + r")\s*\)\s*,", rb):
        c, v = pat_char(mm.group(1)), variant(mm.group(2), "read_field_type")
        if c is None:
            errs.append("descriptor.rs: read_field_type: pattern %r is neither a character constant nor a char literal" % mm.group(1))
        elif v is not None:
            arrs.append((c, v))
    caps = sorted(set(int(x) for x in re.findall(r"\barray_dimension\s*(?:==|>=|>)\s*(\d+)", rb)) - {0})
    if len(caps) != 1:
        errs.append("descriptor.rs: read_field_type: expected exactly one dimension cap `array_dimension == <n>`, found %s" % caps)
    obj = sorted(set(c for c in (pat_char(x) for x in re.findall(r"([A-Za-z_'\\]+)\s*=>\s*\{", rb)) if c is not None))
    semis = sorted(set(c for c in (char_lit(x) for x in re.findall(r"!=\s*('(?:\\.|[^'])')", rb)) if c is not None))
    brs = sorted(set(c for c in (char_lit(x) for x in re.findall(r"next_if_eq\s*\(\s*&\s*('(?:\\.|[^'])')", rb)) if c is not None))
    wprims, warrs = [], []
    for mm in re.finditer(r"(?<!Array)Type\s*::\s*(" + IDENT + r")\s*=>\s*" + IDENT + r"\s*\.\s*push\s*\(\s*('(?:\\.|[^'])')\s*\)", wb):
        v, c = variant(mm.group(1), "write_field_type"), char_lit(mm.group(2))
        if v is not None and c is not None:
            wprims.append((v, c))
    for mm in re.finditer(r"ArrayType\s*::\s*(" + IDENT + r")\s*=>\s*" + IDENT + r"\s*\.\s*push\s*\(\s*('(?:\\.|[^'])')\s*\)", wb):
        v, c = variant(mm.group(1), "write_field_type"), char_lit(mm.group(2))
        if v is not None and c is not None:
            warrs.append((v, c))
    pushed = sorted(set(c for c in (char_lit(x) for x in re.findall(r"\.\s*push\s*\(\s*('(?:\\.|[^'])')\s*\)", wb)) if c is not None))
    # get_arguments_size: the letters it compares with, the slot counts it adds, the initial size
    ab = fn_body(src, "get_arguments_size")
    if ab is None:
        errs.append("descriptor.rs: fn get_arguments_size not found")
        ab = ""
    a_letters = sorted(set(c for c in (char_lit(x) for x in re.findall(r"(?:==|!=|next_if_eq\s*\(\s*&)\s*('(?:\\.|[^'])')", ab)) if c is not None))
    a_adds = sorted(set(int(x) for x in re.findall(r"\badd\s*\(\s*size\s*,\s*(\d+)\s*\)", ab)))
    a_init = sorted(set(int(x) for x in re.findall(r"\bsize\s*:\s*u8\s*=\s*(\d+)", ab)))
    if not a_letters or not a_adds or len(a_init) != 1:
        errs.append("descriptor.rs: get_arguments_size: letters %s, add(size, n) counts %s, initial size %s not all recognised" % (a_letters, a_adds, a_init))
    if "checked_add" not in ab:
        errs.append("descriptor.rs: get_arguments_size no longer uses checked_add (the model's add_u8 is an u8 checked addition)")
    for name, l in (("read_field_type plain arms", prims), ("read_field_type array arms", arrs), ("write_field_type Type arms", wprims), ("write_field_type ArrayType arms", warrs)):
        if not l:
            errs.append("descriptor.rs: no %s recognised" % name)
    return {"prims": sorted(set(prims)), "arrs": sorted(set(arrs)), "cap": caps[0] if len(caps) == 1 else 0,
            "obj": obj, "semis": semis, "brs": brs, "wprims": sorted(set(wprims)), "warrs": sorted(set(warrs)), "pushed": pushed,
            "a_letters": a_letters, "a_adds": a_adds, "a_init": a_init[0] if len(a_init) == 1 else 0}


def gstr(s):
    return "[" + ";".join(str(ord(c)) for c in s) + "]"


def gpairs(xs):
    return "[" + "; ".join("(%d, %d)" % x for x in xs) + "]"


def gnums(xs):
    return "[" + "; ".join(str(x) for x in xs) + "]"


def translate():
    del NOTES[:]
    errs = []
    try:
        check_macro(errs)
        nm = read_names(errs)
        rows = read_newtypes(nm["fns"] if nm else set(), errs) if nm else {}
        dt = read_descriptor_tables(errs)
    except (ValueError, OSError, IndexError) as ex:
        return ["C18 translator cannot read the sources: %r" % (ex,)]
    if not errs and not rows:
        errs.append("no make_string_str_like! invocation found under duke/src/tree")
    if errs:
        return errs
    text = "(* GENERATED by translate/c18_newtypes.py from duke/src/macros.rs, duke/src/tree/**/*.rs and\n"
    text += "   `mod names` of duke/src/tree/mod.rs — do not edit. *)\n"
    text += "From FB Require Export C18.Model.\n\n"
    text += "(* one row per make_string_str_like! newtype (sorted by name): the predicate its check_valid consults *)\n"
    text += "Definition gen_newtypes : list (str * guard) := [\n"
    lines = []
    for name in sorted(rows):
        g, what, rel = rows[name]
        lines.append("  (* %s <- %s  [%s] *)\n  (%s, %s)" % (name, what, rel, gstr(name), g))
    text += ";\n".join(lines)
    text += "\n].\n\n"
    text += "(* characters excluded by is_valid_unqualified_name / is_valid_method_name (sorted) *)\n"
    text += "Definition gen_unq_excluded : list N := %s.\n" % gnums(nm["unq"])
    text += "Definition gen_meth_excluded : list N := %s.\n" % gnums(nm["meth"])
    text += "(* %s *)\n" % ", ".join(nm["special"])
    text += "Definition gen_meth_special : list str := [%s].\n" % "; ".join(gstr(x) for x in nm["special"])
    text += "(* char literals of starts_with(..) / split(..) in is_valid_{,arr_,obj_}class_name *)\n"
    text += "Definition gen_array_marker : list N := %s.\n" % gnums(nm["markers"])
    text += "Definition gen_separator : list N := %s.\n" % gnums(nm["seps"])
    text += "\n(* descriptor.rs read_field_type: (letter, variant letter) of the plain arms `X => Type::V` and of the array arms\n"
    text += "   `X => Type::Array(_, ArrayType::V)`; the dimension cap; the letters that open a class name / end it / count a dimension *)\n"
    text += "Definition gen_read_prims : list (N * N) := %s.\n" % gpairs(dt["prims"])
    text += "Definition gen_read_arrs : list (N * N) := %s.\n" % gpairs(dt["arrs"])
    text += "Definition gen_max_dim : N := %d.\n" % dt["cap"]
    text += "Definition gen_obj_open : list N := %s.\n" % gnums(dt["obj"])
    text += "Definition gen_obj_close : list N := %s.\n" % gnums(dt["semis"])
    text += "Definition gen_dim_marker : list N := %s.\n" % gnums(dt["brs"])
    text += "(* write_field_type: (variant letter, letter pushed) of the `Type::V => push` and `ArrayType::V => push` arms; every char literal pushed *)\n"
    text += "Definition gen_write_prims : list (N * N) := %s.\n" % gpairs(dt["wprims"])
    text += "Definition gen_write_arrs : list (N * N) := %s.\n" % gpairs(dt["warrs"])
    text += "Definition gen_write_pushed : list N := %s.\n" % gnums(dt["pushed"])
    text += "(* get_arguments_size: the char literals it compares with, the n of its add(size, n), the initial size (u8, checked_add) *)\n"
    text += "Definition gen_args_letters : list N := %s.\n" % gnums(dt["a_letters"])
    text += "Definition gen_args_adds : list N := %s.\n" % gnums(dt["a_adds"])
    text += "Definition gen_args_init : N := %d.\n" % dt["a_init"]
    out = out_path()
    os.makedirs(os.path.dirname(out), exist_ok=True)
    old = open(out, encoding="utf-8").read() if os.path.exists(out) else None
    if old != text:
        with open(out, "w", encoding="utf-8") as f:
            f.write(text)
    return []


c18_newtypes = translate
c18_newtypes.__name__ = "c18_newtypes"

if __name__ == "__main__":
    e = translate()
    for x in e:
        print("ERROR:", x)
    for x in NOTES:
        print("NOTE:", x)
    sys.exit(1 if e else 0)
