#!/usr/bin/env python3
"""C20 translator: raw_class_file/src/lib.rs  ->  coq/C20/RawGen.v

Parses every `notation!( … )` invocation of lib.rs with the grammar of the macro's two definition
arms (raw_class_file/src/macros.rs, `struct` and `enum`) and emits one `decl` term of the deep
embedding of coq/C20/Fmt.v per struct/enum, plus the environment `raw_env`.

Fail closed: every token of every invocation must be consumed by the grammar below; any macro
form, type, pattern, guard or expression that is not recognised is an error (returned as a list
of strings; lib/vcheck.py reports them as a broken tie).  Also pinned, because the hand-written
interpreters of Fmt.v follow them: the token stream of macros.rs, of `fn pool_has_utf8`, `fn pool_get`,
`fn pool_slots` and of `impl ClassFile { to_bytes, write, read, length }`.  Every other `impl T { … }`
block must consist of exactly one `pub fn slots(&self) -> usize { match self { T::A { .. } | … => 2, _ => 1, } }`
(the variants listed get `v_wide = true`); the `slots {…}` vector form and `pool_slots(&this.f)` are
accepted only for element types that have such an impl.

Usage:  c20_raw_notation.py [--repo DIR] [--out FILE] [--print-pins]
        (defaults: vcheck.REPO and vcheck.COQ/C20/RawGen.v, i.e. env VERIF_REPO is honoured)
stdlib only.
"""
import hashlib
import os
import re
import sys

HERE = os.path.dirname(os.path.abspath(__file__))
sys.path.insert(0, os.path.join(os.path.dirname(HERE), "lib"))
import vcheck  # noqa: E402  (REPO: repository under test, COQ: Coq project to write generated files into)

DEFAULT_REPO = vcheck.REPO
DEFAULT_OUT = os.path.join(vcheck.COQ, "C20", "RawGen.v")

# sha256 of the comment-free, whitespace-normalised token streams the interpreters were written against
PINS = {
    "macros.rs": "6896e07aba4d508253242fb3fd076c690d5356f647d9c286ddc6e87af0506fea",
    "pool_has_utf8": "7639da7eb25949c443aa4b74d4817658d47da64ffad094573cb6077cdaa7a447",
    "impl ClassFile": "24e00894b0a7d0e010283b10428bb7b7dec0aed8501aa2c7e5c95d726cf3ad32",
    "pool_get": "089225b6197cf50046d2d4eea20adbb8288c8d3023f5c65cae8e35221dd1d87f",
    "pool_slots": "ff2c17649e058d0d1eb9a076b30ff9e2e4caa20e567ee087d28a97e3f7400a22",
}


class TranslateError(Exception):
    pass


# ------------------------------------------------------------------ lexer
TOKEN_RE = re.compile(r"""
    (?P<ws>\s+)
  | (?P<lcomment>//[^\n]*)
  | (?P<bcomment>/\*.*?\*/)
  | (?P<bstr>b"(?:[^"\\]|\\.)*")
  | (?P<str>"(?:[^"\\]|\\.)*")
  | (?P<bchar>b'(?:[^'\\]|\\.)')
  | (?P<num>0x[0-9a-fA-F_]+(?:u8|u16|u32|u64|usize|i32)?|[0-9][0-9_]*(?:u8|u16|u32|u64|usize|i32)?)
  | (?P<ident>r\#[A-Za-z_][A-Za-z0-9_]*|[A-Za-z_][A-Za-z0-9_]*)
  | (?P<punct>\.\.=|=>|::|->|[{}()\[\]<>,;:=@*+\-./?&\#!|'$])
""", re.X | re.S)


def lex(src, what):
    toks = []
    i = 0
    line = 1
    while i < len(src):
        m = TOKEN_RE.match(src, i)
        if not m:
            raise TranslateError("%s: line %d: cannot tokenise %r" % (what, line, src[i:i + 20]))
        kind = m.lastgroup
        text = m.group(0)
        if kind not in ("ws", "lcomment", "bcomment"):
            toks.append((kind, text, line))
        line += text.count("\n")
        i = m.end()
    return toks


def pin_of(toks):
    return hashlib.sha256(" ".join(t[1] for t in toks).encode()).hexdigest()


def matching(toks, i):
    """index of the bracket matching toks[i]"""
    open_ = toks[i][1]
    close = {"(": ")", "{": "}", "[": "]"}[open_]
    depth = 0
    for j in range(i, len(toks)):
        if toks[j][1] == open_:
            depth += 1
        elif toks[j][1] == close:
            depth -= 1
            if depth == 0:
                return j
    raise TranslateError("line %d: unbalanced %s" % (toks[i][2], open_))


# ------------------------------------------------------------------ parser
WIDTHS = {"u8": 8, "u16": 16, "u32": 32}


class P:
    def __init__(self, toks):
        self.t = toks
        self.i = 0

    def peek(self, k=0):
        return self.t[self.i + k][1] if self.i + k < len(self.t) else None

    def kind(self, k=0):
        return self.t[self.i + k][0] if self.i + k < len(self.t) else None

    def line(self):
        return self.t[min(self.i, len(self.t) - 1)][2] if self.t else 0

    def fail(self, msg):
        ctx = " ".join(x[1] for x in self.t[self.i:self.i + 8])
        raise TranslateError("lib.rs line %d: %s (at `%s`)" % (self.line(), msg, ctx))

    def eat(self, text):
        if self.peek() != text:
            self.fail("expected `%s`" % text)
        self.i += 1

    def ident(self):
        if self.kind() != "ident":
            self.fail("expected an identifier")
        s = self.peek()
        self.i += 1
        return s

    def done(self):
        return self.i >= len(self.t)


def parse_int(text):
    m = re.match(r"^(0x[0-9a-fA-F_]+|[0-9][0-9_]*?)(u8|u16|u32|u64|usize|i32)?$", text)
    body, suf = m.group(1), m.group(2)
    if body.startswith("0x") and suf is None:
        # `0x12u8`-style: the regex above is greedy on hex digits; suffixes contain no hex letter except none
        pass
    n = int(body.replace("_", ""), 0)
    bits = {None: None, "u8": 8, "u16": 16, "u32": 32, "u64": 64, "usize": 64, "i32": 31}[suf]
    return n, bits


def parse_bchar(text):
    inner = text[2:-1]
    if len(inner) == 1:
        return ord(inner)
    esc = {"\\n": 10, "\\r": 13, "\\t": 9, "\\\\": 92, "\\0": 0, "\\'": 39, '\\"': 34}
    if inner in esc:
        return esc[inner]
    m = re.match(r"^\\x([0-9a-fA-F]{2})$", inner)
    if m:
        return int(m.group(1), 16)
    raise TranslateError("unsupported byte literal %s" % text)


def parse_bstr(text):
    inner = text[2:-1]
    out = []
    i = 0
    while i < len(inner):
        c = inner[i]
        if c == "\\":
            m = re.match(r"\\x([0-9a-fA-F]{2})", inner[i:])
            if m:
                out.append(int(m.group(1), 16))
                i += 4
                continue
            esc = {"n": 10, "r": 13, "t": 9, "\\": 92, "0": 0, "'": 39, '"': 34}
            if i + 1 < len(inner) and inner[i + 1] in esc:
                out.append(esc[inner[i + 1]])
                i += 2
                continue
            raise TranslateError("unsupported escape in byte string %s" % text)
        if ord(c) > 127:
            raise TranslateError("non-ASCII byte string %s" % text)
        out.append(ord(c))
        i += 1
    return out


# Expressions.  AST: ("lit", n, bits|None) ("var", x) ("len", x) ("slots", x) ("selflen",) ("add"|"sub"|"mul", a, b)
def parse_expr(p, this):
    """sum of products over atoms; stops at the first token that cannot continue an expression"""
    def atom():
        k, t = p.kind(), p.peek()
        if k == "num":
            p.i += 1
            n, bits = parse_int(t)
            return ("lit", n, bits)
        if k == "bchar":
            p.i += 1
            return ("lit", parse_bchar(t), 8)
        if t == "*":                       # deref of a match binding: no arithmetic meaning
            p.i += 1
            if p.kind() != "ident":
                p.fail("`*` must be followed by a field name")
            return ("var", p.ident())
        if k == "ident":
            x = p.ident()
            if x == "pool_slots":            # pool_slots(&this.f): sum of slots() over the vector field f
                p.eat("("); p.eat("&")
                if this is None or p.ident() != this:
                    p.fail("pool_slots(…) is understood only as pool_slots(&<this>.<field>)")
                p.eat(".")
                m = p.ident()
                p.eat(")")
                return ("slots", m)
            if this is not None and x == this:
                p.eat(".")
                m = p.ident()
                if m == "_len":
                    p.eat("("); p.eat(")")
                    return ("selflen",)
                p.eat(".");
                if p.ident() != "len":
                    p.fail("only `.len()` is understood on a field of `%s`" % this)
                p.eat("("); p.eat(")")
                return ("len", m)
            if p.peek() == ".":
                p.eat(".")
                if p.ident() != "len":
                    p.fail("only `.len()` is understood on a field")
                p.eat("("); p.eat(")")
                return ("len", x)
            if p.peek() in ("(", "::", "!"):
                p.fail("calls and paths are not part of the understood expression language")
            return ("var", x)
        p.fail("expression form not understood")

    def product():
        a = atom()
        while p.peek() == "*":
            p.i += 1
            a = ("mul", a, atom())
        return a

    a = product()
    while p.peek() in ("+", "-"):
        op = p.peek()
        p.i += 1
        b = product()
        a = ("add" if op == "+" else "sub", a, b)
    return a


def expr_bits(e, scope, where):
    """width (bits) of the Rust integer type the expression is computed at; None = only unsuffixed literals"""
    k = e[0]
    if k == "lit":
        return e[2]
    if k == "var":
        if e[1] not in scope:
            raise TranslateError("%s: variable `%s` is not in scope" % (where, e[1]))
        ty = scope[e[1]]
        if ty not in WIDTHS:
            raise TranslateError("%s: variable `%s` of type %s used as a number" % (where, e[1], ty))
        return WIDTHS[ty]
    if k == "len":
        if e[1] not in scope:
            raise TranslateError("%s: field `%s` is not in scope" % (where, e[1]))
        if not scope[e[1]].startswith("Vec"):
            raise TranslateError("%s: `.len()` of `%s` which is not a Vec" % (where, e[1]))
        return 64
    if k == "slots":
        slots_elem(e[1], scope, where)
        return 64
    if k == "selflen":
        return 32
    a, b = expr_bits(e[1], scope, where), expr_bits(e[2], scope, where)
    if a is None:
        return b
    if b is None or a == b:
        return a
    raise TranslateError("%s: operands of different integer types (%s and %s bits)" % (where, a, b))


SLOTS = {}   # enum name -> names of the variants whose slots() is 2 (filled from the `impl T { fn slots }` blocks)


def slots_elem(x, scope, where):
    """element type of the vector field x, which must have a slots() impl"""
    if x not in scope:
        raise TranslateError("%s: field `%s` is not in scope" % (where, x))
    m = re.match(r"^Vec<(\w+)>$", scope[x])
    if not m:
        raise TranslateError("%s: pool_slots of `%s` which is not a Vec" % (where, x))
    if m.group(1) not in SLOTS:
        raise TranslateError("%s: pool_slots of a Vec<%s>, but `%s` has no `fn slots` that is understood" % (where, m.group(1), m.group(1)))
    return m.group(1)


def coq_str(s):
    return '"%s"' % s


def coq_expr(e, scope):
    k = e[0]
    if k == "lit":
        return "(ELit %d)" % e[1]
    if k == "var":
        return "(EVar %s)" % coq_str(e[1])
    if k == "len":
        return "(ELen %s)" % coq_str(e[1])
    if k == "slots":
        return "(ESlots %s %s)" % (coq_str(e[1]), coq_str(slots_elem(e[1], scope, "expression")))
    if k == "selflen":
        return "ESelfLen"
    return "(%s %s %s)" % ({"add": "EAdd", "sub": "ESub", "mul": "EMul"}[k], coq_expr(e[1], scope), coq_expr(e[2], scope))


def coq_cexpr(e, bits, scope):
    return "(CE %d %s)" % (bits, coq_expr(e, scope))


def coq_width(t):
    return {"u8": "W8", "u16": "W16", "u32": "W32"}[t]


def coq_sty(t):
    return "(Prim %s)" % coq_width(t) if t in WIDTHS else "(Named %s)" % coq_str(t)


def skip_attr(p):
    """$( #[$m:meta] )?  — attributes carry no layout"""
    if p.peek() == "#":
        p.eat("#")
        if p.peek() != "[":
            p.fail("expected `[` after `#`")
        p.i = matching(p.t, p.i) + 1


def parse_type(p, this, allow_slots):
    """$it:ident $( <$iit:tt> $([$iat:tt])? $({$l:expr})? $(slots {$sl:expr})? )?
       ->  (name, elem|None, count|None, lenexpr|None, slotsexpr|None); the `slots` form exists in the struct arm only"""
    it = p.ident()
    elem = count = lexpr = sexpr = None
    if p.peek() == "<":
        if it != "Vec":
            p.fail("generic type `%s<…>`: only Vec is understood" % it)
        p.eat("<")
        elem = p.ident()
        p.eat(">")
        if p.peek() == "[":
            p.eat("[")
            count = p.ident()
            if count not in WIDTHS:
                p.fail("count type `%s` is not u8/u16/u32" % count)
            p.eat("]")
        if p.peek() == "{":
            end = matching(p.t, p.i)
            q = P(p.t[p.i + 1:end])
            lexpr = parse_expr(q, this)
            if not q.done():
                q.fail("length expression not understood")
            p.i = end + 1
        if p.peek() == "slots":
            if not allow_slots:
                p.fail("the `slots {…}` vector form exists only in the struct arm of the macro")
            p.eat("slots")
            if p.peek() != "{":
                p.fail("expected `{` after `slots`")
            end = matching(p.t, p.i)
            q = P(p.t[p.i + 1:end])
            sexpr = parse_expr(q, this)
            if not q.done():
                q.fail("slots expression not understood")
            p.i = end + 1
        if count is not None and lexpr is not None:
            p.fail("a Vec with both a count type and a length expression (the macro would bind `len` twice)")
        if sexpr is not None and (count is not None or lexpr is not None):
            p.fail("a `slots` Vec with a count type or a length expression as well (no read rule of the macro matches)")
    elif it == "Vec":
        p.fail("Vec without element type")
    return it, elem, count, lexpr, sexpr


def type_name(t):
    it, elem, count, lexpr, sexpr = t
    return "Vec<%s>" % elem if elem is not None else it


def coq_ty(t, scope, where):
    it, elem, count, lexpr, sexpr = t
    if elem is None:
        return "(One %s)" % coq_sty(it)
    if count is not None:
        return "(Vec %s (VCount %s))" % (coq_sty(elem), coq_width(count))
    if lexpr is not None:
        bits = expr_bits(lexpr, scope, where)
        return "(Vec %s (VLen %s))" % (coq_sty(elem), coq_cexpr(lexpr, bits if bits is not None else 31, scope))
    if sexpr is not None:
        if elem not in SLOTS:
            raise TranslateError("%s: `Vec<%s> slots {…}`, but `%s` has no `fn slots` that is understood" % (where, elem, elem))
        bits = expr_bits(sexpr, scope, where)
        return "(Vec %s (VSlots %s))" % (coq_sty(elem), coq_cexpr(sexpr, bits if bits is not None else 31, scope))
    raise TranslateError("%s: Vec with neither count type nor length expression cannot be read back (the macro's `len` would be unbound)" % where)


def parse_const(p, this):
    p.eat("const")
    x = p.ident()
    p.eat(":")
    ct = p.ident()
    if ct not in WIDTHS:
        p.fail("const of type `%s`: only u8/u16/u32 are understood" % ct)
    p.eat("=")
    e = parse_expr(p, this)
    p.eat(",")
    return x, ct, e


def parse_struct(p):
    name = p.ident()
    this = None
    if p.kind() == "ident":
        this = p.ident()
    p.eat("{")
    items = []   # ("const", x, ct, e) | ("mut", x, type, setpool)
    while p.peek() != "}":
        if p.peek() == "const":
            x, ct, e = parse_const(p, this)
            items.append(("const", x, ct, e))
            continue
        skip_attr(p)
        p.eat("mut")
        x = p.ident()
        p.eat(":")
        t = parse_type(p, this, True)
        setpool = False
        if p.peek() == ";":
            p.eat(";")
            # $ps:expr — understood only as `Some(&<this field>)`
            p.eat("Some"); p.eat("("); p.eat("&")
            if p.ident() != x:
                p.fail("`; Some(&f)` must name the field just read")
            p.eat(")")
            setpool = True
        p.eat(",")
        items.append(("mut", x, t, setpool))
    p.eat("}")
    if not p.done():
        p.fail("trailing tokens after struct")
    return ("struct", name, this, items)


def parse_pattern(p):
    """$tm:pat — literal | [x @] lo..=hi | x"""
    def lit():
        k, t = p.kind(), p.peek()
        if k == "num":
            p.i += 1
            return parse_int(t)[0]
        if k == "bchar":
            p.i += 1
            return parse_bchar(t)
        p.fail("pattern literal not understood")
    if p.kind() == "ident":
        x = p.ident()
        if p.peek() == "@":
            p.eat("@")
            lo = lit()
            p.eat("..=")
            hi = lit()
            return ("range", x, lo, hi)
        return ("bind", x)
    lo = lit()
    if p.peek() == "..=":
        p.eat("..=")
        hi = lit()
        return ("range", None, lo, hi)
    return ("lit", lo)


def parse_enum(p):
    name = p.ident()
    poolvar = None
    if p.peek() == "[":
        p.eat("[")
        poolvar = p.ident()
        p.eat("]")
    p.eat("{")
    tagvar = p.ident()
    p.eat(":")
    tagty = p.ident()
    if tagty not in WIDTHS:
        p.fail("tag type `%s` is not u8/u16/u32" % tagty)
    p.eat(",")
    variants = []
    fallthrough = False
    while p.peek() != "}":
        if p.peek() == "_":
            # $( _ { $fm:pat => $f:expr, }, )?   understood only as   _ { x => Err(…), },
            p.eat("_"); p.eat("{")
            p.ident()
            p.eat("=>")
            p.eat("Err")
            if p.peek() != "(":
                p.fail("fall-through arm must be `x => Err(…)`")
            p.i = matching(p.t, p.i) + 1
            p.eat(","); p.eat("}"); p.eat(",")
            fallthrough = True
            if p.peek() != "}":
                p.fail("the fall-through arm must be last")
            break
        skip_attr(p)
        vname = p.ident()
        this = None
        if p.kind() == "ident":
            this = p.ident()
        p.eat("{")
        p.eat("=")
        tagw = parse_expr(p, this)
        p.eat("=>")
        pat = parse_pattern(p)
        guard = None
        if p.peek() == "if":
            p.eat("if")
            # understood only as  pool_has_utf8(<poolvar>, <expr>, b"…")?
            if p.ident() != "pool_has_utf8":
                p.fail("guard not understood (only pool_has_utf8(pool, index, b\"…\")? is)")
            p.eat("(")
            pv = p.ident()
            if poolvar is None or pv != poolvar:
                p.fail("guard uses `%s`, the enum binds the pool as `%s`" % (pv, poolvar))
            p.eat(",")
            idx = parse_expr(p, None)
            p.eat(",")
            if p.kind() != "bstr":
                p.fail("third argument of pool_has_utf8 must be a byte string literal")
            s = parse_bstr(p.peek())
            text = p.peek()
            p.i += 1
            p.eat(")"); p.eat("?")
            guard = (idx, s, text)
        p.eat(",")
        items = []   # ("const", x, ct, e) | ("mut", x, type, nowrite_expr|None)
        while p.peek() != "}":
            if p.peek() == "const":
                x, ct, e = parse_const(p, this)
                items.append(("const", x, ct, e))
                continue
            skip_attr(p)
            p.eat("mut")
            x = p.ident()
            p.eat(":")
            t = parse_type(p, this, False)
            nw = None
            if p.kind() == "ident":
                kw = p.ident()        # $nw:ident — any identifier; lib.rs writes `nowrite`
                p.eat("=")
                nw = parse_expr(p, this)
                if t[1] is not None or t[0] not in WIDTHS:
                    p.fail("`%s = …` on a field that is not u8/u16/u32" % kw)
            p.eat(",")
            items.append(("mut", x, t, nw))
        p.eat("}")
        p.eat(",")
        variants.append((vname, this, tagw, pat, guard, items))
    p.eat("}")
    if not p.done():
        p.fail("trailing tokens after enum")
    return ("enum", name, poolvar, tagvar, tagty, variants, fallthrough)


def parse_invocation(toks):
    p = P(toks)
    skip_attr(p)
    kw = p.ident()
    if kw == "struct":
        return parse_struct(p)
    if kw == "enum":
        return parse_enum(p)
    p.fail("notation!( … ) must declare a struct or an enum")


# ------------------------------------------------------------------ emission
def emit_struct(d, out):
    _, name, this, items = d
    where = "struct %s" % name
    wscope = {x: type_name(t) for (k, x, t, *_r) in items if k == "mut"}   # what `this.f` sees when writing
    rscope = {}                                                            # what has been bound when reading
    fields = []
    for it in items:
        if it[0] == "const":
            _, x, ct, e = it
            bits = expr_bits(e, wscope, "%s const %s" % (where, x))
            fields.append("FConst %s %s %s" % (coq_str(x), coq_width(ct), coq_cexpr(e, bits if bits is not None else WIDTHS[ct], wscope)))
            rscope[x] = ct
        else:
            _, x, t, setpool = it
            fields.append("FMut %s %s None %s" % (coq_str(x), coq_ty(t, rscope, "%s field %s" % (where, x)), "true" if setpool else "false"))
            rscope[x] = type_name(t)
    out.append("Definition d_%s : decl := DStruct [\n    %s\n  ]." % (name, ";\n    ".join(fields)))


def emit_enum(d, out):
    _, name, poolvar, tagvar, tagty, variants, fallthrough = d
    vs = []
    for (vname, this, tagw, pat, guard, items) in variants:
        where = "enum %s variant %s" % (name, vname)
        wscope = {x: type_name(t) for (k, x, t, *_r) in items if k == "mut"}
        tb = expr_bits(tagw, wscope, where + " tag")
        rscope = {tagvar: tagty}
        if pat[0] == "lit":
            cpat = "(PLit %d)" % pat[1]
        elif pat[0] == "range":
            cpat = "(PRange %s %d %d)" % ("(Some %s)" % coq_str(pat[1]) if pat[1] else "None", pat[2], pat[3])
            if pat[1]:
                rscope[pat[1]] = tagty
        else:
            cpat = "(PBind %s)" % coq_str(pat[1])
            rscope[pat[1]] = tagty
        if guard is None:
            cguard = "GNone"
        else:
            idx, s, text = guard
            ib = expr_bits(idx, rscope, where + " guard")
            if ib != 16:
                raise TranslateError("%s: pool index in the guard is not a u16" % where)
            cguard = "(GPoolUtf8 %s [%s]) (* %s *)" % (coq_cexpr(idx, ib, rscope), ";".join(str(b) for b in s), text[1:])
        fields = []
        for it in items:
            if it[0] == "const":
                _, x, ct, e = it
                bits = expr_bits(e, wscope, "%s const %s" % (where, x))
                fields.append("FConst %s %s %s" % (coq_str(x), coq_width(ct), coq_cexpr(e, bits if bits is not None else WIDTHS[ct], wscope)))
                rscope[x] = ct
            else:
                _, x, t, nw = it
                if nw is not None:
                    nb = expr_bits(nw, rscope, "%s field %s nowrite" % (where, x))
                    if nb is not None and nb != WIDTHS[t[0]]:
                        raise TranslateError("%s field %s: nowrite expression of another integer type" % (where, x))
                    cnw = "(Some %s)" % coq_cexpr(nw, WIDTHS[t[0]], rscope)
                else:
                    cnw = "None"
                fields.append("FMut %s %s %s false" % (coq_str(x), coq_ty(t, rscope, "%s field %s" % (where, x)), cnw))
                rscope[x] = type_name(t)
        vs.append("Variant %s %s %s\n      %s\n      [%s] %s" % (
            coq_str(vname), coq_cexpr(tagw, tb if tb is not None else WIDTHS[tagty], wscope), cpat, cguard,
            ";\n       ".join(fields), "true" if vname in SLOTS.get(name, []) else "false"))
    out.append("Definition d_%s : decl := DEnum %s %s [\n    %s\n  ] %s." % (
        name, coq_str(tagvar), coq_width(tagty), ";\n    ".join(vs), "true" if fallthrough else "false"))


def parse_slots_impl(toks):
    """impl T { pub fn slots(&self) -> usize { match self { T::A { .. } | T::B { .. } => 2, _ => 1, } } }
       -> (T, [A, B]); anything else in an impl block is not understood"""
    p = P(toks)
    p.eat("impl")
    name = p.ident()
    p.eat("{")
    p.eat("pub"); p.eat("fn")
    if p.ident() != "slots":
        p.fail("impl %s: only `pub fn slots(&self) -> usize` is understood in an impl block" % name)
    p.eat("("); p.eat("&"); p.eat("self"); p.eat(")"); p.eat("->"); p.eat("usize")
    p.eat("{"); p.eat("match"); p.eat("self"); p.eat("{")
    wide = []
    while True:
        if p.ident() != name:
            p.fail("impl %s: pattern of another type" % name)
        p.eat("::")
        wide.append(p.ident())
        p.eat("{"); p.eat("."); p.eat("."); p.eat("}")
        if p.peek() == "|":
            p.eat("|")
            continue
        break
    p.eat("=>")
    if p.kind() != "num" or parse_int(p.peek()) != (2, None):
        p.fail("impl %s: the listed variants must take 2 slots" % name)
    p.i += 1
    p.eat(","); p.eat("_"); p.eat("=>")
    if p.kind() != "num" or parse_int(p.peek()) != (1, None):
        p.fail("impl %s: every other variant must take 1 slot" % name)
    p.i += 1
    p.eat(","); p.eat("}"); p.eat("}"); p.eat("}")
    if not p.done():
        p.fail("impl %s: trailing tokens" % name)
    if len(set(wide)) != len(wide):
        p.fail("impl %s: a variant is listed twice" % name)
    return name, wide


def extract_fn(toks, start_pred, what):
    """token slice of an item starting where start_pred(i) holds and ending at its closing brace"""
    for i in range(len(toks)):
        if start_pred(i):
            j = i
            while toks[j][1] != "{":
                j += 1
            return toks[i:matching(toks, j) + 1]
    raise TranslateError("lib.rs: `%s` not found" % what)


def translate(repo=DEFAULT_REPO, out_path=DEFAULT_OUT, print_pins=False):
    errors = []
    lib_path = os.path.join(repo, "raw_class_file", "src", "lib.rs")
    mac_path = os.path.join(repo, "raw_class_file", "src", "macros.rs")
    try:
        lib = lex(open(lib_path, encoding="utf-8").read(), "lib.rs")
        mac = lex(open(mac_path, encoding="utf-8").read(), "macros.rs")
    except (OSError, TranslateError) as ex:
        return ["cannot read/tokenise the sources: %s" % ex]

    # pinned hand-modelled parts
    pins = {}
    try:
        pins["macros.rs"] = pin_of(mac)
        pins["pool_has_utf8"] = pin_of(extract_fn(lib, lambda i: lib[i][1] == "fn" and lib[i + 1][1] == "pool_has_utf8", "fn pool_has_utf8"))
        pins["impl ClassFile"] = pin_of(extract_fn(lib, lambda i: lib[i][1] == "impl" and lib[i + 1][1] == "ClassFile", "impl ClassFile"))
        pins["pool_get"] = pin_of(extract_fn(lib, lambda i: lib[i][1] == "fn" and lib[i + 1][1] == "pool_get", "fn pool_get"))
        pins["pool_slots"] = pin_of(extract_fn(lib, lambda i: lib[i][1] == "fn" and lib[i + 1][1] == "pool_slots", "fn pool_slots"))
    except TranslateError as ex:
        errors.append(str(ex))
    if print_pins:
        for k, v in pins.items():
            print(k, v)
    for k, v in pins.items():
        if PINS[k] != v:
            errors.append("%s changed (token hash %s…, the interpreters of coq/C20/Fmt.v were written against %s…): the hand-written model of it must be re-validated" % (k, v[:12], PINS[k][:12]))

    # every impl block other than `impl ClassFile`: a slots() table
    SLOTS.clear()
    i = 0
    while i < len(lib):
        if lib[i][1] == "impl" and i + 1 < len(lib) and lib[i + 1][1] == "ClassFile":
            j = i                       # pinned as a whole above (its bodies mention `impl Trait` types)
            while j < len(lib) and lib[j][1] != "{":
                j += 1
            try:
                i = matching(lib, j) + 1
                continue
            except (TranslateError, IndexError) as ex:
                errors.append("lib.rs line %d: impl ClassFile: %s" % (lib[i][2], ex))
        elif lib[i][1] == "impl":
            try:
                j = i
                while lib[j][1] != "{":
                    j += 1
                end = matching(lib, j)
                name, wide = parse_slots_impl(lib[i:end + 1])
                if name in SLOTS:
                    raise TranslateError("lib.rs line %d: second impl block for `%s`" % (lib[i][2], name))
                SLOTS[name] = wide
                i = end + 1
                continue
            except (TranslateError, IndexError) as ex:
                errors.append("lib.rs line %d: impl block not understood: %s" % (lib[i][2], ex))
        i += 1

    # every notation!( … )
    decls = []
    i = 0
    while i < len(lib):
        if lib[i][1] == "notation" and i + 2 < len(lib) and lib[i + 1][1] == "!":
            if lib[i + 2][1] != "(":
                errors.append("lib.rs line %d: notation! with another delimiter" % lib[i][2])
                i += 1
                continue
            end = matching(lib, i + 2)
            try:
                decls.append(parse_invocation(lib[i + 3:end]))
            except TranslateError as ex:
                errors.append(str(ex))
            i = end + 1
        else:
            i += 1
    if not decls and not errors:
        errors.append("lib.rs: no notation!( … ) invocation found")

    # a slots() table must belong to a declared enum and name its variants
    for tn, wide in sorted(SLOTS.items()):
        ds = [d for d in decls if d[1] == tn]
        if not ds or ds[0][0] != "enum":
            errors.append("impl %s { fn slots }: `%s` is not an enum declared with notation!" % (tn, tn))
            continue
        vnames = [v[0] for v in ds[0][5]]
        for w in wide:
            if w not in vnames:
                errors.append("impl %s { fn slots }: `%s` is not a variant of `%s`" % (tn, w, tn))

    names = [d[1] for d in decls]
    if len(set(names)) != len(names):
        errors.append("duplicate declaration names: %s" % sorted(n for n in names if names.count(n) > 1))
    out = []
    for d in decls:
        try:
            (emit_struct if d[0] == "struct" else emit_enum)(d, out)
        except TranslateError as ex:
            errors.append(str(ex))
    # every Named type that is used is declared
    used = set()
    for d in decls:
        groups = [d[3]] if d[0] == "struct" else [v[5] for v in d[5]]
        for items in groups:
            for it in items:
                if it[0] == "mut":
                    t = it[2]
                    n = t[1] if t[1] is not None else t[0]
                    if n not in WIDTHS:
                        used.add(n)
    for n in sorted(used - set(names)):
        errors.append("type `%s` is used in a declaration but not declared with notation!" % n)
    if errors:
        return errors

    text = "(* GENERATED by translate/c20_raw_notation.py from raw_class_file/src/lib.rs — do not edit.\n"
    text += "   One [decl] per notation!( … ) invocation, in source order. *)\n"
    text += "From FB Require Import C20.Fmt.\nLocal Open Scope N_scope.\nLocal Open Scope string_scope.\n\n"
    text += "\n\n".join(out)
    text += "\n\nDefinition raw_env : denv := [\n  %s\n]." % ";\n  ".join("(%s, d_%s)" % (coq_str(n), n) for n in names)
    text += "\n"
    old = None
    try:
        old = open(out_path, encoding="utf-8").read()
    except OSError:
        pass
    if old != text:
        os.makedirs(os.path.dirname(out_path), exist_ok=True)
        with open(out_path + ".tmp", "w", encoding="utf-8") as f:
            f.write(text)
        os.replace(out_path + ".tmp", out_path)
    return []


def run():
    """entry point used by props/c20.py"""
    return translate()


if __name__ == "__main__":
    repo, outp, pp = DEFAULT_REPO, DEFAULT_OUT, False
    a = sys.argv[1:]
    while a:
        if a[0] == "--repo":
            repo = a[1]; a = a[2:]
        elif a[0] == "--out":
            outp = a[1]; a = a[2:]
        elif a[0] == "--print-pins":
            pp = True; a = a[1:]
        else:
            print(__doc__); sys.exit(2)
    errs = translate(repo, outp, pp)
    for e in errs:
        print("ERROR:", e)
    sys.exit(1 if errs else 0)
