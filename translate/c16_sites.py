#!/usr/bin/env python3
"""C16 translator: inventory of the operations of the parsers' source that can panic, abort or not return.

reads   <vcheck.REPO>/quill/src/lines.rs  tiny_v2.rs  tiny_v2_diff.rs  enigma_file.rs  dukenest/src/io.rs   (reader parts)
        <vcheck.REPO>/duke/src/simple_class_writer.rs  simple_class_writer/{labels,pool}.rs  duke/src/lib.rs (write_usize_as_*)
        <vcheck.REPO>/duke/src/class_reader.rs   (the element_value readers and their `nesting` arguments)
        the class reader's own files: duke/src/class_reader.rs  class_reader/{pool,labels}.rs  lib.rs (ClassRead, read_class*)
        jstring.rs (from_vec_to_string)  macros.rs  tree/descriptor.rs (read_field_type, the parse functions)  tree/mod.rs (mod names)
        tree/method/code.rs (from_atype)  visitor/implementations/{tree,unit_tuple}.rs
writes  <vcheck.COQ>/C16/SitesGen.v

For every function in scope it lists, from the token stream (comments and literals removed):
  slice / index expressions `x[..]`, `.unwrap()` / `.expect()` and friends, panicking macros, `unsafe`,
  binary integer arithmetic (+ - * / % << >> and the compound assignments), `as <numeric type>` casts,
  calls with a precondition or an allocation argument (from_str_radix, split_at, with_capacity, repeat, ...),
  `while` / `loop` loops with their condition, and recursive calls with their arguments;
for the class writer (and the class reader) additionally every `uN::try_from` / `.try_into()` / `write_usize_as_uN` /
  `checked_*` call site;
and every placeholder of every formatting macro (`anyhow!`, `bail!`, `format!`, `write!`, ...): `display EXPR` for `{}`
  (the Display impl of the argument runs: the name / descriptor newtypes of duke return fmt::Error on an unpaired
  surrogate, which makes `format!` panic), `debug EXPR` for `{:?}`, `format:<spec> EXPR` for the other traits; every
  construction of `fmt::Error` (`fallible-fmt`); every `.to_string()` (listed as `display E (to_string)`).  For the class reader all of them are listed, for the text readers and
  the class writer the `display` / `format:` ones (and `fallible-fmt`).
The lists are sorted (moving code around is not a change), one entry per occurrence.
coq/C16/TheorySites.v states what the model does with each entry and proves that the generated lists are the
modelled ones, so a new slice, cast, unwrap, arithmetic operation, loop or recursive call in these functions
breaks an obligation of the check.

Fails closed: a scope (file, function, module) that is not found, an unbalanced brace, or an element_value
reader whose recursive calls do not have the recognised shape is an error of the check.
"""
import os
import re
import sys

sys.path.insert(0, os.path.join(os.path.dirname(os.path.dirname(os.path.abspath(__file__))), "lib"))
import vcheck  # noqa: E402

NUM_TYPES = "u8|u16|u32|u64|u128|usize|i8|i16|i32|i64|i128|isize|f32|f64|char"


def strip_source(src):
    """comments -> spaces, string/char literals -> placeholder tokens; newlines kept"""
    out = []
    i, n = 0, len(src)
    while i < n:
        c = src[i]
        if src.startswith("//", i):
            j = src.find("\n", i)
            j = n if j < 0 else j
            i = j
            continue
        if src.startswith("/*", i):
            depth, j = 1, i + 2
            while j < n and depth:
                if src.startswith("/*", j):
                    depth += 1
                    j += 2
                elif src.startswith("*/", j):
                    depth -= 1
                    j += 2
                else:
                    if src[j] == "\n":
                        out.append("\n")
                    j += 1
            i = j
            continue
        m = re.match(r'b?r(#*)"', src[i:])
        if m and (i == 0 or not (src[i - 1].isalnum() or src[i - 1] == "_")):
            hashes = m.group(1)
            end = src.find('"' + hashes, i + len(m.group(0)))
            if end < 0:
                raise ValueError("unterminated raw string")
            out.append("STRLIT" + "\n" * src.count("\n", i, end))
            i = end + 1 + len(hashes)
            continue
        if c == '"' or (c == "b" and i + 1 < n and src[i + 1] == '"' and (i == 0 or not (src[i - 1].isalnum() or src[i - 1] == "_"))):
            j = i + (2 if c == "b" else 1)
            while j < n and src[j] != '"':
                j += 2 if src[j] == "\\" else 1
            if j >= n:
                raise ValueError("unterminated string literal")
            out.append("STRLIT" + "\n" * src.count("\n", i, j))
            i = j + 1
            continue
        if c == "'":
            m = re.match(r"'(\\x[0-9a-fA-F]{2}|\\u\{[0-9a-fA-F_]+\}|\\.|[^\\'\n])'", src[i:])
            if m:
                out.append("CHARLIT")
                i += len(m.group(0))
                continue
            # a lifetime
            out.append(c)
            i += 1
            continue
        out.append(c)
        i += 1
    return "".join(out)


def match_close(s, i, open_ch, close_ch):
    """index of the bracket closing the one at s[i]"""
    depth = 0
    for j in range(i, len(s)):
        if s[j] == open_ch:
            depth += 1
        elif s[j] == close_ch:
            depth -= 1
            if depth == 0:
                return j
    raise ValueError("unbalanced %s" % open_ch)


def functions(s):
    """[(name, sig_start, body_open, body_close)] for every `fn name ... { ... }` (declarations without body skipped)"""
    res = []
    for m in re.finditer(r"\bfn\s+(\w+)", s):
        j = m.end()
        depth = 0
        body = None
        while j < len(s):
            ch = s[j]
            if ch in "(<[":
                depth += 1
            elif ch in ")]":
                depth -= 1
            elif ch == ">" and s[j - 1] != "-" and s[j - 1] != "=":
                depth -= 1
            elif ch == "{" and depth <= 0:
                body = j
                break
            elif ch == ";" and depth <= 0:
                break
            j += 1
        if body is None:
            continue
        res.append((m.group(1), m.start(), body, match_close(s, body, "{", "}")))
    return res


def norm(t):
    t = re.sub(r"\s+", " ", t.strip())
    t = re.sub(r"\s*([\(\)\[\],])\s*", r"\1", t)
    return t.replace(",", ", ")


def operand_left(s, i):
    """the postfix expression that ends just before s[i] (identifiers, paths, field accesses, calls, indexing)"""
    j = i
    while j > 0:
        ch = s[j - 1]
        if ch.isalnum() or ch in "_.:?":
            j -= 1
        elif ch == ")":
            j = rmatch_open(s, j - 1, "(", ")")
        elif ch == "]":
            j = rmatch_open(s, j - 1, "[", "]")
        else:
            break
    return s[j:i]


def rmatch_open(s, i, open_ch, close_ch):
    depth = 0
    for j in range(i, -1, -1):
        if s[j] == close_ch:
            depth += 1
        elif s[j] == open_ch:
            depth -= 1
            if depth == 0:
                return j
    raise ValueError("unbalanced %s" % close_ch)


def operand_right(s, i):
    """the operand that starts at s[i] (prefix operators, then a postfix expression)"""
    j = i
    while j < len(s) and s[j] in "-!&*":
        j += 1
    while j < len(s):
        ch = s[j]
        if ch.isalnum() or ch in "_.:?":
            j += 1
        elif ch == "(":
            j = match_close(s, j, "(", ")") + 1
        elif ch == "[":
            j = match_close(s, j, "[", "]") + 1
        else:
            break
    return s[i:j]


PANIC_CALLS = r"\.(unwrap|expect|unwrap_err|expect_err|unwrap_unchecked|get_unchecked|get_unchecked_mut|borrow|borrow_mut|split_at|split_at_mut|swap_remove|drain|copy_from_slice|swap|reserve|reserve_exact|repeat|step_by|chunks|chunks_exact|windows|rotate_left|rotate_right|abs|pow|div_euclid|rem_euclid)\s*\("
PRE_CALLS = r"\b(from_str_radix|with_capacity|from_utf8_unchecked|from_u32_unchecked|from_raw_parts|transmute|from_digit|to_digit)\s*\("
MACROS = r"\b(panic|unreachable|todo|unimplemented|assert|assert_eq|assert_ne|debug_assert|debug_assert_eq|debug_assert_ne)!"


def scan_body(s, lo, hi, fname, writer):
    """sites of s[lo:hi] (a function body with the bodies of nested functions blanked)"""
    t = s[lo:hi]
    sites = []
    # slice / index expressions
    for m in re.finditer(r"(?<=[\w\)\]\?])\[", t):
        i = m.start()
        close = match_close(t, i, "[", "]")
        base = operand_left(t, i)
        if base.endswith("!") or base in ("vec", "matches"):
            continue
        sites.append("index %s[%s]" % (norm(base), norm(t[i + 1:close])))
    for m in re.finditer(PANIC_CALLS, t):
        close = match_close(t, m.end() - 1, "(", ")")
        sites.append("call %s.%s(%s)" % (norm(operand_left(t, m.start())), m.group(1), norm(t[m.end():close])))
    for m in re.finditer(PRE_CALLS, t):
        close = match_close(t, m.end() - 1, "(", ")")
        pre = operand_left(t, m.start())
        sites.append("call %s%s(%s)" % (norm(pre), m.group(1), norm(t[m.end():close])))
    for m in re.finditer(r"\.read_vec\s*\(", t):
        # ClassRead::read_vec(get_size, get_element) allocates `get_size` elements up front
        close = match_close(t, m.end() - 1, "(", ")")
        depth, j = 0, m.end()
        while j < close and not (t[j] == "," and depth == 0):
            depth += t[j] in "([{"
            depth -= t[j] in ")]}"
            j += 1
        sites.append("alloc read_vec(%s, ..)" % norm(t[m.end():j]))
    for m in re.finditer(r"\.(visit_annotable_parameter_count|visit_parameter_annotation)\s*\(", t):
        sites.append("call .%s() (todo! in the tree-building visitors)" % m.group(1))
    for m in re.finditer(r"\bvec!\s*\[", t):
        close = match_close(t, m.end() - 1, "[", "]")
        inner = t[m.end():close]
        if ";" in inner:
            sites.append("alloc vec![%s]" % norm(inner))
    for m in re.finditer(MACROS, t):
        sites.append("macro %s!" % m.group(1))
    for m in re.finditer(r"\bunsafe\b", t):
        sites.append("unsafe")
    # binary arithmetic (operators surrounded by operands; `->`, `=>`, references, dereferences and unary minus are not)
    for m in re.finditer(r"(?<=[\w\)\]\?])(\s*)(<<=|>>=|\+=|-=|\*=|/=|%=|<<|>>|\+|-|\*|/|%)(\s*)(?=[\w\(\-!&\*])", t):
        op = m.group(2)
        after = t[m.end():m.end() + 1]
        if op == "-" and after == ">":
            continue
        if op in ("<<", ">>") and not (m.group(1) and m.group(3)):
            continue  # generics
        if op in ("*", "&") and not m.group(1) and m.group(3):
            continue
        left = operand_left(t, m.start())
        if left in ("", "as", "return", "in", "if", "match", "else", "mut", "move", "where", "dyn", "impl") or left.endswith("=>"):
            continue
        right = operand_right(t, m.end())
        sites.append("arith %s %s %s" % (norm(left), op, norm(right)))
    for m in re.finditer(r"\bas\s+(%s)\b" % NUM_TYPES, t):
        sites.append("cast %s as %s" % (norm(operand_left(t, m.start()).rstrip() or operand_left(t, m.start() - 1)), m.group(1)))
    for m in re.finditer(r"\b(while|loop)\b([^{]*)\{", t):
        sites.append("loop %s %s" % (m.group(1), norm(m.group(2))) if m.group(2).strip() else "loop %s" % m.group(1))
    for m in re.finditer(r"(?<![\w\.:])(?:Self::|self\.)?%s\s*\(" % re.escape(fname), t):
        close = match_close(t, m.end() - 1, "(", ")")
        sites.append("recursion %s(%s)" % (fname, norm(t[m.end():close])))
    if writer:
        for m in re.finditer(r"\b(u8|u16|u32|u64|usize|i8|i16|i32|i64)::try_from\s*\(", t):
            close = match_close(t, m.end() - 1, "(", ")")
            sites.append("checked %s::try_from(%s)" % (m.group(1), norm(t[m.end():close])))
        for m in re.finditer(r"\.try_into\s*\(\)", t):
            sites.append("checked %s.try_into()" % norm(operand_left(t, m.start())))
        for m in re.finditer(r"\.(write_usize_as_u\d+)\s*\(", t):
            close = match_close(t, m.end() - 1, "(", ")")
            sites.append("checked %s(%s)" % (m.group(1), norm(t[m.end():close])))
        for m in re.finditer(r"\.(checked_add|checked_sub|checked_mul|checked_add_signed)\s*\(", t):
            close = match_close(t, m.end() - 1, "(", ")")
            sites.append("checked %s.%s(%s)" % (norm(operand_left(t, m.start())), m.group(1), norm(t[m.end():close])))
    return sites


def scope_sites(path_rel, src, scopes, writer, errs):
    """scopes: None (whole file) or a list of 'fn:NAME' / 'mod:NAME' / 'item:REGEX' (the brace block of the matching item)"""
    s = strip_source(src)
    fns = functions(s)
    ranges = scope_ranges(path_rel, s, fns, scopes, errs)
    tests = [(m.start(), match_close(s, s.index("{", m.end() - 1), "{", "}")) for m in re.finditer(r"#\[cfg\(test\)\]\s*mod\s+\w+\s*\{", s)] if writer == "reader" else []
    out = []
    for (name, sig, body, close) in fns:
        if not any(lo <= sig and close < hi for lo, hi in ranges):
            continue
        if any(lo <= sig and close <= hi for lo, hi in tests):
            continue
        # blank the nested functions (they are listed on their own)
        t = s
        for (n2, sig2, body2, close2) in fns:
            if body < sig2 and close2 < close:
                t = t[:sig2] + " " * (close2 + 1 - sig2) + t[close2 + 1:]
        for site in scan_body(t, body, close + 1, name, bool(writer)):
            out.append(("%s::%s" % (path_rel, name), site))
    counted = {}
    for k in out:
        counted[k] = counted.get(k, 0) + 1
    return sorted((a, b, n) for (a, b), n in counted.items())


def call_cycles(path_rel, src, errs):
    """strongly connected components (size > 1) of the call graph of the functions of one file: mutual recursion"""
    s = strip_source(src)
    fns = functions(s)
    names = sorted(set(f[0] for f in fns))
    graph = {n: set() for n in names}
    for (name, sig, body, close) in fns:
        t = s[body:close + 1]
        for (n2, sig2, body2, close2) in fns:
            if body < sig2 and close2 < close:
                t = t.replace(s[sig2:close2 + 1], " ")
        for callee in names:
            if re.search(r"(?<!fn )\b%s\s*\(" % re.escape(callee), t):  # liberal: through `self.`, a path or any receiver
                graph[name].add(callee)
    # Tarjan
    index, low, onstack, stack, comps = {}, {}, set(), [], []

    def visit(v):
        index[v] = low[v] = len(index)
        stack.append(v)
        onstack.add(v)
        for w in sorted(graph[v]):
            if w not in index:
                visit(w)
                low[v] = min(low[v], low[w])
            elif w in onstack:
                low[v] = min(low[v], index[w])
        if low[v] == index[v]:
            comp = []
            while True:
                w = stack.pop()
                onstack.discard(w)
                comp.append(w)
                if w == v:
                    break
            if len(comp) > 1:
                comps.append(sorted(comp))
    for v in names:
        if v not in index:
            visit(v)
    return [("%s::%s" % (path_rel, c[0]), "mutual-recursion " + " <-> ".join(c), 1) for c in sorted(comps)]


def mask_source(src):
    """same length as src: comments and the contents of string literals blanked, char literals -> '_' (newlines kept)"""
    out = list(src)
    i, n = 0, len(src)

    def blank(a, b):
        for k in range(a, b):
            if out[k] != "\n":
                out[k] = " "
    while i < n:
        c = src[i]
        if src.startswith("//", i):
            j = src.find("\n", i)
            j = n if j < 0 else j
            blank(i, j)
            i = j
            continue
        if src.startswith("/*", i):
            depth, j = 1, i + 2
            while j < n and depth:
                if src.startswith("/*", j):
                    depth += 1
                    j += 2
                elif src.startswith("*/", j):
                    depth -= 1
                    j += 2
                else:
                    j += 1
            blank(i, j)
            i = j
            continue
        m = re.match(r'b?r(#*)"', src[i:])
        if m and (i == 0 or not (src[i - 1].isalnum() or src[i - 1] == "_")):
            hashes = m.group(1)
            end = src.find('"' + hashes, i + len(m.group(0)))
            if end < 0:
                raise ValueError("unterminated raw string")
            blank(i + len(m.group(0)), end)
            i = end + 1 + len(hashes)
            continue
        if c == '"':
            j = i + 1
            while j < n and src[j] != '"':
                j += 2 if src[j] == "\\" else 1
            if j >= n:
                raise ValueError("unterminated string literal")
            blank(i + 1, j)
            i = j + 1
            continue
        if c == "'":
            m = re.match(r"'(\\x[0-9a-fA-F]{2}|\\u\{[0-9a-fA-F_]+\}|\\.|[^\\'\n])'", src[i:])
            if m:
                for k in range(i + 1, i + len(m.group(0)) - 1):
                    out[k] = "_"
                i += len(m.group(0))
                continue
        i += 1
    return "".join(out)


def split_top(s, lo, hi):
    """(start, end) of the top-level comma separated pieces of s[lo:hi] (s is masked text)"""
    parts, depth, a = [], 0, lo
    for j in range(lo, hi):
        ch = s[j]
        if ch in "([{":
            depth += 1
        elif ch in ")]}":
            depth -= 1
        elif ch == "," and depth == 0:
            parts.append((a, j))
            a = j + 1
    if s[a:hi].strip():
        parts.append((a, hi))
    return parts


def placeholders(lit):
    """[(argument, spec)] of a format string (the text between the quotes)"""
    res, i = [], 0
    while i < len(lit):
        if lit.startswith("{{", i) or lit.startswith("}}", i):
            i += 2
            continue
        if lit[i] == "{":
            j = lit.find("}", i)
            if j < 0:
                raise ValueError("unbalanced { in format string %r" % lit)
            arg, _, spec = lit[i + 1:j].partition(":")
            res.append((arg.strip(), spec.strip()))
            i = j + 1
            continue
        i += 1
    return res


def format_sites(src, masked, lo, hi):
    """`display E` / `debug E` / `format:<spec> E` for every placeholder of every formatting macro in masked[lo:hi];
    `fallible-fmt` for every `fmt::Error` that is constructed"""
    sites = []
    for m in re.finditer(r"\b(\w+)!\s*\(", masked[lo:hi]):
        start = lo + m.end() - 1
        close = match_close(masked, start, "(", ")")
        parts = split_top(masked, start + 1, close)
        k = None
        for idx, (a, b) in enumerate(parts[:3]):
            t = masked[a:b].strip()
            if re.fullmatch(r'"\s*"', t, re.S) or (t.startswith('"') and t.endswith('"') and t.count('"') == 2):
                k = idx
                break
        if k is None:
            continue
        a, b = parts[k]
        raw = src[a:b].strip()
        lit = raw[1:-1]
        named, pos = {}, []
        for (a2, b2) in parts[k + 1:]:
            piece = src[a2:b2].strip()
            mm = re.match(r"^(\w+)\s*=(?!=)\s*(.*)$", piece, re.S)
            if mm:
                named[mm.group(1)] = mm.group(2)
            else:
                pos.append(piece)
        nxt = 0
        for arg, spec in placeholders(lit):
            if "$" in spec or "*" in spec:
                raise ValueError("format spec %r takes its width / precision from an argument (not supported)" % spec)
            if arg == "":
                if nxt >= len(pos):
                    raise ValueError("format string %r has more placeholders than arguments" % lit)
                e = pos[nxt]
                nxt += 1
            elif arg.isdigit():
                if int(arg) >= len(pos):
                    raise ValueError("format string %r: no argument %s" % (lit, arg))
                e = pos[int(arg)]
            else:
                e = named.get(arg, arg)
            ty = spec.lstrip("<^>+-#0123456789. ")
            if spec.endswith("?"):
                kind = "debug"
            elif ty == "":
                kind = "display"
            else:
                kind = "format:" + ty
            sites.append("%s %s" % (kind, norm(e)))
    for m in re.finditer(r"\bfmt::Error\b(?!\s*>)", masked[lo:hi]):
        sites.append("fallible-fmt fmt::Error")
    # `x.to_string()` runs the Display impl of x as well (and panics when that returns an error)
    for m in re.finditer(r"\.to_string\s*\(\s*\)", masked[lo:hi]):
        sites.append("display %s (to_string)" % norm(operand_left(masked, lo + m.start())))
    return sites


def find_item(s, pattern):
    """(start, end) of the brace block of the item whose header matches `pattern` (a regular expression)"""
    m = re.search(pattern + r"[^{;]*\{", s)
    if not m:
        return None
    return (m.start(), match_close(s, m.end() - 1, "{", "}") + 1)


def scope_ranges(path_rel, s, fns, scopes, errs):
    ranges = []
    if scopes is None:
        return [(0, len(s))]
    for sc in scopes:
        kind, name = sc.split(":", 1)
        if kind == "fn":
            found = [f for f in fns if f[0] == name]
            if not found:
                errs.append("%s: function %s not found" % (path_rel, name))
            ranges.extend((f[1], f[3] + 1) for f in found)
        elif kind == "mod":
            m = re.search(r"\bmod\s+%s\s*\{" % re.escape(name), s)
            if not m:
                errs.append("%s: module %s not found" % (path_rel, name))
                continue
            ranges.append((m.start(), match_close(s, m.end() - 1, "{", "}") + 1))
        else:
            r = find_item(s, name)
            if r is None:
                errs.append("%s: item /%s/ not found" % (path_rel, name))
                continue
            ranges.append(r)
    return ranges


def fmt_scope_sites(path_rel, src, scopes, keep, errs):
    """format placeholders per function of the scope; keep(site) filters"""
    masked = mask_source(src)
    fns = functions(masked)
    ranges = scope_ranges(path_rel, masked, fns, scopes, errs)
    # test modules are never part of a scope
    tests = [(m.start(), match_close(masked, masked.index("{", m.end() - 1), "{", "}")) for m in re.finditer(r"#\[cfg\(test\)\]\s*mod\s+\w+\s*\{", masked)]
    out = []
    for (name, sig, body, close) in fns:
        if not any(lo <= sig and close < hi for lo, hi in ranges):
            continue
        if any(lo <= sig and close <= hi for lo, hi in tests):
            continue
        t = masked
        for (n2, sig2, body2, close2) in fns:
            if body < sig2 and close2 < close:
                t = t[:sig2] + " " * (close2 + 1 - sig2) + t[close2 + 1:]
        for site in format_sites(src, t, body, close + 1):
            if keep(site):
                out.append(("%s::%s" % (path_rel, name), site))
    counted = {}
    for k in out:
        counted[k] = counted.get(k, 0) + 1
    return sorted((a, b, n) for (a, b), n in counted.items())


TEXT_SCOPES = [
    ("quill/src/lines.rs", None),
    ("quill/src/tiny_v2.rs", ["fn:read_file", "fn:read", "fn:unescape", "fn:add_comment"]),
    ("quill/src/tiny_v2_diff.rs", None),
    ("quill/src/enigma_file.rs", ["fn:read_file_into", "fn:read_into", "fn:is_modifier", "fn:insert_comment", "mod:enigma_line"]),
    ("dukenest/src/io.rs", None),
]
WRITER_SCOPES = [
    ("duke/src/simple_class_writer.rs", None),
    ("duke/src/simple_class_writer/labels.rs", None),
    ("duke/src/simple_class_writer/pool.rs", None),
    ("duke/src/lib.rs", ["fn:write_usize_as_u8", "fn:write_usize_as_u16", "fn:write_usize_as_u32"]),
    ("duke/src/tree/descriptor.rs", ["fn:get_arguments_size"]),
]

READER_SCOPES = [
    ("duke/src/class_reader.rs", None),
    ("duke/src/class_reader/pool.rs", None),
    ("duke/src/class_reader/labels.rs", None),
    ("duke/src/lib.rs", ["fn:read_class_multi", "fn:read_class", r"item:\btrait\s+OptionExpansion\b", r"item:\bimpl<T>\s+OptionExpansion<T>\s+for\b",
                         r"item:\btrait\s+ClassRead\b", r"item:\bimpl<T:\s*Read\s*\+\s*Seek>\s+ClassRead\s+for\b"]),
    ("duke/src/jstring.rs", ["fn:from_vec_to_string"]),
    ("duke/src/macros.rs", None),
    ("duke/src/tree/descriptor.rs", ["fn:read_field_type", "fn:parse"]),
    ("duke/src/tree/mod.rs", ["mod:names"]),
    ("duke/src/tree/method/code.rs", ["fn:from_atype"]),
    ("duke/src/visitor/implementations/tree.rs", None),
    ("duke/src/visitor/implementations/unit_tuple.rs", None),
]


def element_value_calls(src, errs):
    """(caller, tag, callee, nesting argument, limit check present) for the element_value readers of class_reader.rs"""
    s = strip_source(src)
    fns = [f for f in functions(s) if f[0].startswith("read_element_value")]
    names = sorted(set(f[0] for f in fns))
    expected = ["read_element_value_unnamed", "read_element_values_named", "read_element_values_unnamed"]
    if names != expected:
        errs.append("class_reader.rs: element_value readers are %s, expected %s" % (names, expected))
        return [], []
    calls, checks = [], []
    for (name, sig, body, close) in fns:
        t = s[body:close + 1]
        header = s[sig:body]
        if not re.search(r"\bnesting\s*:\s*usize\b", header):
            errs.append("class_reader.rs: %s has no `nesting: usize` parameter" % name)
        chk = re.findall(r"if\s+nesting\s*(>=|>)\s*(\w+)\s*\{\s*bail!", t)
        checks.append((name, ["%s %s" % c for c in chk]))
        for m in re.finditer(r"\b(read_element_values?_(?:un)?named)\s*\(", t):
            closep = match_close(t, m.end() - 1, "(", ")")
            args = [a.strip() for a in t[m.end():closep].split(",")]
            if len(args) != 4:
                errs.append("class_reader.rs: call of %s in %s does not have four arguments: %s" % (m.group(1), name, norm(t[m.end():closep])))
                continue
            narg = norm(args[3])
            if narg not in ("nesting", "nesting + 1"):
                errs.append("class_reader.rs: call of %s in %s passes the nesting %r (recognised: `nesting`, `nesting + 1`)" % (m.group(1), name, narg))
                continue
            calls.append((name, m.group(1), narg))
    # entry points: calls from other functions with their starting nesting
    entries = []
    for (name, sig, body, close) in functions(s):
        if name.startswith("read_element_value"):
            continue
        t = s[body:close + 1]
        for m in re.finditer(r"\b(read_element_values?_(?:un)?named)\s*\(", t):
            closep = match_close(t, m.end() - 1, "(", ")")
            args = [a.strip() for a in t[m.end():closep].split(",")]
            entries.append((name, m.group(1), norm(args[-1])))
    m = re.search(r"const\s+MAX_ELEMENT_VALUE_NESTING\s*:\s*usize\s*=\s*(\d+)\s*;", s)
    if not m:
        errs.append("class_reader.rs: const MAX_ELEMENT_VALUE_NESTING not found")
        limit = None
    else:
        limit = int(m.group(1))
    return sorted(calls), sorted(entries), sorted(checks), limit


def cstr(t):
    return '"' + t.replace('"', '""') + '"'


def run():
    errs = []

    def read(rel):
        p = os.path.join(vcheck.REPO, rel)
        try:
            return open(p, encoding="utf-8").read()
        except OSError as e:
            errs.append("%s: %s" % (rel, e))
            return None

    text_sites, writer_sites = [], []
    for rel, scopes in TEXT_SCOPES:
        src = read(rel)
        if src is not None:
            try:
                text_sites += scope_sites(rel, src, scopes, False, errs) + call_cycles(rel, src, errs)
            except ValueError as e:
                errs.append("%s: %s" % (rel, e))
    for rel, scopes in WRITER_SCOPES:
        src = read(rel)
        if src is not None:
            try:
                writer_sites += scope_sites(rel, src, scopes, True, errs) + (call_cycles(rel, src, errs) if scopes is None else [])
            except ValueError as e:
                errs.append("%s: %s" % (rel, e))
    reader_sites, text_fmt_sites, writer_fmt_sites = [], [], []
    not_debug = lambda site: not site.startswith("debug ")
    for rel, scopes in READER_SCOPES:
        src = read(rel)
        if src is not None:
            try:
                reader_sites += sorted(scope_sites(rel, src, scopes, "reader", errs) + fmt_scope_sites(rel, src, scopes, lambda site: True, errs)) \
                    + (call_cycles(rel, src, errs) if scopes is None else [])
            except ValueError as e:
                errs.append("%s: %s" % (rel, e))
    for rel, scopes in TEXT_SCOPES:
        src = read(rel)
        if src is not None:
            try:
                text_fmt_sites += fmt_scope_sites(rel, src, scopes, not_debug, errs)
            except ValueError as e:
                errs.append("%s: %s" % (rel, e))
    for rel, scopes in WRITER_SCOPES:
        src = read(rel)
        if src is not None:
            try:
                writer_fmt_sites += fmt_scope_sites(rel, src, scopes, not_debug, errs)
            except ValueError as e:
                errs.append("%s: %s" % (rel, e))
    if not reader_sites:
        errs.append("no site found in the class reader")
    ev_calls, ev_entries, ev_checks, ev_limit = [], [], [], None
    src = read("duke/src/class_reader.rs")
    if src is not None:
        try:
            r = element_value_calls(src, errs)
            if len(r) == 4:
                ev_calls, ev_entries, ev_checks, ev_limit = r
        except ValueError as e:
            errs.append("duke/src/class_reader.rs: %s" % e)
    if not text_sites:
        errs.append("no site found in the text parsers (the scanner found nothing to list)")
    if not writer_sites:
        errs.append("no site found in the class writer")
    if errs:
        return errs

    L = []
    L.append("(* GENERATED by translate/c16_sites.py from the sources under test — do not edit. *)")
    L.append("From Coq Require Import String List.")
    L.append("Import ListNotations.")
    L.append("Open Scope string_scope.")
    L.append("")
    L.append("(* (function, operation, number of occurrences) — everything in the reader parts of the text parsers that can panic, allocate or loop *)")
    L.append("Definition text_sites : list (string * string * nat) := [")
    L.append(";\n".join("  (%s, %s, %d)" % (cstr(a), cstr(b), n) for a, b, n in text_sites))
    L.append("].")
    L.append("")
    L.append("(* the class writer: the same, plus every checked narrowing conversion *)")
    L.append("Definition writer_sites : list (string * string * nat) := [")
    L.append(";\n".join("  (%s, %s, %d)" % (cstr(a), cstr(b), n) for a, b, n in writer_sites))
    L.append("].")
    L.append("")
    L.append("(* element_value readers of class_reader.rs: (caller, callee, nesting argument) of every recursive call *)")
    L.append("Definition ev_calls : list (string * string * string) := [")
    L.append(";\n".join("  (%s, %s, %s)" % (cstr(a), cstr(b), cstr(c)) for a, b, c in ev_calls))
    L.append("].")
    L.append("(* calls from outside with the nesting they start at *)")
    L.append("Definition ev_entries : list (string * string * string) := [")
    L.append(";\n".join("  (%s, %s, %s)" % (cstr(a), cstr(b), cstr(c)) for a, b, c in ev_entries))
    L.append("].")
    L.append("(* the limit checks at the top of each reader *)")
    L.append("Definition ev_checks : list (string * list string) := [")
    L.append(";\n".join("  (%s, [%s])" % (cstr(a), "; ".join(cstr(x) for x in b)) for a, b in ev_checks))
    L.append("].")
    L.append("Definition ev_limit : nat := %d." % ev_limit)
    L.append("")
    L.append("(* the class reader's own files (class_reader.rs, pool.rs, labels.rs, ClassRead of lib.rs, jstring, macros, the descriptor parsers, names,")
    L.append("   the tree-building visitors): everything above plus every placeholder of every formatting macro (display / debug / format:<spec>) *)")
    L.append("Definition reader_sites : list (string * string * nat) := [")
    L.append(";\n".join("  (%s, %s, %d)" % (cstr(a), cstr(b), n) for a, b, n in reader_sites))
    L.append("].")
    L.append("")
    L.append("(* formatting placeholders that run a Display (or LowerHex, ...) impl in the text readers / in the class writer *)")
    L.append("Definition text_fmt_sites : list (string * string * nat) := [")
    L.append(";\n".join("  (%s, %s, %d)" % (cstr(a), cstr(b), n) for a, b, n in text_fmt_sites))
    L.append("].")
    L.append("Definition writer_fmt_sites : list (string * string * nat) := [")
    L.append(";\n".join("  (%s, %s, %d)" % (cstr(a), cstr(b), n) for a, b, n in writer_fmt_sites))
    L.append("].")
    out = os.path.join(vcheck.COQ, "C16", "SitesGen.v")
    new = "\n".join(L) + "\n"
    old = None
    try:
        old = open(out, encoding="utf-8").read()
    except OSError:
        pass
    if old != new:
        with open(out, "w", encoding="utf-8") as f:
            f.write(new)
    return []


if __name__ == "__main__":
    e = run()
    for x in e:
        print("ERROR", x)
    sys.exit(1 if e else 0)
