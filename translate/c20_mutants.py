#!/usr/bin/env python3
"""C20 — is the tie fail-closed?  Small mutations of the notation in raw_class_file/src/{lib,macros}.rs,
each applied to a scratch copy of the sources (never to the repository), pushed through the translator
and the proof obligations of Props/C20.v in a private copy of the Coq project.

For every mutant the script prints which stage notices it:
   translator   the translator refuses the source (unknown form / pinned token stream changed)
   <lemma>      RawGen.v is regenerated and the named lemma/theorem of Jvms.v / JvmsRead.v / Props no longer compiles
   SILENT       translator and every obligation pass: only the correspondence run / the oracle can notice
and, with --cargo, whether the mutated crate still compiles (a mutant rustc rejects is no gap).

Last run (round 4, 55 mutants, all accepted by rustc): every byte-changing mutant is noticed by the translator or by
a proof obligation (layout_table 21, names_table 6, attr_len_table 4, dispatch_table 3, the worked examples 9,
pool_count_expr_is 2, attr_table_named 1, magic 1, token pins 8); of the three byte-preserving ones, reordering the
alternatives of VerificationTypeInfo passes (alternatives without guards are compared tag by tag), reordering the
alternatives of AttributeInfo and renaming an item raise the alarms documented in props/c20.py.

A development aid (not part of ./check): `python3 translate/c20_mutants.py [--cargo] [--only NAME]`.
stdlib only; writes under /tmp/c20-mut only.
"""
import os
import re
import shutil
import subprocess
import sys

HERE = os.path.dirname(os.path.abspath(__file__))
sys.path.insert(0, HERE)
sys.path.insert(0, os.path.join(os.path.dirname(HERE), "lib"))
import vcheck  # noqa: E402
import c20_raw_notation as tr  # noqa: E402

SCRATCH = "/tmp/c20-mut"
LIB = "raw_class_file/src/lib.rs"
MAC = "raw_class_file/src/macros.rs"

# (name, file, old text, new text, what a reader of the crate would see)
MUTANTS = [
    ("len-expr-append", LIB, "{k - 251}", "{k - 250}", "AppendFrame reads one local too many"),
    ("len-expr-pool", LIB, "slots {constant_pool_count - 1}", "slots {constant_pool_count}", "pool read one index too far"),
    ("pool-count-len", LIB, "pool_slots(&this.constant_pool) + 1", "this.constant_pool.len() + 1", "constant_pool_count counts entries, not indices (former F10)"),
    ("pool-count-plus2", LIB, "pool_slots(&this.constant_pool) + 1", "pool_slots(&this.constant_pool) + 2", "constant_pool_count off by one"),
    ("tag-read-side", LIB, "= 3 => 3,\n\t\t\tmut bytes: u32,", "= 3 => 13,\n\t\t\tmut bytes: u32,", "CpInfo::Integer written with tag 3, recognised by tag 13"),
    ("tag-write-side", LIB, "= 3 => 3,\n\t\t\tmut bytes: u32,", "= 13 => 3,\n\t\t\tmut bytes: u32,", "CpInfo::Integer written with tag 13, recognised by tag 3"),
    ("tag-both-sides", LIB, "= 3 => 3,\n\t\t\tmut bytes: u32,", "= 13 => 13,\n\t\t\tmut bytes: u32,", "CpInfo::Integer uses tag 13 consistently (symmetric, not JVMS)"),
    ("elem-tag-both", LIB, "= b'e' => b'e',", "= b'E' => b'E',", "ElementValue::Enum uses 'E' consistently"),
    ("swap-fields-same-type", LIB, "mut start_pc: u16,\n\t\tmut line_number: u16,", "mut line_number: u16,\n\t\tmut start_pc: u16,", "LineNumberTableEntry items in the other order (same widths)"),
    ("swap-fields-inner", LIB, "mut inner_class_info_index: u16,\n\t\tmut outer_class_info_index: u16,", "mut outer_class_info_index: u16,\n\t\tmut inner_class_info_index: u16,", "InnerClassesEntry items in the other order (same widths)"),
    ("swap-fields-member", LIB, "mut access_flags: u16,\n\t\tmut name_index: u16,\n\t\tmut descriptor_index: u16,\n\t\t//attributes_count: u16,\n\t\tmut attributes: Vec<AttributeInfo> [u16],\n\t}\n);\n\n\nnotation!(\n\tstruct MethodInfo", "mut name_index: u16,\n\t\tmut access_flags: u16,\n\t\tmut descriptor_index: u16,\n\t\t//attributes_count: u16,\n\t\tmut attributes: Vec<AttributeInfo> [u16],\n\t}\n);\n\n\nnotation!(\n\tstruct MethodInfo", "FieldInfo: name_index in front of access_flags"),
    ("swap-fields-diff-type", LIB, "mut reference_kind: u8,\n\t\t\tmut reference_index: u16,", "mut reference_index: u16,\n\t\t\tmut reference_kind: u8,", "MethodHandle items in the other order"),
    ("swap-code-fields", LIB, "mut max_stack: u16,\n\t\t\tmut max_locals: u16,", "mut max_locals: u16,\n\t\t\tmut max_stack: u16,", "Code: max_locals in front of max_stack"),
    ("count-type-interfaces", LIB, "mut interfaces: Vec<u16> [u16],", "mut interfaces: Vec<u16> [u8],", "interfaces_count one byte wide"),
    ("count-type-params", LIB, "mut parameters: Vec<MethodParametersEntry> [u8],", "mut parameters: Vec<MethodParametersEntry> [u16],", "MethodParameters count two bytes wide (former F12)"),
    ("count-type-code", LIB, "mut code: Vec<u8> [u32],", "mut code: Vec<u8> [u16],", "code_length two bytes wide"),
    ("elem-type", LIB, "mut uses_index: Vec<u16> [u16],", "mut uses_index: Vec<u8> [u16],", "uses_index entries one byte wide"),
    ("field-width", LIB, "mut major_version: u16,", "mut major_version: u32,", "major_version four bytes wide"),
    ("asym-chop-read", LIB, "mut k: u8 nowrite = 251 - frame_type,", "mut k: u8 nowrite = 252 - frame_type,", "ChopFrame: only the read side changed (seed C20-b3)"),
    ("asym-chop-write", LIB, "= 251 - k => frame_type @ 248..=250,", "= 252 - k => frame_type @ 248..=250,", "ChopFrame: only the write side changed"),
    ("asym-same-locals-read", LIB, "mut offset_delta: u8 nowrite = frame_type - 64,", "mut offset_delta: u8 nowrite = frame_type - 63,", "SameLocals1StackItemFrame: only the read side changed"),
    ("asym-append-write", LIB, "= locals.len() + 251 => k @ 252..=254,", "= locals.len() + 250 => k @ 252..=254,", "AppendFrame: only the tag written changed"),
    ("asym-same-frame-read", LIB, "mut offset_delta: u8 nowrite = frame_type,\n", "mut offset_delta: u8 nowrite = frame_type + 1,\n", "SameFrame: only the read side changed"),
    ("range-pattern", LIB, "frame_type @ 0..=63,", "frame_type @ 0..=62,", "SameFrame recognised for 0..=62 only"),
    ("range-pattern-chop", LIB, "frame_type @ 248..=250,", "frame_type @ 247..=250,", "ChopFrame range overlaps the extended same-locals frame"),
    ("guard-name", LIB, 'b"NestMembers")?', 'b"Nestmembers")?', "NestMembers recognised by another name"),
    ("guard-name-dup", LIB, 'b"NestHost")?', 'b"NestMembers")?', "NestHost recognised by the name NestMembers (shadows it)"),
    ("guard-index", LIB, 'if pool_has_utf8(pool, attribute_name_index, b"Signature")?', 'if pool_has_utf8(pool, attribute_name_index + 1, b"Signature")?', "Signature recognised by the entry behind the name index"),
    ("attr-len-linear", LIB, "const attribute_length: u32 = 2 + 2 * classes.len(),", "const attribute_length: u32 = 2 + classes.len(),", "NestMembers attribute_length = 2 + n (former F11)"),
    ("attr-len-selflen", LIB, "const attribute_length: u32 = this._len() - 6,\n\t\t\tmut max_stack", "const attribute_length: u32 = this._len() - 8,\n\t\t\tmut max_stack", "Code attribute_length two short"),
    ("attr-len-literal", LIB, "const attribute_length: u32 = 4,", "const attribute_length: u32 = 2,", "EnclosingMethod attribute_length 2"),
    ("attr-len-literal-to-computed", LIB, "const attribute_length: u32 = 4,", "const attribute_length: u32 = 2 + 2,", "EnclosingMethod: the length is no longer compared on reading (harmless for the bytes)"),
    ("attr-len-width", LIB, "const attribute_length: u32 = 0,\n\t\t},\n\t\tSignature", "const attribute_length: u16 = 0,\n\t\t},\n\t\tSignature", "Synthetic attribute_length two bytes wide"),
    ("attr-len-missing", LIB, "\t\t\tconst attribute_length: u32 = 0,\n\t\t},\n\t\tSignature", "\t\t},\n\t\tSignature", "Synthetic without attribute_length"),
    ("nowrite-name-index", LIB, "Deprecated {\n\t\t\t= *attribute_name_index => attribute_name_index if pool_has_utf8(pool, attribute_name_index, b\"Deprecated\")?,\n\t\t\tmut attribute_name_index: u16 nowrite = attribute_name_index,", "Deprecated {\n\t\t\t= *attribute_name_index => attribute_name_index if pool_has_utf8(pool, attribute_name_index, b\"Deprecated\")?,\n\t\t\tmut attribute_name_index: u16 nowrite = attribute_name_index + 1,", "Deprecated stores name index + 1"),
    ("setpool-dropped", LIB, "; Some(&constant_pool),", ",", "the pool is not handed to the attribute readers"),
    ("slots-impl", LIB, "CpInfo::Long { .. } | CpInfo::Double { .. } => 2,", "CpInfo::Long { .. } => 2,", "Double takes one index"),
    ("slots-impl-extra", LIB, "CpInfo::Long { .. } | CpInfo::Double { .. } => 2,", "CpInfo::Long { .. } | CpInfo::Double { .. } | CpInfo::Integer { .. } => 2,", "Integer takes two indices"),
    ("magic", LIB, "0xCAFEBABE", "0xCAFEBABF", "another magic number"),
    ("tag-type", LIB, "enum VerificationTypeInfo {\n\t\ttag: u8,", "enum VerificationTypeInfo {\n\t\ttag: u16,", "verification_type_info tag two bytes wide"),
    ("variant-order-attr", LIB, None, None, "the catch-all Other moved in front of PermittedSubclasses"),
    ("vti-swap-tags", LIB, "Long {\n\t\t\t= 4 => 4,\n\t\t},\n\t\tDouble {\n\t\t\t= 3 => 3,\n\t\t},", "Long {\n\t\t\t= 3 => 3,\n\t\t},\n\t\tDouble {\n\t\t\t= 4 => 4,\n\t\t},", "VerificationTypeInfo Long/Double tags exchanged (same layout, other meaning)"),
    ("cp-swap-tags", LIB, "Fieldref {\n\t\t\t= 9 => 9,", "Fieldref {\n\t\t\t= 10 => 10,", None),  # patched below together with Methodref
    ("pool-get-off", LIB, "let mut slot = 1;", "let mut slot = 0;", "pool indices start at 0 (hand-modelled fn pool_get)"),
    ("has-utf8-negated", LIB, "Ok(bytes.as_slice() == value)", "Ok(bytes.as_slice() != value)", "hand-modelled fn pool_has_utf8 changed"),
    ("classfile-read-pool", LIB, "ClassFile::_read(reader, None)", "ClassFile::_read(reader, Some(&Vec::new()))", "hand-modelled impl ClassFile changed"),
    ("macro-write-count", MAC, "notation!(write, $w, $v.len() as $iat, $iat);", "notation!(write, $w, ($v.len() + 1) as $iat, $iat);", "macro: counts written one too large"),
    ("macro-read-loop", MAC, "for _ in 0..len {", "for _ in 1..len {", "macro: one element fewer read"),
    ("macro-len-u16", MAC, "(len, $_v:expr, u16) => { 2 };", "(len, $_v:expr, u16) => { 3 };", "macro: _len counts three bytes per u16"),
    ("macro-write-all", MAC, "(write, $w:ident, $v:expr, u16) => { std::io::Write::write_all($w, &$v.to_be_bytes())?; };", "(write, $w:ident, $v:expr, u16) => { std::io::Write::write($w, &$v.to_be_bytes())?; };", "macro: write instead of write_all (seed C20-b2)"),
    # changes that alter no byte: what is an ALARM THAT IS NOT A PROPERTY FAILURE (props/c20.py) and what passes
    ("harmless-reorder-vti", LIB, "Top {\n\t\t\t= 0 => 0,\n\t\t},\n\t\tInteger {\n\t\t\t= 1 => 1,\n\t\t},", "Integer {\n\t\t\t= 1 => 1,\n\t\t},\n\t\tTop {\n\t\t\t= 0 => 0,\n\t\t},", "HARMLESS: two alternatives of VerificationTypeInfo listed in the other order (expected: SILENT)"),
    ("harmless-reorder-attr", LIB, None, None, "HARMLESS: the alternatives Synthetic and Signature of AttributeInfo listed in the other order (expected: tables_compat alarm)"),
    ("harmless-rename-item", LIB, "mut line_number: u16,", "mut line: u16,", "HARMLESS for the bytes: LineNumberTableEntry.line_number renamed (expected: names_table alarm)"),
    ("macro-le", MAC, "u16::from_be_bytes(buf)", "u16::from_le_bytes(buf)", "macro: little-endian u16 on reading"),
]


def special(name, src):
    if name == "variant-order-attr":
        m = re.search(r"\t\tPermittedSubclasses \{.*?\n\t\t\},\n", src, re.S)
        o = re.search(r"\t\tOther \{.*?\n\t\t\},\n", src, re.S)
        assert m and o and m.end() == o.start()
        return src[:m.start()] + o.group(0) + m.group(0) + src[o.end():]
    if name == "harmless-reorder-attr":
        a = re.search(r"\t\tSynthetic \{.*?\n\t\t\},\n", src, re.S)
        b = re.search(r"\t\tSignature \{.*?\n\t\t\},\n", src, re.S)
        assert a and b and a.end() == b.start()
        return src[:a.start()] + b.group(0) + a.group(0) + src[b.end():]
    if name == "cp-swap-tags":
        a = "Fieldref {\n\t\t\t= 9 => 9,"
        b = "Methodref {\n\t\t\t= 10 => 10,"
        assert src.count(a) == 1 and src.count(b) == 1
        return src.replace(a, "Fieldref {\n\t\t\t= 10 => 10,").replace(b, "Methodref {\n\t\t\t= 9 => 9,")
    return None


def sh(cmd, cwd=None, timeout=1800, env=None):
    e = dict(os.environ)
    if env:
        e.update(env)
    p = subprocess.run(cmd, cwd=cwd, stdout=subprocess.PIPE, stderr=subprocess.STDOUT, timeout=timeout, env=e)
    return p.returncode, p.stdout.decode("utf-8", "replace")


def failing_lemma(coqdir, out):
    """name of the Lemma/Theorem enclosing the first reported error position"""
    m = re.search(r'File "\./([^"]+)", line (\d+)', out)
    if not m:
        return "coq-build (no position): " + out.strip().split("\n")[-1][:120]
    path, line = os.path.join(coqdir, m.group(1)), int(m.group(2))
    name = "?"
    try:
        for i, l in enumerate(open(path, encoding="utf-8"), 1):
            if i > line:
                break
            mm = re.match(r"\s*(?:Lemma|Theorem|Example|Corollary|Definition|Fixpoint)\s+(\w+)", l)
            if mm:
                name = mm.group(1)
    except OSError:
        pass
    return "%s (%s:%d)" % (name, m.group(1), line)


def main():
    args = sys.argv[1:]
    cargo = "--cargo" in args
    only = None
    if "--only" in args:
        only = args[args.index("--only") + 1]
    repo = vcheck.REPO
    src_root = os.path.join(SCRATCH, "repo")
    coqdir = os.path.join(SCRATCH, "coq")
    os.makedirs(os.path.join(src_root, "raw_class_file"), exist_ok=True)
    sh(["rsync", "-a", "--delete", "--exclude", "target", os.path.join(repo, "raw_class_file") + "/", os.path.join(src_root, "raw_class_file") + "/"])
    sh(["rsync", "-a", "--delete", os.path.join(vcheck.VERIF, "coq") + "/", coqdir + "/"])
    sh(["sh", "mkproject.sh"], cwd=coqdir)
    sh(["coq_makefile", "-f", "_CoqProject", "-o", "Makefile"], cwd=coqdir)
    orig = {f: open(os.path.join(repo, f), encoding="utf-8").read() for f in (LIB, MAC)}
    rows = []
    for (name, f, old, new, what) in MUTANTS:
        if only and name != only:
            continue
        src = orig[f]
        sp = special(name, src)
        if sp is not None:
            mutated = sp
            if what is None:
                what = "CpInfo Fieldref/Methodref tags exchanged (same layout, other meaning)"
        else:
            if src.count(old) < 1:
                rows.append((name, "MUTATION DOES NOT APPLY", "", what))
                continue
            mutated = src.replace(old, new, 1)
        for g in (LIB, MAC):
            with open(os.path.join(src_root, g), "w", encoding="utf-8") as fh:
                fh.write(mutated if g == f else orig[g])
        compiles = ""
        if cargo:
            # the crate has no dependencies: rustc on lib.rs alone (the manifest needs the workspace for its lints table)
            rc, out = sh(["rustc", "--edition", "2021", "--crate-type", "lib", "--crate-name", "raw_class_file", "--emit", "metadata", "-A", "warnings",
                          "-o", os.path.join(SCRATCH, "raw_class_file.rmeta"), os.path.join(src_root, LIB)])
            compiles = "rustc ok" if rc == 0 else "rustc REJECTS"
        errs = tr.translate(repo=src_root, out_path=os.path.join(coqdir, "C20", "RawGen.v"))
        if errs:
            rows.append((name, "translator", compiles, what + " :: " + errs[0][:110]))
            print(rows[-1], flush=True)
            continue
        rc, out = sh(["make", "Props/C20.vo", "C20/Run.vo"], cwd=coqdir)
        if rc != 0:
            rows.append((name, failing_lemma(coqdir, out), compiles, what))
        else:
            rows.append((name, "SILENT", compiles, what))
        print(rows[-1], flush=True)
    print("\n%-30s %-52s %-14s %s" % ("mutant", "noticed by", "", "change"))
    for r in rows:
        print("%-30s %-52s %-14s %s" % r)
    silent = [r[0] for r in rows if r[1] == "SILENT" and r[2] != "rustc REJECTS" and not r[0].startswith("harmless-")]
    print("\nsilent for translator + proof obligations: %s" % (silent or "none"))
    shutil.rmtree(os.path.join(SCRATCH, "repo"), ignore_errors=True)
    return 0


if __name__ == "__main__":
    sys.exit(main())
