#!/bin/sh
# setup_cmd: build the framework from files on disk only (offline).
set -e
cd "$(dirname "$0")"
export CARGO_NET_OFFLINE=true
mkdir -p work evidence replays
( cd coq && ./mkproject.sh && coq_makefile -f _CoqProject -o Makefile >/dev/null && timeout 3000 make -j16 >../work/coq-build.log 2>&1 ) || { tail -30 work/coq-build.log; exit 1; }
( cd harness && timeout 3000 cargo build --offline --bins >../work/cargo-build.log 2>&1 ) || { tail -30 work/cargo-build.log; exit 1; }
echo setup ok
