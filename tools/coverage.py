#!/usr/bin/env python3
"""tools/coverage.py Cxx [Cyy ...] [--tier quick|thorough]

Measures which lines of the property's ANCHORED source files (properties.jsonl anchors.files) the
correspondence / oracle inputs of the harness actually execute.  This is a measurement of the tie
(model <-> code is compared only where the generated inputs go), not a proof and not a check:
it never fails, it writes /verif/coverage/Cxx.txt (summary + every uncovered line with its text) and
coverage/Cxx.json.  Uncovered branches are where a change to /repo can hide from the correspondence;
they drive generator work.

Build: nightly toolchain with -Cinstrument-coverage into harness/target-cov (llvm-profdata / llvm-cov
of the same toolchain).  Offline.
"""
import glob, json, os, re, subprocess, sys, tempfile, shutil

VERIF = os.path.dirname(os.path.dirname(os.path.abspath(__file__)))
REPO = os.path.abspath(os.environ.get("VERIF_REPO", "/repo"))
TOOLS = glob.glob(os.path.expanduser("~/.rustup/toolchains/nightly-x86_64-unknown-linux-gnu/lib/rustlib/*/bin"))[0]
TARGET = os.path.join(VERIF, "harness", "target-cov")


def sh(cmd, **kw):
    return subprocess.run(cmd, stdout=subprocess.PIPE, stderr=subprocess.STDOUT, text=True, errors="replace", **kw)


def main():
    args = [a for a in sys.argv[1:] if not a.startswith("--")]
    tier = "quick"
    if "--tier" in sys.argv:
        tier = sys.argv[sys.argv.index("--tier") + 1]
        args = [a for a in args if a != tier]
    props = {json.loads(l)["id"]: json.loads(l) for l in open(os.path.join(VERIF, "properties.jsonl"))}
    os.makedirs(os.path.join(VERIF, "coverage"), exist_ok=True)
    # build scripts and proc macros are instrumented too and would drop default_*.profraw into the crate
    # directories of /repo: send their profiles to a scratch directory that is removed afterwards
    junk = tempfile.mkdtemp(prefix="cov-build-")
    env = dict(os.environ, RUSTFLAGS="-Cinstrument-coverage", CARGO_TARGET_DIR=TARGET, CARGO_NET_OFFLINE="true", FBH_REPO=REPO,
               LLVM_PROFILE_FILE=os.path.join(junk, "b-%p-%m.profraw"))
    for pid in args:
        b = pid.lower()
        r = sh(["cargo", "+nightly", "build", "--offline", "--bin", b], cwd=os.path.join(VERIF, "harness"), env=env)
        if r.returncode != 0:
            print(pid, "coverage build failed\n", r.stdout[-2000:])
            continue
        tmp = tempfile.mkdtemp(prefix="cov-" + pid + "-")
        try:
            e2 = dict(os.environ, LLVM_PROFILE_FILE=os.path.join(tmp, "p-%p-%m.profraw"), VERIF_REPO=REPO, RUST_BACKTRACE="0")
            r = sh([os.path.join(TARGET, "debug", b), os.environ.get("VERIF_SEED", "1"), tier, os.path.join(tmp, "out")], cwd=VERIF, env=e2)
            raws = glob.glob(os.path.join(tmp, "*.profraw"))
            if not raws:
                print(pid, "no profile written (harness rc %s)" % r.returncode)
                continue
            prof = os.path.join(tmp, "m.profdata")
            sh([os.path.join(TOOLS, "llvm-profdata"), "merge", "-sparse"] + raws + ["-o", prof])
            files = [os.path.join(REPO, f) for f in props[pid]["anchors"]["files"] if os.path.exists(os.path.join(REPO, f))]
            exp = sh([os.path.join(TOOLS, "llvm-cov"), "export", "-format=text", "-instr-profile=" + prof, os.path.join(TARGET, "debug", b)] + files)
            j = json.loads(exp.stdout[exp.stdout.index("{"):])
            out = []
            summ = {}
            for f in j["data"][0]["files"]:
                name = os.path.relpath(f["filename"], REPO)
                lines = open(f["filename"], errors="replace").read().split("\n")
                # segments: [line, col, count, hasCount, isRegionEntry, isGap]
                covered, uncovered = set(), set()
                segs = f["segments"]
                for i, s in enumerate(segs):
                    l0, c0, cnt, has, _entry, gap = s[:6]
                    if not has or gap:
                        continue
                    l1 = segs[i + 1][0] if i + 1 < len(segs) else l0
                    c1 = segs[i + 1][1] if i + 1 < len(segs) else c0
                    for l in range(l0, l1 + 1):
                        if l == l1 and c1 <= 1 and l1 != l0:
                            continue
                        (covered if cnt > 0 else uncovered).add(l)
                unc = sorted(l for l in uncovered - covered if l - 1 < len(lines) and re.search(r"[A-Za-z0-9]", lines[l - 1]) and not lines[l - 1].strip().startswith("//"))
                tot = len(covered | uncovered)
                summ[name] = {"lines_with_code": tot, "uncovered": len(unc), "line_cover_pct": round(100.0 * (tot - len(unc)) / tot, 2) if tot else None,
                              "functions_pct": f["summary"]["functions"]["percent"], "regions_pct": f["summary"]["regions"]["percent"]}
                out.append("== %s: %d/%d lines with code never executed (functions %.1f%%, regions %.1f%%)" % (name, len(unc), tot, f["summary"]["functions"]["percent"], f["summary"]["regions"]["percent"]))
                for l in unc:
                    out.append("  %5d  %s" % (l, lines[l - 1].rstrip()[:160]))
            head = "%s (%s tier, seed %s): anchored-source line coverage of the harness run (measurement of the tie, not a check)\n" % (pid, tier, os.environ.get("VERIF_SEED", "1"))
            open(os.path.join(VERIF, "coverage", pid + ".txt"), "w").write(head + "\n".join(out) + "\n")
            json.dump({"property": pid, "tier": tier, "files": summ}, open(os.path.join(VERIF, "coverage", pid + ".json"), "w"), indent=1)
            print(pid, {k: v["line_cover_pct"] for k, v in summ.items()})
        finally:
            shutil.rmtree(tmp, ignore_errors=True)
    shutil.rmtree(junk, ignore_errors=True)


if __name__ == "__main__":
    main()
