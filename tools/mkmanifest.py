#!/usr/bin/env python3
"""Regenerates MANIFEST.json from tools/claims.json (which properties are claimed, with the
level text / note written by hand) and properties.jsonl (everything else -> not_applicable)."""
import json, os
HERE = os.path.dirname(os.path.dirname(os.path.abspath(__file__)))
props = [json.loads(l) for l in open(os.path.join(HERE, "properties.jsonl"))]
claims = json.load(open(os.path.join(HERE, "tools", "claims.json")))
hooks = claims.get("_hooks", {})
m = {
    "version": 1,
    "setup_cmd": "./setup.sh",
    "hooks": {
        "guard": hooks.get("guard", "cargo feature `verif` of crate duke"),
        "enable": hooks.get("enable", "harness/Cargo.toml: duke = { path = \"/repo/duke\", features = [\"verif\"] }"),
        "baseline_off_cmd": "cd /repo && cargo test --workspace --no-fail-fast --offline",
        "source_commits": hooks.get("source_commits", []),
        "add_only": True,
    },
    "engines": [{
        "name": "coq-proof+correspondence",
        "path": "/verif/check",
        "serves_properties": sorted(k for k in claims if not k.startswith("_")),
        "kind_free_text": "Coq 8.16.1 theorems over hand-written/translated Gallina models (coq/), tied to /repo by translators regenerating tables from source and by differential runs of model (vm_compute inside Coq) vs the real crates on the same generated inputs (harness/); driver lib/vcheck.py",
    }],
    "checks": [],
    "notes": claims.get("_notes", ""),
    "not_applicable": [],
}
for p in props:
    pid = p["id"]
    c = claims.get(pid)
    if c and c.get("claimed", True):
        m["checks"].append({
            "property_id": pid,
            "quick_cmd": "./check %s --tier quick" % pid,
            "thorough_cmd": "./check %s --tier thorough" % pid,
            "evidence_file": "/verif/evidence/%s.json" % pid,
            "replay_cmd_template": "./check %s --replay {path}" % pid,
            "engine": "coq-proof+correspondence",
            "level_claimed": {"category": "proof", "text": c["text"], "design_ref": "DESIGN.md section 5, %s" % pid},
            "level_note": c["note"],
            "technique": c.get("technique", "Coq proof over Gallina model + differential correspondence (vm_compute)"),
        })
    else:
        m["not_applicable"].append({"property_id": pid, "reason": (c or {}).get("reason", "not yet implemented (designed in DESIGN.md section 5; the technique applies)")})
json.dump(m, open(os.path.join(HERE, "MANIFEST.json"), "w"), indent=1)
print("claimed:", [c["property_id"] for c in m["checks"]])
