#!/bin/sh
# tools/try_seed.sh <Cxx> <patch.diff> [extra check ids…]
# Applies a seeded change in a scratch worktree of /repo (never in /repo itself), runs the
# check(s) against it through VERIF_REPO, prints verdicts, and reverts the worktree.
set -u
P="$1"; PATCH="$2"; shift 2
WT=/tmp/st-$P
if [ ! -d "$WT" ]; then git -C /repo worktree add -q --detach "$WT" HEAD || exit 2; else git -C "$WT" checkout -q --detach "$(git -C /repo rev-parse HEAD)" && git -C "$WT" checkout -q -- . ; fi
git -C "$WT" apply "$PATCH" || { echo "PATCH DOES NOT APPLY"; exit 2; }
cd /verif
for C in "$P" "$@"; do
  VERIF_REPO="$WT" ./check "$C" > "/tmp/st-$P-$C.log" 2>&1; rc=$?
  echo "== $C against $(basename "$PATCH" ) of $(dirname "$PATCH"): exit $rc"
  grep -E "^VIOLATION|^KNOWN-FINDING" "/tmp/st-$P-$C.log" | head -5
  tail -1 "/tmp/st-$P-$C.log"
done
git -C "$WT" checkout -q -- .
