#!/bin/sh
# tools/confirm_lane.sh <lane> <Cxx>...   confirms work/seeds3/<Cxx>/{a,b} as seeded/<Cxx>-{a3,b3}
L="$1"; shift
for P in "$@"; do for V in a b; do
  [ -d /verif/work/seeds3/$P/$V ] || continue
  LANE=$L /verif/tools/confirm_seed2.sh $P ${V}3 /verif/work/seeds3/$P/$V > /verif/work/seeds3/$P-$V.out 2>&1
done; done
