#!/bin/sh
# tools/confirm_lane.sh <lane> <round> <Cxx>...   confirms work/seeds<round>/<Cxx>/{a,b} as seeded/<Cxx>-{a,b}<round>
L="$1"; R="$2"; shift 2
for P in "$@"; do for V in a b; do
  [ -d /verif/work/seeds$R/$P/$V ] || continue
  LANE=$L /verif/tools/confirm_seed2.sh $P ${V}$R /verif/work/seeds$R/$P/$V > /verif/work/seeds$R/$P-$V.out 2>&1
done; done
