#!/usr/bin/env python3
"""Regenerates seeded/MATRIX.md and the `rechecked` field of every seeded/<id>/meta.json from
work/seedmatrix/<id>.txt (tools/seed_matrix2.sh) or, for seeds not in that run, from their confirm log."""
import json, glob, os, re
os.chdir(os.path.dirname(os.path.dirname(os.path.abspath(__file__))))
head = os.popen('git -C /repo rev-parse --short HEAD').read().strip()
rows = []
for d in sorted(glob.glob('seeded/C*')):
    s = os.path.basename(d); mp = d + '/meta.json'
    if not os.path.exists(mp): continue
    m = json.load(open(mp)); first = m.get('confirmed_by_coordinator', {})
    now = None; how = ''
    prev = m.get('rechecked', {})
    t = 'work/seedmatrix/%s.txt' % s
    if os.path.exists(t):
        line = open(t).read(); mm = re.search(r'exit=(\S+)', line); now = (mm.group(1) == '1')
        how = 'concrete failing input' if 'no-failing-input-found' not in line else 'broken obligation / correspondence (no failing input isolated)'
    elif m.get('rechecked', {}).get('how') is not None and 'detected' in m.get('rechecked', {}):
        # no fresh matrix run for this seed: keep the verdict of the last one (recorded in meta.json)
        now = m['rechecked']['detected']; how = m['rechecked']['how']
    else:
        cl = open(d + '/check.log').read() if os.path.exists(d + '/check.log') else ''
        now = first.get('detected'); v = [l for l in cl.split('\n') if l.startswith('VIOLATION')]
        how = 'concrete failing input' if v and 'no-failing-input-found' not in v[0] else ('broken obligation / correspondence (no failing input isolated)' if v else '')
    m['rechecked'] = {'repo_head': head if os.path.exists(t) or not prev else prev.get('repo_head', head), 'detected': bool(now), 'how': how, 'first_run_detected': prev.get('first_run_detected', first.get('detected'))}
    json.dump(m, open(mp, 'w'), indent=1)
    fc = m.get('files_changed'); site = ', '.join(fc) if isinstance(fc, list) else str(fc)
    needs = (m.get('needs_to_manifest') or '').replace('\n', ' ').replace('|', '/')
    rows.append((s, m.get('property'), site, needs[:230], m['rechecked']['first_run_detected'], now, how))
out = ['# Seeded changes and which check catches them', '',
 'Every directory `seeded/<id>/` holds a change to the repository written by a fresh sub-agent that saw only the text of one property (patch.diff), its demonstration (demo.rs / demo.diff: fails with the change, passes without) and meta.json. Each was confirmed in a scratch worktree (demo without / with the change, the unedited suite with the change) and then `./check <property>` (quick tier, seed 1) was run against the changed tree through `VERIF_REPO`.',
 '', "`first run` = verdict of the check as it was when the change was first tried; `now` = verdict of the current machinery against /repo HEAD %s with the change applied (tools/seed_matrix2.sh, or the confirmation run for the latest round)." % head, '',
 '| seed | property | site | needs to manifest | first run | now | reported as |', '|---|---|---|---|---|---|---|']
for r in rows:
    out.append('| %s | %s | %s | %s | %s | %s | %s |' % (r[0], r[1], r[2], r[3], 'caught' if r[4] else 'MISSED', 'caught' if r[5] else 'MISSED', r[6]))
n = len(rows); c = sum(1 for r in rows if r[5]); f = sum(1 for r in rows if r[4]); k = sum(1 for r in rows if 'concrete' in r[6])
out += ['', '%d seeded changes; %d were caught when first tried, %d are caught by the current checks, %d of them with a concrete failing input.' % (n, f, c, k)]
open('seeded/MATRIX.md', 'w').write('\n'.join(out) + '\n')
print(n, f, c, k, [r[0] for r in rows if not r[5]])
