#!/bin/sh
# tools/confirm_seed.sh <Cxx> <variant> <srcdir>
# Confirms a seeded change independently (suite passes with it, demo passes without and fails
# with it), runs ./check Cxx against it, and stores it under /verif/seeded/<Cxx>-<variant>/.
set -u
P="$1"; V="$2"; SRC="$3"
WT=/tmp/cs-lane${LANE:-0}
export CARGO_NET_OFFLINE=true CARGO_TARGET_DIR=/tmp/cs-target${LANE:-0} RUST_BACKTRACE=0
HEAD=$(git -C /repo rev-parse HEAD)
if [ ! -d "$WT" ]; then git -C /repo worktree add -q --detach "$WT" HEAD || exit 2; else git -C "$WT" reset -q --hard && git -C "$WT" checkout -q --detach "$HEAD" && git -C "$WT" clean -fdq; fi
DEMO_LOC=$(python3 -c "import json,sys; print(json.load(open('$SRC/meta.json')).get('demo_location',''))")
CRATE=$(echo "$DEMO_LOC" | cut -d/ -f1)
TNAME=$(basename "$DEMO_LOC" .rs)
OUT=/verif/seeded/$P-$V; mkdir -p "$OUT"
LOG="$OUT/confirm.log"; : > "$LOG"
say() { echo "$@" | tee -a "$LOG"; }
say "seed $P-$V against /repo HEAD $HEAD; demo at $DEMO_LOC"
git -C "$WT" apply --check "$SRC/patch.diff" 2>>"$LOG" || { say "RESULT patch-does-not-apply"; exit 3; }
if [ -f "$SRC/demo.diff" ]; then
  # demo is a test function added to the binary crate's own test module
  git -C "$WT" apply "$SRC/demo.diff" 2>>"$LOG" || { say "RESULT demo-diff-does-not-apply"; exit 3; }
  ( cd "$WT" && cargo test --offline -p feather-build-rs seed_demo >"$OUT/demo_without.log" 2>&1 ); D0=$?
  grep -q "test result: ok. [1-9]" "$OUT/demo_without.log" || D0=99
  git -C "$WT" apply "$SRC/patch.diff"
  ( cd "$WT" && cargo test --offline -p feather-build-rs seed_demo >"$OUT/demo_with.log" 2>&1 ); D1=$?
  git -C "$WT" checkout -q -- . ; git -C "$WT" apply "$SRC/patch.diff"
  cp "$SRC/demo.diff" "$OUT/"
else
# 1 demo without patch
mkdir -p "$(dirname "$WT/$DEMO_LOC")"
cp "$SRC/demo.rs" "$WT/$DEMO_LOC"
( cd "$WT" && cargo test --offline -p "$CRATE" --test "$TNAME" >"$OUT/demo_without.log" 2>&1 ); D0=$?
# 2 demo with patch
git -C "$WT" apply "$SRC/patch.diff"
( cd "$WT" && cargo test --offline -p "$CRATE" --test "$TNAME" >"$OUT/demo_with.log" 2>&1 ); D1=$?
rm -f "$WT/$DEMO_LOC"
fi
# 3 suite with patch
( cd "$WT" && cargo test --workspace --offline >"$OUT/suite_with.log" 2>&1 ); S1=$?
say "demo without patch: exit $D0 (want 0); demo with patch: exit $D1 (want non-0); suite with patch: exit $S1 (want 0)"
# 4 the check
( cd /verif && unset CARGO_TARGET_DIR && VERIF_REPO="$WT" ./check "$P" > "$OUT/check.log" 2>&1 ); C=$?
say "check $P with patch: exit $C"
grep -E "^VIOLATION" "$OUT/check.log" | head -3 | tee -a "$LOG"
tail -1 "$OUT/check.log" | tee -a "$LOG"
git -C "$WT" checkout -q -- . ; git -C "$WT" clean -fdq
cp "$SRC/patch.diff" "$SRC/demo.rs" "$OUT/"
python3 - "$SRC/meta.json" "$OUT/meta.json" "$D0" "$D1" "$S1" "$C" "$HEAD" <<'PY'
import json,sys
m=json.load(open(sys.argv[1]))
d0,d1,s1,c=map(int,sys.argv[3:7])
m["confirmed_by_coordinator"]={"repo_head":sys.argv[7],"demo_passes_without_patch":d0==0,"demo_fails_with_patch":d1!=0,"suite_passes_with_patch":s1==0,
  "commands":["git apply patch.diff (scratch worktree of /repo)","cargo test --offline -p <crate> --test <demo> (without / with patch)","cargo test --workspace --offline (with patch)","VERIF_REPO=<worktree> ./check "+m.get("property","")],
  "check_exit_with_patch":c,"detected":c==1}
json.dump(m,open(sys.argv[2],"w"),indent=1)
PY
if [ $D0 -eq 0 ] && [ $D1 -ne 0 ] && [ $S1 -eq 0 ]; then say "RESULT confirmed detected=$([ $C -eq 1 ] && echo yes || echo NO)"; else say "RESULT not-confirmed"; fi
