#!/bin/sh
# tools/runall.sh: run all 20 quick checks, 4 at a time; one line per check (exit code, wall time, KNOWN-FINDING count, first VIOLATION lines)
cd /verif
mkdir -p work/all
ls coq/Props/*.v | xargs -n1 basename | sed 's/.v$//' | xargs -P 4 -I{} sh -c 'start=$(date +%s); ./check {} --tier quick > work/all/{}.log 2>&1; rc=$?; echo "{} exit $rc $(( $(date +%s) - start ))s $(grep -cE "^KNOWN-FINDING" work/all/{}.log) KF; $(grep -E "^VIOLATION" work/all/{}.log | head -2)"'
