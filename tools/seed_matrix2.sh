#!/bin/sh
# tools/seed_matrix.sh <lane> <seed-id>...
# Re-runs the quick check of each seeded change against the current machinery, in a scratch worktree
# of /repo (lane-private: /tmp/lane<lane>, own cargo target dir and Coq copy through VERIF_REPO).
# Result lines go to /verif/work/seedmatrix/<seed>.txt :  <seed> <applies|stale> exit=<rc> <first VIOLATION line>
set -u
L="$1"; shift
WT=/tmp/lane$L
OUT=/verif/work/seedmatrix; mkdir -p "$OUT"
HEAD=$(git -C /repo rev-parse HEAD)
if [ ! -d "$WT" ]; then git -C /repo worktree add -q --detach "$WT" HEAD || exit 2; fi
for S in "$@"; do
  P=${S%%-*}
  git -C "$WT" reset -q --hard; git -C "$WT" checkout -q --detach "$HEAD"; git -C "$WT" clean -fdq
  if ! git -C "$WT" apply "/verif/seeded/$S/patch.diff" 2>/dev/null; then
    # stale patch (the file moved on through later fix: commits): try a 3-way apply
    if ! git -C "$WT" apply -3 "/verif/seeded/$S/patch.diff" >/dev/null 2>&1; then
      echo "$S stale exit=- patch-does-not-apply at $HEAD" > "$OUT/$S.txt"; git -C "$WT" reset -q --hard ; continue
    fi
    git -C "$WT" reset -q
  fi
  t0=$(date +%s)
  ( cd /verif && VERIF_REPO="$WT" ./check "$P" --tier quick > "$OUT/$S.log" 2>&1 ); rc=$?
  t1=$(date +%s)
  echo "$S applies exit=$rc $((t1-t0))s $(grep -E '^VIOLATION' "$OUT/$S.log" | head -1) | $(grep -cE '^VIOLATION' "$OUT/$S.log") violation lines" > "$OUT/$S.txt"
  git -C "$WT" reset -q --hard ; git -C "$WT" clean -fdq
done
