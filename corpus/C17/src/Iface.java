package c17;
import java.lang.annotation.*;
@Retention(RetentionPolicy.RUNTIME)
public @interface Iface {
	String name() default "n";
	int[] values() default {};
	Class<? extends Number> type() default Integer.class;
	ElementType kind() default ElementType.FIELD;
	Retention nested() default @Retention(RetentionPolicy.SOURCE);
}
