package c17;
public class Plain {
	int a; static long b = 5; final String c = "c";
	public Plain() {}
	static native void nat();
	int add(int x, int y) { return x + y; }
	enum Color { RED, GREEN { @Override int v() { return 2; } }, BLUE; int v() { return 1; } }
	interface Op { int apply(int a); default int twice(int a) { return apply(apply(a)); } }
}
