package c17;

import java.lang.annotation.*;
import java.util.*;
import java.util.function.*;

@Retention(RetentionPolicy.RUNTIME)
@Target({ElementType.TYPE, ElementType.FIELD, ElementType.METHOD, ElementType.PARAMETER, ElementType.TYPE_USE, ElementType.RECORD_COMPONENT})
@interface Vis { String value() default "v"; int[] nums() default {1, 2}; Class<?> k() default Object.class; RetentionPolicy e() default RetentionPolicy.CLASS; Deprecated d() default @Deprecated; }

@Retention(RetentionPolicy.CLASS)
@Target({ElementType.TYPE, ElementType.FIELD, ElementType.METHOD, ElementType.PARAMETER, ElementType.TYPE_USE, ElementType.RECORD_COMPONENT})
@interface Invis { long l() default 7L; }

@Vis("shape") @Invis
public sealed abstract class Shapes<T extends Comparable<T>> implements Supplier<T> permits Shapes.Circle, Shapes.Square {
	@Deprecated public static final int CONST = 42;
	public static final String NAME = "shapes";
	public static final double PI = 3.14159;
	public static final long BIG = 1L << 40;
	@Vis @Invis protected List<@Vis String> names = new ArrayList<>();
	private final Map<String, ? super T> map = new HashMap<>();

	public record Point(@Vis int x, @Invis List<@Vis String> tags, double y) {
		public Point { if (x < 0) throw new IllegalArgumentException("x"); }
	}

	public static final class Circle extends Shapes<Integer> {
		@Override public Integer get() { return 1; }
	}
	public static final class Square extends Shapes<String> {
		@Override public String get() { return "sq"; }
	}

	@Deprecated @Vis(nums = {3}) @Invis
	public <U extends Number> int work(final @Vis int a, @Invis String b, U u) throws java.io.IOException, IllegalStateException {
		int acc = 0;
		try {
			for (int i = 0; i < a; i++) {
				switch (i % 5) {
					case 0: acc += 1; break;
					case 1: acc += b.length(); break;
					case 2: acc *= 2; break;
					default: acc--; 
				}
				switch (b) {
					case "x": acc += 10; break;
					case "yy": acc += 20; break;
					default: break;
				}
			}
			Function<Integer, Integer> f = x -> x + u.intValue();
			acc = f.apply(acc);
			Object o = (@Vis Object) b;
			if (o instanceof String s && !s.isEmpty()) acc += s.length();
		} catch (RuntimeException e) {
			acc = -1;
		} finally {
			acc ^= 0x55;
		}
		long big = acc * 100000L;
		double d = big / 3.0;
		String joined = b + acc + d;
		return joined.length();
	}

	public synchronized void sync(Object lock) {
		synchronized (lock) { names.add("x"); }
	}
	public static int sum(int... xs) { int s = 0; for (int x : xs) s += x; return s; }
	public abstract T get();
	Runnable inner() { return new Runnable() { public void run() { System.out.println(NAME); } }; }
}
