module c17.mod { requires java.base; exports c17m; opens c17m to java.base; uses java.util.function.Supplier; provides java.util.function.Supplier with c17m.Impl; }
