package c17m; public class Impl implements java.util.function.Supplier<String> { public String get() { return "m"; } public static void main(String[] a) {} }
