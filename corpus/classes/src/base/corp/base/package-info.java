@PkgAnno(who = "corp.base")
package corp.base;
