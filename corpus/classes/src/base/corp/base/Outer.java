package corp.base;

import java.util.function.IntSupplier;

public class Outer {
	private int secret = 42;
	private static int staticSecret = 43;
	private static final Runnable IN_CLINIT = new Runnable() { @Override public void run() { staticSecret++; } };
	private final Runnable inField = new Runnable() { @Override public void run() { secret++; } };

	private int hidden() { return secret; }

	public static class StaticNested {
		private int x;
		int peek(Outer o) { return o.secret + o.hidden() + staticSecret; }
		public static class Deeper { protected static final class Deepest { int y; } }
	}

	public class Inner {
		private int v;
		public Inner(int v) { this.v = v; }
		int sum() { return v + secret; }
		public class InnerInner { int all() { return v + secret + hidden(); } }
		IntSupplier lambdaInInner() { return () -> v + secret; }
	}

	protected interface NestedIface { void go(); }
	private enum NestedEnum { A, B }
	@interface NestedAnno {}

	public Object local(final int k) {
		class Local implements NestedIface {
			int kk = k;
			@Override public void go() { secret += kk + k; }
		}
		Local l = new Local();
		l.go();
		return l;
	}

	public Runnable anon(final String msg, int n) {
		return new Runnable() {
			int calls;
			@Override public void run() { calls += n; System.out.println(msg + secret + calls); }
		};
	}

	public static Object anonStatic() {
		return new Object() { @Override public String toString() { return "anon" + staticSecret; } };
	}

	public int touch(StaticNested s, Inner i) { return s.x + i.v + NestedEnum.A.ordinal(); }
}
