package corp.base;

import java.util.EnumMap;

public class Enums {
	public enum Simple { A, B, C }

	public enum Planet {
		MERCURY(3.303e+23, 2.4397e6), EARTH(5.976e+24, 6.37814e6);
		private final double mass, radius;
		Planet(double mass, double radius) { this.mass = mass; this.radius = radius; }
		public double surfaceGravity() { return 6.67300E-11 * mass / (radius * radius); }
	}

	public enum Op {
		PLUS("+") { @Override int apply(int a, int b) { return a + b; } },
		TIMES("*") { @Override int apply(int a, int b) { return a * b; } };
		final String sym;
		Op(String sym) { this.sym = sym; }
		abstract int apply(int a, int b);
	}

	public static int use() {
		EnumMap<Simple, Integer> m = new EnumMap<>(Simple.class);
		for (Simple s : Simple.values()) m.put(s, s.ordinal());
		return m.get(Simple.valueOf("B")) + Op.PLUS.apply(1, 2) + Op.valueOf("TIMES").apply(3, 4);
	}
}
