package corp.base;

import java.util.ArrayList;
import java.util.HashMap;
import java.util.List;
import java.util.Map;

public class DebugInfo<T extends Number> {
	public <K> int scopes(List<T> in, Map<K, List<? extends T>> m, long wide, double wider) {
		int total = 0;
		{ int a = 1; total += a; }
		{ long b = 2; total += (int) b; }            // reuses a's slot (two slots)
		{ double c = 3.0; String d = "d"; total += (int) c + d.length(); }
		for (T t : in) { List<T> copy = new ArrayList<>(); copy.add(t); total += copy.size(); }
		for (Map.Entry<K, List<? extends T>> e : m.entrySet()) { K key = e.getKey(); total += key.hashCode(); }
		Map<String, T[]> arrs = new HashMap<>();
		T[] none = arrs.get("x");
		return total + (int) wide + (int) wider + (none == null ? 0 : none.length);
	}
	public static void empty() {}
	public static int noLocals() { return 1; }
}
