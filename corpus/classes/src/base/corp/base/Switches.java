package corp.base;

public class Switches {
	public enum Dir { NORTH, EAST, SOUTH, WEST }

	// the switch opcode lands at different offsets modulo 4 thanks to the leading statements
	public static int dense0(int x) { switch (x) { case 0: return 10; case 1: return 11; case 2: return 12; case 3: return 13; default: return -1; } }
	public static int dense1(int x) { x++; switch (x) { case 0: return 10; case 1: return 11; case 2: return 12; case 4: return 13; default: return -1; } }
	public static int dense2(int x) { x++; x++; switch (x) { case -1: return 10; case 0: return 11; case 1: return 12; default: return -1; } }
	public static int dense3(int x) { x++; x++; x++; switch (x) { case 5: return 10; case 6: return 11; case 7: return 12; default: return -1; } }
	public static int dense4(int x, int y) { y = x; switch (y) { case 5: return 10; case 6: return 11; case 7: return 12; default: return -1; } }
	public static int dense5(int x, int y) { y = x; x++; switch (y) { case 5: return 10; case 6: return 11; case 7: return 12; default: return -1; } }

	public static int sparse0(int x) { switch (x) { case -1000: return 1; case 0: return 2; case 1000: return 3; case 1000000: return 4; default: return 0; } }
	public static int sparse1(int x) { x++; switch (x) { case -1000: return 1; case 0: return 2; case 1000: return 3; default: return 0; } }
	public static int sparse2(int x) { x++; x++; switch (x) { case Integer.MIN_VALUE: return 1; case Integer.MAX_VALUE: return 3; default: return 0; } }
	public static int sparse3(int x) { x++; x++; x++; switch (x) { case -5: return 1; case 500: return 3; default: return 0; } }
	public static int sparse4(int x, int y) { y = x; switch (y) { case -5: return 1; case 500: return 3; default: return 0; } }
	public static int sparse5(int x, int y) { y = x; x++; switch (y) { case -5: return 1; case 500: return 3; default: return 0; } }
	public static int onlyDefault(int x) { switch (x) { default: return 5; } }

	public static int onString(String s) {
		switch (s) {
			case "alpha": return 1;
			case "beta": return 2;
			case "Aa": return 3;   // same hashCode as "BB"
			case "BB": return 4;
			case "": return 5;
			default: return 0;
		}
	}

	public static String onEnum(Dir d) {
		switch (d) {
			case NORTH: return "n";
			case SOUTH: return "s";
			case WEST: { String w = "w"; return w; }
			default: return "?";
		}
	}

	public static int fallthrough(int x) {
		int r = 0;
		switch (x) {
			case 1: r += 1;
			case 2: r += 2; break;
			case 3: case 4: r += 3;
			default: r += 100;
		}
		return r;
	}

	public static long onChar(char c, byte b, short s) {
		long r = 0;
		switch (c) { case 'a': r = 1; break; case 'b': r = 2; break; case '￿': r = 3; break; }
		switch (b) { case -128: r += 1; break; case 127: r += 2; break; }
		switch (s) { case -32768: r += 1; break; case 32767: r += 2; break; case 0: r += 3; break; }
		return r;
	}
}
