package corp.base;

public class Consts {
	public static final int I = 1234567; public static final short S = -12345; public static final char C = 'ሴ'; public static final byte B = -7;
	public static final boolean Z = true; public static final long J = 1234567890123L; public static final float F = 3.14159f; public static final double D = 1e300;
	public static final String STR = "consté\0😀"; public static final String EMPTY = "";
	public static final float FNAN = Float.NaN; public static final double DNEGZERO = -0.0; public static final float FMAX = Float.MAX_VALUE;
	public static final long JMIN = Long.MIN_VALUE; public static final int IMAX = Integer.MAX_VALUE; public static final double DMIN = Double.MIN_VALUE;
	public final int instanceConst = 99;          // ConstantValue on a non-static final field
	public static final Object NOT_CONST = null;

	public static double loads() {
		long l = 1234567890123L; double d = 3.14159; double e = 1e300; float f = Float.MAX_VALUE; float nan = Float.NaN; double nz = -0.0; int i = 100000; long two = 2L;
		return l + d + e + f + nan + nz + i + two + Double.NaN + Float.NEGATIVE_INFINITY + 0x7fffffffffffffffL;
	}

	public static Object classes() {
		return new Object[] { Consts.class, int[].class, String[][].class, int.class, void.class, java.util.Map.Entry.class };
	}
}
