package corp.base;

public class Params {
	public Params(final int a, String b) {}
	public static long sum(final long first, long... rest) { long s = first; for (long r : rest) s += r; return s; }
	public abstract static class Abs { abstract void noBody(int alpha, double beta); native int nat(String gamma); }
	public class Inner { public Inner(int x) {} }               // mandated outer-instance parameter
	public enum E { X(1); E(int v) {} }                        // synthetic name/ordinal parameters
	public Object capture(int cap1, String cap2) {
		return new Object() { int get() { return cap1 + cap2.length(); } };  // anonymous ctor with captured (synthetic) params
	}
	public interface Fn { int f(int onlyParam); }
	public Fn lambda(int outer) { return inner -> inner + outer; }
}
