package corp.base;

import java.lang.annotation.ElementType;
import java.lang.annotation.Retention;
import java.lang.annotation.RetentionPolicy;

/** every element kind, each with a default (AnnotationDefault of every kind) */
@Retention(RetentionPolicy.RUNTIME)
public @interface AllKinds {
	byte b() default -128;
	char c() default '\u0000';
	short s() default 32767;
	int i() default Integer.MAX_VALUE;
	long j() default Long.MIN_VALUE;
	float f() default Float.NaN;
	double d() default Double.MIN_VALUE;
	boolean z() default true;
	String str() default "défaut\0😀\uD800";
	Class<?> cls() default void.class;
	ElementType en() default ElementType.FIELD;
	Nested nested() default @Nested(name = "dflt", value = 3);
	byte[] bs() default {1, 2, -3};
	char[] cs() default {'a', '￿'};
	short[] ss() default {};
	int[] is() default {1, 2, 3};
	long[] js() default {1L << 40};
	float[] fs() default {-0.0f, 1.5f};
	double[] ds() default {Double.NEGATIVE_INFINITY};
	boolean[] zs() default {true, false};
	String[] strs() default {"", "x"};
	Class<?>[] clss() default {int[].class, String[][].class, java.util.Map.Entry.class};
	ElementType[] ens() default {ElementType.TYPE, ElementType.METHOD};
	Nested[] nesteds() default {@Nested(name = "a"), @Nested(name = "b", value = 2, deeper = @Deeper(tags = {"t"}))};

	@Retention(RetentionPolicy.RUNTIME)
	@interface Nested { String name(); int value() default 0; Deeper deeper() default @Deeper; }
	@Retention(RetentionPolicy.RUNTIME)
	@interface Deeper { String[] tags() default {}; }
}
