package corp.base;

import java.io.ByteArrayInputStream;
import java.io.IOException;
import java.io.InputStream;

public class TryCatch {
	private final Object lock = new Object();
	private int counter;

	public int simple(String s) {
		try { return Integer.parseInt(s); }
		catch (NumberFormatException e) { return -1; }
	}

	public int withFinally(String s) {
		try { counter++; return Integer.parseInt(s); }
		catch (NumberFormatException | NullPointerException e) { counter--; return -1; }
		finally { counter += 10; }
	}

	public int nested(int[] a, int i) {
		int r = 0;
		try {
			try { r = a[i]; }
			catch (ArrayIndexOutOfBoundsException e) { r = -1; throw new IllegalStateException(e); }
			finally { r++; }
		} catch (RuntimeException e) {
			try { r = r / i; } catch (ArithmeticException z) { r = 0; } finally { counter = r; }
		} finally {
			r += 2;
		}
		return r;
	}

	public int resources(byte[] data) throws IOException {
		try (InputStream in = new ByteArrayInputStream(data); InputStream in2 = new ByteArrayInputStream(data)) {
			return in.read() + in2.read();
		}
	}

	public void sync() {
		synchronized (lock) { counter++; }
		synchronized (this) {
			synchronized (lock) { counter--; }
		}
	}

	public synchronized int syncMethod() { return counter; }
	public static synchronized void staticSync() {}

	public void thrower(int x) throws Exception {
		if (x == 0) throw new Exception("zero");
		if (x < 0) throw new IllegalArgumentException("neg " + x);
	}

	public int loopWithTry(int n) {
		int s = 0;
		for (int i = 0; i < n; i++) {
			try { if (i % 3 == 0) continue; if (i > 100) break; s += i; }
			finally { s++; }
		}
		return s;
	}
}
