package corp.base;

import java.util.function.IntUnaryOperator;

public interface Iface extends Comparable<Iface> {
	int CONST = 12345;
	String NAME = "iface";
	int abstractOne(int x);
	default int twice(int x) { return abstractOne(abstractOne(x)); }
	default String describe() { return NAME + CONST; }
	static Iface of(IntUnaryOperator f) { return f::applyAsInt; }
	static int helper(int x) { return x + 1; }
	@Override default int compareTo(Iface o) { return abstractOne(0) - o.abstractOne(0); }

	interface Sub extends Iface {
		@Override default int twice(int x) { return Iface.super.twice(x) + Iface.helper(x); }   // invokespecial + invokestatic on InterfaceMethodref
	}

	class Impl implements Sub {
		@Override public int abstractOne(int x) { return x * 3; }
		@Override public String describe() { return Sub.super.describe() + "!"; }
		public int viaIface(Iface i) { return i.twice(2) + Iface.of(v -> v).abstractOne(1); }        // invokeinterface
	}

	@FunctionalInterface interface Fun<A, B> { B apply(A a); default <C> Fun<A, C> then(Fun<? super B, ? extends C> g) { return a -> g.apply(apply(a)); } }
}
