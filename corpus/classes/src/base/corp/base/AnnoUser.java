package corp.base;

import java.lang.annotation.ElementType;

@AllKinds
@Invisible("on class")
@Deprecated
public class AnnoUser {
	@AllKinds(b = 1, c = 'x', s = -2, i = 3, j = 4L, f = 5.5f, d = -0.0, z = false, str = "s", cls = String.class,
		en = ElementType.PARAMETER, nested = @AllKinds.Nested(name = "n", value = 9, deeper = @AllKinds.Deeper(tags = {"a", "b"})),
		bs = {}, cs = {'c'}, ss = {1, 2}, is = {}, js = {Long.MAX_VALUE}, fs = {Float.MIN_VALUE, Float.POSITIVE_INFINITY}, ds = {Double.NaN, 1e300},
		zs = {}, strs = {"\u0000", "😀"}, clss = {}, ens = {}, nesteds = {})
	@Invisible(value = "on field", nums = {1, 2, 3}, where = ElementType.FIELD, type = int.class)
	public int field;

	@Deprecated public static final String OLD = "old";

	@AllKinds(i = 1) @Invisible("ctor")
	public AnnoUser(@Invisible("p0") int a, String b, @AllKinds(str = "p2") @Invisible("p2") long c) {}

	@Invisible("method")
	public void onlySomeParams(int a, @AllKinds.Nested(name = "second") String b, double c) {}

	public void onlyInvisibleParams(@Invisible int a, @Invisible("x") int b) {}

	public static void noneAnnotated(int a, int b) {}

	@Deprecated
	public int local() {
		@Invisible("local") int x = 5;   // not recorded in the class file
		return x;
	}

	public class InnerWithAnnotatedCtor {
		public InnerWithAnnotatedCtor(@AllKinds(z = false) String s) {}
	}
}
