package corp.base;

import java.util.Comparator;
import java.util.concurrent.Callable;
import java.util.function.Supplier;

public class Bridges {
	public static abstract class Box<T extends Comparable<T>> implements Comparable<Box<T>> {
		protected T value;
		public abstract T get();
		public void set(T t) { value = t; }
		public <U extends T> T pick(U a, T b) { return a.compareTo(b) > 0 ? a : b; }
		@Override public int compareTo(Box<T> o) { return value.compareTo(o.value); }
	}

	public static class StringBox extends Box<String> {
		@Override public String get() { return value; }              // bridge: Comparable get()
		@Override public void set(String s) { value = s.trim(); }     // bridge: set(Comparable)
	}

	public static class Covariant implements Cloneable, Supplier<String>, Callable<Integer> {
		@Override public Covariant clone() { return new Covariant(); } // bridge: Object clone()
		@Override public String get() { return "x"; }                  // bridge: Object get()
		@Override public Integer call() { return 1; }                  // bridge: Object call()
	}

	public static class ByLength implements Comparator<String> {
		@Override public int compare(String a, String b) { return a.length() - b.length(); } // bridge compare(Object,Object)
	}

	public enum Op implements Supplier<Integer>, Comparator<Integer> {
		ONE { @Override public Integer get() { return 1; } },
		TWO { @Override public Integer get() { return 2; } };
		@Override public int compare(Integer a, Integer b) { return a - b; }
	}

	interface Shape<S extends Shape<S>> { S self(); }
	static class Circle implements Shape<Circle> { @Override public Circle self() { return this; } }

	// package-private class with public method inherited through public subclass → visibility bridge
	static class Hidden { public void visible() {} }
	public static class Exposed extends Hidden {}
}
