package corp.base;

import java.lang.annotation.ElementType;
import java.lang.annotation.Retention;
import java.lang.annotation.RetentionPolicy;

/** CLASS retention → RuntimeInvisible* attributes */
@Retention(RetentionPolicy.CLASS)
public @interface Invisible {
	String value() default "";
	int[] nums() default {};
	ElementType where() default ElementType.TYPE;
	Class<?> type() default Object.class;
}
