package corp.base;

import java.lang.annotation.ElementType;
import java.lang.annotation.Retention;
import java.lang.annotation.RetentionPolicy;
import java.lang.annotation.Target;

@Retention(RetentionPolicy.RUNTIME)
@Target(ElementType.PACKAGE)
public @interface PkgAnno { String who(); }
