package corp.base;

import java.io.ByteArrayInputStream;
import java.io.IOException;
import java.io.InputStream;
import java.io.Serializable;
import corp.base.TaDefs.A;
import corp.base.TaDefs.B;
import corp.base.TaDefs.I;
import java.util.ArrayList;
import java.util.List;
import java.util.Map;
import java.util.function.Function;
import java.util.function.Supplier;

public class TypeAnnos<@A T extends @B Object & @A Comparable<@B T>, @I U>
		extends @A ArrayList<@B T> implements @A Serializable, @I Cloneable {


	public static class Outer1 { public class Inner1 { public class Inner2 {} } }

	@A String plain;
	@A(1) String @B [] @I [] arrays;
	Map<@A String, @B(names = "v") List<@I ? extends @A Number>> generic;
	List<@A ? super @B Integer> lower;
	Outer1.@A Inner1.@B Inner2 nestedType;
	@A int @B [] prim;

	public @A String ret(@A TypeAnnos<T, U> this, @B String p0, int p1, @I List<@A String> p2) throws @A IOException, @B IllegalStateException { return p0; }

	public <@A X extends @B Number & @I Comparable<@A X>, @B Y> @I Y generic(X x, Y y) { return y; }

	public @A TypeAnnos() {}

	public Object body(Object o, byte[] data) throws Exception {
		@A String local = "l";
		@B List<@A String> list = new @A ArrayList<@B String>();
		for (@I int i = 0; i < 2; i++) { local += i; }
		if (o instanceof @A String) { local = (@B String) o; }
		Object inter = (@A Serializable & @B Comparable<@I String>) local;
		try (@A InputStream in = new @B ByteArrayInputStream(data)) { in.read(); }
		catch (@A IOException | @B RuntimeException e) { local = null; }
		Supplier<ArrayList<String>> ctor = @A ArrayList<@B String>::new;
		Function<String, String> mref = @A String::trim;
		Function<String, List<String>> gm = TypeAnnos::<@A String>single;
		Supplier<Gen> gc = Gen::<@B Integer>new;
		this.<@A String>gmethod("x");
		new <@B String> Gen("y");
		@A int @B [] @I [] arr = new @A int @B [2] @I [3];
		String[] sa = new @A String @B [] {"a"};
		return list;
	}

	static <Q> List<Q> single(Q q) { return null; }
	<Q> void gmethod(Q q) {}
	public static class Gen { public <Q> Gen() {} public <Q> Gen(Q q) {} }
}
