package corp.base;

import java.lang.annotation.ElementType;
import java.lang.annotation.Retention;
import java.lang.annotation.RetentionPolicy;
import java.lang.annotation.Target;

/** type-annotation types used by TypeAnnos */
public class TaDefs {
	@Retention(RetentionPolicy.RUNTIME) @Target({ElementType.TYPE_USE, ElementType.TYPE_PARAMETER}) public @interface A { int value() default 0; }
	@Retention(RetentionPolicy.RUNTIME) @Target({ElementType.TYPE_USE, ElementType.TYPE_PARAMETER}) public @interface B { String[] names() default {}; }
	@Retention(RetentionPolicy.CLASS) @Target({ElementType.TYPE_USE, ElementType.TYPE_PARAMETER}) public @interface I {}
}
