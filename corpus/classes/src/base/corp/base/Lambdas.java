package corp.base;

import java.io.Serializable;
import java.util.ArrayList;
import java.util.List;
import java.util.function.BiFunction;
import java.util.function.Function;
import java.util.function.IntBinaryOperator;
import java.util.function.Supplier;

public class Lambdas {
	interface SerFn extends Function<String, Integer>, Serializable {}

	private int base = 7;

	public Supplier<String> capture(String a, int b, long c, double d) {
		return () -> a + b + c + d + base;
	}

	public static IntBinaryOperator adder() { return (x, y) -> x + y; }

	public Function<String, Integer> refs() {
		Function<String, Integer> f = Integer::parseInt;      // static
		Function<String, String> g = String::trim;             // unbound instance
		Supplier<List<String>> h = ArrayList::new;             // constructor
		Function<Integer, int[]> arr = int[]::new;             // array constructor
		Supplier<String> bound = this::toString;               // bound instance
		BiFunction<String, String, Boolean> eq = String::equals;
		h.get().add(g.apply(" x "));
		arr.apply(3);
		bound.get();
		eq.apply("a", "b");
		return f;
	}

	public SerFn serializable() { return s -> s.length() + base; }

	public Runnable nested() {
		return () -> {
			Runnable inner = () -> System.out.println("inner " + base);
			inner.run();
		};
	}

	public String concat(String s, int i, char c, long l, float f, double d, boolean b, Object o) {
		return "s=" + s + ", i=" + i + " c=" + c + '\u0001' + l + f + d + b + o + "\u0002end";
	}

	@Override public String toString() { return "Lambdas" + base; }
}
