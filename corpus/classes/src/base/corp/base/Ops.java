package corp.base;

public strictfp class Ops {
	transient int ti; volatile long vl; protected static double sd; private float pf; final short fs = 3; byte by; char ch; boolean bo;
	long lf; double df; int[] ia = new int[4]; long[] la = new long[4]; double[] da = new double[2];
	static long sl; static double sdd;

	public native void nativeMethod();
	public static strictfp double strict(double a, double b) { return a * b / 3.0; }
	public static int varargs(int... xs) { return xs.length; }

	public static Object arrays() {
		boolean[] z = new boolean[1]; char[] c = new char[2]; float[] f = new float[3]; double[] d = new double[4];
		byte[] b = new byte[5]; short[] s = new short[6]; int[] i = new int[7]; long[] l = new long[8];
		String[] str = new String[2]; int[][] ii = new int[2][3]; Object[][][] ooo = new Object[1][2][3]; long[][] partial = new long[4][];
		z[0] = true; c[1] = 'c'; f[2] = 1f; d[3] = 2d; b[4] = 1; s[5] = 2; i[6] = 3; l[7] = 4L; str[0] = "s"; ii[1][2] = 5; ooo[0][1][2] = str; partial[0] = l;
		return new Object[] { z[0], c[1], f[2], d[3], b[4], s[5], i[6], l[7], str[0], ii[1][2], ooo[0][1][2], partial.length, str.length };
	}

	public static double arith(int i, long l, float f, double d) {
		i = i + 1 - 2 * 3 / (i | 1) % 5; i = -i; i = i << 2 >> 1 >>> 1 & 0xff | 0x100 ^ 0x0f; i = ~i;
		l = l + 1L - 2L * 3L / (l | 1L) % 5L; l = -l; l = l << 2 >> 1 >>> 1 & 0xffL | 0x100L ^ 0x0fL;
		f = f + 1f - 2f * 3f / f % 5f; f = -f;
		d = d + 1d - 2d * 3d / d % 5d; d = -d;
		return i + l + f + d;
	}

	public static long conv(int i, long l, float f, double d) {
		byte b = (byte) i; char c = (char) i; short s = (short) i; long il = i; float i_f = i; double id = i;
		int li = (int) l; float lf = l; double ld = l;
		int fi = (int) f; long fl = (long) f; double fd = f;
		int di = (int) d; long dl = (long) d; float dfl = (float) d;
		return b + c + s + il + (long) i_f + (long) id + li + (long) lf + (long) ld + fi + fl + (long) fd + di + dl + (long) dfl;
	}

	public static int compare(int i, int j, long l, float f, double d, Object a, Object b) {
		int r = 0;
		if (i == j) r++; if (i != j) r++; if (i < j) r++; if (i >= j) r++; if (i > j) r++; if (i <= j) r++;
		if (i == 0) r++; if (i != 0) r++; if (i < 0) r++; if (i >= 0) r++; if (i > 0) r++; if (i <= 0) r++;
		if (l > 5L) r++; if (l < 5L) r++;
		if (f > 1f) r++; if (f < 1f) r++; if (d > 1d) r++; if (d < 1d) r++;
		if (a == b) r++; if (a != b) r++; if (a == null) r++; if (a != null) r++;
		if (a instanceof String) r += ((String) a).length();
		if (b instanceof int[]) r += ((int[]) b).length;
		return r;
	}

	public long stackOps(int k) {
		ia[k] += 2;            // dup2
		la[k] += 3L;           // dup2, dup2_x2?
		long a = la[k]++;      // dup2_x2
		da[k] *= 2.0;
		long b = lf++;         // dup2_x1
		long c = ++lf;
		int d = ti++;          // dup_x1
		int e = ia[k]++;       // dup_x2
		long f = sl++;         // dup2
		double g = this.df++;
		String s = null;
		Object o = s = "x";    // dup
		conv(1, 2L, 3f, 4d);   // pop2
		arith(1, 2L, 3f, 4d);  // pop2
		varargs();             // pop
		return a + b + c + d + e + f + (long) g + o.hashCode();
	}

	public static int consts() {
		int s = -1 + 0 + 1 + 2 + 3 + 4 + 5;   // folded by javac
		int a = -1, b = 0, c = 1, d = 2, e = 3, f = 4, g = 5, h = 6, i = 127, j = 128, k = -128, l = -129, m = 32767, n = 32768, o = -32768, p = -32769;
		long la = 0L, lb = 1L, lc = 2L; float fa = 0f, fb = 1f, fc = 2f, fd = 3f; double da = 0d, db = 1d, dc = 2d;
		Object nul = null;
		return a + b + c + d + e + f + g + h + i + j + k + l + m + n + o + p + (int) (la + lb + lc) + (int) (fa + fb + fc + fd) + (int) (da + db + dc) + (nul == null ? s : 0);
	}

	public static float floats(float a, float b, float c, float d) { a = b * c; b = a; c = b; d = c; return a + b + c + d; }
	public static double doubles(double a, double b) { a = b; b = a * 2; return a + b; }
	public static double doubles2(int i, double a, double b) { a = b; b = a + i; return a + b; }
	public static long longs(long a, long b) { long c = (a * b) ^ a; a = c; b = a; return a + b + c; }
	public static long longs2(int i, long a, long b) { a = b; b = a + i; return a ^ b; }
}
