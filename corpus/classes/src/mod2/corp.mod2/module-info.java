module corp.mod2 {
	requires java.base;
	exports corp.mod2.a;
	opens corp.mod2.b to java.logging;
	opens corp.mod2.a;
}
