package corp.mod2.a; public class A {}
