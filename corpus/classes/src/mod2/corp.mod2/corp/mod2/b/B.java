package corp.mod2.b; public class B {}
