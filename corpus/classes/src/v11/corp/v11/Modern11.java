package corp.v11;

import java.util.List;
import java.util.function.BiFunction;

public class Modern11 {
	private int priv = 1;
	private static String sp = "sp";

	public interface WithPrivate {
		private int helper() { return 1; }
		private static int shelper() { return 2; }
		default int api() { return helper() + shelper(); }
	}

	public class Mate {
		private int mine = 2;
		int reach() { return priv + sp.length(); }          // nestmate access: no accessor methods
	}
	int reachBack(Mate m) { return m.mine; }

	public static String vars(List<String> in) {
		var sb = new StringBuilder();
		for (var s : in) { var t = s + "|" + sb.length(); sb.append(t); }
		BiFunction<Integer, Integer, Integer> f = (var a, var b) -> a + b;
		return sb.toString() + f.apply(1, 2);
	}

	public static String concatMany(String a, int b, long c, double d, Object e, char f, boolean g) {
		return a + b + "\u0001" + c + "\u0002lit" + d + e + f + g + a + b + c;   // constants with \1 \2 must be passed as bootstrap arguments
	}
}
