package corp.v17;

import java.lang.annotation.ElementType;
import java.lang.annotation.Retention;
import java.lang.annotation.RetentionPolicy;
import java.lang.annotation.Target;
import java.util.List;

public class Records {
	@Retention(RetentionPolicy.RUNTIME) @Target({ElementType.RECORD_COMPONENT, ElementType.FIELD, ElementType.METHOD, ElementType.PARAMETER}) public @interface Comp { String value() default ""; }
	@Retention(RetentionPolicy.RUNTIME) @Target(ElementType.TYPE_USE) public @interface Tu { int n() default 0; }
	@Retention(RetentionPolicy.CLASS) @Target({ElementType.RECORD_COMPONENT, ElementType.TYPE_USE}) public @interface Inv {}

	public record Empty() {}
	public record Point(int x, int y) {}
	public record Named(@Comp("the name") String name, @Inv long id, double weight, @Tu(n = 1) List<@Tu(n = 2) String> tags, int @Tu [] arr) {
		public Named { if (name == null) throw new NullPointerException(); }
		public Named(String name) { this(name, 0L, 0.0, List.of(), new int[0]); }
		public static final int CONST = 5;
		public String upper() { return name.toUpperCase(); }
	}
	public record Generic<T extends Comparable<T>, U>(T first, U second, List<? extends T> rest) implements Comparable<Generic<T, U>> {
		@Override public int compareTo(Generic<T, U> o) { return first.compareTo(o.first); }
		public record NestedRec(byte b, short s, char c, float f, boolean z, Object o) {}
	}
	public static Object local() { record LocalRec(int v) {} return new LocalRec(1); }
}
