package corp.v17;

public class Sealed {
	public sealed interface Shape permits Circle, Square, Other, Shape.Nested {
		double area();
		record Nested(double a) implements Shape { @Override public double area() { return a; } }
	}
	public record Circle(double r) implements Shape { @Override public double area() { return Math.PI * r * r; } }
	public static final class Square implements Shape { final double s; Square(double s) { this.s = s; } @Override public double area() { return s * s; } }
	public static non-sealed class Other implements Shape { @Override public double area() { return 0; } }

	public static sealed abstract class Expr permits Expr.Num, Expr.Add {
		public static final class Num extends Expr { int v; }
		public static final class Add extends Expr { Expr l, r; }
	}

	public static int eval(Expr e) {
		if (e instanceof Expr.Num n) return n.v;
		if (e instanceof Expr.Add a && a.l != null) return eval(a.l) + eval(a.r);
		return 0;
	}
}
