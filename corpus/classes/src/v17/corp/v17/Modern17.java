package corp.v17;

public class Modern17 {
	public enum Day { MON, TUE, WED, THU, FRI, SAT, SUN }

	public static int switchExpr(Day d) {
		return switch (d) {
			case MON, TUE -> 1;
			case WED -> { int x = d.ordinal(); yield x * 2; }
			case SAT, SUN -> 0;
			default -> -1;
		};
	}
	public static String switchStr(String s) {
		return switch (s) { case "a", "b" -> "ab"; case "c" -> "c"; default -> { yield s + "?"; } };
	}
	public static int oldStyleYield(int k) {
		int r = switch (k) { case 1: yield 10; case 2: case 3: yield 20; default: yield 0; };
		return r;
	}
	public static String text() {
		return """
			hello "text block"
			  second\tline \
			joined
			""";
	}
	public static String pattern(Object o) {
		if (o instanceof String s && !s.isEmpty()) return s;
		if (!(o instanceof Integer i)) return "?";
		return "int" + i;
	}
}
