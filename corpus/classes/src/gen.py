#!/usr/bin/env python3
"""Generates the three machine-written sources of the corpus (run once; output is vendored)."""
import os
d = os.path.join(os.path.dirname(os.path.abspath(__file__)), "base/corp/base")

# > 256 distinct constants: ldc_w for int and String constants, big lookupswitch / tableswitch
with open(os.path.join(d, "ManyConsts.java"), "w") as f:
    f.write("package corp.base;\n\npublic class ManyConsts {\n")
    f.write("\tpublic static int[] ints() { return new int[] { " + ", ".join(str(100000 + 7 * i) for i in range(300)) + " }; }\n")
    f.write("\tpublic static String[] strings() { return new String[] { " + ", ".join('"s%d"' % i for i in range(300)) + " }; }\n")
    f.write("\tpublic static long[] longs() { return new long[] { " + ", ".join("%dL" % (10**12 + i) for i in range(40)) + " }; }\n")
    f.write("\tpublic static float[] floats() { return new float[] { " + ", ".join("%d.25f" % (1000 + i) for i in range(40)) + " }; }\n")
    f.write("\tpublic static int bigTable(int x) {\n\t\tswitch (x) {\n")
    for i in range(300):
        f.write("\t\t\tcase %d: return %d;\n" % (i, 100000 + 7 * i))
    f.write("\t\t\tdefault: return -1;\n\t\t}\n\t}\n")
    f.write("\tpublic static int bigLookup(int x) {\n\t\tswitch (x) {\n")
    for i in range(200):
        f.write("\t\t\tcase %d: return %d;\n" % (i * 1000 - 50000, i))
    f.write("\t\t\tdefault: return -1;\n\t\t}\n\t}\n")
    f.write("\tpublic static int bigString(String s) {\n\t\tswitch (s) {\n")
    for i in range(60):
        f.write('\t\t\tcase "key%d": return %d;\n' % (i, i))
    f.write("\t\t\tdefault: return -1;\n\t\t}\n\t}\n}\n")

# > 255 locals: wide iload/istore/iinc, wide lload/dload/aload
with open(os.path.join(d, "ManyLocals.java"), "w") as f:
    f.write("package corp.base;\n\npublic class ManyLocals {\n\tpublic static long many(int seed, long wideSeed, double dseed, String sseed, float fseed) {\n")
    for i in range(270):
        f.write("\t\tint v%d = seed + %d;\n" % (i, i))
    f.write("\t\tlong lv = wideSeed + 1; double dv = dseed * 2; String sv = sseed + \"x\"; float fv = fseed + 1f; Object ov = sv;\n")
    f.write("\t\tv0 += 1000; v1 -= 1000; v2++; v260++; v261 += 200; v262 -= 200; v263 += 40000;\n")
    f.write("\t\tlv += v269; dv += lv; fv += 2f; sv = sv + ov;\n")
    f.write("\t\tlong total = lv + (long) dv + sv.length() + (long) fv;\n")
    for i in range(270):
        f.write("\t\ttotal += v%d;\n" % i)
    f.write("\t\treturn total;\n\t}\n}\n")

# a method body > 32 KiB with jumps across it
with open(os.path.join(d, "BigMethod.java"), "w") as f:
    f.write("package corp.base;\n\npublic class BigMethod {\n\tstatic int a, b, c;\n")
    f.write("\tpublic static int big(int x, boolean flag) {\n\t\tint r = x;\n")
    f.write("\t\tif (flag) {\n")
    for i in range(1600):
        f.write("\t\t\tr = r * 31 + a + %d; b = r ^ c;\n" % (1000 + i))
    f.write("\t\t} else {\n\t\t\tr = -r;\n\t\t}\n")
    f.write("\t\twhile (r > 100000) {\n")
    for i in range(1200):
        f.write("\t\t\tr = r - a - %d; c = r | b;\n" % (2000 + i))
    f.write("\t\t}\n\t\treturn r;\n\t}\n}\n")
