/** exercises every table of the Module attribute */
@Deprecated
open module corp.mod {
	requires transitive java.logging;
	requires static java.compiler;
	requires java.xml;
	exports corp.mod.api;
	exports corp.mod.internal to java.logging, java.xml;
	uses corp.mod.api.Service;
	provides corp.mod.api.Service with corp.mod.impl.Main, corp.mod.impl.Second;
}
