package corp.mod.impl;
public class Main implements corp.mod.api.Service {
	@Override public String name() { return "main"; }
	public static void main(String[] args) { System.out.println(new Main().name()); }
}
