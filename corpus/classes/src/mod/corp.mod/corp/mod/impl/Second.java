package corp.mod.impl;
public class Second implements corp.mod.api.Service { @Override public String name() { return "second"; } }
