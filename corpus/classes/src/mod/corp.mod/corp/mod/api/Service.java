package corp.mod.api;
public interface Service { String name(); }
