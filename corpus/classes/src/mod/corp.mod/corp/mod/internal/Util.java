package corp.mod.internal;
public final class Util { private Util() {} public static int one() { return 1; } }
