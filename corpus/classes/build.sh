#!/bin/sh
# Reproduces the compiled part of the corpus from src/ (javac 17).  Never run by a check: the
# .class files are vendored.  Run from /verif/corpus/classes.
set -e
cd "$(dirname "$0")"
python3 src/gen.py
J="javac -encoding UTF-8 -parameters"
rm -rf r8 r11 r17 r17nog
mkdir -p r8 r11 r17 r17nog
$J -g --release 8  -d r8  src/base/corp/base/*.java
$J -g --release 11 -d r11 src/base/corp/base/*.java src/v11/corp/v11/*.java
$J -g --release 17 -d r17 src/base/corp/base/*.java src/v11/corp/v11/*.java src/v17/corp/v17/*.java
# no debug tables
$J -g:none --release 17 -d r17nog src/base/corp/base/TryCatch.java src/base/corp/base/Switches.java src/base/corp/base/Lambdas.java src/base/corp/base/DebugInfo.java src/v17/corp/v17/Records.java
# the two big generated classes are kept once per flavour only
rm -f r11/corp/base/BigMethod.class r11/corp/base/ManyLocals.class r11/corp/base/ManyConsts.class
# modules
$J -g --release 11 -d r11/mod  --module-source-path src/mod  -m corp.mod
$J -g --release 17 --module-version 1.2.3 -d r17/mod  --module-source-path src/mod  -m corp.mod
$J -g --release 17 -d r17/mod2 --module-source-path src/mod2 -m corp.mod2
# the jar tool adds ModuleMainClass / ModulePackages (and a ModuleTarget-free module-info)
rm -rf /tmp/fbh_modjar && mkdir -p /tmp/fbh_modjar
jar --create --file /tmp/fbh_modjar/m.jar --main-class corp.mod.impl.Main --module-version 4.5.6 -C r17/mod/corp.mod .
mkdir -p r17/modjar && (cd r17/modjar && unzip -o -q /tmp/fbh_modjar/m.jar module-info.class)
