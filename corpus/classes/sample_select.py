#!/usr/bin/env python3
"""Selects the third-party sample of the corpus (run once; the output under sample/ is vendored).
Scans every jar on the image, reads of each class: size, major version and the set of Utf8
constants that are attribute names / markers, and greedily picks small classes that add
(jar, major version, attribute name, marker) combinations not yet covered."""
import glob, os, struct, sys, zipfile, collections, io

ATTRS = ["ConstantValue","Code","StackMapTable","Exceptions","InnerClasses","EnclosingMethod","Synthetic","Signature","SourceFile",
 "SourceDebugExtension","LineNumberTable","LocalVariableTable","LocalVariableTypeTable","Deprecated","RuntimeVisibleAnnotations",
 "RuntimeInvisibleAnnotations","RuntimeVisibleParameterAnnotations","RuntimeInvisibleParameterAnnotations","RuntimeVisibleTypeAnnotations",
 "RuntimeInvisibleTypeAnnotations","AnnotationDefault","BootstrapMethods","MethodParameters","Module","ModulePackages","ModuleMainClass",
 "NestHost","NestMembers","Record","PermittedSubclasses","StackMap","ScalaSig","Scala","ScalaInlineInfo","ModuleTarget","ModuleHashes",
 "ModuleResolution","org.aspectj.weaver.WeaverVersion","org.aspectj.weaver.WeaverState","Lkotlin/Metadata;","Lscala/reflect/ScalaSignature;",
 "Lgroovy/transform/Generated;", "CompilationID", "SourceID"]
ATTRSET = set(a.encode() for a in ATTRS)

def scan(data):
    if len(data) < 10 or data[:4] != b"\xca\xfe\xba\xbe": return None
    major = struct.unpack(">H", data[6:8])[0]
    n = struct.unpack(">H", data[8:10])[0]
    p = 10; i = 1; marks = set(); tags = set()
    try:
        while i < n:
            t = data[p]; tags.add(t)
            if t == 1:
                l = struct.unpack(">H", data[p+1:p+3])[0]
                s = data[p+3:p+3+l]
                if s in ATTRSET: marks.add(s.decode())
                p += 3 + l
            elif t in (3,4,9,10,11,12,17,18): p += 5
            elif t in (5,6): p += 9; i += 1
            elif t in (7,8,16,19,20): p += 3
            elif t == 15: p += 4
            else: return None
            i += 1
    except Exception:
        return None
    for t in tags:
        if t in (15,16,17,18,19,20): marks.add("tag%d" % t)
    # crude opcode presence: look for rare opcodes only inside Code is too costly; use javap later
    return major, marks

def main():
    jars = {}
    for pat in ["/usr/share/java/*.jar", "/usr/share/maven-repo/**/*.jar", "/usr/lib/jvm/**/*.jar", "/root/.m2/**/*.jar", "/root/.gradle/**/*.jar", "/usr/lib/jvm/java-17-openjdk-amd64/jmods/*.jmod"]:
        for j in glob.glob(pat, recursive=True):
            jars[os.path.realpath(j)] = True
    cands = []
    for j in sorted(jars):
        try: z = zipfile.ZipFile(j)
        except Exception: continue
        jmod = j.endswith(".jmod")
        jn = os.path.basename(j)[:-4] if not jmod else "jdk17-" + os.path.basename(j)[:-5]
        for k, zi in enumerate(z.infolist()):
            if not zi.filename.endswith(".class") or zi.file_size > 9000 or zi.file_size < 120: continue
            if jmod and not (zi.filename.startswith("classes/") and (k % 7 == 0 or zi.filename.endswith("-info.class"))): continue
            if zi.filename.startswith("META-INF/versions/"): pass
            data = z.read(zi)
            r = scan(data)
            if r is None: continue
            cands.append((jn, zi.filename, zi.file_size, r[0], frozenset(r[1]), j))
    print("candidates", len(cands), "jars", len(jars), file=sys.stderr)
    covered = collections.Counter()
    perjar = collections.Counter()
    chosen = []
    def feats(c):
        jn, fn, size, major, marks, _ = c
        f = [("major", major), ("jar", jn)] + [("m", m) for m in marks] + [("mm", m, major) for m in marks]
        if fn.endswith("module-info.class"): f.append(("kind", "module-info"))
        if fn.endswith("package-info.class"): f.append(("kind", "package-info"))
        return f
    import heapq
    remaining = cands[:]
    total = 0
    while len(chosen) < 215 and remaining and total < 1_000_000:
        best = None; bests = -1e18
        for c in remaining:
            s = sum(1.0 / (1 + covered[f]) ** 2 for f in feats(c)) - c[2] / 80000.0 - 0.5 * perjar[c[0]]
            if s > bests: bests, best = s, c
        remaining.remove(best)
        chosen.append(best); total += best[2]; perjar[best[0]] += 1
        for f in feats(best): covered[f] += 1
    # second pass: medium-sized classes with real code, richest attribute sets first, at most one more per jar
    extra = sorted((c for c in remaining if 3000 <= c[2] <= 9000 and "Code" in c[4]), key=lambda c: (-len(c[4]), c[2]))
    seen = set()
    for c in extra:
        if len(seen) >= 45: break
        if c[0] in seen: continue
        seen.add(c[0]); chosen.append(c); total += c[2]
    out = os.path.join(os.path.dirname(os.path.abspath(__file__)), "sample")
    lines = []
    for jn, fn, size, major, marks, j in sorted(chosen):
        dst = os.path.join(out, jn, fn[8:] if fn.startswith("classes/") else fn)
        os.makedirs(os.path.dirname(dst), exist_ok=True)
        with zipfile.ZipFile(j) as z, open(dst, "wb") as f: f.write(z.read(fn))
        lines.append("%s/%s\tjar=%s\tsize=%d\tmajor=%d\t%s" % (jn, fn, j, size, major, ",".join(sorted(marks))))
    with open(os.path.join(out, "INDEX.txt"), "w") as f: f.write("\n".join(lines) + "\n")
    print(len(chosen), total, file=sys.stderr)

main()
