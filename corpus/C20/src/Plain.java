public class Plain implements Runnable {
	public static final int K = 42;
	public static final String S = "hi";
	private int x;
	public Plain(int x) { this.x = x; }
	public void run() { x++; }
	public int get() throws java.io.IOException { if (x < 0) throw new java.io.IOException(); return x; }
}
