public class Nest {
	private int secret;
	class Inner { int peek() { return secret; } }
	static class SInner { }
	Object anon() { return new Object() { public String toString() { return "a"; } }; }
}
