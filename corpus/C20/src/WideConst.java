public class WideConst {
	public static final long L = 1234567890123L;
	public static final double D = 2.5;
	public long twice(long a) { return a * 2L + L; }
}
