@Anno(i = 5, arr = {7})
@Deprecated
public class UseAnno {
	@Anno(s = "f") public int field;
	@Deprecated public void m(@Anno int p, int q) { }
	public <T extends Comparable<T>> T gen(T t) { return t; }
}
