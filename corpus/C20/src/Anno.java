import java.lang.annotation.*;
@Retention(RetentionPolicy.RUNTIME)
@interface Anno {
	int i() default 3;
	String s() default "x";
	Class<?> c() default Object.class;
	RetentionPolicy e() default RetentionPolicy.CLASS;
	int[] arr() default {1, 2};
	Deprecated nested() default @Deprecated;
}
