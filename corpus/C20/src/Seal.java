public sealed interface Seal permits Seal.A, Seal.B {
	final class A implements Seal { }
	final class B implements Seal { }
}
