public class Flow {
	public int f(int a, Object o) {
		int s = 0;
		for (int i = 0; i < a; i++) { if (o instanceof String) s += i; else s -= i; }
		try { s /= a; } catch (ArithmeticException e) { s = -1; } finally { s++; }
		switch (a) { case 1: s = 3; break; case 2: s = 4; break; default: s = 5; }
		return s;
	}
}
