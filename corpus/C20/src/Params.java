public abstract class Params {
	public abstract int f(int alpha, final String beta);
	public static void g(int gamma) {}
}
