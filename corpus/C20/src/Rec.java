public record Rec(int a, String b) { }
