import java.util.function.IntSupplier;
public class Lam {
	public IntSupplier mk(int a) { return () -> a + 1; }
	public String cat(String s, int i) { return s + i; }
}
