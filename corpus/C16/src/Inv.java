import java.lang.annotation.*;
@Retention(RetentionPolicy.CLASS)
@Target({ElementType.TYPE, ElementType.FIELD, ElementType.METHOD, ElementType.TYPE_USE, ElementType.PARAMETER})
public @interface Inv { String[] value() default {}; }
