module c16.mod { requires java.base; requires transitive java.logging; exports c16p; opens c16p to java.logging; uses java.lang.Runnable; provides java.lang.Runnable with c16p.R; }
