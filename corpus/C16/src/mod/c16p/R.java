package c16p; public class R implements Runnable { public void run() {} }
