import java.util.*;
import java.util.function.*;
@Anno(b = 2, c = 'x', d = 1e300, f = -0f, i = -1, j = Long.MIN_VALUE, s = -3, z = false, str = "hé😀", e = java.lang.annotation.ElementType.METHOD, cl = int[].class, in = @Anno.Inner(v = {9}), arr = {}, ins = {})
@Inv({"a", "b"})
@Deprecated
public class Big<T extends Comparable<T> & java.io.Serializable> extends ArrayList<@Anno T> implements Runnable, Supplier<@Inv String> {
	public static final int CI = 42; public static final long CJ = 1L << 40; public static final float CF = 1.25f;
	public static final double CD = Math.PI; public static final String CS = "const";
	@Anno @Inv @Deprecated protected volatile transient Map<String, ? extends List<@Anno ? super T>> field;
	private int counter;
	enum E { A, B, C }
	class In { int x; class Deep { int y; } }
	static class SIn {}
	interface Itf { default int f() { return 1; } }
	public Big() { super(); }
	@Override public void run() {
		Runnable r = () -> counter++;
		r.run();
		Function<String, Integer> f = Integer::parseInt;
		String s = "a" + counter + f.apply("1") + CJ;
		Object o = new Object() { public String toString() { return s; } };
		class Local { int z = 3; }
		System.out.println(o + " " + new Local().z);
	}
	@Override public @Inv String get() { return null; }
	@Anno(i = 5) public <@Anno U extends Number> int sw(@Anno int a, @Inv final String b, U u) throws @Anno Exception, RuntimeException {
		int res = 0;
		switch (a) { case 0: res = 1; break; case 1: res = 2; break; case 2: res = 3; break; case 5: res = 9; break; default: res = -1; }
		switch (a) { case -100: res += 1; break; case 1000: res += 2; break; case 100000: res += 3; break; default: }
		switch (b) { case "x": res++; break; case "yy": res--; break; default: }
		switch (E.values()[a & 1]) { case A: res += 10; break; case B: res += 20; break; default: }
		try { res /= a; } catch (ArithmeticException | NullPointerException ex) { res = 0; } finally { counter++; }
		for (@Anno int i = 0; i < 10; i++) { long l = i * 2L; double d = l; res += (int) d; if (i == 5) continue; }
		Object x = (@Anno Object) b; if (x instanceof @Anno String str2) res += str2.length();
		List<@Anno String> li = new @Anno ArrayList<@Inv String>(); li.add(b);
		synchronized (this) { res++; }
		int[][] mm = new int[3][4]; Object[] oo = new String[2]; mm[1][2] = oo.length;
		try (java.io.StringReader sr = new java.io.StringReader(b)) { res += sr.read(); } catch (java.io.IOException e) { throw new RuntimeException(e); }
		return res > 100000 ? res : res + u.intValue();
	}
	static long wide(long a, double b) {
		long l0=a,l1=a,l2=a,l3=a,l4=a,l5=a,l6=a,l7=a,l8=a,l9=a,l10=a,l11=a,l12=a,l13=a,l14=a,l15=a,l16=a,l17=a,l18=a,l19=a,l20=a,l21=a,l22=a,l23=a,l24=a,l25=a,l26=a,l27=a,l28=a,l29=a,l30=a,l31=a,l32=a,l33=a,l34=a,l35=a,l36=a,l37=a,l38=a,l39=a,l40=a,l41=a,l42=a,l43=a,l44=a,l45=a,l46=a,l47=a,l48=a,l49=a,l50=a,l51=a,l52=a,l53=a,l54=a,l55=a,l56=a,l57=a,l58=a,l59=a,l60=a,l61=a,l62=a,l63=a,l64=a,l65=a,l66=a,l67=a,l68=a,l69=a,l70=a,l71=a,l72=a,l73=a,l74=a,l75=a,l76=a,l77=a,l78=a,l79=a,l80=a,l81=a,l82=a,l83=a,l84=a,l85=a,l86=a,l87=a,l88=a,l89=a,l90=a,l91=a,l92=a,l93=a,l94=a,l95=a,l96=a,l97=a,l98=a,l99=a,l100=a,l101=a,l102=a,l103=a,l104=a,l105=a,l106=a,l107=a,l108=a,l109=a,l110=a,l111=a,l112=a,l113=a,l114=a,l115=a,l116=a,l117=a,l118=a,l119=a,l120=a,l121=a,l122=a,l123=a,l124=a,l125=a,l126=a,l127=a,l128=a,l129=a;
		int k = 0; k += 1000; l129 += k; float ff = (float) b; ff = -ff;
		return l0 + l129 + (long) ff + (a > 3 ? 1 : (b < 2 ? 2 : 3));
	}
	native void nat(int x);
	@SafeVarargs static <X> void var(X... xs) {}
}
