public record Rec<T>(@Anno int a, @Inv T b, String... c) implements Seal {
	public Rec { if (a < 0) throw new IllegalArgumentException(); }
}
