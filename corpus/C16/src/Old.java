public class Old { int f(int a, String s) { String r = "x" + a + s; Runnable q = () -> System.out.println(r); q.run(); try { return a / 2; } finally { a++; } } }
