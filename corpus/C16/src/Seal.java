public sealed interface Seal permits Rec, Seal.Other { final class Other implements Seal {} }
