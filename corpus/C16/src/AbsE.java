public enum AbsE { X { int f() { return 1; } }, Y { int f() { return 2; } }; abstract int f();
	static int g(Object o) { return switch (o) { case String s -> s.length(); case Integer i -> i; default -> 0; }; } }
