import java.lang.annotation.*;
@Retention(RetentionPolicy.RUNTIME)
@Target({ElementType.TYPE, ElementType.FIELD, ElementType.METHOD, ElementType.PARAMETER, ElementType.TYPE_USE, ElementType.TYPE_PARAMETER, ElementType.LOCAL_VARIABLE, ElementType.RECORD_COMPONENT})
public @interface Anno {
	byte b() default 1; char c() default 'c'; double d() default 2.5; float f() default 1.5f; int i() default 7;
	long j() default 9L; short s() default 3; boolean z() default true; String str() default "s";
	ElementType e() default ElementType.FIELD; Class<?> cl() default Object.class;
	Inner in() default @Inner(v = {1, 2});
	int[] arr() default {1, 2, 3};
	Inner[] ins() default {@Inner(v = {}), @Inner(v = {4})};
	@Retention(RetentionPolicy.RUNTIME) @interface Inner { int[] v(); }
}
