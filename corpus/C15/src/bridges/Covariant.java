package bridges;
// covariant return types: Dog.self()LAnimal; is a bridge to Dog.self()LDog;
class Animal { Animal self() { return this; } Object tag() { return "animal"; } }
class Dog extends Animal { @Override Dog self() { return this; } @Override String tag() { return "dog"; } }
class Puppy extends Dog { @Override Puppy self() { return this; } }
