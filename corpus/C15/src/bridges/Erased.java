package bridges;
// generic parameters erased to Object and to a bound
class Box<T> { T value; void put(T t) { value = t; } T get() { return value; } }
class IntBox extends Box<Integer> { @Override void put(Integer i) { value = i; } @Override Integer get() { return value; } }
class NumBox<T extends Number> { T value; void put(T t) { value = t; } T get() { return value; } }
class IntNumBox extends NumBox<Integer> { @Override void put(Integer i) { value = i; } @Override Integer get() { return value; } }
class Pair<A, B extends Comparable<B>> { void both(A a, B b, int n) {} }
class StrIntPair extends Pair<String, Integer> { @Override void both(String a, Integer b, int n) {} }
