package bridges;
import java.util.Comparator;
// bridges that implement generic interface methods
interface Fn<A, B> { B apply(A a); }
interface Source<T> { T next(); default T peek() { return next(); } }
class Name implements Comparable<Name> { String s = ""; public int compareTo(Name o) { return s.compareTo(o.s); } }
class Len implements Fn<String, Integer> { public Integer apply(String s) { return s.length(); } }
class ByName implements Comparator<Name> { public int compare(Name a, Name b) { return a.compareTo(b); } }
abstract class Counter implements Source<Integer>, Fn<Integer, Integer> { int n; public Integer next() { return n++; } public Integer apply(Integer k) { return k + n; } }
interface IntSource extends Source<Integer> { Integer next(); }
