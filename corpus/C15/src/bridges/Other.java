package bridges;
import java.util.function.Supplier;
// synthetic methods that are not bridges: lambda bodies, enum helpers, switch maps; and a
// visibility bridge whose delegate lives in another class (invokespecial Hidden.hello)
class Hidden { public void hello() {} public int twice(int x) { return 2 * x; } }
public class Other extends Hidden {
	enum Color { RED, GREEN }
	private int secret = 7;
	Supplier<Integer> sup() { return () -> secret + 1; }
	Runnable run(String s) { return () -> System.out.println(s.length() + secret); }
	int sw(Color c) { switch (c) { case RED: return 1; default: return 2; } }
	class Inner { int peek() { return secret; } }
	static int[] copy(int[] a) { return a.clone(); }
}
